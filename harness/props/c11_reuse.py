"""C11 — re-use oracle: a product object holds the CONTRACT, not the market.

"The analytical value equals the discounted expectation of the payoff" is a statement about the market data passed to
`value(...)`, whatever the object priced before.  For every C11 product class: build ONE object, value it under market A,
then under market B that differs from A in exactly one of {spot, discount curve, dividend/foreign curve, volatility,
valuation date} (each in turn, dividend-only included), then under A again, and compare every later answer bit-for-bit with
a freshly constructed identical object valued once under that market.  Same for the bump Greeks of the classes that have
them (Greeks first then a value; a value first then a Greek).  Market objects (curves, models) are built anew for every
call, so the only carrier of history is the product object itself.  Exceptions are outcomes too (type compared).

Any difference on the unchanged tree is a history-dependence finding (narrow classifier + witness); tolerances are not
widened: comparison is exact (IEEE bits), except where `REL` below names a class with a documented non-deterministic
reduction (none at present)."""
import math
import struct

REL = {}        # class name -> relative tolerance (empty: everything is compared bit-for-bit)


def _bits(x):
    return struct.unpack('<Q', struct.pack('<d', float(x)))[0]


def canon(x):
    """A hashable, exactly comparable image of a returned value."""
    import numpy as np
    if isinstance(x, dict):
        return ('dict',) + tuple((str(k), canon(v)) for k, v in sorted(x.items(), key=lambda kv: str(kv[0])))
    if isinstance(x, (list, tuple)):
        return ('seq',) + tuple(canon(v) for v in x)
    if isinstance(x, np.ndarray):
        return ('arr',) + tuple(_bits(v) for v in x.ravel())
    if isinstance(x, (float, int, np.floating, np.integer)):
        return ('f', _bits(x))
    return ('repr', repr(x))


def show(c):
    if isinstance(c, tuple) and c and c[0] == 'f':
        return struct.unpack('<d', struct.pack('<Q', c[1]))[0]
    if isinstance(c, tuple) and c and c[0] in ('arr',):
        return [struct.unpack('<d', struct.pack('<Q', b))[0] for b in c[1:]]
    if isinstance(c, tuple) and c and c[0] in ('dict', 'seq'):
        return [(k, show(v)) if c[0] == 'dict' else show((k, v)) for k, v in (c[1:] if c[0] == 'dict' else ())] or str(c)[:200]
    return c


def same(cls_name, a, b):
    if a == b:
        return True
    tol = REL.get(cls_name)
    if tol and a[0] == 'f' and b[0] == 'f':
        x, y = show(a), show(b)
        return (math.isnan(x) and math.isnan(y)) or abs(x - y) <= tol * max(abs(x), abs(y))
    if a[0] == 'f' and b[0] == 'f':
        x, y = show(a), show(b)
        return math.isnan(x) and math.isnan(y)
    return False


def run(ctx, env):
    import numpy as np
    Date, DayCountTypes, OptionTypes, BlackScholes = env['Date'], env['DayCountTypes'], env['OptionTypes'], env['BlackScholes']
    FrequencyTypes, DiscountCurveFlat = env['FrequencyTypes'], env['DiscountCurveFlat']
    EquityBarrierTypes, TouchOptionTypes = env['EquityBarrierTypes'], env['TouchOptionTypes']
    from financepy.utils.error import FinError
    from financepy.products.equity.equity_barrier_option import EquityBarrierOption
    from financepy.products.equity.equity_one_touch_option import EquityOneTouchOption
    from financepy.products.equity.equity_digital_option import EquityDigitalOption, FinDigitalOptionTypes
    from financepy.products.equity.equity_fixed_lookback_option import EquityFixedLookbackOption
    from financepy.products.equity.equity_float_lookback_option import EquityFloatLookbackOption
    from financepy.products.equity.equity_compound_option import EquityCompoundOption
    from financepy.products.equity.equity_chooser_option import EquityChooserOption
    from financepy.products.equity.equity_rainbow_option import EquityRainbowOption, EquityRainbowOptionTypes
    from financepy.products.equity.equity_cliquet_option import EquityCliquetOption
    from financepy.products.equity.equity_asian_option import EquityAsianOption, AsianOptionValuationMethods
    from financepy.products.equity.equity_basket_option import EquityBasketOption
    from financepy.products.equity.equity_variance_swap import EquityVarianceSwap
    from financepy.market.volatility.equity_vol_curve import EquityVolCurve
    from financepy.products.fx.fx_barrier_option import FXBarrierOption, FinFXBarrierTypes
    from financepy.products.fx.fx_one_touch_option import FXOneTouchOption
    from financepy.products.fx.fx_fixed_lookback_option import FXFixedLookbackOption
    from financepy.products.fx.fx_float_lookback_option import FXFloatLookbackOption
    from financepy.products.fx.fx_rainbow_option import FXRainbowOption, FXRainbowOptionTypes
    from financepy.products.fx.fx_double_digital_option import FXDoubleDigitalOption
    from financepy.products.fx.fx_digital_option import FXDigitalOption
    from financepy.products.fx.fx_variance_swap import FinFXVarianceSwap
    CALL, PUT = OptionTypes.EUROPEAN_CALL, OptionTypes.EUROPEAN_PUT
    quick = ctx.quick()
    rng = ctx.rng('reuse')

    def flat(vd, rate):
        return DiscountCurveFlat(vd, rate, FrequencyTypes.CONTINUOUS, DayCountTypes.ACT_365F)

    # ------------------------------------------------------------------ the contracts.  Each spec:
    #   name, factory(base) -> object, methods {label: f(obj, m)} ; m = market dict (vd, s, r, q, vol); fx=True scales spot
    # `base` fixes the contract terms from the base market (expiry, strikes, barriers relative to the base spot).
    def eq_call(meth):
        return lambda o, m: getattr(o, meth)(m['vd'], m['s'], flat(m['vd'], m['r']), flat(m['vd'], m['q']), BlackScholes(m['vol']))

    def greeks():
        return {g: eq_call(g) for g in ('delta', 'gamma', 'vega', 'theta', 'rho')}

    def with_greeks(cls):
        d = {'value': eq_call('value')}
        if all(hasattr(cls, g) for g in ('delta', 'vega')):
            d.update(greeks())
        return d

    def volarg(o, m, mm):
        return o.value(m['vd'], m['s'], flat(m['vd'], m['r']), flat(m['vd'], m['q']), m['vol'], mm)

    specs = []
    for ty in EquityBarrierTypes:
        up = ty.name.startswith('UP')
        specs.append((f'EquityBarrierOption[{ty.name}]', EquityBarrierOption,
                      (lambda b, ty=ty, up=up: EquityBarrierOption(b['ed'], b['s'] * 1.02, ty, b['s'] * (1.3 if up else 0.75), 52, 10.0)),
                      with_greeks(EquityBarrierOption), False))
    for ty in FinFXBarrierTypes:
        up = ty.name.startswith('UP')
        specs.append((f'FXBarrierOption[{ty.name}]', FXBarrierOption,
                      (lambda b, ty=ty, up=up: FXBarrierOption(b['ed'], b['s'] * 1.02, 'EURUSD', ty, b['s'] * (1.3 if up else 0.75), 52, 1.0, 'EUR')),
                      with_greeks(FXBarrierOption), True))
    for ty in TouchOptionTypes:
        up = ty.name.startswith('UP')
        specs.append((f'EquityOneTouchOption[{ty.name}]', EquityOneTouchOption,
                      (lambda b, ty=ty, up=up: EquityOneTouchOption(b['ed'], ty, b['s'] * (1.3 if up else 0.75), 2.0)),
                      with_greeks(EquityOneTouchOption), False))
        specs.append((f'FXOneTouchOption[{ty.name}]', FXOneTouchOption,
                      (lambda b, ty=ty, up=up: FXOneTouchOption(b['ed'], ty, b['s'] * (1.3 if up else 0.75), 2.0)),
                      with_greeks(FXOneTouchOption), True))
    for dty in FinDigitalOptionTypes:
        for cp in (CALL, PUT):
            specs.append((f'EquityDigitalOption[{dty.name},{cp.name}]', EquityDigitalOption,
                          (lambda b, dty=dty, cp=cp: EquityDigitalOption(b['ed'], b['s'] * 1.03, cp, dty)),
                          with_greeks(EquityDigitalOption), False))
    for cp in (CALL, PUT):
        fix_mm = 1.35 if cp == CALL else 0.7
        flt_mm = 0.7 if cp == CALL else 1.35
        for cls, fx in ((EquityFixedLookbackOption, False), (FXFixedLookbackOption, True)):
            specs.append((f'{cls.__name__}[{cp.name}]', cls, (lambda b, cls=cls, cp=cp: cls(b['ed'], cp, b['s'] * 1.01)),
                          {'value': (lambda o, m, f=fix_mm: volarg(o, m, m['s0'] * f))}, fx))
        for cls, fx in ((EquityFloatLookbackOption, False), (FXFloatLookbackOption, True)):
            specs.append((f'{cls.__name__}[{cp.name}]', cls, (lambda b, cls=cls, cp=cp: cls(b['ed'], cp)),
                          {'value': (lambda o, m, f=flt_mm: volarg(o, m, m['s0'] * f))}, fx))
    for ccp in (CALL, PUT):
        for ucp in (CALL, PUT):
            specs.append((f'EquityCompoundOption[{ccp.name} on {ucp.name}]', EquityCompoundOption,
                          (lambda b, ccp=ccp, ucp=ucp: EquityCompoundOption(b['ed1'], ccp, b['s'] * 0.08, b['ed'], ucp, b['s'])),
                          with_greeks(EquityCompoundOption), False))
    specs.append(('EquityChooserOption', EquityChooserOption,
                  (lambda b: EquityChooserOption(b['ed1'], b['ed'], b['ed'].add_days(45), b['s'] * 1.02, b['s'] * 0.97)),
                  with_greeks(EquityChooserOption), False))
    for cp in (CALL, PUT):
        specs.append((f'EquityCliquetOption[{cp.name}]', EquityCliquetOption,
                      (lambda b, cp=cp: EquityCliquetOption(b['vd0'], b['ed'], cp, FrequencyTypes.QUARTERLY)),
                      with_greeks(EquityCliquetOption), False))
        for meth in AsianOptionValuationMethods:
            specs.append((f'EquityAsianOption[{cp.name},{meth.name}]', EquityAsianOption,
                          (lambda b, cp=cp: EquityAsianOption(b['ed1'], b['ed'], b['s'] * 1.01, cp, 60)),
                          {'value': (lambda o, m, meth=meth: o.value(m['vd'], m['s'], flat(m['vd'], m['r']), flat(m['vd'], m['q']),
                                                                     BlackScholes(m['vol']), meth))}, False))

    def rainbow_val(o, m):
        return o.value(m['vd'], np.array([m['s'], m['s0'] * 0.96]), flat(m['vd'], m['r']), [flat(m['vd'], m['q']), flat(m['vd'], 0.015)],
                       np.array([m['vol'], 0.27]), np.array([[1.0, 0.35], [0.35, 1.0]]))

    def basket_val(o, m):
        return o.value(m['vd'], np.array([m['s'], m['s0'] * 0.96, m['s0'] * 1.1]), flat(m['vd'], m['r']),
                       [flat(m['vd'], m['q']), flat(m['vd'], 0.015), flat(m['vd'], 0.0)], np.array([m['vol'], 0.27, 0.2]),
                       np.array([[1.0, 0.35, 0.2], [0.35, 1.0, 0.1], [0.2, 0.1, 1.0]]))

    def fx_rainbow_val(o, m):
        return o.value(m['vd'], np.array([m['s'], m['s0'] * 0.96]), flat(m['vd'], m['r']), [m['q'], 0.015], np.array([m['vol'], 0.27]),
                       np.array([0.6, 0.6]))

    for ty in (EquityRainbowOptionTypes.CALL_ON_MAXIMUM, EquityRainbowOptionTypes.PUT_ON_MAXIMUM,
               EquityRainbowOptionTypes.CALL_ON_MINIMUM, EquityRainbowOptionTypes.PUT_ON_MINIMUM):
        specs.append((f'EquityRainbowOption[{ty.name}]', EquityRainbowOption,
                      (lambda b, ty=ty: EquityRainbowOption(b['ed'], ty, [b['s'] * 1.0], 2)), {'value': rainbow_val}, False))
    for ty in (FXRainbowOptionTypes.CALL_ON_MAXIMUM, FXRainbowOptionTypes.PUT_ON_MINIMUM):
        specs.append((f'FXRainbowOption[{ty.name}]', FXRainbowOption,
                      (lambda b, ty=ty: FXRainbowOption(b['ed'], ty, [b['s'] * 1.0], 2)), {'value': fx_rainbow_val}, True))
    for cp in (CALL, PUT):
        specs.append((f'EquityBasketOption[{cp.name}]', EquityBasketOption,
                      (lambda b, cp=cp: EquityBasketOption(b['ed'], b['s'] * 1.0, cp, 3)), {'value': basket_val}, False))

    def varswap_fair(o, m):
        ks = np.linspace(0.5, 1.5, 11) * m['s0']
        vols = m['vol'] + 0.1 * (1.0 - ks / m['s0']) ** 2 + 0.05 * (1.0 - ks / m['s0'])
        vc = EquityVolCurve(m['vd'], o.maturity_dt, ks, vols)
        return o.fair_strike(m['vd'], m['s'], flat(m['vd'], m['q']), vc, 12, 12, m['s0'] * 0.04, flat(m['vd'], m['r']), False)

    def varswap_value(o, m):
        fs = varswap_fair(o, m)
        return o.value(m['vd'], m['vol'] ** 2 * 0.9, fs, flat(m['vd'], m['r']))

    for cls, fx in ((EquityVarianceSwap, False), (FinFXVarianceSwap, True)):
        specs.append((cls.__name__, cls, (lambda b, cls=cls: cls(b['vd0'], b['ed'], 0.04, 1000000.0, True)),
                      {'fair_strike': varswap_fair, 'value': varswap_value}, fx))
    for prem in ('EUR', 'USD'):
        specs.append((f'FXDoubleDigitalOption[{prem}]', FXDoubleDigitalOption,
                      (lambda b, prem=prem: FXDoubleDigitalOption(b['ed'], b['s'] * 1.1, b['s'] * 0.92, 'EURUSD', 1000.0, prem)),
                      with_greeks(FXDoubleDigitalOption), True))
        for cp in (OptionTypes.DIGITAL_CALL, OptionTypes.DIGITAL_PUT):
            specs.append((f'FXDigitalOption[{cp.name},{prem}]', FXDigitalOption,
                          (lambda b, prem=prem, cp=cp: FXDigitalOption(b['ed'], b['s'] * 1.02, 'EURUSD', cp, 1000.0, prem)),
                          with_greeks(FXDigitalOption), True))

    # ------------------------------------------------------------------ histories
    def outcome(fn):
        try:
            return canon(fn())
        except FinError as e:
            return ('E', 'FinError', str(e)[:60])
        except Exception as e:  # noqa: BLE001
            return ('E', type(e).__name__)

    def mkt_str(m):
        return {'value_dt': str(m['vd']), 'spot': m['s'], 'r': m['r'], 'q': m['q'], 'vol': m['vol']}

    n_rounds = 1 if quick else 8
    n_hist = n_cmp = n_diff = 0
    ctor_failed = set()
    last_error = {}
    per_class = {}
    for rnd in range(n_rounds):
        for name, cls, factory, methods, fx in specs:
            vd0 = Date(rng.randint(1, 28), rng.randint(1, 12), rng.randint(2015, 2027))
            days = rng.randint(420, 900)
            s0 = round((1.0 if fx else 100.0) * math.exp(rng.gauss(0, 0.15)), 4)
            A = {'vd': vd0, 's': s0, 's0': s0, 'r': round(rng.uniform(0.01, 0.07), 4), 'q': round(rng.uniform(0.0, 0.04), 4),
                 'vol': round(rng.uniform(0.15, 0.38), 4)}
            base = {'vd0': vd0, 'ed': vd0.add_days(days), 'ed1': vd0.add_days(days // 2), 's': s0}
            variations = {
                'spot': dict(A, s=round(s0 * 1.07, 6)),
                'discount curve': dict(A, r=A['r'] + 0.015),
                'dividend curve': dict(A, q=A['q'] + 0.02),
                'volatility': dict(A, vol=A['vol'] + 0.05),
                'valuation date': dict(A, vd=vd0.add_days(31)),
            }
            fresh_cache = {}

            def fresh(label, m, key):
                if key not in fresh_cache:
                    fresh_cache[key] = outcome(lambda: methods[label](factory(base), m))
                return fresh_cache[key]

            for what, B in variations.items():
                if name in ctor_failed:
                    break
                plans = [[('value' if 'value' in methods else list(methods)[0], 'A'), ('value' if 'value' in methods else list(methods)[0], 'B'),
                          ('value' if 'value' in methods else list(methods)[0], 'A')]]
                if 'fair_strike' in methods:
                    plans.append([('fair_strike', 'A'), ('value', 'B'), ('fair_strike', 'A')])
                if 'delta' in methods:
                    plans.append([('delta', 'A'), ('vega', 'A'), ('theta', 'A'), ('rho', 'A'), ('value', 'B'), ('gamma', 'B')])
                    plans.append([('value', 'A'), ('delta', 'B'), ('vega', 'B'), ('value', 'A')])
                for plan in plans:
                    n_hist += 1
                    obj = None
                    try:
                        obj = factory(base)
                    except Exception as e:  # noqa: BLE001
                        if name not in ctor_failed:
                            ctor_failed.add(name)
                            ctx.violation(f'{name}: the product object cannot be constructed from valid contract terms',
                                          {'class': name, 'error': repr(e)[:200], 'effective_dt': str(base['vd0']), 'maturity_dt': str(base['ed'])},
                                          finding=classify_ctor(cls.__name__, e), clause='constructible')
                        break
                    hist = []
                    for step, (label, which) in enumerate(plan):
                        m = A if which == 'A' else B
                        got = outcome(lambda: methods[label](obj, m))
                        hist.append({'call': label, 'market': which, 'result': show(got)})
                        if step == 0:
                            fresh_cache.setdefault((label, which if which == 'A' else what), got)   # first call IS a fresh valuation
                            continue
                        ref = fresh(label, m, (label, which if which == 'A' else what))
                        n_cmp += 1
                        st = per_class.setdefault(cls.__name__, {'compared': 0, 'different': 0, 'raised': 0})
                        st['compared'] += 1
                        st['raised'] += (got[0] == 'E')
                        if got[0] == 'E':
                            last_error[cls.__name__] = got[1:]
                        if not same(cls.__name__, got, ref):
                            n_diff += 1
                            st['different'] += 1
                            x, y = show(got), show(ref)
                            ctx.violation(
                                f'{name}: value depends on what the object priced before (re-used object != fresh object under the same market)',
                                {'class': name, 'changed_between_A_and_B': what, 'market_A': mkt_str(A), 'market_B': mkt_str(B),
                                 'contract': {'expiry': str(base['ed']), 'mid_date': str(base['ed1']), 'base_spot': s0},
                                 'history_on_one_object': hist, 'failing_call': f'{label} under market {which}',
                                 'reused_object': x, 'fresh_object': y,
                                 'difference': (x - y) if isinstance(x, float) and isinstance(y, float) else None},
                                finding=classify(cls.__name__, what, label), clause='history-independence')
                            break
    # a class whose every valuation raised on valid contracts/markets is not priceable at all (the re-use comparison is vacuous there)
    for cname, st in per_class.items():
        if st['compared'] > 0 and st['raised'] == st['compared']:
            ctx.violation(f'{cname}.value raises for every valid input tried: the analytical value cannot be obtained',
                          {'class': cname, 'calls': st['compared'], 'last_error': last_error.get(cname)},
                          finding=('C11/fx-rainbow-value-uncallable' if cname == 'FXRainbowOption' and
                                   last_error.get(cname, ('',))[0] in ('AttributeError', 'TypeError') else None), clause='priceable')
    ctx.count('re-use oracle: one object valued under A, B (one field changed), A vs fresh objects; Greeks interleaved', n_cmp, n_cmp,
              sample={'specs': len(specs), 'histories': n_hist, 'fields': ['spot', 'discount curve', 'dividend curve', 'volatility',
                                                                           'valuation date']})
    ctx.cov['components']['re-use oracle: one object valued under A, B (one field changed), A vs fresh objects; Greeks interleaved'].update(
        {'per_class': per_class, 'different': n_diff, 'comparison': 'bit-for-bit'})


def classify(cls_name, changed, call):
    """Known-finding classifiers for history dependence on the unchanged tree (none needed so far)."""
    return None


def classify_ctor(cls_name, exc):
    """C11/fx-variance-swap-unconstructible: FinFXVarianceSwap.__init__ annotates `maturity_dt_or_tenor: [Date, str]` (a list);
    check_argument_types passes it to isinstance -> TypeError for every argument value."""
    if cls_name == 'FinFXVarianceSwap' and isinstance(exc, TypeError) and 'isinstance() arg 2' in str(exc):
        return 'C11/fx-variance-swap-unconstructible'
    return None
