"""C12 — tree, PDE, LSMC and approximation pricers agree with the analytic model.

Theorems : FinVerif/Props/C12.lean on the hand model of crr_tree_val (Model/C12.lean): probabilities in [0,1] iff
           d <= e^{(r-q)dt} <= u; on the lattice American >= European, American >= intrinsic, values >= 0 (induction
           on steps, monotone backward operator); FD/PSOR projection >= payoff.
           Props/C12b.lean (same model): European tree value = discounted binomial sum, put-call parity of the tree values for
           every n, monotone / 1-Lipschitz / convex in payoff and strike, American = European when the exercise values are a
           discounted sub-martingale (calls q <= 0 <= r, puts r <= 0 <= q), call <= spot, put <= strike.
           Props/C12c.lean (hand model Model/C12FD.lean of calculate_fd_matrix, fd_roll_backwards, black_scholes_fd, PSOR):
           consistency of dx / dxx, row sums 1 - dt theta r, discrete maximum principle and monotonicity of the theta step,
           American >= European / payoff through the time loop, projection = complementarity, SOR fixed point solves the
           interior equations.   Props/C12d.lean (GENERATED Gen/BAWP.lean: _fcall, _fput, baw_value given S*): call with
           q <= 0 is European, exercise region = intrinsic, continuation >= European, jump at S* = -residual.
           Props/C12e.lean (GENERATED Gen/CrrLoopR.lean = the `for` loops of crr_tree_val cut by registry/crrloops.py): every range,
           initial value, body and flat subscript of the hand model is the generated one; the nest of generated loops on flat
           arrays returns the hand model's root value for every step count (crr_price_is_generated_loops); no out-of-range
           subscript, int() casts exact; put-call parity / American >= European of the generated program.
           Props/C12f.lean (GENERATED Gen/FdLoopR.lean = finite_difference.py read row-wise / loop-wise by registry/fdloops.py):
           the rows of dx / dxx / calculate_fd_matrix and the time loop of black_scholes_fd (range, American test, projection
           comparison, step count, dt, matrix arguments, guards) of the hand model Model/C12FD are the generated ones.
Tie      : crr_tree_val (compiled, both parities), calculate_fd_matrix, fd_roll_backwards, black_scholes_fd, PSOR,
           black_scholes_fd_PSOR, _fcall, _fput, baw_value (S* from the same newton_secant call), FXVanillaOption AMERICAN
           (crr_tree_val_avg at t_exp) vs the Lean models at Float (compiled driver c12driver) on seeded inputs.
Oracles  : every BlackScholesTypes value x option type over S/K in [0.3,3], r,q incl. r<q, r=q, r=0, sigma in
           [5%,100%]: European -> analytic within a measured bound at default resolution and smaller at higher
           resolution; American >= European, >= intrinsic; no-early-exercise cases equal European; implementations agree.
PARTIAL  : convergence / error-at-default-resolution are validated numerically only; LSMC is seeded and loose."""
import contextlib
import io
import json
import math
import os
import sys
import warnings

sys.path.insert(0, os.path.dirname(os.path.dirname(os.path.abspath(__file__))))
import common as C  # noqa: E402
from floatcmp import f2b, b2f  # noqa: E402
from parallel import driver_parallel  # noqa: E402,F401
import exedriver  # noqa: E402

GEN = ['BSF', 'BSP', 'BAWF', 'BAWP', 'CrrLoopR', 'FdLoopR']      # CrrLoopR (registry/crrloops.py): the LOOPS of crr_tree_val; BAWF / BAWP (tools/py2lean/registry/baw.py) import the Black-Scholes kernels BSF / BSP
PROPS = ['FinVerif.Props.C12', 'FinVerif.Props.C12b', 'FinVerif.Props.C12c', 'FinVerif.Props.C12d', 'FinVerif.Props.C12e', 'FinVerif.Props.C12f']
DRIVERS = ['FinVerif.Driver.C12']

RULE = ('seeded parameter sets: S/K in [0.3,3] (half of them in [0.7,1.4]), t in {0.1,0.25,0.5,1,2}, r in '
        '{0,1,3,5,10}%, q in {0, r, r+3%, max(0,r-2%), 8%}, sigma in {5,10,20,30,50,100}%, both option sides, every '
        'BlackScholesTypes member; CRR step counts 2..120 (quick) / 2..300 for the model correspondence and {52, 416} for convergence; '
        'FD grids {500, 2000}; a non-positive-rate set (r in {-3,-2,-1,-0.5}%, q in {0, -0.5%, r, r-1%, 2%}, t up to 3y, '
        'spots biased in the money) for CRR(200) / FD / EquityAmericanOption / FXVanillaOption(AMERICAN); FD parameters '
        'theta in {0.5,0.75,1}, smooth, num_std, num_time_steps; EquityBinomialTree: 7 payoff types x 2 exercise types x '
        'S/K in {0.3..2.5} x steps {10,50,100,200}; FXVanillaOption AMERICAN_*: value dates on every weekday of January 2025, '
        'expiries 5..400 days later (80 % from {7,...,365}), spot_days in {0,1,2,3}, r_d in {0,1,3,5}%, r_f in {0,2,5%,r_d}, '
        'strikes within 1.5 sd of the spot; PSOR parameters theta in {0.5,0.6,0.75,0.9,1}, num_samples {400,600}, num_time_steps '
        '{default,200,300}, num_std, smooth; model correspondence of calculate_fd_matrix / fd_roll_backwards / PSOR on random '
        'non-uniform grids of 2..21 nodes and of black_scholes_fd / black_scholes_fd_PSOR on 10..80 samples, 5..30 steps, theta as above. '
        're-use oracle: one product + one model object (FXVanillaOption AMERICAN, EquityAmericanOption / BlackScholes.value with each American-capable '
        'BlackScholesTypes, EquityBinomialTree, EquityVanillaOption) valued in market A, B (one input changed: spot, vol, discount curve only, '
        'dividend/foreign curve only, both rates shifted equally with r = q or r != q, value date), A again, vs fresh objects bit for bit. '
        'Non-trivial = the pricer returned a finite number and the option is not worthless '
        '(> 1e-8 K); cases are distinct draws from continuous laws.')

# measured on the clean tree (notes/C12.md), relative to the strike K ----------------------------------------
CRR52_EURO = 2.5e-3       # |CRR(52/53 averaged) - analytic| / K  (measured 7.2e-4 at sigma=100%, t=2)
CRR416_RATIO = 0.35       # error bound at 8x the steps as a fraction of the bound at 52 (O(1/n): 0.125 ideal)
FD_EURO = 2e-5            # |FD(2000 nodes, 1000 steps, CN) - analytic| / K (measured 2.5e-6)
FD500_EURO = 3e-4         # at 500 nodes (measured 4e-5)
PSOR_EURO = 2e-5
FD_TRUNC_EURO = 2e-3      # FD/PSOR when |r-q| t > sigma sqrt(t): the +-5 sd grid around the spot is off-centre (measured 2.2e-4)
DOM_TOL_TREE = 1e-10      # American >= European / intrinsic on the SAME lattice: exact up to rounding
DOM_TOL_FD = 5e-6         # FD / PSOR American vs the scheme's own European (SOR residual acc=1e-13)
LSMC_TOL = 0.03           # LSMC (10k paths, seed 42) vs CRR American, relative to K
AGREE_TOL = 4e-3          # CRR(52) vs FD American / K (dominated by the CRR error)
AGREE_TOL_200 = 8e-4      # CRR(200/201 averaged) vs FD American / K, incl. negative rates (measured, see notes)
FD_THETA_EURO = {0.5: 2e-5, 0.75: 1e-4, 1.0: 3e-4}   # FD(2001 nodes, 1000 steps) European error / K per theta (time error O(dt) for theta != 0.5)
EBT_EURO = 4e-3           # EquityBinomialTree (n, n+1 averaged, n >= 50) vanilla European vs analytic / K
BJS_ROUND = 8.0           # forward rounding error allowed when recognising the (b := q) formula: 8 eps x sum of |terms| (see bjs_q_is_carry)
APPROX_TOL = 0.012        # BAW vs CRR(400) inside the validity domain (r>0, t<=1, sigma<=50%) / K
FD_MODEL_TOL = 1e-9       # calculate_fd_matrix / fd_roll_backwards / black_scholes_fd vs the Lean model (measured 3e-15)
PSOR_MODEL_TOL = 5e-8     # PSOR / black_scholes_fd_PSOR vs the Lean model, relative to K: two SOR runs that stop one sweep
                          # apart differ by at most sqrt(acc) = 3.2e-7 per node (measured 3e-15 when the sweep counts agree)
FX_TREE_TOL = 1.5e-3      # FXVanillaOption AMERICAN (100/101 averaged tree) vs its own European value / vs CRR(400) at t_exp,
                          # in units of K sigma sqrt(t_exp) (measured 5.1e-4)
PSOR_THETA_EURO = {0.5: 2.5e-4, 0.6: 5e-4, 0.75: 8e-4, 0.9: 1.2e-3}   # PSOR(>= 400 nodes) European error / K per theta at 200 time
                          # steps, scaled by 200/steps for fewer (measured over seeds 0-4: 7.3e-5, 1.4e-4, 1.8e-4, 2.4e-4)
SMOOTH_H2 = 1.5           # payoff smoothing (smooth=True, cell-averaged payoff) has a second-order bias: error / K = C h^2 with
                          # h = 2 num_std sigma sqrt(t) / num_samples; C measured 0.22 .. 0.75 (constant under grid refinement)
PSOR_FD_AGREE = 5e-6      # PSOR vs FINITE_DIFFERENCE American value at the same parameters / K (measured 5.4e-8)


def smooth_bound(params, c, default_samples=2000):
    """stated bound of the payoff-smoothing bias (0 without smoothing): SMOOTH_H2 x (log-grid spacing)^2"""
    if not params.get('smooth'):
        return 0.0
    h = 2.0 * params.get('num_std', 5) * c['vol'] * math.sqrt(c['t']) / params.get('num_samples', default_samples)
    return SMOOTH_H2 * h * h


def run_model(ops):
    """answers of the Lean model driver (compiled lean_exe `c12driver`; `lean --run` if it cannot be built)"""
    return exedriver.run('c12driver', 'C12', ops)


def quiet(fn, *a, **kw):
    with warnings.catch_warnings(), contextlib.redirect_stdout(io.StringIO()):
        warnings.simplefilter('ignore')
        return fn(*a, **kw)


def gen_case(rng):
    K = 100.0
    S = K * (rng.uniform(0.3, 3.0) if rng.random() < 0.5 else rng.uniform(0.7, 1.4))
    t = rng.choice([0.1, 0.25, 0.5, 1.0, 2.0])
    r = rng.choice([0.0, 0.01, 0.03, 0.05, 0.1])
    q = rng.choice([0.0, r, r + 0.03, max(0.0, r - 0.02), 0.08])
    v = rng.choice([0.05, 0.1, 0.2, 0.3, 0.5, 1.0])
    return dict(S=S, t=t, K=K, r=r, q=q, vol=v)


def gen_case_neg(rng):
    """non-positive rates (the property's quantifier: 'puts with non-positive rates', r = 0, r < q): r < 0 with
    q = 0, q < 0, q = r, q > 0; spots biased in the money so that early exercise matters."""
    K = 100.0
    S = K * (rng.uniform(0.5, 2.0) if rng.random() < 0.6 else rng.uniform(0.9, 1.1))
    t = rng.choice([0.5, 1.0, 2.0, 3.0])
    r = rng.choice([-0.03, -0.02, -0.01, -0.005])
    q = rng.choice([0.0, 0.0, -0.005, r, r - 0.01, 0.02])
    v = rng.choice([0.1, 0.15, 0.2, 0.3, 0.5])
    return dict(S=S, t=t, K=K, r=r, q=q, vol=v)


def bjs_q_is_carry(s, t, k, r, b, v, is_call, with_scale=False):
    """Bjerksund-Stensland (1993) flat-boundary formula with cost of carry `b` given explicitly.  Used ONLY to
    characterise known finding C12/bjerksund-q-is-carry: the library passes the dividend yield where this takes b.
    with_scale=True also returns the sum of the magnitudes of the terms that the formula adds and subtracts: the value is the
    difference of terms of that size, so two correctly rounded evaluations of the SAME formula (NumPy here, Numba fastmath in the
    library) may differ by a few eps x scale (e.g. sigma = 5 %: terms of 4e11 and 6e11 cancel to 0 here and to -7e-5 there)."""
    import numpy as np
    from scipy.special import ndtr

    def n_hull(x):
        from financepy.utils.math import N
        return N(x)
    if not is_call:
        s, k, r, b = k, s, r - b, -b
    s, t, k, r, b, v = (np.float64(x) for x in (s, t, k, r, b, v))
    with np.errstate(all='ignore'):
        mags = []       # magnitudes of the quantities that are added / subtracted (forward rounding-error scale)

        def phi(S, T, gamma, H, X):
            lam = (-r + gamma * b + 0.5 * gamma * (gamma - 1.0) * v ** 2) * T
            d = -(np.log(S / H) + (b + (gamma - 0.5) * v ** 2) * T) / (v * np.sqrt(T))
            kappa = (2.0 * gamma - 1.0) + (2.0 * b) / v ** 2
            pre = np.exp(lam) * (S ** gamma)
            t1 = n_hull(d)
            t2 = n_hull(d - (2.0 * np.log(X / S) / v / np.sqrt(T))) * ((X / S) ** kappa)
            mags.append(abs(pre) * (abs(t1) + abs(t2)))
            return pre * (t1 - t2)
        beta = (0.5 - b / v ** 2) + np.sqrt((0.5 - b / v ** 2) ** 2 + 2.0 * r / v ** 2)
        if abs(r - b) < 1e-10:
            beta = 1.0
            x_t = 1e10
        else:
            b_inf = k * beta / (beta - 1.0)
            b_0 = max(k, k * r / (r - b))
            h_t = -(b * t + 2.0 * v * np.sqrt(t)) * (b_0 / (b_inf - b_0))
            x_t = b_0 + (b_inf - b_0) * (1.0 - np.exp(h_t))
        alpha = (x_t - k) * x_t ** (-beta)
        t0_ = alpha * (s ** beta)
        p1, p2, p3, p4, p5 = phi(s, t, beta, x_t, x_t), phi(s, t, 1.0, x_t, x_t), phi(s, t, 1.0, k, x_t), phi(s, t, 0.0, x_t, x_t), phi(s, t, 0.0, k, x_t)
        val = float(t0_ - alpha * p1 + p2 - p3 - k * p4 + k * p5)
        if with_scale:
            scale = float(abs(t0_) + abs(alpha) * mags[0] + mags[1] + mags[2] + abs(k) * mags[3] + abs(k) * mags[4])
            return val, scale
        return val


def run(ctx):
    drivers_ok = C.lean_stage(ctx, GEN, PROPS, DRIVERS, extra_files=['FinVerif/Lemmas/C12Loop.lean'])
    C.import_financepy()
    import numpy as np
    from financepy.models.black_scholes import BlackScholes, BlackScholesTypes as T
    from financepy.utils.global_types import OptionTypes as O
    from financepy.models.black_scholes_analytic import bs_value
    from financepy.models.equity_crr_tree import crr_tree_val
    from financepy.utils.error import FinError
    meas = {}
    import time
    tsec = {}
    t_last = [time.time()]

    def lap(name):
        tsec[name] = round(time.time() - t_last[0], 1)
        t_last[0] = time.time()
        ctx.cov['section_s'] = tsec

    def madd(k, v):
        if v == v and v > meas.get(k, -1.0):
            meas[k] = float(v)

    def price(bt, c, ot, **kw):
        """('f', value) | ('e', kind)"""
        try:
            m = BlackScholes(c['vol'], bt, **kw)
            x = float(quiet(m.value, c['S'], c['t'], c['K'], c['r'], c['q'], ot))
            return ('f', x)
        except FinError:
            return ('e', 'FinError')
        except Exception as e:  # noqa: BLE001
            return ('e', type(e).__name__)

    def euro(c, call):
        return float(bs_value(c['S'], c['t'], c['K'], c['r'], c['q'], c['vol'], 1 if call else 2))

    def intrinsic(c, call):
        return max(c['S'] - c['K'], 0.0) if call else max(c['K'] - c['S'], 0.0)

    def no_early_exercise(c, call):
        # call with no (or negative) dividends and r >= 0; put with non-positive rates and q >= 0
        return (call and c['q'] <= 0.0 and c['r'] >= 0.0) or ((not call) and c['r'] <= 0.0 and c['q'] >= 0.0)

    # ------------------------------------------------------------------ 1. crr_tree_val vs the Lean model
    rng = ctx.rng('crr-model')
    ops, impl, inputs = [], [], []
    nmod = 400 if ctx.quick() else 5000
    for i in range(nmod):
        c = gen_case(rng) if i % 3 else gen_case_neg(rng)      # one third with r < 0 (q <= 0 and q > 0)
        n = rng.choice([2, 3, 4, 5, 7, 10, 21, 52, 53]) if rng.random() < 0.8 else rng.randrange(2, 120 if ctx.quick() else 300)
        ty = rng.choice([1, 2, 3, 4])
        ev = rng.choice([0, 1])
        x = float(crr_tree_val(c['S'], c['r'], c['q'], c['vol'], n, c['t'], ty, c['K'], ev)[0])
        ops.append(f"crr {f2b(c['S'])} {f2b(c['r'])} {f2b(c['q'])} {f2b(c['vol'])} {n} {f2b(c['t'])} {ty} {f2b(c['K'])} {ev}")
        impl.append(x)
        inputs.append(dict(c, num_steps=n, option_type=ty, isEven=ev))
    if drivers_ok:
        try:
            model = [b2f(s) for s in run_model(ops)]
            nb = 0
            for x, m, inp in zip(impl, model, inputs):
                d = abs(x - m) / max(1e-8, abs(m), 1e-6 * inp['K'])
                madd('crr_tree_val:impl-vs-model(rel)', d)
                if not (d <= 1e-9 or (math.isnan(x) and math.isnan(m))):
                    nb += 1
                    if nb <= 3:
                        ctx.broke(f'correspondence crr_tree_val: Lean model != implementation on {inp} (model {m!r}, impl {x!r})')
        except C.DriverError as e:
            ctx.broke(f'model driver failed: {str(e)[:300]}')
    ctx.count('crr_tree_val vs model', len(ops), len(ops), sample={'input': inputs[0], 'impl': impl[0]})

    lap('crr-model')
    # ------------------------------------------------------------------ 1b. finite differences / PSOR vs the Lean model (Model/C12FD.lean)
    from financepy.models.finite_difference import calculate_fd_matrix, fd_roll_backwards, black_scholes_fd
    from financepy.models.finite_difference_PSOR import black_scholes_fd_PSOR, PSOR
    rng = ctx.rng('fd-model')

    def fl(xs):
        return ' '.join(f2b(float(x)) for x in xs)
    ops, impl, inputs, tols = [], [], [], []
    nmat = 24 if ctx.quick() else 300
    for i in range(nmat):
        n = rng.choice([2, 3, 4, 5, 8, 13, 21])
        x = np.cumsum([rng.uniform(0.3, 2.0) for _ in range(n)]) + rng.uniform(0.0, 50.0)     # non-uniform increasing grid
        rr = np.zeros(n) + rng.choice([-0.02, 0.0, 0.03, 0.1])
        mu = np.array([rng.uniform(-0.1, 0.1) * xx for xx in x])
        var = np.array([(xx * rng.uniform(0.05, 1.0)) ** 2 for xx in x])
        dt = rng.choice([0.01, 0.002, 0.05])
        th = rng.choice([0.5, 0.6, 0.75, 0.9, 1.0])
        with np.errstate(all='ignore'):
            Ai = quiet(calculate_fd_matrix, x, rr, mu, var, -dt, th, 0)
            Ae = quiet(calculate_fd_matrix, x, rr, mu, var, dt, 1.0 - th, 0) if th != 1.0 else np.zeros((n, 3))
        for (mat, dtv, thv) in ((Ai, -dt, th),) + (((Ae, dt, 1.0 - th),) if th != 1.0 else ()):
            ops.append(f'fdmat {n} {f2b(dtv)} {f2b(thv)} {fl(x)} {fl(rr)} {fl(mu)} {fl(var)}')
            impl.append([float(z) for z in mat.flatten()])
            inputs.append(dict(function='calculate_fd_matrix', x=[float(z) for z in x], r=float(rr[0]), mu=[float(z) for z in mu],
                               var=[float(z) for z in var], dt=dtv, theta=thv))
            tols.append(('rel1', FD_MODEL_TOL))
        res0 = np.array([[rng.uniform(0.0, 10.0) for _ in range(n)]])
        out = fd_roll_backwards(res0.copy(), th, Ai=Ai, Ae=Ae)
        ops.append(f'fdstep {n} {1 if th != 1 else 0} {1 if th != 0 else 0} {fl(Ae.flatten())} {fl(Ai.flatten())} {fl(res0[0])}')
        impl.append([float(z) for z in out[0]])
        inputs.append(dict(function='fd_roll_backwards', theta=th, Ae=[float(z) for z in Ae.flatten()],
                           Ai=[float(z) for z in Ai.flatten()], res=[float(z) for z in res0[0]]))
        tols.append(('rel1', FD_MODEL_TOL))
        if i % 3 == 0 and n >= 3:
            # the SOR iteration of PSOR on this matrix (diagonally dominant: converges), sweep count compared too
            z_ = np.array([rng.uniform(0.0, 10.0) for _ in range(n)])
            init = np.array([rng.uniform(0.0, 10.0) for _ in range(n)])
            om = rng.choice([1.0, 1.2, 1.5, 1.8])
            try:
                rk, nl = PSOR(Ai, om, init.copy(), z_, 5000, 1e-13)
                ops.append(f'sor {n} {f2b(om)} {f2b(1e-13)} {fl(Ai.flatten())} {fl(z_)} {fl(init)}')
                impl.append([float(v_) for v_ in rk] + [float(nl)])
                inputs.append(dict(function='PSOR', omega=om, acc=1e-13, Ai=[float(v_) for v_ in Ai.flatten()],
                                   z=[float(v_) for v_ in z_], initial_value=[float(v_) for v_ in init]))
                tols.append(('sor', 1e-6))
            except RuntimeError:
                pass
    nfdm = 40 if ctx.quick() else 400
    for i in range(nfdm):
        c = gen_case(rng) if i % 4 else gen_case_neg(rng)
        c['vol'] = max(c['vol'], 0.1)
        ty = rng.choice([1, 2, 3, 4])
        nts = rng.choice([0, 0, 5, 12, 30])
        ns = rng.choice([10, 20, 31, 50, 80])
        nstd = rng.choice([3, 5, 6])
        th = rng.choice([0.5, 0.6, 0.75, 0.9, 1.0])
        if i % 2 == 0:
            val = float(quiet(black_scholes_fd, c['S'], c['vol'], c['t'], c['K'], c['r'], c['q'], ty, num_time_steps=(nts or None),
                              num_samples=ns, num_std=nstd, theta=th))
            ops.append(f"fd {f2b(c['S'])} {f2b(c['vol'])} {f2b(c['t'])} {f2b(c['K'])} {f2b(c['r'])} {f2b(c['q'])} {ty} {nts} {ns} "
                       f"{f2b(float(nstd))} {f2b(th)}")
            tols.append(('relK', FD_MODEL_TOL))
            fn = 'black_scholes_fd'
        else:
            th = th if th != 1.0 else 0.6        # theta = 1 is rejected by the PSOR pricer (known finding, section 3g)
            val = float(quiet(black_scholes_fd_PSOR, c['S'], c['vol'], c['t'], c['K'], c['r'], c['q'], ty,
                              num_time_steps=(nts or None), num_samples=ns, num_std=nstd, theta=th))
            ops.append(f"psor {f2b(c['S'])} {f2b(c['vol'])} {f2b(c['t'])} {f2b(c['K'])} {f2b(c['r'])} {f2b(c['q'])} {ty} {nts} {ns} "
                       f"{f2b(float(nstd))} {f2b(th)}")
            tols.append(('relK', PSOR_MODEL_TOL))
            fn = 'black_scholes_fd_PSOR'
        impl.append([val])
        inputs.append(dict(c, function=fn, option_type=ty, num_time_steps=(nts or None), num_samples=ns, num_std=nstd, theta=th))
    if drivers_ok:
        try:
            outs = run_model(ops)
            nb = 0
            for o, im, inp, (kind, tol) in zip(outs, impl, inputs, tols):
                toks = o.split()
                bad = None
                if not toks or toks[0].startswith('E:') or toks[0] == 'bad-op':
                    bad = f'model answered {o[:40]!r}'
                else:
                    if kind == 'sor':
                        m = [b2f(z) for z in toks[:-1]] + [float(toks[-1])]
                    else:
                        m = [b2f(z) for z in toks]
                    if len(m) != len(im):
                        bad = f'{len(m)} model values for {len(im)} implementation values'
                    elif kind == 'sor':
                        d = max(abs(a - b) for a, b in zip(m[:-1], im[:-1]))
                        madd('PSOR (SOR loop):impl-vs-model(abs)', d)
                        madd('PSOR (SOR loop):|sweeps impl - model|', abs(m[-1] - im[-1]))
                        if not d <= tol or abs(m[-1] - im[-1]) > 2:
                            bad = f'max abs diff {d:.3e}, sweeps model {m[-1]:.0f} impl {im[-1]:.0f}'
                    else:
                        # NaN on both sides is agreement (e.g. a diverging SOR iteration on a 10-sample grid), as in section 1
                        pairs = [(a, b) for a, b in zip(m, im) if not (math.isnan(a) and math.isnan(b))]
                        if kind == 'relK':
                            d = max([abs(a - b) / inp['K'] for a, b in pairs] or [0.0])
                        else:
                            d = max([abs(a - b) / max(1.0, abs(b)) for a, b in pairs] or [0.0])
                        madd(f"{inp['function']}:impl-vs-model", d)
                        if not d <= tol:
                            bad = f'max diff {d:.3e} (bound {tol:g}); model {m[:3]}, impl {im[:3]}'
                if bad:
                    nb += 1
                    if nb <= 3:
                        short = {k: v for k, v in inp.items() if not isinstance(v, list)}
                        ctx.broke(f"correspondence {inp['function']}: Lean model != implementation on {short}: {bad}")
        except C.DriverError as e:
            ctx.broke(f'model driver failed: {str(e)[:300]}')
    ctx.count('calculate_fd_matrix / fd_roll_backwards / black_scholes_fd / PSOR / black_scholes_fd_PSOR vs model', len(ops), len(ops),
              sample={'input': {k: v for k, v in inputs[-1].items() if not isinstance(v, list)}, 'impl': impl[-1]})

    lap('fd-model')
    # ------------------------------------------------------------------ 2. CRR through the model object
    rng = ctx.rng('crr')
    ncrr = 1200 if ctx.quick() else 12000
    n_out = 0
    for i in range(ncrr):
        c = gen_case(rng)
        for call in (True, False):
            eo, ao = (O.EUROPEAN_CALL, O.AMERICAN_CALL) if call else (O.EUROPEAN_PUT, O.AMERICAN_PUT)
            an = euro(c, call)
            e52 = price(T.CRR_TREE, c, eo)
            a52 = price(T.CRR_TREE, c, ao)
            case = dict(c, side='call' if call else 'put', scheme='CRR_TREE', num_steps=52)
            if e52[0] != 'f' or a52[0] != 'f' or math.isnan(e52[1]) or math.isnan(a52[1]):
                ctx.violation('CRR tree returned no value', dict(case, european=e52, american=a52), clause='returns-value')
                continue
            # the probability condition of the theorems (crr_prob_in_unit_interval_iff) at the two step counts used
            dtm = c['t'] / 53.0
            inside = abs(c['r'] - c['q']) * math.sqrt(c['t'] / 52.0) <= c['vol']
            if not inside:
                n_out += 1
            err = abs(e52[1] - an) / c['K']
            madd('CRR52:european-err/K', err)
            if err > CRR52_EURO:
                ctx.violation(f'CRR tree (default 52 steps) European value is {err:.2e} K from the analytic price (bound {CRR52_EURO:g})',
                              dict(case, tree=e52[1], analytic=an), clause='european-converges')
            if i % 4 == 0:
                e416 = price(T.CRR_TREE, c, eo, num_steps_per_year=416)
                if e416[0] == 'f':
                    err8 = abs(e416[1] - an) / c['K']
                    madd('CRR416:european-err/K', err8)
                    if err8 > CRR52_EURO * CRR416_RATIO:
                        ctx.violation('CRR tree error does not decrease with resolution',
                                      dict(case, err_52=err, err_416=err8), clause='european-converges')
            if inside:
                if a52[1] < e52[1] - DOM_TOL_TREE * c['K']:
                    ctx.violation('CRR American value below the European value on the same lattice',
                                  dict(case, american=a52[1], european=e52[1]), clause='american-ge-european')
                if a52[1] < intrinsic(c, call) - DOM_TOL_TREE * c['K']:
                    ctx.violation('CRR American value below intrinsic', dict(case, american=a52[1], intrinsic=intrinsic(c, call)),
                                  clause='american-ge-intrinsic')
                if e52[1] < -DOM_TOL_TREE * c['K']:
                    ctx.violation('CRR European value negative', dict(case, european=e52[1]), clause='european-ge-0')
                if no_early_exercise(c, call):
                    d = abs(a52[1] - e52[1]) / c['K']
                    madd('CRR:no-early-exercise |amer-euro|/K', d)
                    if d > 1e-9:
                        ctx.violation('CRR American != European although early exercise is never optimal',
                                      dict(case, american=a52[1], european=e52[1]), clause='no-early-exercise-equal')
    ctx.count('CRR_TREE (model object)', 4 * ncrr, 4 * ncrr)
    ctx.cov['crr_cases_outside_probability_condition'] = n_out

    lap('crr')
    # ------------------------------------------------------------------ 3. FD and PSOR
    rng = ctx.rng('fd')
    nfd = 90 if ctx.quick() else 1500
    npsor = 14 if ctx.quick() else 200
    fd_store = []
    for i in range(nfd):
        c = gen_case(rng)
        call = rng.random() < 0.5
        eo, ao = (O.EUROPEAN_CALL, O.AMERICAN_CALL) if call else (O.EUROPEAN_PUT, O.AMERICAN_PUT)
        an = euro(c, call)
        for scheme, bt, tol_e in [('FINITE_DIFFERENCE', T.FINITE_DIFFERENCE, FD_EURO)] + ([('PSOR', T.PSOR, PSOR_EURO)] if i < npsor else []):
            case = dict(c, side='call' if call else 'put', scheme=scheme)
            e = price(bt, c, eo)
            a = price(bt, c, ao)
            if e[0] != 'f' or a[0] != 'f' or math.isnan(e[1]) or math.isnan(a[1]):
                ctx.violation(f'{scheme} returned no value', dict(case, european=e, american=a), clause='returns-value')
                continue
            err = abs(e[1] - an) / c['K']
            # grid-truncation regime: the log-grid is +-5 sigma sqrt(t) around the SPOT, the distribution is centred
            # (r-q)t away; when the drift exceeds one standard deviation the bound is the (measured) truncation error
            trunc = abs(c['r'] - c['q']) * c['t'] > c['vol'] * math.sqrt(c['t'])
            madd(f'{scheme}:european-err/K' + (' (drift > 1 sd: grid truncation)' if trunc else ''), err)
            if trunc:
                tol_e = FD_TRUNC_EURO
            if err > tol_e:
                ctx.violation(f'{scheme} European value is {err:.2e} K from the analytic price (bound {tol_e:g})',
                              dict(case, scheme_value=e[1], analytic=an), clause='european-converges')
            madd(f'{scheme}:(euro-amer)/K', (e[1] - a[1]) / c['K'])
            if a[1] < e[1] - DOM_TOL_FD * c['K']:
                ctx.violation(f'{scheme} American value below its European value', dict(case, american=a[1], european=e[1]),
                              clause='american-ge-european')
            if a[1] < intrinsic(c, call) - DOM_TOL_FD * c['K']:
                ctx.violation(f'{scheme} American value below intrinsic', dict(case, american=a[1], intrinsic=intrinsic(c, call)),
                              clause='american-ge-intrinsic')
            if no_early_exercise(c, call):
                d = abs(a[1] - e[1]) / c['K']
                madd(f'{scheme}:no-early-exercise |amer-euro|/K', d)
                if d > 2e-5:
                    ctx.violation(f'{scheme} American != European although early exercise is never optimal',
                                  dict(case, american=a[1], european=e[1]), clause='no-early-exercise-equal')
            if scheme == 'FINITE_DIFFERENCE':
                fd_store.append((c, call, a[1]))
                if i % 3 == 0:
                    e5 = price(bt, c, eo, params={'num_samples': 500})
                    if e5[0] == 'f':
                        err5 = abs(e5[1] - an) / c['K']
                        madd('FD500:european-err/K', err5)
                        if err5 > FD500_EURO:
                            ctx.violation('FD (500 nodes) European error above its bound', dict(case, err=err5), clause='european-converges')
            else:
                # same resolution for both pricers: their DEFAULT step counts differ (PSOR (2000+1)//4 = 500, FD (2000+1)//2 = 1000) and the
                # American projection is first order in dt, so the FD value is recomputed at PSOR's step count
                fd_same = price(T.FINITE_DIFFERENCE, c, ao, params={'num_time_steps': 2001 // 4})
                fdv = fd_same[1] if fd_same[0] == 'f' else fd_store[-1][2]
                d = abs(a[1] - fdv) / c['K']
                madd('PSOR-vs-FD american |diff|/K (same step count)', d)
                madd('PSOR(500 steps)-vs-FD(1000 steps) american |diff|/K (defaults; not an oracle)', abs(a[1] - fd_store[-1][2]) / c['K'])
                if d > 5e-5:
                    ctx.violation('PSOR and FD American values disagree', dict(case, psor=a[1], fd=fdv, num_time_steps=2001 // 4), clause='agreement')
    ctx.count('FINITE_DIFFERENCE', 2 * nfd, 2 * nfd)
    ctx.count('PSOR', 2 * npsor, 2 * npsor)
    # CRR vs FD American agreement
    for c, call, fdv in fd_store:
        a = price(T.CRR_TREE, c, O.AMERICAN_CALL if call else O.AMERICAN_PUT)
        if a[0] == 'f':
            d = abs(a[1] - fdv) / c['K']
            madd('CRR52-vs-FD american |diff|/K', d)
            if d > AGREE_TOL:
                ctx.violation('CRR and FD American values disagree', dict(c, side='call' if call else 'put', crr=a[1], fd=fdv),
                              clause='agreement')

    lap('fd-psor')
    # ------------------------------------------------------------------ 3b. non-positive rates: CRR / FD, calls and puts, q <= 0 and q > 0
    rng = ctx.rng('negrates')
    nneg = 260 if ctx.quick() else 3000
    nneg_fd = 24 if ctx.quick() else 300
    for i in range(nneg):
        c = gen_case_neg(rng)
        for call in (True, False):
            eo, ao = (O.EUROPEAN_CALL, O.AMERICAN_CALL) if call else (O.EUROPEAN_PUT, O.AMERICAN_PUT)
            case = dict(c, side='call' if call else 'put', scheme='CRR_TREE', num_steps=200)
            e = price(T.CRR_TREE, c, eo, num_steps_per_year=200)
            a = price(T.CRR_TREE, c, ao, num_steps_per_year=200)
            if e[0] != 'f' or a[0] != 'f' or math.isnan(e[1]) or math.isnan(a[1]):
                ctx.violation('CRR tree returned no value (non-positive rates)', dict(case, european=e, american=a), clause='returns-value')
                continue
            an = euro(c, call)
            err = abs(e[1] - an) / c['K']
            madd('CRR200 r<0:european-err/K', err)
            if err > CRR52_EURO:
                ctx.violation('CRR tree (200 steps, r < 0) European value far from the analytic price',
                              dict(case, tree=e[1], analytic=an), clause='european-converges')
            if a[1] < e[1] - DOM_TOL_TREE * c['K']:
                ctx.violation('CRR American value below the European value on the same lattice (r < 0)',
                              dict(case, american=a[1], european=e[1]), clause='american-ge-european')
            if a[1] < intrinsic(c, call) - DOM_TOL_TREE * c['K']:
                ctx.violation('CRR American value below intrinsic (r < 0)', dict(case, american=a[1], intrinsic=intrinsic(c, call)),
                              clause='american-ge-intrinsic')
            if no_early_exercise(c, call):
                d = abs(a[1] - e[1]) / c['K']
                madd('CRR r<0:no-early-exercise |amer-euro|/K', d)
                if d > 1e-9:
                    ctx.violation('CRR American != European although early exercise is never optimal (put, r <= 0, q >= 0)',
                                  dict(case, american=a[1], european=e[1]), clause='no-early-exercise-equal')
            if i < nneg_fd:
                fa = price(T.FINITE_DIFFERENCE, c, ao)
                fe = price(T.FINITE_DIFFERENCE, c, eo)
                fcase = dict(case, scheme='FINITE_DIFFERENCE')
                if fa[0] != 'f' or fe[0] != 'f':
                    ctx.violation('FD returned no value (r < 0)', dict(fcase, european=fe, american=fa), clause='returns-value')
                    continue
                trunc = abs(c['r'] - c['q']) * c['t'] > c['vol'] * math.sqrt(c['t'])
                ferr = abs(fe[1] - an) / c['K']
                madd('FD r<0:european-err/K', ferr)
                if ferr > (FD_TRUNC_EURO if trunc else FD_EURO):
                    ctx.violation('FD European value far from the analytic price (r < 0)', dict(fcase, scheme_value=fe[1], analytic=an),
                                  clause='european-converges')
                if fa[1] < intrinsic(c, call) - DOM_TOL_FD * c['K'] or fa[1] < fe[1] - DOM_TOL_FD * c['K']:
                    ctx.violation('FD American value below intrinsic / European (r < 0)',
                                  dict(fcase, american=fa[1], european=fe[1], intrinsic=intrinsic(c, call)), clause='american-ge-intrinsic')
                d = abs(a[1] - fa[1]) / c['K']
                madd('CRR200-vs-FD american |diff|/K (r<0)', d)
                if d > AGREE_TOL_200:
                    ctx.violation('CRR and FD American values disagree (r < 0)', dict(case, crr=a[1], fd=fa[1]), clause='agreement')
    ctx.count('non-positive rates: CRR / FD', 4 * nneg + 4 * nneg_fd, 4 * nneg + 4 * nneg_fd)
    lap('negrates')

    # ------------------------------------------------------------------ 3c. the product observation points
    from financepy.utils.date import Date
    from financepy.market.curves.discount_curve_flat import DiscountCurveFlat
    from financepy.products.equity.equity_american_option import EquityAmericanOption
    from financepy.products.fx.fx_vanilla_option import FXVanillaOption
    rng = ctx.rng('products')
    value_dt = Date(1, 3, 2021)
    nprod = 24 if ctx.quick() else 300
    for i in range(nprod):
        c = gen_case_neg(rng) if i % 2 == 0 else gen_case(rng)
        years = rng.choice([1, 2, 3])
        expiry_dt = Date(1, 3, 2021 + years)
        c['t'] = (expiry_dt - value_dt) / 365.0
        call = rng.random() < 0.5
        ao = O.AMERICAN_CALL if call else O.AMERICAN_PUT
        intr = intrinsic(c, call)
        an = euro(c, call)
        # EquityAmericanOption with the CRR model object
        case = dict(c, side='call' if call else 'put', product='EquityAmericanOption', scheme='CRR_TREE', num_steps=200,
                    value_dt='1-MAR-2021', expiry_years=years)
        try:
            disc = DiscountCurveFlat(value_dt, c['r'])
            divs = DiscountCurveFlat(value_dt, c['q'])
            v = float(quiet(EquityAmericanOption(expiry_dt, c['K'], ao).value, value_dt, c['S'], disc, divs,
                            BlackScholes(c['vol'], T.CRR_TREE, 200)))
        except Exception as e:  # noqa: BLE001
            ctx.violation(f'EquityAmericanOption.value raised {type(e).__name__}', case, clause='returns-value')
            continue
        if v < intr - 1e-8 * c['K']:
            ctx.violation('EquityAmericanOption value below intrinsic', dict(case, american=v, intrinsic=intr), clause='american-ge-intrinsic')
        if v < an - CRR52_EURO * c['K']:
            ctx.violation('EquityAmericanOption value below the European value', dict(case, american=v, european=an), clause='american-ge-european')
        # same inputs as the product derives them (cc_rate uses the curve's day count: differs from the flat rate
        # across a leap year -- that time-axis matter is C01/C02's subject, not this property's)
        c_eff = dict(c, r=float(disc.cc_rate(expiry_dt)), q=float(divs.cc_rate(expiry_dt)))
        mv = price(T.CRR_TREE, c_eff, ao, num_steps_per_year=200)
        if mv[0] == 'f':
            madd('EquityAmericanOption vs model object |diff|/K', abs(v - mv[1]) / c['K'])
            if abs(v - mv[1]) > 1e-9 * c['K']:
                ctx.violation('EquityAmericanOption disagrees with BlackScholes(CRR_TREE).value at the same inputs',
                              dict(case, product_value=v, model_value=mv[1]), clause='agreement')
        # FXVanillaOption AMERICAN (its own 100-step averaged tree); spot S/100, strike 1
        fcase = dict(c, side='call' if call else 'put', product='FXVanillaOption', spot_fx=c['S'] / 100.0, strike_fx=1.0,
                     rd=c['r'], rf=c['q'], value_dt='1-MAR-2021', expiry_years=years)
        try:
            dom = DiscountCurveFlat(value_dt, c['r'])
            fgn = DiscountCurveFlat(value_dt, c['q'])
            fx = FXVanillaOption(expiry_dt, 1.0, 'EURCHF', ao, 1000000, 'CHF')
            fv = float(quiet(fx.value, value_dt, c['S'] / 100.0, dom, fgn, BlackScholes(c['vol']))['v'])
        except Exception as e:  # noqa: BLE001
            ctx.violation(f'FXVanillaOption.value (American) raised {type(e).__name__}', fcase, clause='returns-value')
            continue
        fintr = intr / 100.0
        if fv < fintr - 1e-8:
            ctx.violation('FXVanillaOption American value below intrinsic', dict(fcase, american=fv, intrinsic=fintr), clause='american-ge-intrinsic')
        if fv < an / 100.0 - 2.0 * CRR52_EURO:
            ctx.violation('FXVanillaOption American value below the European value', dict(fcase, american=fv, european=an / 100.0),
                          clause='american-ge-european')
    ctx.count('EquityAmericanOption / FXVanillaOption(AMERICAN)', 2 * nprod, 2 * nprod)
    lap('products')
    # ------------------------------------------------------------------ 3f. FXVanillaOption AMERICAN_*: spot lag, dates around weekends
    from financepy.models.equity_crr_tree import crr_tree_val_avg
    rng = ctx.rng('fx-american')
    nfx = 150 if ctx.quick() else 2000
    base_dt = Date(2, 1, 2025)
    ops, impl, inputs = [], [], []
    n_lag = 0
    for i in range(nfx):
        while True:
            vdt = base_dt.add_days(rng.randrange(0, 28))
            if vdt.weekday < 5:
                break
        ndays = rng.choice([7, 9, 10, 11, 12, 14, 18, 21, 30, 45, 60, 91, 182, 365]) if rng.random() < 0.8 else rng.randrange(5, 400)
        edt = vdt.add_days(ndays)
        spot_days = rng.choice([0, 1, 2, 3])
        r_d = rng.choice([0.0, 0.01, 0.03, 0.05])
        r_f = rng.choice([0.0, 0.0, 0.02, 0.05, r_d])
        vol = rng.choice([0.08, 0.12, 0.2, 0.3])
        s0 = 1.10
        t_exp = (edt - vdt) / 365.0
        k = s0 * math.exp(rng.uniform(-1.5, 1.5) * vol * math.sqrt(t_exp))
        call = rng.random() < 0.5
        ao, eo = (O.AMERICAN_CALL, O.EUROPEAN_CALL) if call else (O.AMERICAN_PUT, O.EUROPEAN_PUT)
        fcase = dict(product='FXVanillaOption', side='call' if call else 'put', value_dt=str(vdt), expiry_dt=str(edt), spot_days=spot_days,
                     spot_fx=s0, strike_fx=k, rd=r_d, rf=r_f, vol=vol, t_exp=t_exp)
        try:
            dom = DiscountCurveFlat(vdt, r_d)
            fgn = DiscountCurveFlat(vdt, r_f)
            am = float(quiet(FXVanillaOption(edt, k, 'EURUSD', ao, 1.0e6, 'USD', spot_days).value, vdt, s0, dom, fgn, BlackScholes(vol))['v'])
            eu = float(quiet(FXVanillaOption(edt, k, 'EURUSD', eo, 1.0e6, 'USD', spot_days).value, vdt, s0, dom, fgn, BlackScholes(vol))['v'])
        except Exception as e:  # noqa: BLE001
            ctx.violation(f'FXVanillaOption.value raised {type(e).__name__}', fcase, clause='returns-value')
            continue
        # the rates the product derives (from the delivery lag) and the option life it must use (expiry - valuation date)
        t_del = max((edt.add_weekdays(spot_days) - vdt.add_weekdays(spot_days)) / 365.0, 1e-10)
        if abs(t_del - t_exp) > 1e-12:
            n_lag += 1
        rde = -math.log(dom.df_t(t_del)) / t_del
        rfe = -math.log(fgn.df_t(t_del)) / t_del
        fcase.update(t_del=t_del, american=am, european=eu)
        scale = k * vol * math.sqrt(t_exp)
        intr = max(s0 - k, 0.0) if call else max(k - s0, 0.0)
        madd('FXVanillaOption American: (european - american)/(K sigma sqrt t)', (eu - am) / scale)
        if am < eu - FX_TREE_TOL * scale:
            ctx.violation('FXVanillaOption American value below the European value of the same product', fcase, clause='american-ge-european')
        if am < intr - 1e-10 * k:
            ctx.violation('FXVanillaOption American value below intrinsic', dict(fcase, intrinsic=intr), clause='american-ge-intrinsic')
        if (call and r_f <= 0.0 and r_d >= 0.0) or ((not call) and r_d <= 0.0 and r_f >= 0.0):
            madd('FXVanillaOption American: no-early-exercise |amer-euro|/(K sigma sqrt t)', abs(am - eu) / scale)
            if abs(am - eu) > FX_TREE_TOL * scale:
                ctx.violation('FXVanillaOption American != European although early exercise is never optimal', fcase,
                              clause='no-early-exercise-equal')
        ref = float(crr_tree_val_avg(s0, rde, rfe, vol, 400, t_exp, ao.value, k)['value'])
        madd('FXVanillaOption American vs CRR(400) at t_exp /(K sigma sqrt t)', abs(am - ref) / scale)
        if abs(am - ref) > FX_TREE_TOL * scale:
            ctx.violation('FXVanillaOption American value far from the high-resolution tree value over the option life t_exp',
                          dict(fcase, tree_400_at_t_exp=ref), clause='agreement')
        ops.append(f"crravg {f2b(s0)} {f2b(rde)} {f2b(rfe)} {f2b(vol)} 100 {f2b(t_exp)} {ao.value} {f2b(k)}")
        impl.append(am)
        inputs.append(fcase)
    if drivers_ok and ops:
        try:
            model = [b2f(z) for z in run_model(ops)]
            nb = 0
            for x, m, inp in zip(impl, model, inputs):
                d = abs(x - m) / max(1e-8, abs(m), 1e-6 * inp['strike_fx'])
                madd('FXVanillaOption American:impl-vs-model crr_tree_val_avg(100, t_exp)(rel)', d)
                if not d <= 1e-9:
                    nb += 1
                    if nb <= 3:
                        ctx.broke(f'correspondence FXVanillaOption(AMERICAN): Lean model of crr_tree_val_avg(s0, r_d, r_f, vol, 100, t_exp, ...) '
                                  f'!= implementation on {inp} (model {m!r}, impl {x!r})')
        except C.DriverError as e:
            ctx.broke(f'model driver failed: {str(e)[:300]}')
    ctx.count('FXVanillaOption AMERICAN (spot_days 0..3, dates around weekends)', 3 * nfx, 3 * nfx)
    ctx.cov['fx_american_cases_with_t_del_ne_t_exp'] = n_lag
    lap('fx-american')
    # ------------------------------------------------------------------ 3h. re-use: ONE product object and ONE model object valued in market A, then in
    # market B (exactly one input changed), then in A again -- every valuation must be bit-for-bit the valuation of FRESH objects in that
    # market (the value is a function of the market it is given), and American >= European must hold on the SECOND valuation
    from financepy.products.equity.equity_vanilla_option import EquityVanillaOption
    from financepy.products.equity.equity_binomial_tree import (EquityBinomialTree as EBT_, EquityTreePayoffTypes as PT_,
                                                                 EquityTreeExerciseTypes as ET_)
    rng = ctx.rng('reuse')

    def same_bits(a, b):
        if a[0] != b[0]:
            return False
        if a[0] == 'e':
            return a[1] == b[1]
        return len(a[1]) == len(b[1]) and all(x == y or (x != x and y != y) for x, y in zip(a[1], b[1]))

    def outcome(fn):
        """('f', (every float of the result...), main value) | ('e', exception type)"""
        try:
            v = quiet(fn)
        except Exception as e:  # noqa: BLE001
            return ('e', type(e).__name__)
        if isinstance(v, dict):
            return ('f', tuple(float(v[k_]) for k_ in sorted(v) if isinstance(v[k_], (int, float, np.floating)) and not isinstance(v[k_], bool)),
                    float(v['v']))
        if isinstance(v, np.ndarray):
            return ('f', tuple(float(z) for z in v.flatten()), float(v.flatten()[0]))
        return ('f', (float(v),), float(v))

    PERT = ['spot', 'vol', 'discount-curve-only', 'dividend-or-foreign-curve-only', 'both-rates-same-shift (forward unchanged)',
            'value-date']

    def market(rng_, equal_rates):
        r = rng_.choice([0.0, 0.01, 0.03, 0.05, 0.08])
        q = r if equal_rates else rng_.choice([0.0, 0.02, 0.05, 0.08, r])
        return dict(vd=Date(13, 2, 2018).add_days(rng_.randrange(0, 5)), days=rng_.choice([30, 91, 365, 730]), r=r, q=q,
                    vol=rng_.choice([0.1, 0.2, 0.4]), mny=rng_.choice([0.7, 0.9, 1.0, 1.04, 1.3, 1.8]))

    def perturb(m, kind, rng_):
        b = dict(m)
        if kind == 'spot':
            b['mny'] = m['mny'] * rng_.choice([0.9, 1.03, 1.25])
        elif kind == 'vol':
            b['vol'] = m['vol'] * rng_.choice([0.5, 1.5])
        elif kind == 'discount-curve-only':
            b['r'] = m['r'] + rng_.choice([0.02, 0.05]) if m['r'] < 0.05 else m['r'] - rng_.choice([0.02, 0.05])
        elif kind == 'dividend-or-foreign-curve-only':
            b['q'] = m['q'] + rng_.choice([0.02, 0.05]) if m['q'] < 0.05 else m['q'] - rng_.choice([0.02, 0.05])
        elif kind.startswith('both-rates'):
            lo = min(m['r'], m['q'])
            d_ = rng_.choice([-lo, 0.02, 0.04]) if lo > 0 else rng_.choice([0.02, 0.04, 0.08])
            b['r'], b['q'] = m['r'] + d_, m['q'] + d_
        else:
            b['vd'] = m['vd'].add_days(rng_.choice([1, 7, 20]))
            b['days'] = m['days'] - (b['vd'] - m['vd'])
        return b

    # product kinds: (name, builder of (valuer(market, model_or_None) -> callable, european valuer or None, model factory or None, tol for am >= eu))
    BS_AMER = [(T.CRR_TREE, {}), (T.DEFAULT, {}), (T.BARONE_ADESI, {}), (T.Bjerksund_Stensland, {}), (T.LSMC, {'num_paths': 2000}),
               (T.FINITE_DIFFERENCE, {'params': {'num_samples': 300}}), (T.PSOR, {'params': {'num_samples': 200, 'num_time_steps': 60}})]
    n_reuse = 0
    n_reuse_hist = 0
    reuse_out = {}
    nru = 48 if ctx.quick() else 600
    for i in range(nru):
        kindp = ['FXVanillaOption', 'EquityAmericanOption', 'BlackScholes.value', 'EquityBinomialTree', 'EquityVanillaOption'][i % 5]
        # deterministic schedule per product kind: the forward-preserving shift with r = q (the forward is then bit-identical) comes first
        sched = [(4, True), (2, False), (0, False), (4, False), (3, False), (1, False), (5, False), (4, True), (2, True)]
        pi_, eq_ = sched[(i // 5) % len(sched)]
        pert = PERT[pi_]
        mA = market(rng, equal_rates=eq_)
        mB = perturb(mA, pert, rng)
        call = rng.random() < 0.5
        ao, eo = (O.AMERICAN_CALL, O.EUROPEAN_CALL) if call else (O.AMERICAN_PUT, O.EUROPEAN_PUT)
        if kindp == 'EquityVanillaOption' and (i // 5) % 2 == 0:
            ao = eo         # the class rejects American types with a FinError (also compared); European types half of the time
        K = 100.0 if kindp != 'FXVanillaOption' else 1.25
        expiry = mA['vd'].add_days(mA['days'])
        bt, kw = BS_AMER[(i // 5) % len(BS_AMER)]
        if bt == T.BARONE_ADESI:
            mA['r'], mB['r'] = max(mA['r'], 0.01), max(mB['r'], 0.01)     # r = 0 divides by zero (known finding, section 4)

        def mk_model(vol_, bt_=bt, kw_=kw):
            return BlackScholes(vol_, bt_, **{k_: (dict(v_) if isinstance(v_, dict) else v_) for k_, v_ in kw_.items()}) \
                if kindp in ('EquityAmericanOption', 'BlackScholes.value', 'EquityVanillaOption') else BlackScholes(vol_)

        def mk_product(ot):
            if kindp == 'FXVanillaOption':
                return FXVanillaOption(expiry, K, 'EURUSD', ot, 1.0e6, 'USD', rng_spot_days)
            if kindp == 'EquityAmericanOption':
                return EquityAmericanOption(expiry, K, ot)
            if kindp == 'EquityVanillaOption':
                return EquityVanillaOption(expiry, K, ot)
            if kindp == 'EquityBinomialTree':
                return EBT_()
            return None
        rng_spot_days = rng.choice([0, 2])
        ebt_steps = rng.choice([20, 50, 101])

        def valuer(prod, model, m, ot):
            S_ = K * m['mny']
            t_ = (expiry - m['vd']) / 365.0
            if kindp == 'BlackScholes.value':
                return lambda: model.value(S_, t_, K, m['r'], m['q'], ot)
            dc, qc = DiscountCurveFlat(m['vd'], m['r']), DiscountCurveFlat(m['vd'], m['q'])
            if kindp == 'EquityBinomialTree':
                prm = np.array([1.0 if call else -1.0, K])
                ex_ = ET_.AMERICAN if ot in (O.AMERICAN_CALL, O.AMERICAN_PUT) else ET_.EUROPEAN
                return lambda: prod.value(S_, dc, qc, m['vol'], ebt_steps, m['vd'], PT_.VANILLA_OPTION, expiry, PT_.VANILLA_OPTION, ex_, prm)
            return lambda: prod.value(m['vd'], S_, dc, qc, model)
        # a model object carries the volatility: when the volatility is the changed input the SAME product is valued with a second model
        prod = mk_product(ao)
        model_A = mk_model(mA['vol'])
        model_B = model_A if mB['vol'] == mA['vol'] else mk_model(mB['vol'])
        seq = [('A', mA, model_A), ('B', mB, model_B), ('A again', mA, model_A)]
        history = []
        for step_i, (lab, m, mod) in enumerate(seq):
            got = outcome(valuer(prod, mod, m, ao))
            fresh = outcome(valuer(mk_product(ao), mk_model(m['vol']), m, ao))
            n_reuse += 1
            key_ = f"{kindp}/{bt.name if kindp in ('EquityAmericanOption', 'BlackScholes.value', 'EquityVanillaOption') else '-'}"
            reuse_out.setdefault(key_, {'value': 0, 'error': 0})['value' if got[0] == 'f' else 'error'] += 1
            desc = dict(product=kindp, model=bt.name if kindp in ('EquityAmericanOption', 'BlackScholes.value', 'EquityVanillaOption') else 'BlackScholes',
                        model_args=kw, side='call' if call else 'put', strike=K, expiry=str(expiry), spot_days=rng_spot_days if kindp == 'FXVanillaOption' else None,
                        num_steps=ebt_steps if kindp == 'EquityBinomialTree' else None, changed_input=pert,
                        history=[dict(step=h_[0], value_dt=str(h_[1]['vd']), spot=K * h_[1]['mny'], r=h_[1]['r'], q=h_[1]['q'], vol=h_[1]['vol']) for h_ in history],
                        this_valuation=dict(step=lab, value_dt=str(m['vd']), spot=K * m['mny'], r=m['r'], q=m['q'], vol=m['vol']),
                        reused_objects=got, fresh_objects=fresh)
            if not same_bits(got, fresh):
                n_reuse_hist += 1
                ctx.violation(f'{kindp}: the value in a market depends on what the same object was asked before (step {lab!r} after {len(history)} valuation(s); '
                              f'changed input: {pert})', desc, clause='agreement')
            history.append((lab, m))
            if step_i == 1 and got[0] == 'f' and kindp != 'EquityVanillaOption':
                # American >= European on the SECOND valuation (schemes whose dominance is an oracle of this check; BAW / BjS / LSMC have findings)
                x = got[2]
                t_ = (expiry - m['vd']) / 365.0
                an_ = float(bs_value(K * m['mny'], t_, K, m['r'], m['q'], m['vol'], 1 if call else 2))
                scale_ = K * m['vol'] * math.sqrt(max(t_, 1e-12))
                if kindp == 'FXVanillaOption':
                    tol_ = FX_TREE_TOL * scale_
                elif kindp == 'EquityBinomialTree' or bt in (T.CRR_TREE, T.DEFAULT):
                    tol_ = max(CRR52_EURO * K, 0.5 * scale_ / (ebt_steps if kindp == 'EquityBinomialTree' else 52))
                elif bt in (T.FINITE_DIFFERENCE, T.PSOR) and kindp != 'EquityBinomialTree':
                    tol_ = max(FD_TRUNC_EURO, 1e-3) * K
                else:
                    tol_ = None
                if tol_ is not None and x < an_ - tol_:
                    ctx.violation(f'{kindp}: American value below the European value on the second valuation of a re-used object',
                                  dict(desc, american=x, european=an_), clause='american-ge-european')
    ctx.count('re-use of one product / model object in two markets (6 changed inputs x 5 product kinds x model types)', n_reuse, n_reuse)
    ctx.cov['reuse_history_dependent'] = n_reuse_hist
    ctx.cov['reuse_outcomes'] = reuse_out
    lap('reuse')

    # ------------------------------------------------------------------ 3d. FD resolution / scheme parameters accepted by the model object
    rng = ctx.rng('fd-params')
    nfp = 30 if ctx.quick() else 400
    for i in range(nfp):
        c = gen_case(rng)
        c['vol'] = max(c['vol'], 0.1)
        if rng.random() < 0.6:
            c['r'] = max(c['r'], 0.03)          # the discount term matters
        theta = [0.5, 0.75, 1.0][i % 3]
        params = {'theta': theta}
        if rng.random() < 0.4:
            params['smooth'] = True
        if rng.random() < 0.3:
            params['num_std'] = 6
        if rng.random() < 0.3:
            params['num_time_steps'] = 1500
        trunc = abs(c['r'] - c['q']) * c['t'] > c['vol'] * math.sqrt(c['t'])
        for call in (True, False):
            eo = O.EUROPEAN_CALL if call else O.EUROPEAN_PUT
            an = euro(c, call)
            case = dict(c, side='call' if call else 'put', scheme='FINITE_DIFFERENCE', params=params)
            e = price(T.FINITE_DIFFERENCE, c, eo, params=dict(params))
            if e[0] != 'f' or math.isnan(e[1]):
                ctx.violation('FD returned no value for accepted parameters', dict(case, got=e), clause='returns-value')
                continue
            err = abs(e[1] - an) / c['K']
            madd(f'FD theta={theta}:european-err/K' + (' (truncation regime)' if trunc else '') + (' smooth' if params.get('smooth') else ''), err)
            if params.get('smooth') and not trunc and theta == 0.5:
                madd('FD smooth=True theta=0.5: err / (K h^2)', err / (smooth_bound(params, c) / SMOOTH_H2))
            tol_base = max(FD_THETA_EURO[theta], FD_TRUNC_EURO if trunc else 0.0)
            tol = max(tol_base, smooth_bound(params, c))
            if err > tol:
                ctx.violation(f'FD (theta={theta}) European value is {err:.2e} K from the analytic price (bound {tol:g})',
                              dict(case, scheme_value=e[1], analytic=an), clause='european-converges')
            if i % 5 == 0:
                p2 = dict(params, num_samples=500)
                p2.pop('num_time_steps', None)
                e5 = price(T.FINITE_DIFFERENCE, c, eo, params=p2)
                if e5[0] == 'f':
                    err5 = abs(e5[1] - an) / c['K']
                    madd(f'FD500 theta={theta}:european-err/K', err5)
                    if err5 > max(8.0 * tol_base, FD500_EURO, smooth_bound(p2, c)):
                        ctx.violation(f'FD (theta={theta}, 500 nodes) European error above its bound', dict(case, err=err5),
                                      clause='european-converges')
            if call and c['q'] == 0.0 and i % 2 == 0:
                a = price(T.FINITE_DIFFERENCE, c, O.AMERICAN_CALL, params=dict(params))
                if a[0] == 'f' and abs(a[1] - an) / c['K'] > tol + DOM_TOL_FD:
                    ctx.violation(f'FD (theta={theta}) American call without dividends != European',
                                  dict(case, american=a[1], european=an), clause='no-early-exercise-equal')
    ctx.count('FINITE_DIFFERENCE scheme parameters (theta, smooth, num_std, num_time_steps)', 2 * nfp, 2 * nfp)
    lap('fd-params')
    # ------------------------------------------------------------------ 3g. PSOR scheme / resolution parameters accepted by the model object
    rng = ctx.rng('psor-params')
    npp = 36 if ctx.quick() else 400
    for i in range(npp):
        if i == 0:      # witness of known finding C12/psor-theta-one-valueerror, replayed first on every run
            c = dict(S=100.0, t=1.0, K=105.0, r=0.05, q=0.02, vol=0.25)
            theta = 1.0
        else:
            c = gen_case(rng)
            c['vol'] = max(c['vol'], 0.1)
            if rng.random() < 0.6:
                c['r'] = max(c['r'], 0.03)
            theta = [0.5, 0.6, 0.75, 0.9, 1.0][i % 5] if i % 11 else 1.0
        params = {'theta': theta, 'num_samples': rng.choice([400, 400, 600])}
        if rng.random() < 0.5:
            params['num_time_steps'] = rng.choice([200, 300])
        if rng.random() < 0.3:
            params['num_std'] = 6
        if rng.random() < 0.3:
            params['smooth'] = True
        trunc = abs(c['r'] - c['q']) * c['t'] > c['vol'] * math.sqrt(c['t'])
        for call in (True, False):
            eo, ao = (O.EUROPEAN_CALL, O.AMERICAN_CALL) if call else (O.EUROPEAN_PUT, O.AMERICAN_PUT)
            an = euro(c, call)
            case = dict(c, side='call' if call else 'put', scheme='PSOR', params=dict(params))
            e = price(T.PSOR, c, eo, params=dict(params))
            if theta == 1.0:
                if e[0] == 'e':
                    ctx.violation(f'PSOR raised {e[1]} for theta = 1 (fully implicit), which FINITE_DIFFERENCE accepts', dict(case, error=e[1]),
                                  finding='C12/psor-theta-one-valueerror' if e[1] == 'ValueError' else None, clause='returns-value')
                    continue
            if e[0] != 'f' or math.isnan(e[1]):
                ctx.violation('PSOR returned no value for accepted parameters', dict(case, got=e), clause='returns-value')
                continue
            err = abs(e[1] - an) / c['K']
            # time error of the theta scheme is O((theta - 1/2) dt): the bound is stated at 200 steps and scaled for fewer
            nsteps = params.get('num_time_steps') or (params['num_samples'] + 1) // 4
            tol0 = PSOR_THETA_EURO.get(theta, 9e-4) * (max(1.0, 200.0 / nsteps) if theta != 0.5 else 1.0)
            madd(f'PSOR theta={theta}:european-err/K x min(1, steps/200)' + (' (truncation regime)' if trunc else ''),
                 err * (min(1.0, nsteps / 200.0) if theta != 0.5 else 1.0))
            tol = max(tol0, FD_TRUNC_EURO if trunc else 0.0, smooth_bound(params, c))
            if err > tol:
                ctx.violation(f'PSOR (theta={theta}) European value is {err:.2e} K from the analytic price (bound {tol:g})',
                              dict(case, scheme_value=e[1], analytic=an), clause='european-converges')
            if i % 2 == 0:
                # same resolution for both pricers (their DEFAULT step counts differ: num_samples // 4 vs // 2)
                params_a = dict(params, num_time_steps=nsteps)
                a = price(T.PSOR, c, ao, params=dict(params_a))
                f = price(T.FINITE_DIFFERENCE, c, ao, params=dict(params_a))
                if a[0] != 'f' or math.isnan(a[1]):
                    ctx.violation('PSOR returned no value for an American option', dict(case, got=a), clause='returns-value')
                    continue
                if a[1] < e[1] - DOM_TOL_FD * c['K'] or a[1] < intrinsic(c, call) - DOM_TOL_FD * c['K']:
                    ctx.violation(f'PSOR (theta={theta}) American value below its European value / intrinsic',
                                  dict(case, american=a[1], european=e[1], intrinsic=intrinsic(c, call)), clause='american-ge-european')
                if f[0] == 'f':
                    d = abs(a[1] - f[1]) / c['K']
                    madd(f'PSOR-vs-FD american |diff|/K theta={theta}', d)
                    if d > PSOR_FD_AGREE:
                        ctx.violation(f'PSOR and FINITE_DIFFERENCE American values disagree at the same parameters (theta={theta})',
                                      dict(case, psor=a[1], fd=f[1]), clause='agreement')
                if i % 4 == 0:
                    tr = price(T.CRR_TREE, c, ao, num_steps_per_year=200)
                    if tr[0] == 'f':
                        d = abs(a[1] - tr[1]) / c['K']
                        madd('PSOR-vs-CRR200 american |diff|/K', d)
                        if d > max(2.0 * AGREE_TOL_200, tol):
                            ctx.violation(f'PSOR (theta={theta}) and CRR(200) American values disagree', dict(case, psor=a[1], crr=tr[1]),
                                          clause='agreement')
    ctx.count('PSOR scheme parameters (theta, num_samples, num_time_steps, num_std, smooth)', 2 * npp, 2 * npp)
    lap('psor-params')

    # ------------------------------------------------------------------ 3e. EquityBinomialTree: every payoff x exercise type, deep ITM/OTM
    from financepy.products.equity.equity_binomial_tree import (EquityBinomialTree, EquityTreePayoffTypes as PT,
                                                                 EquityTreeExerciseTypes as ET, _value_once)
    rng = ctx.rng('ebt')
    tree = EquityBinomialTree()
    nebt = 40 if ctx.quick() else 500
    ops, impl, inputs = [], [], []

    def pay(pt, prm, s_):
        if pt == PT.FWD_CONTRACT:
            return prm[0] * s_
        if pt == PT.VANILLA_OPTION:
            return max(prm[0] * (s_ - prm[1]), 0.0)
        if pt == PT.DIGITAL_OPTION:
            return 1.0 if prm[0] * (s_ - prm[1]) >= 0 else 0.0
        if pt == PT.POWER_CONTRACT:
            return prm[0] * s_ ** prm[1]
        if pt == PT.POWER_OPTION:
            return max(prm[0] * (s_ ** prm[2] - prm[1]), 0.0)
        if pt == PT.LOG_CONTRACT:
            return math.log(s_)
        return max(math.log(s_) - prm[0], 0.0)
    for i in range(nebt):
        K = 100.0
        S = K * rng.choice([0.3, 0.5, 0.7, 0.9, 1.0, 1.1, 1.5, 2.5, rng.uniform(0.3, 3.0)])
        r = rng.choice([0.0, 0.01, 0.06, 0.1, -0.02])
        q = rng.choice([0.0, 0.02, 0.08, r])
        vol = rng.choice([0.1, 0.2, 0.4])
        years = rng.choice([1, 2])
        expiry_dt = Date(1, 1, 2016 + years)
        vdt = Date(1, 1, 2016)
        nsteps = rng.choice([10, 50, 100, 200])
        disc = DiscountCurveFlat(vdt, r)
        divs = DiscountCurveFlat(vdt, q)
        t = (expiry_dt - vdt) / 365.0
        r_eff = float(disc.zero_rate(expiry_dt))
        q_eff = float(-np.log(divs.df(expiry_dt)) / t)
        sign = rng.choice([1.0, -1.0])
        for pt, prm in [(PT.VANILLA_OPTION, [sign, K]), (PT.FWD_CONTRACT, [sign * 2.0]), (PT.DIGITAL_OPTION, [sign, K]),
                        (PT.POWER_CONTRACT, [sign, rng.choice([0.5, 2.0])]), (PT.POWER_OPTION, [sign, K * K, 2.0]),
                        (PT.LOG_CONTRACT, []), (PT.LOG_OPTION, [math.log(K)])]:
            prm_a = np.array(prm, dtype=float)
            case = dict(product='EquityBinomialTree', payoff=pt.name, params=prm, S=S, K=K, r=r, q=q, vol=vol, years=years,
                        num_steps=nsteps)
            try:
                am = float(quiet(tree.value, S, disc, divs, vol, nsteps, vdt, pt, expiry_dt, pt, ET.AMERICAN, prm_a)[0])
                eu = float(quiet(tree.value, S, disc, divs, vol, nsteps, vdt, pt, expiry_dt, pt, ET.EUROPEAN, prm_a)[0])
            except Exception as e:  # noqa: BLE001
                ctx.violation(f'EquityBinomialTree.value raised {type(e).__name__}', case, clause='returns-value')
                continue
            now = pay(pt, prm, S)
            scale = max(K, abs(now), abs(eu)) if pt not in (PT.DIGITAL_OPTION, PT.LOG_CONTRACT, PT.LOG_OPTION) else 1.0
            inside = abs(r_eff - q_eff) * math.sqrt(t / nsteps) <= vol
            if inside and am < now - 1e-10 * scale:
                ctx.violation('EquityBinomialTree American value below the immediate exercise value',
                              dict(case, american=am, exercise_now=now), clause='american-ge-intrinsic')
            if inside and am < eu - 1e-10 * scale:
                ctx.violation('EquityBinomialTree American value below its European value', dict(case, american=am, european=eu),
                              clause='american-ge-european')
            if pt == PT.VANILLA_OPTION and nsteps >= 50:
                an = float(bs_value(S, t, K, r_eff, q_eff, vol, 1 if sign > 0 else 2))
                err = abs(eu - an) / K
                madd('EquityBinomialTree vanilla european-err/K (n>=50)', err)
                if err > EBT_EURO:
                    ctx.violation('EquityBinomialTree European vanilla value far from the analytic price',
                                  dict(case, tree=eu, analytic=an), clause='european-converges')
            if pt == PT.FWD_CONTRACT and inside:
                exact = prm[0] * S * math.exp(-q_eff * t)
                madd('EquityBinomialTree forward contract rel err', abs(eu - exact) / abs(exact))
                if abs(eu - exact) > 1e-9 * abs(exact):
                    ctx.violation('EquityBinomialTree European forward contract != a S exp(-qT)', dict(case, tree=eu, exact=exact),
                                  clause='european-converges')
        # _value_once (vanilla) against the Lean lattice model: exact step count n (parity flag chosen so that n is kept)
        n1 = max(3, rng.choice([3, 4, 5, 10, 21, 50, 51]))
        ex = rng.choice([ET.EUROPEAN, ET.AMERICAN])
        x = float(_value_once(S, r, q, vol, n1, t, PT.VANILLA_OPTION, ex, np.array([sign, K]))[0])
        ty = (1 if sign > 0 else 2) + (2 if ex == ET.AMERICAN else 0)
        ops.append(f"crr {f2b(S)} {f2b(r)} {f2b(q)} {f2b(vol)} {n1} {f2b(t)} {ty} {f2b(K)} {1 if n1 % 2 == 0 else 0}")
        impl.append(x)
        inputs.append(dict(function='_value_once', S=S, K=K, r=r, q=q, vol=vol, t=t, num_steps=n1, sign=sign, exercise=ex.name))
    if drivers_ok and ops:
        try:
            model = [b2f(z) for z in run_model(ops)]
            nb = 0
            for x, m, inp in zip(impl, model, inputs):
                d = abs(x - m) / max(1e-8, abs(m), 1e-6 * inp['K'])
                madd('EquityBinomialTree._value_once:impl-vs-model(rel)', d)
                if not d <= 1e-9:
                    nb += 1
                    if nb <= 3:
                        ctx.broke(f'correspondence EquityBinomialTree._value_once: Lean model != implementation on {inp} (model {m!r}, impl {x!r})')
        except C.DriverError as e:
            ctx.broke(f'model driver failed: {str(e)[:300]}')
    ctx.count('EquityBinomialTree (7 payoffs x 2 exercise types)', 14 * nebt + len(ops), 14 * nebt + len(ops))
    lap('ebt')

    # ------------------------------------------------------------------ 4. BAW / Bjerksund-Stensland
    rng = ctx.rng('approx')
    nap = 900 if ctx.quick() else 9000
    for i in range(nap):
        c = gen_case(rng)
        for call in (True, False):
            ao = O.AMERICAN_CALL if call else O.AMERICAN_PUT
            an = euro(c, call)
            intr = intrinsic(c, call)
            tree = None
            for scheme, bt in (('BARONE_ADESI', T.BARONE_ADESI), ('Bjerksund_Stensland', T.Bjerksund_Stensland)):
                case = dict(c, side='call' if call else 'put', scheme=scheme)
                a = price(bt, c, ao)
                fid = None
                if scheme == 'Bjerksund_Stensland':
                    # known finding: the routine treats its `q` argument as the cost of carry b
                    ref, ref_scale = bjs_q_is_carry(c['S'], c['t'], c['K'], c['r'], c['q'], c['vol'], call, with_scale=True) if a[0] == 'f' else (None, 0.0)
                    # same formula, other rounding: 1e-7 relative plus the forward rounding error of the cancelling terms
                    # (BJS_ROUND eps x sum of their magnitudes); NaN / inf of the scale (overflow at sigma = 5 %) adds nothing
                    rnd = BJS_ROUND * 2.220446049250313e-16 * ref_scale if (ref_scale == ref_scale and not math.isinf(ref_scale)) else 0.0
                    same = a[0] == 'f' and ((math.isnan(a[1]) and math.isnan(ref)) or abs(a[1] - ref) <= 1e-7 * max(1.0, abs(ref)) + rnd
                                            or (math.isinf(ref) and a[1] == ref))
                    if a[0] == 'f' and rnd > 0 and not math.isnan(a[1]) and not math.isnan(ref) and abs(a[1] - ref) > 1e-7 * max(1.0, abs(ref)):
                        # measured only where the relative criterion alone does not recognise the formula (ill-conditioned cases)
                        madd('Bjerksund_Stensland ill-conditioned: |value - (b := q) reference| / (eps x sum of term magnitudes)',
                             abs(a[1] - ref) / (2.220446049250313e-16 * ref_scale))
                    if a[0] == 'e' and a[1] == 'ZeroDivisionError':
                        same = True     # beta == 1 in the mis-parameterised formula: b_infty = k*beta/(beta-1)
                    fid = 'C12/bjerksund-q-is-carry' if same else None
                if a[0] == 'e':
                    if a[1] == 'FinError':
                        continue        # failure reported (critical-price search did not converge)
                    if scheme == 'BARONE_ADESI' and a[1] == 'ZeroDivisionError' and c['r'] == 0.0:
                        fid = 'C12/baw-zero-rate-division'
                    ctx.violation(f'{scheme} raised {a[1]} instead of returning a value or a FinError', dict(case, error=a[1]),
                                  finding=fid, clause='returns-value')
                    continue
                x = a[1]
                if math.isnan(x) or math.isinf(x):
                    ctx.violation(f'{scheme} returned a non-finite value', dict(case, value=x), finding=fid, clause='returns-value')
                    continue
                baw_put = scheme == 'BARONE_ADESI' and (not call)
                mech = None

                def put_mech():
                    # known findings of the BAW put are excused by MECHANISM, not by magnitude: the code's number must be the BAW
                    # formula at the root of the as-coded `_fput` (C12/baw-fput-wrong-residual) and the same formula with the
                    # correct critical price must satisfy the oracle that the code's value violates
                    nonlocal mech
                    if mech is None:
                        mech = baw_put_mechanism(c, x)
                    return mech
                if x < an - 2e-6 * c['K']:
                    f_ = fid
                    if baw_put and put_mech()['reproduces'] and put_mech()['ref'] is not None and put_mech()['ref'] >= an - 2e-6 * c['K']:
                        f_ = 'C12/baw-put-below-intrinsic'
                    ctx.violation(f'{scheme} American value below the European value',
                                  dict(case, american=x, european=an, **({'mechanism': put_mech()} if baw_put else {})),
                                  finding=f_, clause='american-ge-european')
                if x < intr - 1e-6 * c['K']:
                    f_ = fid
                    if baw_put and put_mech()['reproduces'] and put_mech()['ref'] is not None and put_mech()['ref'] >= intr - 1e-6 * c['K']:
                        f_ = 'C12/baw-put-below-intrinsic'
                    ctx.violation(f'{scheme} American value below intrinsic',
                                  dict(case, american=x, intrinsic=intr, **({'mechanism': put_mech()} if baw_put else {})),
                                  finding=f_, clause='american-ge-intrinsic')
                if no_early_exercise(c, call):
                    d = abs(x - an) / c['K']
                    if d > 1e-5:
                        ctx.violation(f'{scheme} American != European although early exercise is never optimal',
                                      dict(case, american=x, european=an), finding=fid, clause='no-early-exercise-equal')
                if c['r'] > 0 and c['t'] <= 1.0 and c['vol'] <= 0.5 and i % 3 == 0:
                    if tree is None:
                        tree = price(T.CRR_TREE, c, ao, num_steps_per_year=400)
                    if tree[0] == 'f':
                        d = abs(x - tree[1]) / c['K']
                        if fid is None and d > APPROX_TOL and baw_put:
                            # Is it the critical price (root of the as-coded `_fput`, C12/baw-fput-wrong-residual) rather than the
                            # approximation?  The code's number must be reproduced with that root, and the BAW put with S* solved
                            # by a bracketing root finder must agree with the tree.
                            m_ = put_mech()
                            ref = m_['ref']
                            if m_['reproduces'] and ref is not None and abs(ref - tree[1]) / c['K'] <= APPROX_TOL and abs(x - ref) / c['K'] > 1e-4:
                                fid = 'C12/baw-put-below-intrinsic' if x < intr - 1e-6 * c['K'] else 'C12/baw-put-critical-price-wrong'
                                case = dict(case, baw_with_bracketed_critical_price=ref, mechanism=m_)
                        if fid is None and not (baw_put and x < intr - 1e-6 * c['K']):
                            madd(f'{scheme}:|approx-CRR400|/K in validity domain', d)
                        if d > APPROX_TOL:
                            ctx.violation(f'{scheme} is {d:.2e} K away from the CRR(400) American value inside its validity domain',
                                          dict(case, approx=x, tree=tree[1]), finding=fid, clause='agreement')
    ctx.count('BARONE_ADESI / Bjerksund_Stensland', 4 * nap, 4 * nap)

    lap('approx')
    # ------------------------------------------------------------------ 4b. generated closed-form parts of BAW (Gen/BAWF.lean) vs the code
    from financepy.models.black_scholes_analytic import baw_value, _fcall, _fput
    from financepy.utils.solver_1d import newton_secant
    from financepy.utils.math import n_vect
    rng = ctx.rng('baw-model')

    def fput_as_compiled(si, t, k, r, q, v):
        """what the Numba-compiled `_fput` evaluates: the `bs_value(..., -1)` term contributes 0 (the FinError is swallowed)
        and q1 is built with 4 K (K = 1 - exp(-r t)) where baw_value has 4 M / K.  Used ONLY to characterise known finding
        C12/baw-fput-wrong-residual."""
        b = r - q
        v2 = v * v
        W = 2.0 * b / v2
        Kk = 1.0 - np.exp(-r * t)
        q1 = (1.0 - W - np.sqrt((W - 1.0) ** 2 + 4.0 * Kk)) / 2.0
        d1 = (np.log(si / k) + (b + v2 / 2.0) * t) / (v * np.sqrt(t))
        return float(si - k - 0.0 - (1.0 - np.exp(-q * t) * n_vect(-d1)) * si / q1)
    ops, impl, inputs = [], [], []
    nbm = 150 if ctx.quick() else 2000
    for i in range(nbm):
        c = gen_case(rng)
        if c['r'] == 0.0:
            c['r'] = 0.02       # r = 0 divides by zero (known finding C12/baw-zero-rate-division, section 4)
        S, t, K, r, q, v = c['S'], c['t'], c['K'], c['r'], c['q'], c['vol']
        si = K * rng.uniform(0.4, 2.5)
        for nm, fn in (('fcall', _fcall), ('fput', _fput)):
            try:
                x = float(fn(si, t, K, r, q, v))
            except Exception as e:  # noqa: BLE001
                x = type(e).__name__
            ops.append(f'{nm} {f2b(si)} {f2b(t)} {f2b(K)} {f2b(r)} {f2b(q)} {f2b(v)}')
            impl.append(x)
            inputs.append(dict(function='_' + nm, si=si, t=t, K=K, r=r, q=q, vol=v))
        for phi in (1, -1):
            try:
                x = float(baw_value(S, t, K, r, q, v, phi))
                ss = S if (phi == 1 and q <= 0.0) else float(newton_secant(_fcall if phi == 1 else _fput, x0=S, args=(t, K, r, q, v),
                                                                           tol=1e-7, maxiter=50))
            except Exception:  # noqa: BLE001   (non-convergence is reported by the code; section 4 handles it)
                continue
            ops.append(f'baw {f2b(S)} {f2b(t)} {f2b(K)} {f2b(r)} {f2b(q)} {f2b(v)} {phi} {f2b(ss)}')
            impl.append(x)
            inputs.append(dict(function='baw_value', S=S, t=t, K=K, r=r, q=q, vol=v, phi=phi, sstar_from_newton_secant=ss))
    if drivers_ok:
        try:
            outs = run_model(ops)
            nb = 0
            for o, x, inp in zip(outs, impl, inputs):
                bad = None
                if o.startswith('E:'):
                    if inp['function'] == '_fput' and o == 'E:FinError' and isinstance(x, float):
                        # the model (Python semantics, theorem fput_always_raises) raises; the compiled function returns a number
                        ref = fput_as_compiled(inp['si'], inp['t'], inp['K'], inp['r'], inp['q'], inp['vol'])
                        same = abs(x - ref) <= 1e-9 * max(1.0, abs(ref)) or (math.isnan(x) and math.isnan(ref))
                        ctx.violation('_fput (critical-price equation of the BAW put) calls bs_value with option type -1: FinError in Python, '
                                      'silently 0 when compiled; the returned residual is not the BAW residual',
                                      dict(inp, compiled_value=x, as_compiled_formula=ref),
                                      finding='C12/baw-fput-wrong-residual' if same else None, clause='returns-value')
                        continue
                    if not (isinstance(x, str) and o == 'E:' + x):
                        bad = f'model {o}, impl {x!r}'
                elif o == 'bad-op' or isinstance(x, str):
                    bad = f'model {o[:30]}, impl {x!r}'
                else:
                    m = b2f(o)
                    d = abs(m - x) / max(1e-8, abs(x), 1e-6 * inp['K'])
                    madd(f"{inp['function']}:impl-vs-generated-model(rel)", d)
                    if not (d <= 1e-9 or (math.isnan(m) and math.isnan(x))):
                        bad = f'model {m!r}, impl {x!r}'
                if bad:
                    nb += 1
                    if nb <= 3:
                        ctx.broke(f"correspondence {inp['function']}: generated model != implementation on {inp}: {bad}")
        except C.DriverError as e:
            ctx.broke(f'model driver failed: {str(e)[:300]}')
    ctx.count('_fcall / _fput / baw_value (given S*) vs the generated model', len(ops), len(ops),
              sample={'input': inputs[-1], 'impl': impl[-1]})
    lap('baw-model')
    # ------------------------------------------------------------------ 5. LSMC (seeded, loose)
    rng = ctx.rng('lsmc')
    nls = 10 if ctx.quick() else 100
    for i in range(nls + 1):
        if i == 0:      # witness of C12/lsmc-no-exercise-at-t0 (3.3 % K below intrinsic), replayed first on every run
            c = dict(S=220.50300833232214, t=1.0, K=100.0, r=0.05, q=0.08, vol=0.5)
            call = True
        else:
            c = gen_case(rng)
            c['vol'] = max(c['vol'], 0.1)
            call = rng.random() < 0.4
        ao = O.AMERICAN_CALL if call else O.AMERICAN_PUT
        case = dict(c, side='call' if call else 'put', scheme='LSMC', num_paths=10000, seed=42)
        a = price(T.LSMC, c, ao)
        tr = price(T.CRR_TREE, c, ao, num_steps_per_year=200)
        if a[0] != 'f' or math.isnan(a[1]):
            ctx.violation('LSMC returned no value for an American option', dict(case, got=a), clause='returns-value')
            continue
        d = abs(a[1] - tr[1]) / c['K']
        intr = intrinsic(c, call)
        ltol = LSMC_TOL * max(1.0, c['vol'] * math.sqrt(c['t']) * 2)
        below = a[1] < intr - 1e-9 * c['K']
        mech = None
        if below or d > ltol:
            # known finding C12/lsmc-no-exercise-at-t0, by mechanism: the code's number must be reproduced by the line-by-line replica of
            # equity_lsmc, and the replica WITH the missing comparison at time index 0 must satisfy the oracle that is violated
            try:
                rep, rep_fix = lsmc_replica(c, call), lsmc_replica(c, call, fix_t0=True)
                mech = dict(replica=rep, replica_with_t0_exercise=rep_fix, reproduces=abs(rep - a[1]) <= 1e-9 * max(1.0, abs(a[1])))
            except Exception as e:  # noqa: BLE001
                mech = dict(reproduces=False, error=type(e).__name__)
        if not (below and d > ltol):
            madd('LSMC-vs-CRR200 american |diff|/K', d)
        if d > ltol:
            ok = bool(mech and mech['reproduces'] and below and abs(mech['replica_with_t0_exercise'] - tr[1]) / c['K'] <= ltol)
            ctx.violation('LSMC American value far from the tree value', dict(case, lsmc=a[1], tree=tr[1], mechanism=mech),
                          finding='C12/lsmc-no-exercise-at-t0' if ok else None, clause='agreement')
        if below:
            ok = bool(mech and mech['reproduces'] and mech['replica_with_t0_exercise'] >= intr - 1e-9 * c['K'])
            ctx.violation('LSMC American value below intrinsic', dict(case, lsmc=a[1], intrinsic=intr, mechanism=mech),
                          finding='C12/lsmc-no-exercise-at-t0' if ok else None, clause='american-ge-intrinsic')
    # European through LSMC
    c = gen_case(rng)
    e = price(T.LSMC, c, O.EUROPEAN_PUT)
    if e[0] == 'e' and e[1] != 'FinError':
        ctx.violation(f'BlackScholes(LSMC).value raises {e[1]} for a European option (fit_type is None) instead of a value or a FinError',
                      dict(c, side='put', scheme='LSMC', error=e[1]),
                      finding='C12/lsmc-european-attribute-error' if e[1] == 'AttributeError' else None, clause='returns-value')
    elif e[0] == 'f':
        an = euro(c, False)
        if abs(e[1] - an) / c['K'] > LSMC_TOL:
            ctx.violation('LSMC European value far from the analytic price', dict(c, lsmc=e[1], analytic=an), clause='european-converges')
    ctx.count('LSMC', nls + 2, nls + 2)

    lap('lsmc')
    # ------------------------------------------------------------------ 6. enum coverage: unsupported combinations are reported
    c = gen_case(ctx.rng('enum'))
    for bt in T:
        for ot in (O.EUROPEAN_CALL, O.AMERICAN_PUT):
            if bt in (T.LSMC, T.PSOR, T.FINITE_DIFFERENCE):
                continue
            a = price(bt, c, ot)
            if a[0] == 'e' and a[1] not in ('FinError',) and not (bt == T.BARONE_ADESI and c['r'] == 0.0):
                ctx.violation(f'BlackScholes({bt.name}).value({ot.name}) raises {a[1]}', dict(c, scheme=bt.name, option=ot.name),
                              clause='returns-value')
    ctx.count('enum x option-type dispatch', 2 * len(list(T)))

    ctx.cov['measured_max'] = {k: float(f'{v:.3e}') for k, v in sorted(meas.items())}
    ctx.assumptions += [
        'PARTIAL: convergence of CRR / FD / PSOR / LSMC to the analytic price and the error bounds at default resolution '
        'are validated numerically on the stated parameter sets only (no theorem)',
        'the lattice theorems are about the hand model of crr_tree_val, tied to the compiled function by the seeded '
        'correspondence (relative 1e-9), under the probability condition d <= e^{(r-q)dt} <= u (cases outside it are counted)',
        'analytic reference = bs_value with the Hull polynomial N (6 decimals); bounds are set above that noise',
        'finite-difference theorems (Props/C12c) are about the hand model Model/C12FD.lean (wind = 0, no smoothing), tied to '
        'calculate_fd_matrix / fd_roll_backwards / black_scholes_fd / PSOR / black_scholes_fd_PSOR by seeded correspondence; the '
        'maximum-principle / American >= European statements assume the sign conditions (explicit weights >= 0, implicit '
        'off-diagonals <= 0, 1 + dt theta r > 0), which hold iff the local Peclet / CFL conditions hold (fd_interior_offdiag_*_iff); '
        'the implicit solve enters through the post-condition of solve_tridiagonal_matrix proved in C20 (thomas_solves_tridiagonal)',
        'BAW theorems (Props/C12d) are about the GENERATED model Gen/BAWP.lean with the root-finder call replaced by a parameter S* '
        '(its post-condition f(S*) = 0 is a hypothesis where used) and the normal cdf abstracted to any function with values in [0,1]',
    ]
    return C.finish(ctx, 'proof', 'lake build ' + ' '.join(PROPS) + ' && lake env lean .cache/audit/Audit_C12.lean',
                    C.TRUSTED_BASE_COMMON + ['hand models Model/C12.lean, Model/C12FD.lean tied by correspondence only',
                                             'registry/baw.py source preparation (argument unpacking, solver call -> parameter)'], RULE)



_FPUT_AC = []


def fput_as_coded_njit():
    """The residual that the Numba-compiled `_fput` evaluates (known finding C12/baw-fput-wrong-residual: the
    `bs_value(..., -1)` term contributes 0, q1 is built with 4 K instead of 4 M / K), written independently of the library's
    `_fput` and jitted so that the library's own `newton_secant` can be applied to it."""
    if not _FPUT_AC:
        import numpy as np
        from numba import njit
        from financepy.utils.math import n_vect

        @njit(fastmath=True, cache=False)
        def fput_ac(si, *args):
            t = args[0]
            k = args[1]
            r = args[2]
            q = args[3]
            v = args[4]
            b = r - q
            v2 = v * v
            W = 2.0 * b / v2
            K = 1.0 - np.exp(-r * t)
            q1 = (1.0 - W - np.sqrt((W - 1.0) ** 2 + 4.0 * K)) / 2.0
            d1 = (np.log(si / k) + (b + v2 / 2.0) * t) / (v * np.sqrt(t))
            return si - k - 0.0 - (1.0 - np.exp(-q * t) * n_vect(-d1)) * si / q1
        _FPUT_AC.append(fput_ac)
    return _FPUT_AC[0]


def baw_put_given_sstar(c, sstar):
    """Barone-Adesi & Whaley (1987) put value for a GIVEN critical price (own formula; the library's N and bs_value)."""
    from financepy.utils.math import N
    from financepy.models.black_scholes_analytic import bs_value
    S, K, r, q, t, v = c['S'], c['K'], c['r'], c['q'], c['t'], c['vol']
    if not S > sstar:
        return K - S
    b = r - q
    M, W = 2.0 * r / (v * v), 2.0 * b / (v * v)
    kk = 1.0 - math.exp(-r * t)
    q1 = (-(W - 1.0) - math.sqrt((W - 1.0) ** 2 + 4.0 * M / kk)) / 2.0
    d1 = (math.log(sstar / K) + (b + v * v / 2.0) * t) / (v * math.sqrt(t))
    a1 = -(sstar / q1) * (1.0 - math.exp(-q * t) * float(N(-d1)))
    return float(bs_value(S, t, K, r, q, v, 2)) + a1 * (S / sstar) ** q1


def baw_put_mechanism(c, x):
    """Is the BAW put value `x` of the code the consequence of known finding C12/baw-fput-wrong-residual and of nothing else?
    (1) S* := root that the library's newton_secant finds for the as-coded residual (fput_as_coded_njit) from x0 = S;
    (2) the BAW (1987) put formula evaluated with that S* must reproduce the code's number (1e-7 relative);
    (3) `ref` = the same formula with the CORRECT critical price (bracketing solver, baw_put_reference) is returned so that the
        caller can require that it satisfies the oracle the code's value violates."""
    from financepy.utils.solver_1d import newton_secant
    out = dict(reproduces=False, sstar_as_coded=None, value_as_coded=None, ref=None)
    if c['r'] <= 0.0:
        return out
    try:
        ss = float(quiet(newton_secant, fput_as_coded_njit(), x0=c['S'], args=(c['t'], c['K'], c['r'], c['q'], c['vol']),
                         tol=1e-7, maxiter=50))
        val = baw_put_given_sstar(c, ss)
    except Exception:  # noqa: BLE001
        return out
    out.update(sstar_as_coded=ss, value_as_coded=val, reproduces=abs(val - x) <= 1e-7 * max(1.0, abs(x)), ref=baw_put_reference(c))
    return out


def lsmc_replica(c, call, fix_t0=False, num_paths=10000, seed=42, steps_per_year=52):
    """Line-by-line NumPy replica of `equity_lsmc` as BlackScholes(LSMC).value calls it for American options (HERMITE_E, degree
    3, antithetic normals, forward-matched paths, continuation regressed on the FITTED next values, backward loop that stops at
    time index 1).  `fix_t0` adds the missing comparison at time index 0 (exercise now if intrinsic > mean discounted value).
    Used ONLY to characterise known finding C12/lsmc-no-exercise-at-t0."""
    import numpy as np
    S, K, r, q, T_, sig = c['S'], c['K'], c['r'], c['q'], c['t'], c['vol']
    np.random.seed(seed)
    num_steps = int(steps_per_year * T_)
    num_times = num_steps + 1
    dt = T_ / num_times
    times = np.linspace(0, T_, num_times)
    mu = r - q - 0.5 * sig ** 2
    if num_paths % 2 == 1:
        num_paths += 1
    half = int(num_paths / 2.0)
    st = np.zeros((num_times, num_paths), 'd')
    st[0] = S
    gp = np.random.standard_normal((half, num_times))
    g = np.concatenate((gp, -gp))
    for it in range(1, num_times):
        st[it] = st[it - 1] * np.exp(mu * dt + sig * g[:, it] * np.sqrt(dt))
    for it in range(num_times):
        st[it] = st[it] * (S * np.exp((r - q) * times[it])) / np.mean(st[it])
    ex = st - K
    ex[ex < 0] = 0
    if not call:
        ex = ex - (st - K)
    val = np.zeros_like(ex)
    val[-1] = ex[-1]
    stop = np.zeros_like(ex)
    stop[-1] = np.where(ex[-1] > 0, 1, 0)
    df = np.exp(-r * dt)
    for it in range(num_times - 2, 0, -1):
        reg = np.polynomial.hermite_e.hermefit(st[it], val[it + 1] * df, 3)
        cont = np.polynomial.hermite_e.hermeval(st[it], reg)
        cont[cont < 0] = 0
        stop[it] = np.where(ex[it] > cont, 1, 0)
        val[it] = np.where(ex[it] > cont, ex[it], cont)
    first = np.argmax(stop, axis=0)
    v = float(np.mean(val[first, np.arange(ex.shape[1])] * np.exp(-r * times[first])))
    if fix_t0:
        v = max(v, float(ex[0][0]))
    return v


def baw_put_reference(c):
    """Barone-Adesi & Whaley (1987) American put with the critical price S* found by a bracketing solver
    (scipy brentq) and the exact normal cdf; None when no critical price is bracketed."""
    from scipy.stats import norm
    from scipy.optimize import brentq
    S, K, r, q, t, v = c['S'], c['K'], c['r'], c['q'], c['t'], c['vol']
    b = r - q
    if r <= 0:
        return None

    def bsput(x):
        d1 = (math.log(x / K) + (b + v * v / 2) * t) / (v * math.sqrt(t))
        d2 = d1 - v * math.sqrt(t)
        return K * math.exp(-r * t) * norm.cdf(-d2) - x * math.exp((b - r) * t) * norm.cdf(-d1), d1
    M, N = 2 * r / v ** 2, 2 * b / v ** 2
    kk = 1 - math.exp(-r * t)
    q1 = (-(N - 1) - math.sqrt((N - 1) ** 2 + 4 * M / kk)) / 2

    def g(x):
        p, d1 = bsput(x)
        return (K - x) - p + (1 - math.exp((b - r) * t) * norm.cdf(-d1)) * x / q1
    try:
        sstar = brentq(g, 1e-9 * K, K)
    except ValueError:
        return None
    if S <= sstar:
        return K - S
    p, _ = bsput(S)
    a1 = -(sstar / q1) * (1 - math.exp((b - r) * t) * norm.cdf(-bsput(sstar)[1]))
    return p + a1 * (S / sstar) ** q1


def replay(ctx, path):
    rp = json.load(open(path))
    v = rp.get('violation')
    if not v:
        print('replay: no concrete input in this file:', rp.get('broken'))
        return 1
    C.import_financepy()
    from financepy.models.black_scholes import BlackScholes, BlackScholesTypes as T
    from financepy.utils.global_types import OptionTypes as O
    from financepy.models.black_scholes_analytic import bs_value
    c = v['case']
    print('replay case:', json.dumps(c)[:500], 'clause:', v.get('clause'))
    if 'changed_input' in c and c.get('product') in ('FXVanillaOption', 'EquityAmericanOption', 'BlackScholes.value'):
        # re-use oracle: replay the history on ONE product / model object, then the flagged valuation, and compare with fresh objects
        from financepy.utils.date import Date
        from financepy.market.curves.discount_curve_flat import DiscountCurveFlat
        from financepy.products.fx.fx_vanilla_option import FXVanillaOption
        from financepy.products.equity.equity_american_option import EquityAmericanOption
        months = ['JAN', 'FEB', 'MAR', 'APR', 'MAY', 'JUN', 'JUL', 'AUG', 'SEP', 'OCT', 'NOV', 'DEC']

        def pdate(txt):
            d_, m_, y_ = txt.split('-')
            return Date(int(d_), months.index(m_) + 1, int(y_))
        ot = O.AMERICAN_CALL if c['side'] == 'call' else O.AMERICAN_PUT
        edt = pdate(c['expiry'])
        kw = {k_: (dict(v_) if isinstance(v_, dict) else v_) for k_, v_ in (c.get('model_args') or {}).items()}

        def mk_model(vol):
            return BlackScholes(vol) if c['product'] == 'FXVanillaOption' else BlackScholes(vol, T[c['model']], **kw)

        def mk_prod():
            if c['product'] == 'FXVanillaOption':
                return FXVanillaOption(edt, c['strike'], 'EURUSD', ot, 1.0e6, 'USD', c['spot_days'])
            return EquityAmericanOption(edt, c['strike'], ot) if c['product'] == 'EquityAmericanOption' else None

        def val(prod, model, st):
            vd = pdate(st['value_dt'])
            if c['product'] == 'BlackScholes.value':
                return float(quiet(model.value, st['spot'], (edt - vd) / 365.0, c['strike'], st['r'], st['q'], ot))
            v_ = quiet(prod.value, vd, st['spot'], DiscountCurveFlat(vd, st['r']), DiscountCurveFlat(vd, st['q']), model)
            return float(v_['v']) if isinstance(v_, dict) else float(v_)
        prod, models = mk_prod(), {}
        for st in c['history'] + [c['this_valuation']]:
            model = models.setdefault(st['vol'], mk_model(st['vol']))
            got = val(prod, model, st)
            fresh = val(mk_prod(), mk_model(st['vol']), st)
            print(st['step'], 'reused objects:', got, ' fresh objects:', fresh, '' if got == fresh else '  <-- differs')
        print(f'VIOLATION property=C12 replay={path}')
        return 1
    if c.get('product') == 'FXVanillaOption' and 'spot_days' in c:
        from financepy.utils.date import Date
        from financepy.market.curves.discount_curve_flat import DiscountCurveFlat
        from financepy.products.fx.fx_vanilla_option import FXVanillaOption
        months = ['JAN', 'FEB', 'MAR', 'APR', 'MAY', 'JUN', 'JUL', 'AUG', 'SEP', 'OCT', 'NOV', 'DEC']

        def pdate(txt):
            d_, m_, y_ = txt.split('-')
            return Date(int(d_), months.index(m_) + 1, int(y_))
        vdt, edt = pdate(c['value_dt']), pdate(c['expiry_dt'])
        call = c['side'] == 'call'
        out = {}
        for nm, ot in (('european', O.EUROPEAN_CALL if call else O.EUROPEAN_PUT), ('american', O.AMERICAN_CALL if call else O.AMERICAN_PUT)):
            fx = FXVanillaOption(edt, c['strike_fx'], 'EURUSD', ot, 1.0e6, 'USD', c['spot_days'])
            out[nm] = float(quiet(fx.value, vdt, c['spot_fx'], DiscountCurveFlat(vdt, c['rd']), DiscountCurveFlat(vdt, c['rf']),
                                  BlackScholes(c['vol']))['v'])
        out['t_exp'] = (edt - vdt) / 365.0
        out['t_del'] = (edt.add_weekdays(c['spot_days']) - vdt.add_weekdays(c['spot_days'])) / 365.0
        print(out)
        print(f'VIOLATION property=C12 replay={path}')
        return 1
    if 'scheme' not in c or 'side' not in c:
        print('no dedicated replay for this component; re-run ./check C12 with VERIF_SEED=%s' % rp.get('seed'))
        return 1
    call = c['side'] == 'call'
    bt = T[c['scheme']]
    out = {}
    for nm, ot in (('european', O.EUROPEAN_CALL if call else O.EUROPEAN_PUT), ('american', O.AMERICAN_CALL if call else O.AMERICAN_PUT)):
        try:
            kw = {'params': dict(c['params'])} if isinstance(c.get('params'), dict) else {}
            if 'num_steps' in c and bt == T.CRR_TREE:
                kw = {'num_steps_per_year': c['num_steps']}
            out[nm] = float(quiet(BlackScholes(c['vol'], bt, **kw).value, c['S'], c['t'], c['K'], c['r'], c['q'], ot))
        except Exception as e:  # noqa: BLE001
            out[nm] = type(e).__name__
    out['analytic'] = float(bs_value(c['S'], c['t'], c['K'], c['r'], c['q'], c['vol'], 1 if call else 2))
    out['intrinsic'] = max(c['S'] - c['K'], 0) if call else max(c['K'] - c['S'], 0)
    print(out)
    print(f'VIOLATION property=C12 replay={path}')
    return 1
