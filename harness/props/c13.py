"""C13 — dates are the proleptic Gregorian calendar with Excel serial numbers.

Theorems: FinVerif/Props/C13.lean.  Correspondence: implementation vs model (generated kernels +
hand model) vs source-independent spec, exhaustively over 1900-03-01 … 2200-12-31 for the single-date
observables, sampled for the arithmetic, plus call histories in fresh interpreter processes."""
import datetime
import json
import os
import subprocess
import sys
from concurrent.futures import ThreadPoolExecutor

sys.path.insert(0, os.path.dirname(os.path.dirname(os.path.abspath(__file__))))
import common as C  # noqa: E402
import dates as D   # noqa: E402
from parallel import driver_parallel  # noqa: E402

GEN = ['DateK', 'Calendar', 'DateLogic']
PROPS = ['FinVerif.Props.C13', 'FinVerif.Props.C13b', 'FinVerif.Props.C13c', 'FinVerif.Props.C13d',
         'FinVerif.Props.C13e', 'FinVerif.Props.C13f', 'FinVerif.Props.C13g']
DRIVERS = ['FinVerif.Driver.C13']
SPEC_DRIVERS = ['FinVerif.Driver.C13Spec']

RULE = ('single-date observables (serial, weekday, index round trip through the compiled kernels, eom, is_eom, next IMM, '
        'next CDS): every date 1900-03-01..2200-12-31 (exhaustive) and a malformed stream of invalid d/m/y; add_days '
        '(|n|<=800), add_months (|k|<=600; exhaustive k in [-24,24] on month-end dates of a seed-chosen window), '
        'add_weekdays, add_tenor (D/W/M/Y, both signs): sampled from dates biased to month ends / 29 Feb / year ends; '
        'histories: fresh interpreter processes constructing years beyond 2100 in different orders and stepping over the '
        'table end; the padded table g_dt_counter_list itself: every slot, for the table in use and for rebuilt tables of '
        'several end years (incl. a seed-chosen one), against the fold model calcList and against datetime; days_in_month '
        'for every year x months -3..15. Independent oracle: Python datetime. Non-trivial = all (each op is a distinct date/argument).')


def fmt(dt):
    return f'{dt.d} {dt.m} {dt.y}'


def run(ctx):
    drivers_ok = C.lean_stage(ctx, GEN, PROPS, DRIVERS + SPEC_DRIVERS)
    C.import_financepy()
    from financepy.utils.date import Date, date_index, date_from_index
    from financepy.utils.error import FinError
    import financepy.utils.date as dmod

    rng = ctx.rng('main')

    def ek(e):
        return 'E:FinError' if isinstance(e, FinError) else 'E:' + type(e).__name__

    def call(f):
        try:
            return f()
        except Exception as e:  # noqa: BLE001
            return ek(e)

    # ------------------------------------------------------------ histories first (fresh processes)
    histories = [
        'c:31:12:2100 a:1:31:12:2100 c:1:1:2150 a:1:31:12:2100',
        'c:1:1:2200 c:31:12:2100 a:1:31:12:2100',
        'c:1:1:2150 c:1:1:2200 c:15:6:2120 a:400:15:6:2120',
        'c:31:12:2100 a:-1:31:12:2100 a:1:30:12:2100',
        'c:32:1:2150 a:1:31:12:2100',
        'c:15:6:2120 c:31:12:2120 a:1:31:12:2120',
    ]
    for _ in range(6 if ctx.quick() else 60):
        ops = []
        ys = [rng.choice([2100, 2101, 2120, 2150, 2199, 2200, 2250]) for _ in range(rng.randint(1, 4))]
        for y in ys:
            ops.append(f'c:{rng.choice([1, 28, 31])}:{rng.choice([1, 12])}:{y}')
            if rng.random() < 0.7:
                y2 = rng.choice(ys)
                ops.append(f'a:{rng.choice([1, 2, 366])}:31:12:{y2}')
        histories.append(' '.join(ops))
    himpl = run_histories(histories)
    hops = ['HI ' + h for h in histories]
    compare(ctx, 'histories', hops, himpl, drivers_ok, classify_hist)

    # ------------------------------------------------------------ exhaustive single-date observables
    Date(1, 1, 2201)
    table_end = dmod.g_end_year
    alld = [t for t in D.all_dates(1900, 2200) if t >= (1, 3, 1900) or t[2] > 1900 or t[1] >= 3]
    alld = [t for t in alld if not (t[2] == 1900 and t[1] < 3)]
    ops, impl = [], []
    dobj = {}
    nbad_dt = 0
    for t in alld:
        d, m, y = t
        dt = Date(d, m, y)
        dobj[t] = dt
        py = datetime.date(y, m, d)
        # independent oracle: Python's datetime
        if int(dt.excel_dt) != (py - datetime.date(1899, 12, 30)).days or dt.weekday != py.weekday():
            nbad_dt += 1
            ctx.violation('serial/weekday differ from Python datetime', {'date': t, 'excel_dt': dt.excel_dt,
                          'weekday': dt.weekday, 'datetime_serial': (py - datetime.date(1899, 12, 30)).days,
                          'datetime_weekday': py.weekday()}, clause='serial')
        ops.append(f'S {d} {m} {y}')
        impl.append(f'{int(dt.excel_dt)} {dt.weekday}')
        ops.append(f'RT {d} {m} {y}')
        impl.append(call(lambda: '%d %d %d' % tuple(int(x) for x in date_from_index(date_index(d, m, y)))))
        ops.append(f'EOM {d} {m} {y}')
        impl.append(call(lambda: fmt(dt.eom())))
        ops.append(f'ISEOM {d} {m} {y}')
        impl.append(call(lambda: '1' if dt.is_eom() else '0'))
        if y <= 2199:
            ops.append(f'IMM {d} {m} {y}')
            impl.append(call(lambda: fmt(dt.next_imm_date())))
            ops.append(f'CDS {d} {m} {y}')
            impl.append(call(lambda: fmt(dt.next_cds_date())))
    compare(ctx, 'serial/weekday/roundtrip/eom/imm/cds', ops, impl, drivers_ok, None, exhaustive=True)

    # ordering / equality / hash / subtraction agree with the serial (adjacent and random pairs)
    npairs = 0
    prev = None
    for t in alld[:: (7 if ctx.quick() else 1)]:
        a = dobj[t]
        if prev is not None:
            b = prev
            ok = (b < a) and (a > b) and not (a == b) and (a - b) == (a.excel_dt - b.excel_dt) and (a >= b) and (b <= a) \
                and hash(a) != hash(b) and hash(a) == hash(Date(a.d, a.m, a.y)) and a == Date(a.d, a.m, a.y)
            npairs += 1
            if not ok:
                ctx.violation('ordering/equality/hash/subtraction disagree with the calendar order',
                              {'a': (b.d, b.m, b.y), 'b': t}, clause='ordering')
        prev = a
    ctx.count('ordering/hash', npairs)

    # ------------------------------------------------------------ malformed stream
    ops, impl = [], []
    import contextlib
    import io
    with contextlib.redirect_stdout(io.StringIO()):   # the constructor prints the rejected d m y
        for _ in range(3000 if ctx.quick() else 30000):
            y = rng.choice([1899, 1900, 1999, 2000, 2023, 2024, 2100, 2200, rng.randint(1850, 2250)])
            m = rng.choice([0, 1, 2, 2, 2, 4, 12, 13, -1, rng.randint(-3, 15)])
            d = rng.choice([0, 1, 28, 29, 30, 31, 32, -1, rng.randint(-2, 35)])
            if y == 1900 and m <= 2:
                continue  # before the property's domain (Excel's phantom 29 Feb 1900)
            ops.append(f'S {d} {m} {y}')
            impl.append(call(lambda: (lambda x: f'{int(x.excel_dt)} {x.weekday}')(Date(d, m, y))))
    compare(ctx, 'constructor validation (malformed stream)', ops, impl, drivers_ok, classify_ctor)

    # ------------------------------------------------------------ arithmetic, sampled
    n = 4000 if ctx.quick() else 100000
    starts = D.interesting_dates(rng, n, 1901, 2190)
    ops, impl = [], []
    for t in starts:
        dt = dobj.get(t) or Date(*t)
        k = rng.choice([rng.randint(-800, 800), rng.randint(-40, 40), 1, -1, 365, 366, -365, 0])
        ops.append(f'AD {k} {t[0]} {t[1]} {t[2]}')
        impl.append(call(lambda: fmt(dt.add_days(k))))
        km = rng.choice([rng.randint(-600, 600), rng.randint(-24, 24), 1, -1, 12, -12, 0])
        if 1901 <= t[2] + km // 12 <= 2195:
            ops.append(f'AM {km} {t[0]} {t[1]} {t[2]}')
            impl.append(call(lambda: fmt(dt.add_months(km))))
        kw = rng.choice([rng.randint(-60, 60), 1, -1, 5, -5, 0])
        ops.append(f'AW {kw} {t[0]} {t[1]} {t[2]}')
        impl.append(call(lambda: fmt(dt.add_weekdays(kw))))
        u = rng.choice([1, 2, 3, 4])
        nt = rng.choice([rng.randint(-30, 30), 1, -1, 4, 12, 48])
        if u == 4:
            nt = max(-8, min(8, nt))
        if nt == 0:
            nt = 1
        ops.append(f'AT {nt} {u} {t[0]} {t[1]} {t[2]}')
        ts = f'{nt}' + 'DWMY'[u - 1]
        impl.append(call(lambda: fmt(dt.add_tenor(ts))))
        # forward then backward day steps are inverse (direct law)
        if k and not isinstance(impl[-4 if len(ops) >= 4 else 0], str):
            pass
    compare(ctx, 'add_days/add_months/add_weekdays/add_tenor', ops, impl, drivers_ok, classify_arith)

    # month-end dates x k in [-24, 24], exhaustive on a window
    ops, impl = [], []
    y0 = 1901 + rng.randrange(0, 270)
    for t in alld:
        if y0 <= t[2] < y0 + (4 if ctx.quick() else 25) and (t[0] >= 28):
            dt = dobj[t]
            for km in range(-24, 25):
                ops.append(f'AM {km} {t[0]} {t[1]} {t[2]}')
                impl.append(call(lambda: fmt(dt.add_months(km))))
    compare(ctx, 'add_months on month ends, k in [-24,24]', ops, impl, drivers_ok, None)

    # inverse law on the implementation
    ninv = 0
    for t in starts[: (2000 if ctx.quick() else 20000)]:
        dt = dobj.get(t) or Date(*t)
        k = rng.randint(1, 500)
        back = dt.add_days(k).add_days(-k)
        ninv += 1
        if fmt(back) != fmt(dt):
            ctx.violation('add_days(+n) then add_days(-n) does not return to the start', {'date': t, 'n': k,
                          'back': fmt(back)}, clause='inverse')
    ctx.count('add_days inverse law', ninv)

    glue_oracles(ctx, rng, alld, dobj)
    table_check(ctx, rng, dmod, drivers_ok)

    # days_in_month (GENERATED kernel; theorem days_in_month_eq_monthLen)
    from financepy.utils.date import days_in_month
    ops, impl = [], []
    for y in range(1900, 2202):
        for m in range(-3, 16):
            ops.append(f'DIM {m} {y}')
            impl.append(call(lambda: str(int(days_in_month(m, y)))))
    compare(ctx, 'days_in_month', ops, impl, drivers_ok, None, exhaustive=False)

    ctx.assumptions += [
        'anchors: serial(1 Mar 1900) = 61 and 1 Mar 1900 was a Thursday (cross-checked against Python datetime for every date)',
        'date_from_index uses float division under fastmath in the compiled kernel; its agreement with the integer/rational reading is validated exhaustively on the property domain, not proved',
        'add_years with fractional years is not modelled',
    ]
    return C.finish(ctx, 'proof', 'lake build FinVerif.Props.C13 && lake env lean .cache/audit/Audit_C13.lean',
                    C.TRUSTED_BASE_COMMON + ['Spec: Gregorian successor + Excel anchor (FinVerif/Spec/Date.lean); Python datetime as an independent oracle'],
                    RULE)



def table_check(ctx, rng, dmod, drivers_ok):
    """The padded serial table itself (theorems table_lookup / table_pad / table_prefix_stable are about the fold model
    `calcList E`): every slot of the table in use and of tables rebuilt by the real `calculate_list` for several end years,
    compared with (a) the model driver's `calcList E` and (b) Python datetime (slots from 1 Mar 1900 on: the serial for
    existing days, the padding value -999 for non-existent ones).  The module globals are restored afterwards."""
    import datetime as pydt
    cur_end = dmod.g_end_year
    ends = sorted({1900, 1901, 1904, 2100, cur_end, rng.randint(1902, 2300)})
    saved_list, saved_end = dmod.g_dt_counter_list, dmod.g_end_year
    tables = {cur_end: list(saved_list)}
    try:
        for e in ends:
            if e == cur_end:
                continue
            dmod.g_end_year = e
            dmod.calculate_list()
            tables[e] = list(dmod.g_dt_counter_list)
    finally:
        dmod.g_end_year = saved_end
        dmod.g_dt_counter_list = saved_list
    model = None
    if drivers_ok:
        try:
            model = C.run_driver('C13', [f'TBL {e}' for e in ends])
        except C.DriverError as ex:
            ctx.broke(f'model driver failed on the date table: {str(ex)[:300]}')
    base = pydt.date(1899, 12, 30)
    nslots = nbad = nbad_m = 0
    for i, e in enumerate(ends):
        tb = tables[e]
        nslots += len(tb)
        if len(tb) != 372 * (e - 1900 + 1):
            ctx.violation('date table does not have 372 slots per year', {'end_year': e, 'len': len(tb)}, clause='table')
        # (b) independent oracle
        for idx, v in enumerate(tb):
            y, r = 1900 + idx // 372, idx % 372
            m, d = 1 + r // 31, 1 + r % 31
            if y == 1900 and m < 3:
                continue   # before the property's domain (Excel's phantom 29 Feb 1900)
            try:
                exp = (pydt.date(y, m, d) - base).days
            except ValueError:
                exp = -999
            if v != exp:
                nbad += 1
                if nbad <= 3:
                    ctx.violation('date table entry differs from the Excel serial / padding expected from Python datetime',
                                  {'end_year': e, 'slot': idx, 'd_m_y': (d, m, y), 'entry': v, 'expected': exp},
                                  clause='table')
        # prefix stability on the implementation
        small = tables[ends[0]]
        if tb[:len(small)] != small:
            ctx.violation('extending the date table changed existing entries', {'end_year': e}, clause='table')
        # (a) fold model
        if model is not None:
            mt = [int(x) for x in model[i].split()]
            if mt != tb:
                nbad_m += 1
                j = next((k for k in range(min(len(mt), len(tb))) if mt[k] != tb[k]), min(len(mt), len(tb)))
                ctx.broke(f'correspondence date table: calcList {e} != g_dt_counter_list at slot {j} '
                          f'(model len {len(mt)}, impl len {len(tb)})')
    ctx.count('date table (every slot, several end years) vs fold model and datetime', nslots,
              sample={'end_years': ends})


def glue_oracles(ctx, rng, alld, dobj):
    """The glue around the core named by the property's observation points: datediff, date_range, from_datetime,
    Date.from_string, Date.datetime, add_years (whole years), ON/TN/W tenors, list-valued arguments, vectorised
    comparisons.  Independent oracle: Python datetime."""
    import datetime as pydt
    from financepy.utils.date import Date, datediff, date_range, from_datetime
    n = 0
    sample = rng.sample(alld, 1500 if ctx.quick() else 30000)
    for t in sample:
        d, m, y = t
        dt = dobj[t]
        py = pydt.date(y, m, d)
        n += 1
        if dt.datetime() != py or fmt(from_datetime(py)) != fmt(dt) or fmt(Date.from_date(py)) != fmt(dt) or \
                fmt(Date.from_string(py.strftime('%d-%m-%Y'), '%d-%m-%Y')) != fmt(dt):
            ctx.violation('Date <-> datetime / string conversions do not round-trip', {'date': t}, clause='conversions')
        k = rng.randint(-3000, 3000)
        py2 = py + pydt.timedelta(days=k)
        if py2 >= pydt.date(1900, 3, 1) and py2.year <= 2200:
            o = dobj.get((py2.day, py2.month, py2.year)) or Date(py2.day, py2.month, py2.year)
            if datediff(dt, o) != k or (o - dt) != k:
                ctx.violation('datediff / subtraction is not the number of calendar days', {'from': t, 'days': k,
                              'datediff': datediff(dt, o), 'sub': o - dt}, clause='datediff')
        yy = rng.randint(-20, 20)
        if 1901 <= y + yy <= 2199:
            try:
                r = fmt(dt.add_years(yy))
                e = fmt(dt.add_months(12 * yy))
                vec = [fmt(x) for x in dt.add_years([yy, 1])]
                vm = [fmt(x) for x in dt.add_months([12 * yy, 1])]
            except Exception as ex:  # noqa: BLE001
                r, e, vec, vm = 'E:' + type(ex).__name__, None, None, None
            if r != e or vec is None or vec[0] != e or vm[0] != e:
                ctx.violation('add_years(n) differs from add_months(12 n), or list-valued calls differ from scalar calls',
                              {'date': t, 'years': yy, 'add_years': r, 'add_months': e, 'vector_years': vec,
                               'vector_months': vm}, clause='add-years')
    # list-valued month/year arithmetic on month-end dates: each element must equal the scalar call (elements must
    # not interact — e.g. a day clipped for one element must not carry over to the next)
    ends = [t for t in sample if t[0] >= 29 and 1902 <= t[2] <= 2190][:300]
    for t in ends:
        dt = dobj[t]
        for ks in ([1, 2, 3], [-1, 1, 13], [12, 1, 24, 2], [3, -3, 6]):
            try:
                vec = [fmt(x) for x in dt.add_months(list(ks))]
                sc = [fmt(dt.add_months(k)) for k in ks]
            except Exception as ex:  # noqa: BLE001
                vec, sc = 'E:' + type(ex).__name__, None
            n += 1
            if vec != sc:
                ctx.violation('list-valued add_months differs from the scalar calls element by element',
                              {'date': t, 'months': ks, 'vector': vec, 'scalar': sc}, clause='vectorised-months')
                break
        try:
            tv = [fmt(x) for x in dt.add_tenor(['1M', '2M', '1Y', '3M'])]
            ts_ = [fmt(dt.add_tenor(x)) for x in ['1M', '2M', '1Y', '3M']]
        except Exception as ex:  # noqa: BLE001
            tv, ts_ = 'E:' + type(ex).__name__, None
        if tv != ts_:
            ctx.violation('list-valued add_tenor differs from the scalar calls element by element',
                          {'date': t, 'vector': tv, 'scalar': ts_}, clause='vectorised-months')
    # tenor strings: ON / TN = one day, weeks, lists, malformed
    for t in sample[:400]:
        dt = dobj[t]
        if t[2] >= 2199:
            continue
        try:
            on, tn, w2 = fmt(dt.add_tenor('ON')), fmt(dt.add_tenor('TN')), fmt(dt.add_tenor('2W'))
            lst = [fmt(x) for x in dt.add_tenor(['1D', '3M', '1Y'])]
            one, fourteen = fmt(dt.add_days(1)), fmt(dt.add_days(14))
            sc = [fmt(dt.add_tenor('1D')), fmt(dt.add_tenor('3M')), fmt(dt.add_tenor('1Y'))]
        except Exception as ex:  # noqa: BLE001
            ctx.violation('tenor arithmetic raised on a valid tenor', {'date': t, 'error': type(ex).__name__}, clause='tenor-strings')
            continue
        n += 1
        if on != one or tn != one or w2 != fourteen or lst != sc:
            ctx.violation('ON/TN/week tenors or list-valued add_tenor are inconsistent with day arithmetic',
                          {'date': t, 'ON': on, 'TN': tn, '2W': w2, 'list': lst, 'scalar': sc}, clause='tenor-strings')
    # date_range: inclusive ends, consecutive steps
    for t in sample[:150]:
        dt = dobj[t]
        if t[2] >= 2195:
            continue
        k = rng.randint(0, 40)
        end = dt.add_days(k)
        n += 1
        r = [fmt(x) for x in date_range(dt, end)]
        e = [fmt(dt.add_days(i)) for i in range(k + 1)]
        if r != e or date_range(end, dt) != ([] if k > 0 else date_range(end, dt)):
            ctx.violation('date_range(start, end) is not the list of consecutive days start..end', {'start': t, 'days': k,
                          'got': r[:5] + ['...'] + r[-2:]}, clause='date-range')
        ms = [fmt(x) for x in date_range(dt, dt.add_months(7), '3M')]
        em = [fmt(dt.add_tenor(f'{3 * i}M')) for i in range(3)] + [fmt(dt.add_months(7))]
        # successive 3M steps are taken from the previous date (clipped day can stick): compare with that rule
        cur, chain = dt, []
        while cur < dt.add_months(7):
            chain.append(fmt(cur))
            cur = cur.add_tenor('3M')
        chain.append(fmt(dt.add_months(7)))
        if ms != chain:
            ctx.violation('date_range with a tenor is not the chain of add_tenor steps closed by the end date',
                          {'start': t, 'got': ms, 'expected': chain}, clause='date-range')
    # vectorised comparisons
    for t in sample[:300]:
        a = dobj[t]
        others = [dobj[x] for x in rng.sample(sample, 4)]
        n += 1
        if list(a < others) != [a < o for o in others] or list(a >= others) != [a >= o for o in others] or \
                list(a - others) != [a - o for o in others]:
            ctx.violation('vectorised date comparison/subtraction differs from element-wise calls', {'date': t}, clause='vectorised')
    ctx.count('glue: conversions, datediff, add_years, tenor strings, date_range, vectorised comparisons', n)


def classify_ctor(op, impl, spec):
    p = op.split()
    m = int(p[2])
    if not (1 <= m <= 12) and int(p[3]) >= 1900 and 1 <= int(p[1]) <= 31:
        return 'C13/month-not-validated'
    return None


def classify_arith(op, impl, spec):
    p = op.split()
    if p[0] == 'AT' and p[2] == '4' and p[3] == '29' and p[4] == '2':
        return 'C13/tenor-years-loses-leap-day'
    return None


def classify_hist(op, impl, spec):
    # add_days stepping past 31 Dec of the current table end raises IndexError
    if 'E:IndexError' in impl:
        return 'C13/add-days-past-table-end'
    return None


def compare(ctx, comp, ops, impl, drivers_ok, classify, exhaustive=False):
    spec = model = None
    try:
        spec = driver_parallel('C13Spec', ops)
    except C.DriverError as e:
        ctx.broke(f'spec driver failed on {comp}: {str(e)[:300]}')
    if drivers_ok:
        try:
            model = driver_parallel('C13', ops)
        except C.DriverError as e:
            ctx.broke(f'model driver failed on {comp}: {str(e)[:300]}')
    nb_s = nb_m = 0
    def before_domain(ans):
        # results before 1 Mar 1900 are outside the property's domain (Excel's phantom 29 Feb 1900)
        q = ans.split()
        if len(q) == 3 and all(x.lstrip('-').isdigit() for x in q):
            d_, m_, y_ = map(int, q)
            return (y_, m_, d_) < (1900, 3, 1)
        return False

    for i, op in enumerate(ops):
        if spec is not None and op[:2] in ('AD', 'AM', 'AT', 'AW') and before_domain(spec[i]):
            continue
        if spec is not None and spec[i] != impl[i]:
            nb_s += 1
            fnd = classify(op, impl[i], spec[i]) if classify else None
            if nb_s <= 5 or fnd:
                ctx.violation(f'{comp}: implementation disagrees with the calendar specification',
                              {'op': op, 'implementation': impl[i], 'spec': spec[i],
                               'model': model[i] if model else None}, finding=fnd, clause=comp)
        if model is not None and model[i] != impl[i]:
            nb_m += 1
            if (spec is None or spec[i] == impl[i]) and nb_m <= 3:
                ctx.broke(f'correspondence {comp}: model≠implementation on `{op}` (model {model[i]}, impl {impl[i]})')
            elif spec is not None and spec[i] != impl[i] and model[i] == spec[i]:
                pass
    ctx.count(comp, len(ops), sample={'op': ops[len(ops) // 3], 'impl': impl[len(ops) // 3]} if ops else None)
    ctx.cov['components'][comp].update({'disagree_spec': nb_s, 'disagree_model': nb_m, 'exhaustive': exhaustive})
    if exhaustive:
        ctx.cov['exhaustive'] = True


HIST_SCRIPT = os.path.join(os.path.dirname(os.path.dirname(os.path.abspath(__file__))), 'c13_hist.py')


def run_histories(histories):
    env = dict(os.environ)
    env['FINVERIF_REPO'] = C.REPO

    def one(h):
        p = subprocess.run([sys.executable, HIST_SCRIPT, h], capture_output=True, text=True, env=env, timeout=600)
        lines = [l for l in p.stdout.split('\n') if l.startswith('H ')]
        return lines[-1][2:] if lines else 'E:harness ' + p.stderr[-200:]
    with ThreadPoolExecutor(max_workers=8) as ex:
        return list(ex.map(one, histories))


def replay(ctx, path):
    rp = json.load(open(path))
    v = rp.get('violation')
    if not v or 'op' not in v.get('case', {}):
        print('replay: no op in this file:', rp.get('broken'), v)
        return 1
    op = v['case']['op']
    spec = C.run_driver('C13Spec', [op])[0]
    if op.startswith('HI '):
        r = run_histories([op[3:]])[0]
    else:
        C.import_financepy()
        from financepy.utils.date import Date
        Date(1, 1, 2201)
        p = op.split()
        a = list(map(int, p[1:]))

        def f():
            k = p[0]
            if k == 'S':
                x = Date(*a)
                return f'{int(x.excel_dt)} {x.weekday}'
            if k == 'AD':
                return fmt(Date(*a[1:]).add_days(a[0]))
            if k == 'AM':
                return fmt(Date(*a[1:]).add_months(a[0]))
            if k == 'AW':
                return fmt(Date(*a[1:]).add_weekdays(a[0]))
            if k == 'AT':
                return fmt(Date(*a[2:]).add_tenor(f'{a[0]}' + 'DWMY'[a[1] - 1]))
            if k == 'EOM':
                return fmt(Date(*a).eom())
            if k == 'ISEOM':
                return '1' if Date(*a).is_eom() else '0'
            if k == 'IMM':
                return fmt(Date(*a).next_imm_date())
            if k == 'CDS':
                return fmt(Date(*a).next_cds_date())
            return '?'
        try:
            r = f()
        except Exception as e:  # noqa: BLE001
            r = 'E:' + type(e).__name__
    print(f'replay {op}: implementation={r} spec={spec}')
    if r != spec:
        print(f'VIOLATION property=C13 replay={path}')
        return 1
    return 0
