"""C14 — calendars follow their holiday rules; adjustment follows ISDA.

Theorems: FinVerif/Props/C14a.lean (generated holiday functions = rule lists, Easter table = computus,
dispatch by name) and C14b.lean (laws of adjust / add_business_days on the model).
Correspondence: implementation vs generated model (Driver/C14) and vs the source-independent spec
(Driver/C14Spec), exhaustively over 1901-01-01…2199-12-31 for is_holiday/is_business_day."""
import os
import sys

sys.path.insert(0, os.path.dirname(os.path.dirname(os.path.abspath(__file__))))
import common as C  # noqa: E402
import dates as D   # noqa: E402
from parallel import driver_parallel  # noqa: E402

GEN = ['DateK', 'Calendar']
PROPS = ['FinVerif.Props.C14a', 'FinVerif.Props.C14b', 'FinVerif.Props.C14c', 'FinVerif.Props.C14d', 'FinVerif.Props.C14e',
         'FinVerif.Props.C14f', 'FinVerif.Props.C14g', 'FinVerif.Props.C14h', 'FinVerif.Props.C14i', 'FinVerif.Props.C14j',
         'FinVerif.Props.C14k', 'FinVerif.Props.C14l']
DRIVERS = ['FinVerif.Driver.C14']
SPEC_DRIVERS = ['FinVerif.Driver.C14Spec']

RULE = ('is_holiday/is_business_day: every CalendarTypes member x every date 1901-01-01..2199-12-31 (exhaustive); '
        'adjust: every calendar x convention on the non-business dates of a seed-chosen year window plus all '
        'month-edge non-business dates of 1901..2199 (quick) or all non-business dates (thorough); '
        'add_business_days: sampled starts x n in [-300,300]. Each case is compared with the generated model and '
        'with the source-independent spec. Non-trivial = the date is a weekend or holiday (for adjust/holiday) '
        'or n != 0 (add_business_days); all cases are distinct by construction.')


def fmt_date(dt):
    return f'{dt.d} {dt.m} {dt.y}'


def run(ctx):
    drivers_ok = C.lean_stage(ctx, GEN, PROPS, DRIVERS + SPEC_DRIVERS)
    spec_ok = True  # spec driver does not depend on generated code; lean_stage reports if it broke
    C.import_financepy()
    from financepy.utils.date import Date
    from financepy.utils.calendar import Calendar, CalendarTypes, BusDayAdjustTypes
    from financepy.utils.error import FinError

    Date(1, 1, 2201)  # extend the date table once (history dependence of the table is C13/C18's subject)
    rng = ctx.rng('main')
    cals = list(CalendarTypes)
    convs = list(BusDayAdjustTypes)
    calobj = {c: Calendar(c) for c in cals}
    all_dmy = D.all_dates(1901, 2199)
    dobj = {}

    def date_of(t):
        o = dobj.get(t)
        if o is None:
            o = dobj[t] = Date(*t)
        return o

    def err_kind(e):
        if isinstance(e, FinError):
            return 'E:FinError'
        return 'E:' + type(e).__name__

    # ---------------------------------------------------------------- H / B exhaustive
    ops, impl = [], []
    nontriv = 0
    for c in cals:
        cal = calobj[c]
        code = c.value
        for t in all_dmy:
            dt = date_of(t)
            try:
                h = cal.is_holiday(dt)
                r = '1' if h else '0'
            except Exception as e:  # noqa: BLE001
                r = err_kind(e)
            try:
                b = cal.is_business_day(dt)
                rb = '1' if b else '0'
            except Exception as e:  # noqa: BLE001
                rb = err_kind(e)
            ops.append(f'H {code} {t[0]} {t[1]} {t[2]}')
            impl.append(r)
            ops.append(f'B {code} {t[0]} {t[1]} {t[2]}')
            impl.append(rb)
            if rb != '1':
                nontriv += 1
    nonbus = {}
    for i in range(1, len(ops), 2):
        if impl[i] != '1':
            p = ops[i].split()
            nonbus.setdefault(int(p[1]), []).append((int(p[2]), int(p[3]), int(p[4])))
    compare(ctx, 'is_holiday/is_business_day', ops, impl, drivers_ok, spec_ok, nontriv, exhaustive=True)

    # ---------------------------------------------------------------- runs of non-business days (direct oracle)
    # executable reading of Props/C14g,h on the implementation's own answers: in no calendar are Tuesday..Friday of
    # one week all non-business days, hence no run of non-business days is longer than 9 (adjust walks <= 9 days)
    import datetime as _dtm
    nruns = 0
    for c in cals:
        ords = sorted(_dtm.date(t[2], t[1], t[0]).toordinal() for t in nonbus.get(c.value, []))
        oset = set(ords)
        longest, run, prev, worst = 0, 0, None, None
        for o in ords:
            run = run + 1 if prev is not None and o == prev + 1 else 1
            prev = o
            if run > longest:
                longest, worst = run, o
            if _dtm.date.fromordinal(o).weekday() == 1 and (o + 1) in oset and (o + 2) in oset and (o + 3) in oset:
                d0 = _dtm.date.fromordinal(o)
                ctx.violation('Tuesday..Friday of one week are all non-business days (contradicts noRun_every_calendar)',
                              {'cal': c.name, 'tuesday': (d0.day, d0.month, d0.year)}, clause='termination-run-bound')
        nruns += len(ords)
        if longest > 9:
            d0 = _dtm.date.fromordinal(worst)
            ctx.violation('more than 9 consecutive non-business days',
                          {'cal': c.name, 'run': longest, 'ends': (d0.day, d0.month, d0.year)},
                          clause='termination-run-bound')
        ctx.cov.setdefault('longest_nonbusiness_run', {})[c.name] = longest
    ctx.count('non-business runs', nruns, nruns)

    # ---------------------------------------------------------------- adjust
    ops, impl = [], []
    y0 = 1901 + rng.randrange(0, 259)
    for c in cals:
        cal = calobj[c]
        cands = nonbus.get(c.value, [])
        if ctx.quick():
            sel = [t for t in cands if (y0 <= t[2] < y0 + 40) or t[0] <= 3 or t[0] >= 26]
            if len(sel) > 12000:
                sel = rng.sample(sel, 12000)
        else:
            sel = cands
        # plus some business days (identity) and NONE calendar; and the last day of the domain (corpus)
        # ... and the two ends of the domain that Props/C14l settles by case analysis (last 9 days of 2199 for forward
        # walks, first 10 days of 1901 for backward walks): every calendar x convention, on every run
        edge = [(d, 12, 2199) for d in range(23, 32)] + [(d, 1, 1901) for d in range(1, 11)]
        sel = sorted(set(sel) - set(edge)) + [rng.choice(all_dmy) for _ in range(200)] + edge
        for cv in convs:
            for t in sel:
                dt = date_of(t)
                try:
                    res = cal.adjust(dt, cv)
                    r = fmt_date(res)
                    # direct oracles (Props/C14h, C14i on the implementation): at most nine days away; the
                    # MODIFIED conventions never leave the month of the input
                    if abs(res.excel_dt - dt.excel_dt) > 9:
                        ctx.violation('adjust moved the date by more than nine days',
                                      {'cal': c.name, 'conv': cv.name, 'date': t, 'result': r}, clause='adjust-distance')
                    if cv in (BusDayAdjustTypes.MODIFIED_FOLLOWING, BusDayAdjustTypes.MODIFIED_PRECEDING) and \
                            (res.m != t[1] or res.y != t[2]):
                        ctx.violation('MODIFIED adjustment left the month of the input',
                                      {'cal': c.name, 'conv': cv.name, 'date': t, 'result': r}, clause='modified-same-month')
                except Exception as e:  # noqa: BLE001
                    r = err_kind(e)
                ops.append(f'A {c.value} {cv.value} {t[0]} {t[1]} {t[2]}')
                impl.append(r)
    compare(ctx, 'adjust', ops, impl, drivers_ok, spec_ok, len(ops))

    # ---------------------------------------------------------------- add_business_days (+ direct laws)
    ops, impl = [], []
    nstarts = 1500 if ctx.quick() else 20000
    for t in D.interesting_dates(rng, nstarts, 1903, 2196):
        c = rng.choice(cals)
        cal = calobj[c]
        n = rng.choice([rng.randint(-300, 300), rng.randint(-10, 10), 0, 1, -1])
        dt = date_of(t)
        try:
            res = cal.add_business_days(dt, n)
            r = fmt_date(res)
            # direct laws on the implementation (the executable reading of the property)
            if n != 0 and not cal.is_business_day(res):
                ctx.violation('add_business_days result is not a business day',
                              {'cal': c.name, 'start': t, 'n': n, 'result': r}, clause='lands-on-business-day')
            if n == 0 and r != fmt_date(dt):
                ctx.violation('add_business_days(start, 0) is not the start',
                              {'cal': c.name, 'start': t, 'result': r}, clause='zero-identity')
            if abs(n) >= 2:
                n1 = (abs(n) // 2) * (1 if n > 0 else -1)
                two = cal.add_business_days(cal.add_business_days(dt, n1), n - n1)
                if fmt_date(two) != r:
                    ctx.violation('add_business_days: n1 then n2 (same sign) differs from n1 + n2',
                                  {'cal': c.name, 'start': t, 'n1': n1, 'n2': n - n1, 'two_stage': fmt_date(two),
                                   'one_stage': r}, clause='additive')
            if cal.is_business_day(dt):
                back = cal.add_business_days(res, -n)
                if fmt_date(back) != fmt_date(dt):
                    ctx.violation('+n then -n does not return to a business-day start',
                                  {'cal': c.name, 'start': t, 'n': n, 'there': r, 'back': fmt_date(back)},
                                  clause='inverse')
        except Exception as e:  # noqa: BLE001
            r = err_kind(e)
        ops.append(f'N {c.value} {n} {t[0]} {t[1]} {t[2]}')
        impl.append(r)
    compare(ctx, 'add_business_days', ops, impl, drivers_ok, spec_ok, sum(1 for o in ops if o.split()[2] != '0'))

    # ---------------------------------------------------------------- easter_monday(y)
    ops, impl = [], []
    for y in range(1901, 2101):
        try:
            r = fmt_date(calobj[CalendarTypes.TARGET].easter_monday(y))
        except Exception as e:  # noqa: BLE001
            r = err_kind(e)
        ops.append(f'EM {y}')
        impl.append(r)
    compare(ctx, 'easter_monday', ops, impl, drivers_ok, spec_ok, len(ops), exhaustive=True)
    # Easter Monday is a Monday, Good Friday (3 days earlier) a Friday — Props/C14f on the implementation
    for y in range(1901, 2101):
        em = calobj[CalendarTypes.TARGET].easter_monday(y)
        gf = em.add_days(-3)
        if em.weekday != 0 or gf.weekday != 4 or not calobj[CalendarTypes.TARGET].is_holiday(gf):
            ctx.violation('Easter Monday is not a Monday / Good Friday is not a Friday holiday',
                          {'year': y, 'easter_monday': fmt_date(em), 'weekday': em.weekday}, clause='easter-weekday')
    ctx.count('easter weekdays', 200, 200)

    # ---------------------------------------------------------------- order independence
    # is_holiday keeps per-call scratch (day_in_year, weekday) on the Calendar object: asking in a random
    # order, on the same objects, must give the answers of the ordered sweep above
    nb_set = {c.value: set(v) for c, v in ((c, nonbus.get(c.value, [])) for c in cals)}
    nq = 30000 if ctx.quick() else 400000
    bad = 0
    for _ in range(nq):
        c = rng.choice(cals)
        t = rng.choice(nonbus[c.value]) if (rng.random() < 0.5 and nonbus.get(c.value)) else rng.choice(all_dmy)
        try:
            b = calobj[c].is_business_day(date_of(t))
        except Exception as e:  # noqa: BLE001
            b = err_kind(e)
        if b != (t not in nb_set[c.value]):
            bad += 1
            if bad <= 3:
                ctx.violation('is_business_day depends on the order of calls (random order differs from the ordered sweep)',
                              {'cal': c.name, 'date': t, 'random_order': b, 'sweep': t not in nb_set[c.value]},
                              clause='order-independence')
    ctx.count('is_business_day (random order)', nq, nq)

    # ---------------------------------------------------------------- get_holiday_list(y)
    # = the non-weekend non-business days of the year, in order, as strings — derived here from the
    # is_business_day answers that the exhaustive comparison above has just tied to the spec
    import datetime as _dt
    nyears = 8 if ctx.quick() else 60
    cnt = 0
    for c in cals:
        by_year = {}
        for t in nonbus.get(c.value, []):
            if _dt.date(t[2], t[1], t[0]).weekday() < 5:
                by_year.setdefault(t[2], []).append(t)
        for y in sorted(set([1901, 2199, 2000] + [rng.randrange(1901, 2200) for _ in range(nyears)])):
            want = [str(date_of(t)) for t in sorted(by_year.get(y, []), key=lambda t: (t[1], t[0]))]
            try:
                got = calobj[c].get_holiday_list(y)
            except Exception as e:  # noqa: BLE001
                got = err_kind(e)
            cnt += 1
            if got != want:
                ctx.violation('get_holiday_list(year) is not the list of non-weekend holidays of that year',
                              {'cal': c.name, 'year': y, 'got': got, 'want': want}, clause='get_holiday_list')
    ctx.count('get_holiday_list', cnt, cnt)

    ctx.assumptions += [
        'rule lists in FinVerif/Spec/Calendar.lean are a reading of the named rules in calendar.py; agreement with real-world public holidays is not claimed',
        'termination of the adjust walk is proved for all 15 calendars on the whole domain 1901-01-01..2199-12-31 (Props/C14k, C14l: at most 10 evaluations; the FOLLOWING walk leaves 2199 exactly for SWEDEN from 31 Dec 2199); termination of add_business_days is proved with room for 10|n|+1 days inside 1917..2197 (Props/C14j) and validated by the correspondence elsewhere',
        'the date table was extended to 2201 before the run (table-extension history is decided under C13/C18)',
    ]
    return C.finish(ctx, 'proof',
                    'lake build ' + ' '.join(PROPS) + ' && lake env lean .cache/audit/Audit_C14.lean',
                    C.TRUSTED_BASE_COMMON + ['Spec: rule lists per calendar, Gregorian computus, 1 Mar 1900 = serial 61 = Thursday'],
                    RULE)


def compare(ctx, comp, ops, impl, drivers_ok, spec_ok, nontriv, exhaustive=False):
    """impl vs spec (the property itself) and impl vs generated model (the tie)."""
    spec = None
    try:
        spec = driver_parallel('C14Spec', ops)
    except C.DriverError as e:
        ctx.broke(f'spec driver failed on component {comp}: {str(e)[:300]}')
    model = None
    if drivers_ok:
        try:
            model = driver_parallel('C14', ops)
        except C.DriverError as e:
            ctx.broke(f'model driver failed on component {comp}: {str(e)[:300]}')
    nbad_spec = nbad_model = 0
    for i, op in enumerate(ops):
        if spec is not None and spec[i] != impl[i]:
            nbad_spec += 1
            fnd = None
            sp = spec[i].split()
            q = op.split()
            if op[0] == 'A':
                # Props/C14l `following_walk_domain`: the forward walk of adjust leaves 2199 EXACTLY for SWEDEN from
                # 31 Dec 2199 (FOLLOWING, and MODIFIED_FOLLOWING whose first stage is that walk) - nothing else
                crosses = q[1] == '11' and q[2] in ('2', '3') and q[3:] == ['31', '12', '2199']
            else:
                crosses = len(sp) == 3 and sp[2].isdigit() and int(sp[2]) >= 2200
            if impl[i] == 'E:IndexError' and op[0] in 'AN' and crosses:
                # the walk leaves 2199: the Easter table ends there and the lookup raises IndexError
                fnd = 'C14/walk-past-2199-easter-table-end'
            if nbad_spec <= 5 or fnd:
                ctx.violation(f'{comp}: implementation disagrees with the specification',
                              {'op': op, 'implementation': impl[i], 'spec': spec[i],
                               'model': model[i] if model else None}, finding=fnd, clause=comp)
        if model is not None and model[i] != impl[i]:
            nbad_model += 1
            if spec is None or spec[i] == impl[i]:
                # model and implementation differ but the implementation meets the spec: the tie is broken
                if nbad_model <= 3:
                    ctx.broke(f'correspondence {comp}: model≠implementation on `{op}` (model {model[i]}, impl {impl[i]})')
    ctx.count(comp, len(ops), nontriv, sample={'op': ops[len(ops) // 2], 'impl': impl[len(ops) // 2]})
    ctx.cov['components'][comp]['exhaustive'] = exhaustive
    ctx.cov['components'][comp]['disagree_spec'] = nbad_spec
    ctx.cov['components'][comp]['disagree_model'] = nbad_model
    if exhaustive:
        ctx.cov['exhaustive'] = True


def replay(ctx, path):
    import json
    rp = json.load(open(path))
    C.import_financepy()
    from financepy.utils.date import Date
    from financepy.utils.calendar import Calendar, CalendarTypes, BusDayAdjustTypes
    Date(1, 1, 2201)
    v = rp.get('violation')
    if not v:
        print('replay: no concrete input in this file:', rp.get('broken'))
        return 1
    op = v['case'].get('op')
    if not op:
        print('replay case:', v)
        return 1
    p = op.split()
    spec = C.run_driver('C14Spec', [op])[0]
    kind = p[0]
    a = list(map(int, p[1:]))
    if kind in ('H', 'B'):
        cal = Calendar(CalendarTypes(a[0]))
        dt = Date(a[1], a[2], a[3])
        r = cal.is_holiday(dt) if kind == 'H' else cal.is_business_day(dt)
        r = '1' if r else '0'
    elif kind == 'A':
        r = fmt_date(Calendar(CalendarTypes(a[0])).adjust(Date(a[2], a[3], a[4]), BusDayAdjustTypes(a[1])))
    elif kind == 'N':
        r = fmt_date(Calendar(CalendarTypes(a[0])).add_business_days(Date(a[2], a[3], a[4]), a[1]))
    else:
        r = fmt_date(Calendar(CalendarTypes.TARGET).easter_monday(a[0]))
    print(f'replay {op}: implementation={r} spec={spec}')
    if r != spec:
        print(f'VIOLATION property=C14 replay={path}')
        return 1
    return 0
