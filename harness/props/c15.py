"""C15 — day-count fractions implement the ISDA 2006 / ICMA definitions.

Model: `DayCount.year_frac` GENERATED from day_count.py (Gen/DayCount.lean, exact rationals).
Spec: FinVerif/Spec/DayCount.lean (independent of the source).  Theorems: Props/C15*.lean.
Correspondence: implementation vs model vs spec on a dense set of date pairs; num/den exact,
fraction to a few ulps."""
import os
import sys
from fractions import Fraction

sys.path.insert(0, os.path.dirname(os.path.dirname(os.path.abspath(__file__))))
import common as C  # noqa: E402
import dates as D   # noqa: E402
from parallel import driver_parallel  # noqa: E402

GEN = ['DateK', 'Calendar', 'DateLogic', 'DayCount']
PROPS = ['FinVerif.Props.C15', 'FinVerif.Props.C15b', 'FinVerif.Props.C15c', 'FinVerif.Props.C15d',
         'FinVerif.Props.C15e', 'FinVerif.Props.C15f', 'FinVerif.Props.C15g']
DRIVERS = ['FinVerif.Driver.C15']
SPEC_DRIVERS = ['FinVerif.Driver.C15Spec']

CORPUS = [
    'YF 5 20 12 1900 12 5 1905 0 0 0 0 1 0',      # C15/actact-isda-1900-phantom-leap-day
    'YF 9 8 5 1967 26 6 1980 0 0 0 0 1 0',        # fixed: ACT/365L without period end raised AttributeError
    'YF 9 12 2 1948 12 1 1949 0 0 0 0 -1 1',
    'YF 3 28 2 2021 28 2 2021 0 0 0 0 1 1',       # 30E/360 ISDA termination-date exception
    'YF 4 31 1 2020 31 1 2020 0 0 0 0 1 0',       # 30E+/360 on a 31st
]

RULE = ('date pairs (ordered and reversed, 0 days .. 60 years apart) drawn from a dense set biased to month ends, '
        '28/29 Feb, 30th/31st, year ends and century years 1900-2200, x every DayCountTypes member x every '
        'FrequencyTypes member x both termination flags x with/without the period-end date; compared with the '
        'generated model and with the ISDA/ICMA spec: numerator and denominator exactly (as rationals), fraction '
        'within 4 ulp. Non-trivial = the two dates differ; distinct = distinct op lines (counted).')


def parse_triple(s):
    if s.startswith('E:'):
        return s
    a, b, c = s.split()
    return tuple(Fraction(x) for x in (a, b, c))


def same(impl, other):
    """impl: ('ok', acc, num, den) or 'E:kind'; other: parsed driver answer."""
    if isinstance(impl, str) or isinstance(other, str):
        return impl == other
    acc, num, den = impl
    facc, fnum, fden = other
    if Fraction(num) != fnum or Fraction(den) != fden:
        return False
    ref = float(facc)
    return abs(acc - ref) <= 1e-15 * max(1.0, abs(ref)) * 4


def run(ctx):
    drivers_ok = C.lean_stage(ctx, GEN, PROPS, DRIVERS + SPEC_DRIVERS)
    C.import_financepy()
    from financepy.utils.date import Date
    from financepy.utils.day_count import DayCount, DayCountTypes
    from financepy.utils.frequency import FrequencyTypes
    from financepy.utils.error import FinError
    import datetime

    Date(1, 1, 2262)
    rng = ctx.rng('pairs')
    n_pairs = 60000 if ctx.quick() else 600000
    base = D.interesting_dates(rng, n_pairs, 1900, 2200)
    base = [t for t in base if t[2] > 1900 or t[1] >= 3]
    dccs = list(DayCountTypes)
    freqs = list(FrequencyTypes)
    dcobj = {d: DayCount(d) for d in dccs}
    ops, impl, valid_call = [], [], []
    seen = set()

    def shift(t, days):
        dd = datetime.date(t[2], t[1], t[0]) + datetime.timedelta(days=days)
        if dd.year > 2260 or dd < datetime.date(1900, 3, 1):
            return t
        return (dd.day, dd.month, dd.year)

    # corpus: witnesses of past findings run first
    for op in CORPUS:
        p = list(map(int, op.split()[1:]))
        seen.add(op)
        try:
            acc, num, den = dcobj[DayCountTypes(p[0])].year_frac(
                Date(p[1], p[2], p[3]), Date(p[4], p[5], p[6]), Date(p[8], p[9], p[10]) if p[7] else None,
                FrequencyTypes(p[11]), bool(p[12]))
            r = (float(acc), num, den)
        except FinError:
            r = 'E:FinError'
        except Exception as e:  # noqa: BLE001
            r = 'E:' + type(e).__name__
        ops.append(op)
        impl.append(r)
        valid_call.append(True)

    for t1 in base:
        k = rng.random()
        if k < 0.25:
            gap = rng.randint(0, 40)
        elif k < 0.6:
            gap = rng.randint(0, 800)
        else:
            gap = rng.randint(0, 60 * 366)
        t2 = shift(t1, gap)
        if rng.random() < 0.35:
            # snap the second date to an interesting day of its month
            y, m = t2[2], t2[1]
            last = (datetime.date(y + (m == 12), (m % 12) + 1, 1) - datetime.timedelta(days=1)).day
            t2 = (rng.choice([last, min(30, last), min(28, last), 1]), m, y)
        if rng.random() < 0.3:
            t1, t2 = t2, t1
        dcc = rng.choice(dccs)
        fr = rng.choice(freqs)
        term = rng.random() < 0.5
        has3 = rng.random() < 0.6
        s1 = datetime.date(t1[2], t1[1], t1[0])
        s2 = datetime.date(t2[2], t2[1], t2[0])
        if has3:
            # a coupon-period end on/after the later of the two dates (regular period: +12/f months from dt1)
            t3 = shift(max(t1, t2, key=lambda t: (t[2], t[1], t[0])), rng.choice([0, 1, 30, 91, 182, 365]))
            if t3 == t1:
                t3 = shift(t3, 1)
        else:
            t3 = (0, 0, 0)
        op = (f'YF {dcc.value} {t1[0]} {t1[1]} {t1[2]} {t2[0]} {t2[1]} {t2[2]} {1 if has3 else 0} '
              f'{t3[0]} {t3[1]} {t3[2]} {fr.value} {1 if term else 0}')
        if op in seen:
            continue
        seen.add(op)
        d1, d2 = Date(*t1), Date(*t2)
        d3 = Date(*t3) if has3 else None
        try:
            acc, num, den = dcobj[dcc].year_frac(d1, d2, d3, fr, term)
            r = (float(acc), num, den)
        except FinError:
            r = 'E:FinError'
        except Exception as e:  # noqa: BLE001
            r = 'E:' + type(e).__name__
        ops.append(op)
        impl.append(r)
        valid_call.append(s1 != s2)

    # ICMA over k consecutive coupon periods (hand model `icmaSum`, Model/C15.lean; theorem icma_k_regular_periods):
    # the implementation's sum of year_frac(p_i, p_{i+1}, p_{i+1}) vs the model's exact sum vs k/f
    from financepy.utils.frequency import annual_frequency
    rng_i = ctx.rng('icma')
    icma_ops, icma_impl, icma_k = [], [], []
    icma_freqs = [FrequencyTypes.ANNUAL, FrequencyTypes.SEMI_ANNUAL, FrequencyTypes.TRI_ANNUAL,
                  FrequencyTypes.QUARTERLY, FrequencyTypes.MONTHLY]
    for t1 in base[: (400 if ctx.quick() else 8000)]:
        k = rng_i.randint(1, 6)
        sched = [t1]
        for _ in range(k):
            nxt = shift(sched[-1], rng_i.choice([28, 30, 31, 89, 90, 91, 92, 181, 182, 184, 365, 366]))
            if nxt == sched[-1]:
                break
            sched.append(nxt)
        if len(sched) < 2:
            continue
        fr = rng_i.choice(icma_freqs)
        ds = [Date(*t) for t in sched]
        tot = 0.0
        for i in range(len(ds) - 1):
            tot += dcobj[DayCountTypes.ACT_ACT_ICMA].year_frac(ds[i], ds[i + 1], ds[i + 1], fr)[0]
        icma_ops.append(f'ICMASUM {fr.value} 0 ' + ' '.join(f'{t[0]} {t[1]} {t[2]}' for t in sched))
        icma_impl.append(tot)
        icma_k.append((len(sched) - 1, annual_frequency(fr)))

    spec = model = icma_model = None
    try:
        spec = [parse_triple(x) for x in driver_parallel('C15Spec', ops)]
    except C.DriverError as e:
        ctx.broke('spec driver failed: ' + str(e)[:300])
    if drivers_ok:
        try:
            raw = driver_parallel('C15', ops + icma_ops)
            model = [parse_triple(x) for x in raw[:len(ops)]]
            icma_model = [Fraction(x) for x in raw[len(ops):]]
        except C.DriverError as e:
            ctx.broke('model driver failed: ' + str(e)[:300])
    nb_i = 0
    for i, op in enumerate(icma_ops):
        k, fq = icma_k[i]
        want = k / fq
        if abs(icma_impl[i] - want) > 4e-15 * max(1.0, abs(want)):
            ctx.violation('k consecutive full coupon periods under ACT/ACT ICMA do not sum to k/frequency',
                          {'op': op, 'implementation': icma_impl[i], 'k': k, 'freq': fq}, clause='icma-regular')
        elif icma_model is not None and abs(float(icma_model[i]) - icma_impl[i]) > 4e-15 * max(1.0, abs(want)):
            nb_i += 1
            if nb_i <= 3:
                ctx.broke(f'correspondence icmaSum: model≠implementation on `{op}` (model {icma_model[i]}, '
                          f'impl {icma_impl[i]})')
    ctx.count('icma k-period sums', len(icma_ops), len(icma_ops),
              sample={'op': icma_ops[0], 'impl': icma_impl[0]} if icma_ops else None)
    nb_s = nb_m = 0
    kinds = {}
    for i, op in enumerate(ops):
        r = impl[i]
        kinds[r if isinstance(r, str) else 'ok'] = kinds.get(r if isinstance(r, str) else 'ok', 0) + 1
        if isinstance(r, str) and r not in ('E:FinError',):
            sp = spec[i] if spec else None
            # a valid call must fail only with FinError
            if not (sp is not None and isinstance(sp, str) and sp == 'E:ZeroDivisionError'):
                fnd = None
                p = op.split()
                if r == 'E:AttributeError' and p[1] == '9' and p[8] == '0':
                    fnd = 'C15/act365l-no-period-end'
                ctx.violation('a valid year_frac call failed with ' + r + ' (only FinError is allowed)',
                              {'op': op, 'implementation': r, 'spec': str(sp)}, finding=fnd, clause='error-kind')
                continue
        if spec is not None and not same(r, spec[i]):
            nb_s += 1
            fnd = None
            p = op.split()
            if p[1] in ('0', '5') and p[4] != p[7] and '1900' in (p[4], p[7]) and not isinstance(r, str) \
                    and not isinstance(spec[i], str) and abs(Fraction(r[1]) - spec[i][1]) == 1:
                # ACT/ACT ISDA across calendar years with one date in 1900: the code measures the
                # 1900 stub from the table's 1 Jan 1900, which counts Excel's phantom 29 Feb 1900
                fnd = 'C15/actact-isda-1900-phantom-leap-day'
                if model is not None and not same(r, model[i]):
                    fnd = None   # excused only where the generated model predicts the same numbers
            if nb_s <= 5 or fnd:
                ctx.violation('year_frac disagrees with the ISDA/ICMA definition',
                              {'op': op, 'implementation': str(r), 'spec': str(spec[i]),
                               'model': str(model[i]) if model else None}, finding=fnd, clause='definition')
        if model is not None and not same(r, model[i]):
            nb_m += 1
            if (spec is None or same(r, spec[i])) and nb_m <= 3:
                ctx.broke(f'correspondence year_frac: model≠implementation on `{op}` (model {model[i]}, impl {r})')
    ctx.count('year_frac', len(ops), sum(valid_call), sample={'op': ops[0], 'impl': str(impl[0])})
    ctx.cov['components']['year_frac'].update({'disagree_spec': nb_s, 'disagree_model': nb_m, 'result_kinds': kinds})

    # ------------------------------------------------ direct laws on the implementation
    nlaw = 0
    for t1 in base[: (1500 if ctx.quick() else 30000)]:
        a = Date(*t1)
        b = Date(*shift(t1, rng.randint(1, 4000)))
        c = Date(*shift((b.d, b.m, b.y), rng.randint(1, 4000)))
        for dcc in (DayCountTypes.ACT_360, DayCountTypes.ACT_365F, DayCountTypes.SIMPLE):
            dc = dcobj[dcc]
            x, y, z = dc.year_frac(a, b)[0], dc.year_frac(b, c)[0], dc.year_frac(a, c)[0]
            nlaw += 1
            if abs(x + y - z) > 1e-12 * max(1.0, abs(z)):
                ctx.violation('ACT/fixed-denominator fraction is not additive over adjacent periods',
                              {'dcc': dcc.name, 'a': t1, 'b': (b.d, b.m, b.y), 'c': (c.d, c.m, c.y),
                               'ab': x, 'bc': y, 'ac': z}, clause='additive')
        for dcc in dccs:
            if dcc == DayCountTypes.ACT_ACT_ICMA:
                continue
            if dcc == DayCountTypes.THIRTY_E_PLUS_360 and a.d == 31:
                continue  # the published 30E+/360 rule itself gives 1/360 here (theorem thirty_E_plus_360_equal_31st)
            z0 = dcobj[dcc].year_frac(a, a, a if dcc == DayCountTypes.ACT_365L else None)[0]
            nlaw += 1
            if z0 != 0.0:
                ctx.violation('year fraction of equal dates is not zero', {'dcc': dcc.name, 'date': t1, 'value': z0},
                              clause='zero-on-equal')
        for fr in (FrequencyTypes.ANNUAL, FrequencyTypes.SEMI_ANNUAL, FrequencyTypes.QUARTERLY, FrequencyTypes.MONTHLY):
            v = dcobj[DayCountTypes.ACT_ACT_ICMA].year_frac(a, b, b, fr)[0]
            nlaw += 1
            from financepy.utils.frequency import annual_frequency
            if abs(v - 1.0 / annual_frequency(fr)) > 1e-15:
                ctx.violation('a full coupon period under ACT/ACT ICMA is not 1/frequency',
                              {'a': t1, 'b': (b.d, b.m, b.y), 'freq': fr.name, 'value': v}, clause='icma-regular')
    ctx.count('laws(additive, zero, icma-regular)', nlaw)

    # ------------------------------------------------ laws proved in Props/C15e-g, run directly on the implementation
    T = DayCountTypes
    fam = (T.THIRTY_360_BOND, T.THIRTY_E_360, T.THIRTY_E_360_ISDA, T.THIRTY_E_PLUS_360)
    rng_l = ctx.rng('laws2')
    nlaw2 = 0

    def num(dcc, x, y, term=False):
        return dcobj[dcc].year_frac(x, y, None, FrequencyTypes.ANNUAL, term)[1]

    def lastfeb(t):
        return t[1] == 2 and t[0] == (29 if (t[2] % 4 == 0 and (t[2] % 100 != 0 or t[2] % 400 == 0)) else 28)

    def bad(what, case, clause):
        ctx.violation(what, case, clause=clause)

    for t1 in base[: (1500 if ctx.quick() else 30000)]:
        if t1[2] < 1901:
            continue
        ta = t1
        tb = shift(ta, rng_l.choice([1, 2, 29, 30, 31, 59, 61, rng_l.randint(1, 4000)]))
        tc = shift(tb, rng_l.choice([1, 2, 29, 30, 31, 59, 61, rng_l.randint(1, 4000)]))
        if rng_l.random() < 0.4:
            # steer the middle / last date to a 31st or a February end, where the conventions differ
            m31 = rng_l.choice([1, 3, 5, 7, 8, 10, 12])
            tb = (31, m31, tb[2]) if rng_l.random() < 0.6 else (28, 2, tb[2])
            if rng_l.random() < 0.5:
                tc = (31, rng_l.choice([1, 3, 5, 7, 8, 10, 12]), tc[2])
        a, b, c = Date(*ta), Date(*tb), Date(*tc)
        case = {'a': ta, 'b': tb, 'c': tc}
        # additivity in the 30/360 family (exact integers): thirty_E_360_additive, isda_additive,
        # thirty_E_plus_360_additivity_defect, bond_additivity_defect
        nlaw2 += 5
        if num(T.THIRTY_E_360, a, b) + num(T.THIRTY_E_360, b, c) != num(T.THIRTY_E_360, a, c):
            bad('30E/360 numerator is not additive over adjacent periods', case, 'additive-30E')
        for t in (False, True):
            if num(T.THIRTY_E_360_ISDA, a, b, False) + num(T.THIRTY_E_360_ISDA, b, c, t) != num(T.THIRTY_E_360_ISDA, a, c, t):
                bad('30E/360 ISDA numerator is not additive with the termination flag on the last period only',
                    dict(case, term=t), 'additive-30E-ISDA')
        if num(fam[3], a, b) + num(fam[3], b, c) != num(fam[3], a, c) + (1 if tb[0] == 31 else 0):
            bad('30E+/360 additivity defect is not [middle date is a 31st]', case, 'additive-30E+')
        dfct = (1 if (tb[0] == 31 and ta[0] < 30) else 0) + \
            (((1 if ta[0] >= 30 else 0) - (1 if tb[0] >= 30 else 0)) if tc[0] == 31 else 0)
        if num(fam[0], a, b) + num(fam[0], b, c) != num(fam[0], a, c) + dfct:
            bad('30/360 Bond additivity defect differs from the proved formula', case, 'additive-bond')
        # the termination flag: isda_flag_effect
        nlaw2 += 1
        eff = num(fam[2], a, b, True) - num(fam[2], a, b, False)
        if eff != ((tb[0] - 30) if lastfeb(tb) else 0):
            bad('30E/360 ISDA: effect of the termination flag is not (d2 - 30 on the last day of February, else 0)',
                dict(case, effect=eff), 'isda-termination')
        # sign and its corners: thirty360_sign_of_serial_lt / _gt
        prs = [(ta, tb)]
        m31 = rng_l.choice([1, 3, 5, 7, 8, 10, 12])
        yy = ta[2]
        nm = (1, m31 + 1, yy) if m31 < 12 else (1, 1, yy + 1)
        prs += [((30, m31, yy), (31, m31, yy)), ((29, m31, yy), (31, m31, yy)), ((31, m31, yy), nm)]
        for (p, q) in prs:
            kp, kq = (p[2], p[1], p[0]), (q[2], q[1], q[0])
            if kp == kq:
                continue
            if kp > kq:
                p, q = q, p
            dp, dq = Date(*p), Date(*q)
            same_month = p[1] == q[1] and p[2] == q[2]
            for dcc in fam:
                for t in (False, True):
                    nlaw2 += 2
                    nf, nr = num(dcc, dp, dq, t), num(dcc, dq, dp, t)
                    zf = dcc != fam[3] and same_month and p[0] == 30 and q[0] == 31
                    zr = (same_month and q[0] == 31 and p[0] == 30) or \
                        (dcc in (fam[0], fam[3]) and 12 * q[2] + q[1] == 12 * p[2] + p[1] + 1 and q[0] == 1 and p[0] == 31)
                    if nf < 0 or (nf == 0) != zf:
                        bad('30/360 fraction of a positive period: sign/corner differs from the proved characterisation',
                            {'dcc': dcc.name, 'start': p, 'end': q, 'term': t, 'num': nf}, 'sign-30-360')
                    if nr > 0 or (nr == 0) != zr:
                        bad('30/360 fraction of a reversed period: sign/corner differs from the proved characterisation',
                            {'dcc': dcc.name, 'start': q, 'end': p, 'term': t, 'num': nr}, 'sign-30-360')
        # ACT/ACT ISDA: additive, antisymmetric, between days/366 and days/365 (dates from 1901)
        if (ta[2], ta[1], ta[0]) < (tb[2], tb[1], tb[0]) <= (tc[2], tc[1], tc[0]):
            dc = dcobj[T.ACT_ACT_ISDA]
            x, y, z = dc.year_frac(a, b)[0], dc.year_frac(b, c)[0], dc.year_frac(a, c)[0]
            nlaw2 += 3
            if abs(x + y - z) > 1e-12 * max(1.0, abs(z)):
                bad('ACT/ACT ISDA is not additive over adjacent periods', dict(case, ab=x, bc=y, ac=z), 'additive-actact')
            if abs(dc.year_frac(b, a)[0] + x) > 1e-12 * max(1.0, abs(x)):
                bad('ACT/ACT ISDA is not antisymmetric', dict(case, ab=x), 'sign-actact')
            days = b - a
            if not (days / 366.0 - 1e-12 <= x <= days / 365.0 + 1e-12):
                bad('ACT/ACT ISDA is outside [days/366, days/365]', dict(case, ab=x, days=days), 'bounds-actact')
        # identities: simple_eq_act_365F, act_360_eq_act_365F_scaled
        nlaw2 += 2
        r7, r10, r8 = dcobj[T.ACT_365F].year_frac(a, c), dcobj[T.SIMPLE].year_frac(a, c), dcobj[T.ACT_360].year_frac(a, c)
        if tuple(r7) != tuple(r10):
            bad('SIMPLE and ACT/365F differ', dict(case, act365f=str(r7), simple=str(r10)), 'identities')
        if r8[1] != r7[1] or abs(r8[0] - r7[0] * 365.0 / 360.0) > 4e-16 * max(1.0, abs(r8[0])):
            bad('ACT/360 is not ACT/365F x 365/360', dict(case, act365f=str(r7), act360=str(r8)), 'identities')
    ctx.count('laws(30/360 sign corners, family additivity, termination flag, ACT/ACT ISDA additive/bounds, identities)',
              nlaw2)

    # ------------------------------------------------ times_from_dates: the vector helper is year_frac element by element
    from financepy.utils.helpers import times_from_dates
    from financepy.utils.global_vars import g_days_in_year
    import numpy as np
    nt = 0
    for t1 in base[: (600 if ctx.quick() else 10000)]:
        vd = Date(*t1)
        # dates on both sides of the valuation date (the helper must give year_frac(value_dt, date), which is NOT
        # -year_frac(date, value_dt) for 30/360 Bond, 30E+/360 and ACT/365L), biased to 31sts and leap days
        def near(t):
            k = rng.random()
            if k < 0.25:
                return (31, rng.choice([1, 3, 5, 7, 8, 10, 12]), t[2])
            if k < 0.35:
                yy = t[2] - t[2] % 4
                return (29, 2, yy) if (yy % 100 != 0 or yy % 400 == 0) and yy > 1900 else t
            return t
        ts = [near(shift(t1, rng.choice([-1, 1]) * rng.choice([0, 1, 29, 30, 31, 59, 60, 365, 366, rng.randint(0, 20000)])))
              for _ in range(rng.randint(1, 6))]
        ds = [Date(*t) for t in ts]
        for dcc in [None] + [d for d in dccs if d != DayCountTypes.ACT_ACT_ICMA]:
            def one(d):
                if dcc is None:
                    return (d - vd) / g_days_in_year
                return dcobj[dcc].year_frac(vd, d)[0]
            try:
                want = [float(one(d)) for d in ds]
            except FinError:
                continue
            try:
                got = times_from_dates(ds, vd, dcc)
                g1 = times_from_dates(ds[0], vd, dcc)
                ok = isinstance(got, np.ndarray) and [float(x) for x in got] == want and float(g1) == want[0]
                shown = [float(x) for x in np.atleast_1d(got)]
            except Exception as ex:  # noqa: BLE001
                ok, shown = False, 'E:' + type(ex).__name__
            nt += 1
            if not ok:
                ctx.violation('times_from_dates is not year_frac(value_dt, date) element by element',
                              {'value_dt': t1, 'dates': ts, 'dcc': dcc.name if dcc else None, 'got': shown, 'want': want},
                              clause='times_from_dates')
    ctx.count('times_from_dates', nt, nt)

    ctx.assumptions += [
        'the ISDA/ICMA formulas in FinVerif/Spec/DayCount.lean are my transcription of the published definitions',
        'float division num/den is one IEEE operation (fraction compared within 4 ulp); ACT/ACT ISDA sums three terms',
        'equal dates under 30E/360 ISDA with the termination flag on the last day of February give -2/360 by the '
        'published definition itself; this is not treated as a violation of "zero for equal dates"',
    ]
    return C.finish(ctx, 'proof', 'lake build FinVerif.Props.C15 && lake env lean .cache/audit/Audit_C15.lean',
                    C.TRUSTED_BASE_COMMON + ['Spec: transcription of ISDA 2006 §4.16 / ICMA Rule 251; Gregorian serial anchors'],
                    RULE)


def replay(ctx, path):
    import json
    rp = json.load(open(path))
    v = rp.get('violation')
    if not v or 'op' not in v.get('case', {}):
        print('replay: no op in this file:', rp.get('broken'), v)
        return 1
    op = v['case']['op']
    C.import_financepy()
    from financepy.utils.date import Date
    from financepy.utils.day_count import DayCount, DayCountTypes
    from financepy.utils.frequency import FrequencyTypes
    p = list(map(int, op.split()[1:]))
    d3 = Date(p[8], p[9], p[10]) if p[7] else None
    try:
        r = DayCount(DayCountTypes(p[0])).year_frac(Date(p[1], p[2], p[3]), Date(p[4], p[5], p[6]), d3,
                                                    FrequencyTypes(p[11]), bool(p[12]))
        r = (float(r[0]), r[1], r[2])
    except Exception as e:  # noqa: BLE001
        r = 'E:' + type(e).__name__
    sp = parse_triple(C.run_driver('C15Spec', [op])[0])
    print(f'replay {op}: implementation={r} spec={sp}')
    if not same(r, sp):
        print(f'VIOLATION property=C15 replay={path}')
        return 1
    return 0
