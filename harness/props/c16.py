"""C16 — generated schedules are well-formed ISDA roll schedules.

Model: Schedule.generate as a pure function (lean/FinVerif/Core/ScheduleAlgo.lean) instantiated with the
model of Date/Calendar; Spec: FinVerif/Spec/Schedule.lean (ideal roll schedule, independent of the
source).  Theorems: FinVerif/Props/C16.lean, C16b … C16i (see notes/C16.md).  Correspondence: implementation vs model (exact dates)
and implementation vs spec acceptance; then products built on schedules inherit exactly these dates."""
import json
import os
import sys

sys.path.insert(0, os.path.dirname(os.path.dirname(os.path.abspath(__file__))))
import common as C  # noqa: E402
import dates as D   # noqa: E402
from parallel import driver_parallel  # noqa: E402

GEN = ['DateK', 'Calendar', 'DateLogic', 'Wiring', 'SchedLoop']
PROPS = ['FinVerif.Props.C16', 'FinVerif.Props.C16b', 'FinVerif.Props.C16c', 'FinVerif.Props.C16d', 'FinVerif.Props.C16e',
         'FinVerif.Props.C16f', 'FinVerif.Props.C16g', 'FinVerif.Props.C16h', 'FinVerif.Props.C16i',
         'FinVerif.Props.C16w', 'FinVerif.Props.C16l']
DRIVERS = ['FinVerif.Driver.C16']
WIRING_DRIVER = 'FinVerif.Driver.C16w'   # evaluates Spec/Wiring's rules on Gen/Wiring (names the sites behind a failing decide)
SPEC_DRIVERS = ['FinVerif.Driver.C16Spec']

RULE = ('effective/termination pairs 1 day..50 years apart drawn from dates biased to month ends, 29 Feb, weekends and '
        'holidays, x every FrequencyTypes with a period x 15 CalendarTypes x 5 BusDayAdjustTypes x both DateGenRuleTypes '
        'x both flags; each schedule compared date-by-date with the model and judged against the ideal roll schedule of '
        'the spec; a second generate() is compared too; then SwapFixedLeg/SwapFloatLeg/Bond/CDS/IborCapFloor date lists are '
        'compared with the Schedule they are built on; CDS accrual end dates and SwapFixedLeg/SwapFloatLeg date lists with payment_lag 0..3 '
        'are compared with the model (ops CDSE, LEG) and with own day arithmetic. Non-trivial = schedule with at least one interior date.')

CORPUS = [
    'SCH 4 1 2020 4 1 2021 3 2 2 0 1 0 0',      # FORWARD, Saturday effective date, FOLLOWING
    'SCH 1 5 2020 2 5 2020 12 2 4 1 1 0 0',     # BACKWARD 1-May..2-May PRECEDING: both ends adjust to 1-May
    'SCH 20 1 2020 22 3 2020 1 2 4 0 1 0 0',    # FORWARD, last roll and termination adjust to the same day
    'SCH 6 1 2020 6 6 2020 1 2 2 1 1 0 1',      # BACKWARD, Saturday termination, generate() twice
    'SCH 31 8 2020 28 2 2022 6 14 3 1 0 1 0',   # EOM flag, BACKWARD
    'SCH 29 2 2020 28 2 2025 12 13 3 0 1 0 0',
]



def own_add_months(t, k):
    """(d, m, y) + k months, day clipped to the month's length — computed here, not with the implementation, so that
    test inputs do not depend on the code under test"""
    import calendar as _cal
    d, m, y = t
    idx = y * 12 + (m - 1) + k
    yy, mm = divmod(idx, 12)
    mm += 1
    return (min(d, _cal.monthrange(yy, mm)[1]), mm, yy)


def own_add_days(t, n):
    import datetime as _dt
    x = _dt.date(t[2], t[1], t[0]) + _dt.timedelta(days=n)
    return (x.day, x.month, x.year)


def fmtl(ds):
    return ','.join(f'{d.d}-{d.m}-{d.y}' for d in ds)


def judge(spec_ans, impl):
    """returns (ok, ideal, strict)"""
    if spec_ans == 'E:FinError':
        return impl == 'E:FinError', None, None
    strict = spec_ans[0] == '1'
    ideal, merged = [x.strip() for x in spec_ans[2:].split('|')]
    if strict:
        return impl == ideal, ideal, True
    if impl == 'E:FinError':
        return True, ideal, False
    ms = merged.split(',')
    return (impl == merged and len(ms) >= 2), ideal, False


def classify(op, impl, ideal, strict, adj_eff, adj_term_moves=False):
    p = op.split()
    backward = p[10] == '1'
    regen = p[13] == '1'
    if impl.startswith('E:') or ideal is None:
        return None
    il, dl = impl.split(','), ideal.split(',')
    if not backward and strict and len(il) == len(dl) and il[1:] == dl[1:] and il[0] != dl[0] and il[0] == adj_eff:
        return 'C16/forward-effective-adjusted'
    if regen and p[11] == '1' and adj_term_moves:
        # generate() called twice, adjust_termination on, and the termination date is not a business day
        return 'C16/regenerate-reanchors'
    if strict is False:
        return 'C16/dedup-pops-first'
    return None


def run(ctx):
    merge_local_findings(ctx)
    all_ok = C.lean_stage(ctx, GEN, PROPS, DRIVERS + SPEC_DRIVERS + [WIRING_DRIVER], extra_files=['FinVerif/Spec/Wiring.lean', 'FinVerif/Lemmas/C16Loop.lean'])
    # the wiring driver failing to build (table not generated) must not switch off the schedule model's correspondences
    unbuilt = [m for b in ctx.broken if b.startswith('model: the executable model') for m in b.split(': ')[-1].split(', ')]
    drivers_ok = ctx.model_ok = all_ok or not any(m in unbuilt for m in DRIVERS + SPEC_DRIVERS)
    ctx.wiring_driver_ok = all_ok or WIRING_DRIVER not in unbuilt
    C.import_financepy()
    from financepy.utils.date import Date
    from financepy.utils.calendar import Calendar, CalendarTypes, BusDayAdjustTypes, DateGenRuleTypes
    from financepy.utils.frequency import FrequencyTypes, annual_frequency
    from financepy.utils.schedule import Schedule
    from financepy.utils.error import FinError
    import datetime

    Date(1, 1, 2262)
    rng = ctx.rng('main')
    freqs = [f for f in FrequencyTypes if f not in (FrequencyTypes.CONTINUOUS, FrequencyTypes.SIMPLE)]
    cals = list(CalendarTypes)
    convs = list(BusDayAdjustTypes)
    n = 6000 if ctx.quick() else 200000
    starts = D.interesting_dates(rng, n, 1905, 2140)
    ops = list(CORPUS)
    for t1 in starts:
        k = rng.random()
        if k < 0.15:
            gap = rng.randint(1, 10)
        elif k < 0.6:
            gap = rng.randint(1, 1200)
        else:
            gap = rng.randint(1, 50 * 366)
        d2 = datetime.date(t1[2], t1[1], t1[0]) + datetime.timedelta(days=gap)
        if rng.random() < 0.4:
            # a whole number of months later (regular schedules)
            mm = rng.choice([1, 3, 6, 12, 24, 60, 120])
            y = t1[2] + (t1[1] - 1 + mm) // 12
            m = (t1[1] - 1 + mm) % 12 + 1
            last = (datetime.date(y + (m == 12), (m % 12) + 1, 1) - datetime.timedelta(days=1)).day
            d2 = datetime.date(y, m, min(t1[0], last))
        t2 = (d2.day, d2.month, d2.year)
        f = rng.choice(freqs)
        nm = int(12 / annual_frequency(f))
        cal = rng.choice(cals)
        cv = rng.choice(convs)
        bw = rng.random() < 0.5
        at = rng.random() < 0.6
        eo = rng.random() < 0.25
        rg = rng.random() < 0.25
        ops.append(f'SCH {t1[0]} {t1[1]} {t1[2]} {t2[0]} {t2[1]} {t2[2]} {nm} {cal.value} {cv.value} '
                   f'{int(bw)} {int(at)} {int(eo)} {int(rg)}')
    ops = list(dict.fromkeys(ops))
    freq_by_nm = {}
    for f in freqs:
        freq_by_nm.setdefault(int(12 / annual_frequency(f)), f)

    impl, adj_eff, term_moves = [], [], []
    nontriv = 0
    for op in ops:
        p = list(map(int, op.split()[1:]))
        try:
            e, t = Date(p[0], p[1], p[2]), Date(p[3], p[4], p[5])
            cal, cv = CalendarTypes(p[7]), BusDayAdjustTypes(p[8])
            adj_eff.append((lambda x: f'{x.d}-{x.m}-{x.y}')(Calendar(cal).adjust(e, cv)))
            term_moves.append(Calendar(cal).adjust(t, cv) != t)
            s = Schedule(e, t, freq_by_nm[p[6]], cal, cv,
                         DateGenRuleTypes.BACKWARD if p[9] else DateGenRuleTypes.FORWARD, bool(p[10]), bool(p[11]))
            r = s.adjusted_dts
            if p[12]:
                r = s.generate()
            if len(r) > 2:
                nontriv += 1
            impl.append(fmtl(r))
        except FinError:
            impl.append('E:FinError')
            if len(adj_eff) < len(impl):
                adj_eff.append('')
            if len(term_moves) < len(impl):
                term_moves.append(False)
        except Exception as ex:  # noqa: BLE001
            impl.append('E:' + type(ex).__name__)
            if len(adj_eff) < len(impl):
                adj_eff.append('')
            if len(term_moves) < len(impl):
                term_moves.append(False)

    spec = model = None
    try:
        spec = driver_parallel('C16Spec', ops, chunk=2000)
    except C.DriverError as e:
        ctx.broke('spec driver failed: ' + str(e)[:300])
    if drivers_ok:
        try:
            model = driver_parallel('C16', ops, chunk=2000)
        except C.DriverError as e:
            ctx.broke('model driver failed: ' + str(e)[:300])
    nb_s = nb_m = 0
    for i, op in enumerate(ops):
        ok = True
        if spec is not None:
            ok, ideal, strict = judge(spec[i], impl[i])
            if not ok:
                nb_s += 1
                fnd = classify(op, impl[i], ideal, strict, adj_eff[i], term_moves[i])
                if fnd and model is not None and model[i] != impl[i]:
                    fnd = None   # a listed finding is excused only where the model (which encodes it) predicts it exactly
                if nb_s <= 5 or fnd:
                    ctx.violation('schedule is not the well-formed ISDA roll schedule of its inputs',
                                  {'op': op, 'implementation': impl[i], 'ideal': ideal, 'ideal_strictly_increasing': strict,
                                   'model': model[i] if model else None}, finding=fnd, clause='well-formed')
        if model is not None and model[i] != impl[i]:
            nb_m += 1
            if ok and nb_m <= 3:
                ctx.broke(f'correspondence Schedule.generate: model≠implementation on `{op}` (model {model[i]}, impl {impl[i]})')
    ctx.count('Schedule.generate', len(ops), nontriv, sample={'op': ops[len(ops) // 2], 'impl': impl[len(ops) // 2]})
    ctx.cov['components']['Schedule.generate'].update({'not_acceptable': nb_s, 'disagree_model': nb_m})

    inheritance(ctx, rng, drivers_ok)
    wiring(ctx)

    ctx.assumptions += [
        'wiring (C16w): the extractor (tools/py2lean/registry/wiring.py) classifies an argument as `param p` only when it is the constructor parameter itself or `self.x` whose only binding in the class is `self.x = p` in __init__; call sites reached through aliases of the callee names (`S = Schedule; S(...)`) are not seen — the textual search for `Schedule(` on every run bounds what can be missed to such aliases',
        'the ideal schedule (FinVerif/Spec/Schedule.lean) is my reading of the ISDA roll rule: rolls computed from the anchor, interior dates adjusted, effective date never adjusted, termination adjusted iff requested',
        'first_dt / next_to_last_dt are documented as unimplemented and are not exercised',
    ]
    return C.finish(ctx, 'proof', 'lake build FinVerif.Props.C16 && lake env lean .cache/audit/Audit_C16.lean',
                    C.TRUSTED_BASE_COMMON + ['Spec: ideal ISDA roll schedule; calendars and date arithmetic of C13/C14'],
                    RULE)


def inheritance(ctx, rng, drivers_ok=True):
    """Products built on schedules inherit exactly the schedule's dates."""
    from financepy.utils.date import Date
    from financepy.utils.calendar import CalendarTypes, BusDayAdjustTypes, DateGenRuleTypes
    from financepy.utils.frequency import FrequencyTypes
    from financepy.utils.schedule import Schedule
    from financepy.utils.day_count import DayCountTypes
    from financepy.utils.global_types import SwapTypes
    from financepy.products.rates.swap_fixed_leg import SwapFixedLeg
    from financepy.products.rates.swap_float_leg import SwapFloatLeg
    from financepy.products.bonds.bond import Bond
    from financepy.utils.error import FinError
    n = 300 if ctx.quick() else 5000
    cnt = 0
    freqs = [FrequencyTypes.ANNUAL, FrequencyTypes.SEMI_ANNUAL, FrequencyTypes.QUARTERLY, FrequencyTypes.MONTHLY]
    for t in D.interesting_dates(rng, n, 1990, 2060):
        e = Date(*t)
        months = rng.choice([6, 12, 18, 24, 60, 120, 37])
        tt = Date(*own_add_months(t, months))
        f = rng.choice(freqs)
        cal = rng.choice(list(CalendarTypes))
        cv = rng.choice(list(BusDayAdjustTypes))
        dg = rng.choice(list(DateGenRuleTypes))
        eo = rng.random() < 0.4
        try:
            sched = Schedule(e, tt, f, cal, cv, dg, end_of_month=eo).adjusted_dts
        except FinError:
            continue
        sl = fmtl(sched)
        for cls, name in ((SwapFixedLeg, 'SwapFixedLeg'), (SwapFloatLeg, 'SwapFloatLeg')):
            try:
                if cls is SwapFixedLeg:
                    leg = cls(e, tt, SwapTypes.PAY, 0.03, f, DayCountTypes.ACT_360, 1e6, 0.0, 0, cal, cv, dg, eo)
                else:
                    leg = cls(e, tt, SwapTypes.PAY, 0.0, f, DayCountTypes.ACT_360, 1e6, 0.0, 0, cal, cv, dg, eo)
            except FinError:
                continue
            cnt += 1
            got = fmtl([leg.start_accrued_dts[0]] + list(leg.end_accrued_dts))
            if got != sl:
                ctx.violation(f'{name} accrual dates differ from the Schedule built from the same inputs',
                              {'effective': t, 'months': months, 'freq': f.name, 'cal': cal.name, 'conv': cv.name,
                               'rule': dg.name, 'end_of_month': eo, 'schedule': sl, 'leg': got}, clause='inheritance')
            # with zero payment lag the payment dates are the accrual end dates
            gotp = fmtl(list(leg.payment_dts))
            if gotp != fmtl(list(leg.end_accrued_dts)):
                ctx.violation(f'{name} payment dates (lag 0) differ from its accrual end dates',
                              {'effective': t, 'months': months, 'freq': f.name, 'cal': cal.name, 'conv': cv.name,
                               'rule': dg.name, 'end_of_month': eo, 'payment': gotp, 'accrual_end': fmtl(list(leg.end_accrued_dts))},
                              clause='inheritance')
        try:
            b = Bond(e, tt, 0.05, f, DayCountTypes.ACT_ACT_ICMA)
            bs = Schedule(e, tt, f, CalendarTypes.NONE, b.bd_type, b.dg_type, end_of_month=b.end_of_month).adjusted_dts
            cnt += 1
            if fmtl(b.cpn_dts) != fmtl(bs):
                ctx.violation('Bond.cpn_dts differ from the Schedule built from the same inputs',
                              {'issue': t, 'months': months, 'freq': f.name, 'schedule': fmtl(bs), 'bond': fmtl(b.cpn_dts)},
                              clause='inheritance')
        except FinError:
            pass
    ctx.count('inheritance (swap legs, bond)', cnt)
    legs_with_lag(ctx, drivers_ok)
    inheritance_more(ctx, rng, drivers_ok)


def lag_oracle(leg, cal, lag):
    """direct oracle: a lagged payment date is a business day exactly `lag` business days after the accrual end date
    (own day walk over Calendar.is_business_day); with lag 0 it is the accrual end date. Returns None or the failing period."""
    from financepy.utils.date import Date
    from financepy.utils.calendar import Calendar, CalendarTypes
    if lag == 0:
        if fmtl(leg.payment_dts) != fmtl(leg.end_accrued_dts):
            return {'accrual_end': fmtl(leg.end_accrued_dts), 'payment': fmtl(leg.payment_dts)}
        return None
    if lag < 0 or cal == CalendarTypes.NONE:
        return None
    c = Calendar(cal)
    for en, pay in zip(leg.end_accrued_dts, leg.payment_dts):
        nb, cur, steps = 0, (en.d, en.m, en.y), 0
        while cur != (pay.d, pay.m, pay.y) and steps < 60:
            cur = own_add_days(cur, 1)
            steps += 1
            nb += bool(c.is_business_day(Date(*cur)))
        if not (pay > en and c.is_business_day(pay) and nb == lag):
            return {'accrual_end': fmtl([en]), 'payment': fmtl([pay]), 'business_days_between': nb}
    return None


def legs_with_lag(ctx, drivers_ok=True):
    """SwapFixedLeg / SwapFloatLeg date lists (accrual start | accrual end | payment) with payment_lag in 0..3 against the
    model `Model.legDates` (op LEG: Schedule + the period loop of generate_payments + Calendar.add_business_days), and a
    direct oracle on the implementation: a lagged payment date is a business day, exactly `lag` business days after the
    accrual end date (business days counted with an own day walk over Calendar.is_business_day)."""
    from financepy.utils.date import Date
    from financepy.utils.calendar import Calendar, CalendarTypes, BusDayAdjustTypes, DateGenRuleTypes
    from financepy.utils.frequency import FrequencyTypes, annual_frequency
    from financepy.utils.day_count import DayCountTypes
    from financepy.utils.global_types import SwapTypes
    from financepy.products.rates.swap_fixed_leg import SwapFixedLeg
    from financepy.products.rates.swap_float_leg import SwapFloatLeg
    from financepy.utils.error import FinError
    rng = ctx.rng('legs')
    n = 150 if ctx.quick() else 3000
    freqs = [FrequencyTypes.ANNUAL, FrequencyTypes.SEMI_ANNUAL, FrequencyTypes.QUARTERLY, FrequencyTypes.MONTHLY]
    ops, impls, cases = [], [], []
    cnt = nontriv = 0
    for t in D.interesting_dates(rng, n, 1990, 2060):
        months = rng.choice([1, 6, 12, 18, 24, 60, 37])
        t2 = own_add_months(t, months)
        if rng.random() < 0.3:
            t2 = own_add_days(t2, rng.randint(1, 40))
        f = rng.choice(freqs)
        cal = rng.choice(list(CalendarTypes))
        cv = rng.choice(list(BusDayAdjustTypes))
        dg = rng.choice(list(DateGenRuleTypes))
        eo = rng.random() < 0.3
        lag = rng.choice([0, 1, 2, 3])
        e, tt = Date(*t), Date(*t2)
        nm = int(12 / annual_frequency(f))
        op = (f'LEG {t[0]} {t[1]} {t[2]} {t2[0]} {t2[1]} {t2[2]} {nm} {cal.value} {cv.value} '
              f'{int(dg == DateGenRuleTypes.BACKWARD)} {int(eo)} {lag}')
        case = {'op': op, 'effective': t, 'termination': t2, 'freq': f.name, 'cal': cal.name, 'conv': cv.name,
                'rule': dg.name, 'end_of_month': eo, 'payment_lag': lag}
        got = []
        for cls in (SwapFixedLeg, SwapFloatLeg):
            try:
                leg = cls(e, tt, SwapTypes.PAY, 0.03 if cls is SwapFixedLeg else 0.0, f, DayCountTypes.ACT_360, 1e6, 0.0,
                          lag, cal, cv, dg, eo)
                got.append(fmtl(leg.start_accrued_dts) + ' | ' + fmtl(leg.end_accrued_dts) + ' | ' + fmtl(leg.payment_dts))
                bad = lag_oracle(leg, cal, lag)
                if bad:
                    ctx.violation(f'{cls.__name__} payment date is not `payment_lag` business days after the accrual end date',
                                  dict(case, **bad), clause='inheritance-lag')
                if len(leg.payment_dts) > 1:
                    nontriv += 1
            except FinError:
                got.append('E:FinError')
            except Exception as ex:  # noqa: BLE001
                got.append('E:' + type(ex).__name__)
            cnt += 1
        ops.append(op)
        impls.append(got)
        cases.append(case)
    nb_m = 0
    if drivers_ok:
        try:
            model = C.run_driver('C16', ops)
            for op, got, m in zip(ops, impls, model):
                for name, g in zip(('SwapFixedLeg', 'SwapFloatLeg'), got):
                    if g != m:
                        nb_m += 1
                        if nb_m <= 3:
                            ctx.broke(f'correspondence {name} dates: model≠implementation on `{op}` (model {m}, impl {g})')
        except C.DriverError as ex:
            ctx.broke('model driver failed on LEG ops: ' + str(ex)[:300])
    ctx.count('swap legs with payment lag (model LEG)', cnt, nontriv, sample={'op': ops[len(ops) // 2], 'impl': impls[len(ops) // 2]})
    ctx.cov['components']['swap legs with payment lag (model LEG)'].update({'disagree_model': nb_m})


def inheritance_more(ctx, rng, drivers_ok=True):
    """CDS premium dates, cap/floor caplet dates and FRN coupon dates.

    The CDS has its own roll generator: its payment dates must be the business-day adjustments of the regular roll
    dates obtained by stepping whole periods from the anchor (maturity for BACKWARD, step-in for FORWARD) — the first
    one, on or before the step-in date, is the previous coupon date and is not a payment date.  The reference is
    computed with Date.add_months / Calendar.adjust, which C13 / C14 tie to their Lean models."""
    from financepy.utils.date import Date
    from financepy.utils.calendar import Calendar, CalendarTypes, BusDayAdjustTypes, DateGenRuleTypes
    from financepy.utils.frequency import FrequencyTypes, annual_frequency
    from financepy.utils.schedule import Schedule
    from financepy.utils.day_count import DayCountTypes
    from financepy.utils.global_types import FinCapFloorTypes
    from financepy.products.credit.cds import CDS
    from financepy.products.rates.ibor_cap_floor import IborCapFloor
    from financepy.products.bonds.bond_frn import BondFRN
    from financepy.utils.error import FinError
    n = 400 if ctx.quick() else 6000
    cnt = 0
    freqs = [FrequencyTypes.ANNUAL, FrequencyTypes.SEMI_ANNUAL, FrequencyTypes.QUARTERLY, FrequencyTypes.MONTHLY]
    cds_ops, cds_impl, cds_case, cdse_impl = [], [], [], []
    Q, S, M = FrequencyTypes.QUARTERLY, FrequencyTypes.SEMI_ANNUAL, FrequencyTypes.MONTHLY
    BW, FW = DateGenRuleTypes.BACKWARD, DateGenRuleTypes.FORWARD
    cases = [
        ((30, 5, 1990), (2, 12, 1991), S, CalendarTypes.ITALY, BusDayAdjustTypes.FOLLOWING, FW),   # duplicate payment date
        ((20, 12, 2008), (20, 3, 2010), Q, CalendarTypes.WEEKEND, BusDayAdjustTypes.FOLLOWING, BW),  # ISDA standard example
        ((20, 2, 2009), (20, 3, 2010), Q, CalendarTypes.WEEKEND, BusDayAdjustTypes.FOLLOWING, FW),
        ((31, 1, 2060), (31, 7, 2060), M, CalendarTypes.NONE, BusDayAdjustTypes.NONE, BW),          # month-end rolls: no drift
        ((31, 1, 2004), (31, 1, 2009), M, CalendarTypes.AUSTRALIA, BusDayAdjustTypes.PRECEDING, FW),
        ((20, 3, 2010), (20, 3, 2010), Q, CalendarTypes.WEEKEND, BusDayAdjustTypes.FOLLOWING, BW),   # step-in = maturity
        ((21, 3, 2010), (20, 3, 2010), Q, CalendarTypes.WEEKEND, BusDayAdjustTypes.FOLLOWING, BW),   # step-in after maturity
    ]
    for t in D.interesting_dates(rng, n, 1990, 2060):
        months = rng.choice([6, 12, 18, 24, 60, 37, 3, 1])
        t2_ = own_add_months(t, months)
        if rng.random() < 0.3:
            t2_ = own_add_days(t2_, rng.randint(1, 40))
        cases.append((t, t2_, rng.choice(freqs), rng.choice(list(CalendarTypes)),
                      rng.choice(list(BusDayAdjustTypes)), rng.choice(list(DateGenRuleTypes))))
    for t, t2, f, cal, cv, dg in cases:
        e, tt = Date(*t), Date(*t2)
        case = {'step_in': t, 'maturity': (tt.d, tt.m, tt.y), 'freq': f.name, 'cal': cal.name, 'conv': cv.name, 'rule': dg.name}
        # ---- CDS (own roll generator): implementation now, model and spec after the loop
        p = int(12 / annual_frequency(f))
        op = f'CDS {t[0]} {t[1]} {t[2]} {tt.d} {tt.m} {tt.y} {p} {cal.value} {cv.value} {int(dg == DateGenRuleTypes.BACKWARD)}'
        try:
            cds = CDS(e, tt, 0.01, 1e6, True, f, DayCountTypes.ACT_360, cal, cv, dg)
            got = fmtl(cds.payment_dts) + ' | ' + fmtl(cds.accrual_start_dts)
            ends = [d.add_days(-1) for d in cds.accrual_start_dts[1:]] + [tt]
            if fmtl(cds.accrual_end_dts) != fmtl(ends):
                ctx.violation('CDS accrual end dates are not (next accrual start − 1 day) … maturity',
                              dict(case, op=op, accrual_end=fmtl(cds.accrual_end_dts)), clause='inheritance-cds')
            got_e = fmtl(cds.accrual_end_dts)
            # the same with own day arithmetic: accrual end + 1 day = next accrual start
            nxt = [own_add_days((d.d, d.m, d.y), 1) for d in cds.accrual_end_dts[:-1]]
            if nxt != [(d.d, d.m, d.y) for d in cds.accrual_start_dts[1:]]:
                ctx.violation('CDS accrual periods do not tile: accrual end + 1 day is not the next accrual start',
                              dict(case, op=op, accrual_end=got_e, accrual_start=fmtl(cds.accrual_start_dts)), clause='inheritance-cds')
        except FinError:
            got = got_e = 'E:FinError'
        except Exception as ex:  # noqa: BLE001
            got = got_e = 'E:' + type(ex).__name__
        cds_ops.append(op)
        cds_impl.append(got)
        cdse_impl.append(got_e)
        cds_case.append(case)
        cnt += 1
        # ---- cap/floor and FRN: plain Schedule users
        try:
            sched = fmtl(Schedule(e, tt, f, cal, cv, dg).adjusted_dts)
        except FinError:
            continue
        try:
            cap = IborCapFloor(e, tt, FinCapFloorTypes.CAP, 0.03, None, f, DayCountTypes.ACT_360, 1e6, cal, cv, dg)
            cap._generate_dts()       # what value() calls first
            cnt += 1
            if fmtl(cap.capFloorLetDates) != sched:
                ctx.violation('IborCapFloor caplet dates differ from the Schedule built from the same inputs',
                              dict(case, schedule=sched, cap=fmtl(cap.capFloorLetDates)), clause='inheritance')
        except FinError:
            pass
        try:
            frn = BondFRN(e, tt, 0.01, f, DayCountTypes.ACT_360, cal)
            ref = Schedule(e, tt, f, frn.cal_type, BusDayAdjustTypes.NONE, DateGenRuleTypes.BACKWARD)
            once, twice = fmtl(ref.adjusted_dts), None
            cnt += 1
            if fmtl(frn.cpn_dts) != once:
                twice = fmtl(Schedule(e, tt, f, frn.cal_type, BusDayAdjustTypes.NONE, DateGenRuleTypes.BACKWARD).generate())
                regen = fmtl(frn.cpn_dts) == twice
                ctx.violation('BondFRN.cpn_dts differ from the Schedule built from the same inputs',
                              dict(case, schedule=once, frn=fmtl(frn.cpn_dts), equals_second_generate=regen), clause='inheritance',
                              finding='C16/regenerate-reanchors' if regen else None)
        except FinError:
            pass
    # CDS: implementation vs model (exact) and vs spec (payment dates = adjusted whole-period rolls)
    spec = model = None
    try:
        spec = C.run_driver('C16Spec', cds_ops)
    except C.DriverError as ex:
        ctx.broke('spec driver failed on CDS ops: ' + str(ex)[:300])
    if drivers_ok:
        try:
            both = C.run_driver('C16', cds_ops + ['CDSE' + o[3:] for o in cds_ops])
            model, model_e = both[:len(cds_ops)], both[len(cds_ops):]
            nb_e = 0
            for o, g, m in zip(cds_ops, cdse_impl, model_e):
                if g != m:
                    nb_e += 1
                    if nb_e <= 3:
                        ctx.broke(f'correspondence CDS accrual end dates: model≠implementation on `CDSE{o[3:]}` (model {m}, impl {g})')
        except C.DriverError as ex:
            ctx.broke('model driver failed on CDS ops: ' + str(ex)[:300])
    nb_m = 0
    for i, op in enumerate(cds_ops):
        ok = True
        if spec is not None:
            if spec[i].startswith('E:'):
                ok = cds_impl[i] == spec[i]
                strict, ideal = None, spec[i]
            else:
                strict, ideal = spec[i][0] == '1', spec[i][2:].strip()
                ok = cds_impl[i].split(' | ')[0].strip() == ideal
            if not ok:
                ctx.violation('CDS.payment_dts are not the adjusted regular roll dates stepped in whole periods from the anchor',
                              dict(cds_case[i], op=op, ideal=ideal, implementation=cds_impl[i], model=model[i] if model else None),
                              clause='inheritance-cds')
            elif strict is False:
                # the ideal itself has coinciding dates: the CDS keeps the duplicate (zero-length accrual period)
                fnd = 'C16/cds-duplicate-payment-date'
                if model is not None and model[i] != cds_impl[i]:
                    fnd = None
                ctx.violation('CDS.payment_dts are not strictly increasing (an adjusted roll date collides with its neighbour)',
                              dict(cds_case[i], op=op, implementation=cds_impl[i]), clause='inheritance-cds-duplicate', finding=fnd)
        if model is not None and model[i] != cds_impl[i]:
            nb_m += 1
            if ok and nb_m <= 3:
                ctx.broke(f'correspondence CDS dates: model≠implementation on `{op}` (model {model[i]}, impl {cds_impl[i]})')
    ctx.count('inheritance (CDS, cap/floor, FRN)', cnt)
    ctx.cov['components']['inheritance (CDS, cap/floor, FRN)'].update({'cds_disagree_model': nb_m})


# ----------------------------------------------------------------------------------------------- wiring (C16w)
def merge_local_findings(ctx):
    """findings/C16.json is the per-property source of known_findings.json (tools/mkfindings.py concatenates them);
    ids listed there and not yet merged are honoured here, so that the check of this clone and of the merged tree agree."""
    path = os.path.join(C.VERIF, 'findings', 'C16.json')
    if os.path.exists(path):
        have = {k['id'] for k in ctx.known}
        for k in json.load(open(path)):
            if k.get('property') == 'C16' and k['id'] not in have:
                ctx.known.append(k)
                if k.get('status', 'open') == 'open':
                    ctx.known_ids.add(k['id'])


def textual_sites(names):
    """plain textual search, independent of `ast`: every line of every .py under financepy/ (comment tail cut at `#`)
    containing `<name>(` not preceded by an identifier character or a dot.  -> sorted list of 'file:line'"""
    import re
    repo = os.environ.get('FINVERIF_REPO', '/repo')
    pat = re.compile(r'(?<![A-Za-z0-9_.])(?:' + '|'.join(names) + r')\(')
    out = []
    for dp, dns, fns in os.walk(os.path.join(repo, 'financepy')):
        for fn in fns:
            if fn.endswith('.py'):
                full = os.path.join(dp, fn)
                with open(full, encoding='utf-8') as f:
                    for i, line in enumerate(f, 1):
                        for _ in pat.finditer(line.split('#', 1)[0]):
                            out.append(f'{os.path.relpath(full, repo)}:{i}')
    return sorted(out)


WIRING_FINDING = {('BondAnnuity', 'bd_type'): 'C16/annuity-ignores-bd-dg', ('BondAnnuity', 'dg_type'): 'C16/annuity-ignores-bd-dg'}


def wiring_recipes():
    """class name -> (roles its constructor takes, builder(conv) that constructs the product and triggers its schedule
    generation).  conv: dict e, t (dates), f, f2 (frequencies), dc, dc2, cal, bd, dg, eom."""
    from financepy.utils.global_types import SwapTypes, FinCapFloorTypes, OptionTypes
    from financepy.products.rates.swap_fixed_leg import SwapFixedLeg
    from financepy.products.rates.swap_float_leg import SwapFloatLeg
    from financepy.products.rates.ibor_swap import IborSwap
    from financepy.products.rates.ibor_cap_floor import IborCapFloor
    from financepy.products.bonds.bond import Bond
    from financepy.products.bonds.bond_frn import BondFRN
    from financepy.products.bonds.bond_annuity import BondAnnuity
    from financepy.products.bonds.bond_mortgage import BondMortgage
    from financepy.products.equity.equity_cliquet_option import EquityCliquetOption
    R4 = ('freq_type', 'cal_type', 'bd_type', 'dg_type')
    return {
        'SwapFixedLeg': (R4 + ('end_of_month', 'dc_type'), lambda c: SwapFixedLeg(
            c['e'], c['t'], SwapTypes.PAY, 0.03, c['f'], c['dc'], 1e6, 0.0, 0, c['cal'], c['bd'], c['dg'], c['eom'])),
        'SwapFloatLeg': (R4 + ('end_of_month', 'dc_type'), lambda c: SwapFloatLeg(
            c['e'], c['t'], SwapTypes.PAY, 0.0, c['f'], c['dc'], 1e6, 0.0, 0, c['cal'], c['bd'], c['dg'], c['eom'])),
        'IborSwap': (('cal_type', 'bd_type', 'dg_type', 'two_legs'), lambda c: IborSwap(
            c['e'], c['t'], SwapTypes.PAY, 0.03, c['f'], c['dc'], 1e6, 0.0, c['f2'], c['dc2'], c['cal'], c['bd'], c['dg'])),
        'IborCapFloor': (R4 + ('dc_type',), lambda c: IborCapFloor(
            c['e'], c['t'], FinCapFloorTypes.CAP, 0.03, None, c['f'], c['dc'], 1e6, c['cal'], c['bd'], c['dg'])._generate_dts()),
        'Bond': (R4, lambda c: Bond(c['e'], c['t'], 0.05, c['f'], c['dc'], 0, c['cal'], c['bd'], c['dg'])),
        'BondFRN': (('freq_type', 'cal_type'), lambda c: BondFRN(c['e'], c['t'], 0.01, c['f'], c['dc'], c['cal'])),
        'BondAnnuity': (R4, lambda c: BondAnnuity(c['t'], 0.05, c['f'], c['cal'], c['bd'], c['dg'], c['dc'])
                        .calculate_payments(c['e'], 1.0)),
        'BondMortgage': (R4, lambda c: BondMortgage(c['e'], c['t'], 1e6, c['f'], c['cal'], c['bd'], c['dg'], c['dc'])),
        'EquityCliquetOption': (R4, lambda c: EquityCliquetOption(
            c['e'], c['t'], OptionTypes.EUROPEAN_CALL, c['f'], c['dc'], c['cal'], c['bd'], c['dg'])),
    }


def run_recipe(name, roles, build, conv):
    """build the product with the conventions `conv` while recording every Schedule / DayCount constructed on the way;
    -> list of (formal, expected, got) mismatches ([] = every convention arrived unchanged), number of Schedules seen, and
    the exception that ended the construction if any (the spies record BEFORE delegating, so a wrongly wired argument that
    makes Schedule raise is still seen)"""
    import inspect
    from financepy.utils.schedule import Schedule
    from financepy.utils.day_count import DayCount
    seen, seen_dc = [], []
    o_s, o_d = Schedule.__init__, DayCount.__init__
    sig = inspect.signature(o_s)

    def spy_s(self, *a, **k):
        b = sig.bind(self, *a, **k)
        b.apply_defaults()
        seen.append(dict(b.arguments))
        return o_s(self, *a, **k)

    def spy_d(self, dcc_type):
        seen_dc.append(dcc_type)
        return o_d(self, dcc_type)

    Schedule.__init__, DayCount.__init__ = spy_s, spy_d
    exc = None
    try:
        build(conv)
    except Exception as ex:  # noqa: BLE001 — what was recorded before the failure is still judged
        exc = ex
    finally:
        Schedule.__init__, DayCount.__init__ = o_s, o_d
    bad = []
    want = {'freq_type': conv['f'], 'cal_type': conv['cal'], 'bd_type': conv['bd'], 'dg_type': conv['dg'],
            'end_of_month': conv['eom']}
    for i, rec in enumerate(seen):
        for r in roles:
            if r in want and rec[r] != want[r]:
                bad.append((r, str(want[r]), str(rec[r])))
    if 'dc_type' in roles:
        bad += [('dc_type', str(conv['dc']), str(x)) for x in seen_dc if x != conv['dc']]
    if 'two_legs' in roles and exc is None:
        if [rec['freq_type'] for rec in seen] != [conv['f'], conv['f2']]:
            bad.append(('fixed/float freq_type', str([conv['f'], conv['f2']]), str([rec['freq_type'] for rec in seen])))
        if seen_dc != [conv['dc'], conv['dc2']]:
            bad.append(('fixed/float dc_type', str([conv['dc'], conv['dc2']]), str(seen_dc)))
    return bad, len(seen), exc


def wiring_conv(rng, t):
    """conventions that all differ from the defaults of Schedule and of the products (so a dropped argument shows)"""
    from financepy.utils.date import Date
    from financepy.utils.calendar import CalendarTypes, BusDayAdjustTypes, DateGenRuleTypes
    from financepy.utils.frequency import FrequencyTypes
    from financepy.utils.day_count import DayCountTypes
    months = rng.choice([12, 18, 24, 60, 37])
    f, f2 = rng.sample([FrequencyTypes.SEMI_ANNUAL, FrequencyTypes.QUARTERLY, FrequencyTypes.MONTHLY], 2)
    dc, dc2 = rng.sample([DayCountTypes.ACT_365F, DayCountTypes.THIRTY_360_BOND, DayCountTypes.ACT_ACT_ISDA,
                          DayCountTypes.THIRTY_E_360_ISDA], 2)
    cal = rng.choice([c for c in CalendarTypes if c not in (CalendarTypes.NONE, CalendarTypes.WEEKEND)])
    bd = rng.choice([BusDayAdjustTypes.PRECEDING, BusDayAdjustTypes.MODIFIED_FOLLOWING, BusDayAdjustTypes.MODIFIED_PRECEDING,
                     BusDayAdjustTypes.NONE])
    return {'e': Date(*t), 't': Date(*own_add_months(t, months)), 'f': f, 'f2': f2, 'dc': dc, 'dc2': dc2, 'cal': cal,
            'bd': bd, 'dg': DateGenRuleTypes.FORWARD, 'eom': True,
            'text': {'effective': t, 'months': months, 'freq': f.name, 'freq2': f2.name, 'dc': dc.name, 'dc2': dc2.name,
                     'cal': cal.name, 'bd': bd.name, 'dg': 'FORWARD', 'end_of_month': True}}


def wiring(ctx):
    """C16w on every run: (1) coverage — the table's Schedule/DayCount/Calendar sites are exactly the lines a plain
    textual search finds; (2) the spec's verdict on the regenerated table, site by site (names the sites behind a
    failing theorem of Props/C16w); (3) a dynamic oracle on the implementation: build each product with conventions that
    all differ from the defaults and record the arguments that actually reach Schedule.__init__ / DayCount.__init__."""
    from financepy.utils.error import FinError
    fails, design_exc, static_failing_classes = [], set(), set()
    if getattr(ctx, 'wiring_driver_ok', False):
        try:
            ans = C.run_driver('C16w', ['FAILS', 'SITES Schedule', 'SITES DayCount', 'SITES Calendar', 'EXC'])
            fails = [x.split('|') for x in ans[0].split(' ; ') if x.strip()]
            for callee, names, got in (('Schedule', ['Schedule', 'FinSchedule'], ans[1]), ('DayCount', ['DayCount'], ans[2]),
                                       ('Calendar', ['Calendar'], ans[3])):
                table, text = sorted(got.split()), textual_sites(names)
                if table != text:
                    ctx.broke(f'wiring coverage: the extracted {callee} call sites differ from a textual search for `{callee}(`: '
                              f'only in the text {sorted(set(text) - set(table))[:5]}, only in the table {sorted(set(table) - set(text))[:5]}')
                ctx.count(f'wiring: {callee} call sites (table = textual search)', len(table))
            for e in ans[4].split(' ; '):
                cm, rest = e.split('->')
                design_exc.add((cm.split('.')[0], rest[rest.index('(') + 1:-1]))
        except C.DriverError as ex:
            ctx.broke('wiring driver failed: ' + str(ex)[:300])
    else:
        ctx.broke('wiring: the table of call sites could not be evaluated (Driver/C16w does not build)')
    for rule, where, cls, method, callee, formal, how in fails:
        static_failing_classes.add(cls)
        ctx.broke(f'wiring rule `{rule}` fails at {where} {cls}.{method} -> {callee}({formal}): argument is {how}')
    # dynamic oracle
    recipes = wiring_recipes()
    rng = ctx.rng('wiring')
    n = 6 if ctx.quick() else 60
    cnt = 0
    for t in D.interesting_dates(rng, n, 1995, 2050):
        conv = wiring_conv(rng, t)
        for name, (roles, build) in recipes.items():
            bad, nsched, exc = run_recipe(name, roles, build, conv)
            if exc is not None and not bad:
                if not isinstance(exc, FinError):
                    ctx.notes.append(f'wiring oracle: {name} raised {type(exc).__name__} on {conv["text"]} (nothing mis-wired was recorded)')
                continue
            cnt += 1
            if nsched == 0:
                ctx.broke(f'wiring oracle: building {name} constructed no Schedule (recipe out of date)')
            for formal, want, got in bad:
                if (name, formal) in WIRING_FINDING or (name, formal) not in design_exc:
                    ctx.violation(f'{name} does not hand its own `{formal}` to the Schedule/DayCount it builds',
                                  dict(conv['text'], wiring_class=name, formal=formal, given=want, reached_callee=got),
                                  finding=WIRING_FINDING.get((name, formal)), clause='wiring')
    for cls in sorted(static_failing_classes - set(recipes)):
        ctx.notes.append(f'wiring: no dynamic recipe for class {cls}; the static verdict above stands alone')
    ctx.count('wiring: dynamic forwarding oracle (products built with non-default conventions)', cnt)


def replay_wiring(ctx, path, case):
    from financepy.utils.date import Date
    from financepy.utils.calendar import CalendarTypes, BusDayAdjustTypes, DateGenRuleTypes
    from financepy.utils.frequency import FrequencyTypes
    from financepy.utils.day_count import DayCountTypes
    t = tuple(case['effective'])
    conv = {'e': Date(*t), 't': Date(*own_add_months(t, case['months'])), 'f': FrequencyTypes[case['freq']],
            'f2': FrequencyTypes[case['freq2']], 'dc': DayCountTypes[case['dc']], 'dc2': DayCountTypes[case['dc2']],
            'cal': CalendarTypes[case['cal']], 'bd': BusDayAdjustTypes[case['bd']], 'dg': DateGenRuleTypes[case['dg']],
            'eom': case['end_of_month']}
    roles, build = wiring_recipes()[case['wiring_class']]
    bad, _, _ = run_recipe(case['wiring_class'], roles, build, conv)
    bad = [b for b in bad if b[0] == case['formal']]
    print(f"replay wiring {case['wiring_class']}({case}): mismatches {bad or 'none'}; acceptable={not bad}")
    if bad:
        print(f'VIOLATION property=C16 replay={path}')
        return 1
    return 0


def replay(ctx, path):
    rp = json.load(open(path))
    v = rp.get('violation')
    if v and v.get('case', {}).get('wiring_class'):
        return replay_wiring(ctx, path, v['case'])
    if not v or 'op' not in v.get('case', {}):
        print('replay: no op in this file:', rp.get('broken'), v)
        return 1
    op = v['case']['op']
    C.import_financepy()
    if op.startswith('CDS'):
        return replay_cds(ctx, path, op)
    if op.startswith('LEG'):
        return replay_leg(ctx, path, op)
    from financepy.utils.date import Date
    from financepy.utils.calendar import CalendarTypes, BusDayAdjustTypes, DateGenRuleTypes
    from financepy.utils.frequency import FrequencyTypes, annual_frequency
    from financepy.utils.schedule import Schedule
    p = list(map(int, op.split()[1:]))
    fr = [f for f in FrequencyTypes if f.value > 0 and f != FrequencyTypes.CONTINUOUS and int(12 / annual_frequency(f)) == p[6]][0]
    try:
        s = Schedule(Date(p[0], p[1], p[2]), Date(p[3], p[4], p[5]), fr, CalendarTypes(p[7]), BusDayAdjustTypes(p[8]),
                     DateGenRuleTypes.BACKWARD if p[9] else DateGenRuleTypes.FORWARD, bool(p[10]), bool(p[11]))
        r = s.generate() if p[12] else s.adjusted_dts
        r = fmtl(r)
    except Exception as e:  # noqa: BLE001
        r = 'E:' + type(e).__name__
    sp = C.run_driver('C16Spec', [op])[0]
    ok, ideal, strict = judge(sp, r)
    print(f'replay {op}: implementation={r} ideal={ideal} strict={strict} acceptable={ok}')
    if not ok:
        print(f'VIOLATION property=C16 replay={path}')
        return 1
    return 0


def replay_cds(ctx, path, op):
    from financepy.utils.date import Date
    from financepy.utils.calendar import CalendarTypes, BusDayAdjustTypes, DateGenRuleTypes
    from financepy.utils.frequency import FrequencyTypes, annual_frequency
    from financepy.utils.day_count import DayCountTypes
    from financepy.products.credit.cds import CDS
    p = list(map(int, op.split()[1:]))
    fr = [f for f in FrequencyTypes if f.value > 0 and f != FrequencyTypes.CONTINUOUS and int(12 / annual_frequency(f)) == p[6]][0]
    try:
        c = CDS(Date(p[0], p[1], p[2]), Date(p[3], p[4], p[5]), 0.01, 1e6, True, fr, DayCountTypes.ACT_360,
                CalendarTypes(p[7]), BusDayAdjustTypes(p[8]), DateGenRuleTypes.BACKWARD if p[9] else DateGenRuleTypes.FORWARD)
        r = fmtl(c.payment_dts)
        nxt = [own_add_days((d.d, d.m, d.y), 1) for d in c.accrual_end_dts[:-1]]
        tiles = (nxt == [(d.d, d.m, d.y) for d in c.accrual_start_dts[1:]]
                 and (c.accrual_end_dts[-1].d, c.accrual_end_dts[-1].m, c.accrual_end_dts[-1].y) == (p[3], p[4], p[5]))
    except Exception as e:  # noqa: BLE001
        r = 'E:' + type(e).__name__
        tiles = True
    sp = C.run_driver('C16Spec', [op])[0]
    ideal = sp if sp.startswith('E:') else sp[2:].strip()
    strict = None if sp.startswith('E:') else sp[0] == '1'
    ok = r == ideal and strict is not False and tiles
    print(f'replay {op}: implementation={r} ideal={ideal} strictly_increasing={strict} accrual_periods_tile={tiles} acceptable={ok}')
    if not ok:
        print(f'VIOLATION property=C16 replay={path}')
        return 1
    return 0


def replay_leg(ctx, path, op):
    from financepy.utils.date import Date
    from financepy.utils.calendar import CalendarTypes, BusDayAdjustTypes, DateGenRuleTypes
    from financepy.utils.frequency import FrequencyTypes, annual_frequency
    from financepy.utils.day_count import DayCountTypes
    from financepy.utils.global_types import SwapTypes
    from financepy.utils.schedule import Schedule
    from financepy.products.rates.swap_fixed_leg import SwapFixedLeg
    from financepy.products.rates.swap_float_leg import SwapFloatLeg
    p = list(map(int, op.split()[1:]))
    fr = [f for f in FrequencyTypes if f.value > 0 and f != FrequencyTypes.CONTINUOUS and int(12 / annual_frequency(f)) == p[6]][0]
    e, tt = Date(p[0], p[1], p[2]), Date(p[3], p[4], p[5])
    cal, cv = CalendarTypes(p[7]), BusDayAdjustTypes(p[8])
    dg = DateGenRuleTypes.BACKWARD if p[9] else DateGenRuleTypes.FORWARD
    eo, lag = bool(p[10]), p[11]
    rc = 0
    for cls in (SwapFixedLeg, SwapFloatLeg):
        try:
            leg = cls(e, tt, SwapTypes.PAY, 0.03 if cls is SwapFixedLeg else 0.0, fr, DayCountTypes.ACT_360, 1e6, 0.0,
                      lag, cal, cv, dg, eo)
            sched = fmtl(Schedule(e, tt, fr, cal, cv, dg, end_of_month=eo).adjusted_dts)
            inherits = fmtl([leg.start_accrued_dts[0]] + list(leg.end_accrued_dts)) == sched
            bad = lag_oracle(leg, cal, lag)
            ok = inherits and not bad
            print(f'replay {op}: {cls.__name__} payment={fmtl(leg.payment_dts)} accrual dates = schedule: {inherits}; '
                  f'lag oracle: {bad or "ok"}; acceptable={ok}')
        except Exception as ex:  # noqa: BLE001
            print(f'replay {op}: {cls.__name__} raised {type(ex).__name__}')
            ok = True
        if not ok:
            rc = 1
    if rc:
        print(f'VIOLATION property=C16 replay={path}')
    return rc
