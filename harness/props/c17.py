"""C17 — portfolio credit loss distributions are probability laws with the correct mean.

Theorems: FinVerif/Props/C17a.lean (recursion: non-negative, mass one, mean, = enumeration of the 2^n
default states, for every n) and C17b.lean (mixture over quadrature nodes reduces mass/mean to scalar
quadrature sums, zero correlation = independent, tranche EL in [0,1], partition adds up, adjusted
binomial keeps the mass), C17c.lean (default-time samplers: tau = Qinv(F(g)) has the curve's marginal iff F is the
distribution function of g's own law; the interpolation line of uniform_to_default_time inverts the log-linear curve) and
C17d.lean (that assumption discharged for the normal law).  Samplers: harness/props/c17_samplers.py.  Model: FinVerif/Model/C17.lean (generic) + C17F.lean (Float glue), run as the
compiled driver `c17driver` and compared with the Numba kernels on the same arrays.
Direct oracles on the implementation (executable reading of the property) run on every check."""
import itertools
import json
import math
import os
import sys

sys.path.insert(0, os.path.dirname(os.path.dirname(os.path.abspath(__file__))))
import common as C  # noqa: E402
import exedriver    # noqa: E402
from props import c17_samplers as S  # noqa: E402
from props import c17_reuse as RU  # noqa: E402
from props import c17_kernels as K  # noqa: E402
from floatcmp import f2b, b2f  # noqa: E402

GEN = ['BSF', 'KernF', 'CreditF', 'CreditP', 'CreditLoopR']
PROPS = ['FinVerif.Props.C17a', 'FinVerif.Props.C17b', 'FinVerif.Props.C17c', 'FinVerif.Props.C17d', 'FinVerif.Props.C17e',
         'FinVerif.Props.C17f', 'FinVerif.Props.C17g']
DRIVERS = ['FinVerif.Driver.C17']
MEASURE = bool(os.environ.get('C17_MEASURE'))

RULE = ('kernels: sampled portfolios (1..125 names, heterogeneous p in (0,1), integer loss units 1..4, betas 0..0.99 flat '
        'and per-name, steps 20..500) for indep_loss_dbn_recursion_gcd / loss_dbn_recursion_gcd / '
        'indep_loss_dbn_hetero_adj_binomial / loss_dbn_hetero_adj_binomial / homog_basket_loss_dbn, each compared '
        'entry-wise with the Lean model (Float) and checked against the direct oracles; tranche survival functions for '
        'all four FinLossDistributionBuilder methods over seeded capital-structure partitions; CDSTranche.value_bc and '
        'CDSBasket (1-factor, Gaussian MC, Student-t MC) on seeded issuer curves. Non-trivial = more than one credit '
        'and (for copula cases) beta > 0; cases are distinct draws of one PRNG stream. Default-time samplers '
        '(StudentTCopula.default_times, default_times_gc, uniform_to_default_time): degrees of freedom '
        f'{S.DOFS} + random integer and non-integer values x flat correlations {S.RHOS} x portfolio sizes {S.SIZES}; '
        'per sample the distribution function the code applied vs SciPy (latents replayed from the seed), per name and '
        'horizon the exact binomial law of the simulated default count (fixed trial counts), per uniform the round trip '
        'through the curve and the Lean model of uniform_to_default_time. Re-use: one CDSBasket (3 value_* methods) / '
        'CDSTranche (4 builders) / CDSIndexPortfolio (7 methods) / StudentTCopula / LHPlusModel object taken through chains of '
        'valuations, each step changing exactly one input (issuer curves, recovery, libor curve, libor argument, beta / '
        'correlations, points / trials / seed / degrees of freedom, valuation date, n-to-default, method enum) and back, every '
        'answer compared bit-for-bit with a fresh object; nth-to-default monotonicity on the re-used object; inputs unmodified.')

# ---- tolerances (measured on the unchanged tree, see notes/C17.md) ---------------------------------
TOL_MODEL = (1e-9, 1e-12)         # rtol, atol: model vs implementation, entry-wise (fastmath re-association/FMA)
TOL_MODEL_AB = (1e-6, 1e-7)      # mixtures of adjusted binomials: alpha = numer/denom is ill-conditioned at nodes where the
                                 # binomial variance is close to the two-point variance (measured worst 2e-9)
TOL_MASS_INDEP = 1e-12            # per credit: |Σ-1| <= n*TOL
TOL_MASS_GC = 2e-8                # truncation at ±6 (2e-9) + rectangle rule; measured <= 4e-9
NOISE_ID = 'C17/adj-binomial-alpha-denominator-noise'
EPS_N = 7.5e-8                    # Hull's N (Abramowitz-Stegun 26.2.17): documented absolute error bound
EPS_M = 6e-7                      # bivariate normal M = phi2 (Drezner-Wesolowsky, 5 nodes, on Hull's N): measured worst 5.2e-7
MEAN_TOL_BY_STEPS = [(100, 2e-6), (50, 2e-4), (0, 3e-2)]   # relative to Σ units; measured 5e-8 / 1e-5 / 5e-3


def mean_tol(steps):
    for s, t in MEAN_TOL_BY_STEPS:
        if steps >= s:
            return t
    return MEAN_TOL_BY_STEPS[-1][1]


def fl(a):
    return ' '.join(f2b(float(x)) for x in a)


def parse(o):
    return [b2f(x) for x in o.split()]


def close_arr(m, i, rtol, atol):
    if len(m) != len(i):
        return False, float('inf')
    worst = 0.0
    ok = True
    for a, b in zip(m, i):
        if math.isnan(a) or math.isnan(b):
            if not (math.isnan(a) and math.isnan(b)):
                return False, float('nan')
            continue
        d = abs(a - b)
        worst = max(worst, d)
        if d > atol + rtol * max(abs(a), abs(b)):
            ok = False
    return ok, worst


class Meas:
    def __init__(self):
        self.w = {}

    def see(self, key, val):
        if val is None or (isinstance(val, float) and math.isnan(val)):
            return
        self.w[key] = max(self.w.get(key, 0.0), float(val))


def run(ctx):
    drivers_ok = C.lean_stage(ctx, GEN, PROPS, DRIVERS, extra_files=['FinVerif/Lemmas/C17.lean', 'FinVerif/Lemmas/C17Loop.lean', 'FinVerif/Spec/C17.lean', 'FinVerif/Model/C17Inv.lean', 'FinVerif/Model/C17.lean'])
    C.import_financepy()
    import numpy as np
    from financepy.models import loss_dbn_builder as LB
    from financepy.models import gauss_copula_onefactor as GC
    from financepy.models import gauss_copula_lhp as LHP
    from financepy.utils.math import norminvcdf, N as Nf, pair_gcd

    quick = ctx.quick()
    meas = Meas()
    ops, checks = [], []      # driver ops and (component, impl array, case) for the correspondence
    extra_atol = {}           # index into checks -> additional absolute tolerance (derived per case, see ab_noise_nodes)

    def case_of(**kw):
        return {k: (v.tolist() if hasattr(v, 'tolist') else v) for k, v in kw.items()}

    def sample_p(rng, n):
        mode = rng.randrange(4)
        if mode == 0:
            return np.array([rng.uniform(0.0005, 0.9995) for _ in range(n)])
        if mode == 1:
            return np.array([rng.uniform(0.001, 0.2) for _ in range(n)])
        if mode == 2:
            return np.array([10 ** rng.uniform(-4, -0.3) for _ in range(n)])
        p0 = rng.uniform(0.005, 0.5)
        return np.full(n, p0)

    def sample_n(rng):
        return rng.choice([1, 2, 3, 5, 8, 12, 20, 50, 100, 125, rng.randint(1, 125), rng.randint(1, 125)])

    def sample_units(rng, n):
        mode = rng.randrange(3)
        if mode == 0:
            return np.ones(n)
        return np.array([float(rng.randint(1, 4 if mode == 1 else 2)) for _ in range(n)])

    def sample_betas(rng, n):
        mode = rng.randrange(4)
        if mode == 0:
            return np.full(n, rng.choice([0.0, 0.1, 0.3, 0.5, 0.7, 0.9, 0.95, 0.99]))
        if mode == 1:
            return np.array([rng.uniform(0.0, 0.99) for _ in range(n)])
        if mode == 2:
            return np.full(n, rng.uniform(0.0, 0.99))
        return np.zeros(n)

    # =============================================================== 1. independent recursion
    rng = ctx.rng('indep')
    n_cases = 400 if quick else 6000
    nontriv = 0
    for t in range(n_cases):
        n = sample_n(rng) if t % 3 else rng.randint(1, 12)
        p = sample_p(rng, n)
        lu = sample_units(rng, n)
        d = LB.indep_loss_dbn_recursion_gcd(n, p, lu)
        cs = case_of(fn='indep_loss_dbn_recursion_gcd', num_credits=n, cond_default_probs=p, loss_units=lu)
        oracle_law(ctx, meas, np, 'indep', d, p, lu, TOL_MASS_INDEP * (n + 4), 1e-12 * (n + 4), cs)
        if n <= 12:
            en = enumerate_law(np, p, lu.astype(int), len(d))
            dev = float(np.max(np.abs(en - d)))
            meas.see('indep.enum', dev)
            if dev > 1e-13:
                ctx.violation('recursion differs from the exhaustive enumeration of the 2^n default states',
                              dict(cs, enumeration=en.tolist(), recursion=d.tolist(), max_abs_diff=dev),
                              clause='recursion-eq-enumeration')
        if n > 1:
            nontriv += 1
        if t < (120 if quick else 1500):
            ops.append(f'IR {n} {fl(p)} {fl(lu)}')
            checks.append(('indep_recursion', d, cs))
    ctx.count('indep_loss_dbn_recursion_gcd', n_cases, nontriv,
              sample={'n': 3, 'p': [0.1, 0.5, 0.9], 'units': [2, 1, 3]})

    # near-integer / non-integer loss units: the array size uses int(l), the shift int(l + 1e-10)
    rng = ctx.rng('units')
    wit_p, wit_l = np.array([0.3, 0.4]), np.array([2.9999999999999, 1.0])
    unit_cases = [(wit_p, wit_l)]
    for _ in range(20 if quick else 200):
        n = rng.randint(1, 10)
        lu = np.array([float(rng.randint(1, 3)) for _ in range(n)])
        j = rng.randrange(n)
        lu[j] = lu[j] + 1.0 - rng.choice([1e-11, 3e-12, 5e-13])
        unit_cases.append((sample_p(rng, n), lu))
    for p, lu in unit_cases:
        n = len(p)
        d = LB.indep_loss_dbn_recursion_gcd(n, p, lu)
        mass = float(d.sum())
        cs = case_of(fn='indep_loss_dbn_recursion_gcd', num_credits=n, cond_default_probs=p, loss_units=lu, mass=mass)
        ops.append(f'IR {n} {fl(p)} {fl(lu)}')
        checks.append(('indep_recursion_near_integer_units', d, cs))
        if abs(mass - 1.0) > 1e-12 * (n + 4):
            trunc_differs = any(int(x + 1e-10) != int(x) for x in lu)
            ctx.violation('recursion loses probability mass: array size uses int(l), the shift uses int(l+1e-10)', cs,
                          finding='C17/recursion-unit-truncation' if trunc_differs else None, clause='mass-one')
    ctx.count('recursion_near_integer_units', len(unit_cases), len(unit_cases))

    # =============================================================== 2. Gaussian one-factor recursion
    rng = ctx.rng('gc')
    n_cases = 260 if quick else 4000
    nontriv = 0
    for t in range(n_cases):
        n = sample_n(rng)
        p = sample_p(rng, n)
        lu = sample_units(rng, n)
        b = sample_betas(rng, n)
        steps = rng.choice([20, 50, 100, 100, 200, 500]) if t % 4 else rng.randint(20, 300)
        d = GC.loss_dbn_recursion_gcd(n, p, lu, b, steps)
        cs = case_of(fn='loss_dbn_recursion_gcd', num_credits=n, default_probs=p, loss_units=lu, beta_vector=b,
                     num_integration_steps=steps)
        thr = np.array([norminvcdf(x) for x in p])
        zs, ws, cq = quad_nodes(np, steps)
        # scalar quadrature sums that the theorems gc_mass / gc_mean reduce the claims to
        mass_q = cq * float(ws.sum())
        pz = cond_probs(np, Nf, thr, b, zs)                     # nodes x credits
        mean_q = cq * float((ws[:, None] * pz * lu[None, :]).sum())
        mass = float(d.sum())
        mean = float((d * np.arange(len(d))).sum())
        tot = float(lu.sum())
        meas.see('gc.mass-vs-quadrature', abs(mass - mass_q))
        meas.see('gc.mean-vs-quadrature', abs(mean - mean_q) / tot)
        meas.see('gc.mass', abs(mass - 1))
        meas.see(f'gc.mean.steps>={[s for s, _ in MEAN_TOL_BY_STEPS if steps >= s][0]}', abs(mean - float((p * lu).sum())) / tot)
        if float(d.min()) < 0.0:
            ctx.violation('negative probability in the copula loss distribution', dict(cs, min=float(d.min())),
                          clause='non-negative')
        if abs(mass - mass_q) > 1e-11 * (n + 4):
            ctx.violation('copula loss distribution: mass differs from c*sum(w_k) (theorem gc_mass)',
                          dict(cs, mass=mass, quadrature_mass=mass_q), clause='mass-one')
        elif abs(mass - 1.0) > TOL_MASS_GC:
            ctx.violation('copula loss distribution does not sum to one', dict(cs, mass=mass), clause='mass-one')
        if abs(mean - mean_q) > 1e-11 * (n + 4) * tot:
            ctx.violation('copula loss distribution: mean differs from c*sum_k w_k sum_i p_i(z_k) l_i (theorem gc_mean)',
                          dict(cs, mean=mean, quadrature_mean=mean_q), clause='mean')
        elif abs(mean - float((p * lu).sum())) > mean_tol(steps) * tot:
            ctx.violation('copula loss distribution: mean differs from sum p_i*l_i', dict(cs, mean=mean,
                          expected=float((p * lu).sum())), clause='mean')
        if not b.any():
            # zero correlation: every node carries the same independent law at p' = N(norminvcdf(p))
            pp = np.array([Nf(x) for x in thr])
            di = LB.indep_loss_dbn_recursion_gcd(n, pp, lu) * mass_q
            dev = float(np.max(np.abs(di - d)))
            meas.see('gc.beta0-vs-indep', dev)
            meas.see('gc.beta0 N(norminvcdf(p))-p', float(np.max(np.abs(pp - p))))
            if dev > 1e-12:
                ctx.violation('zero correlation does not reduce to the independent recursion',
                              dict(cs, max_abs_diff=dev), clause='beta-zero')
            di2 = LB.indep_loss_dbn_recursion_gcd(n, p, lu)
            dev2 = float(np.max(np.abs(di2 - d)))
            meas.see('gc.beta0-vs-indep-at-p', dev2)
            if dev2 > 2e-6 * n:
                ctx.violation('zero correlation: distribution differs from the independent one at the input p',
                              dict(cs, max_abs_diff=dev2), clause='beta-zero')
        if n > 1 and b.any():
            nontriv += 1
        if t < (60 if quick else 600) and n * steps * (1 + tot) < 6e6:
            ops.append(f'GC {steps} {n} {fl(lu)} {fl(b)} {fl(thr)}')
            checks.append(('loss_dbn_recursion_gcd', d, cs))
    ctx.count('loss_dbn_recursion_gcd', n_cases, nontriv,
              sample={'n': 125, 'p': 0.02, 'units': 1, 'beta': 0.5, 'steps': 100})

    # homog_basket_loss_dbn (CDSBasket): mean = Σ (1-q_i), mass one
    rng = ctx.rng('homog')
    n_cases = 60 if quick else 600
    for t in range(n_cases):
        n = rng.choice([2, 3, 5, 8, 10, 20])
        q = 1.0 - sample_p(rng, n)
        R = np.full(n, rng.choice([0.0, 0.25, 0.4, 0.6]))
        b = sample_betas(rng, n)
        steps = rng.choice([50, 100, 200])
        d = GC.homog_basket_loss_dbn(q, R, b, steps)
        mb = float(b.mean())
        eff = steps * (2 if mb > 0.7 else 1) * (5 if mb > 0.9 else 1)
        cs = case_of(fn='homog_basket_loss_dbn', survival_probs=q, recovery_rates=R, beta_vector=b,
                     num_integration_steps=steps)
        mass = float(d.sum())
        mean = float((d * np.arange(len(d))).sum())
        meas.see('homog.mass', abs(mass - 1))
        meas.see('homog.mean', abs(mean - float((1 - q).sum())) / n)
        if len(d) != n + 1 or float(d.min()) < 0 or abs(mass - 1) > TOL_MASS_GC:
            ctx.violation('homog_basket_loss_dbn is not a probability law on 0..n', dict(cs, mass=mass, dbn=d.tolist()),
                          clause='mass-one')
        if abs(mean - float((1 - q).sum())) > mean_tol(eff) * n:
            ctx.violation('homog_basket_loss_dbn: mean number of defaults differs from sum(1-q_i)',
                          dict(cs, mean=mean, expected=float((1 - q).sum())), clause='mean')
    ctx.count('homog_basket_loss_dbn', n_cases, n_cases)

    # =============================================================== 3. adjusted binomial
    rng = ctx.rng('ab')
    n_cases = 400 if quick else 5000
    nontriv = 0
    for t in range(n_cases):
        n = sample_n(rng)
        p = sample_p(rng, n)
        lr = np.array([rng.uniform(0.4, 1.6) for _ in range(n)]) if t % 3 else np.ones(n)
        lr = lr / lr.mean()
        d = LB.indep_loss_dbn_hetero_adj_binomial(n, p, lr)
        cs = case_of(fn='indep_loss_dbn_hetero_adj_binomial', num_credits=n, cond_probs=p, loss_ratio=lr)
        mass = float(d.sum())
        mean = float((d * np.arange(len(d))).sum())
        m = float((p * lr).sum())
        meas.see('ab.mass', abs(mass - 1))
        half = abs((m % 1.0) - 0.5) < 1e-9 or m > n - 0.5
        if not half:
            meas.see('ab.mean', abs(mean - m) / n)
        frac = m - math.floor(m)
        rounds_up = frac >= 0.5 or m > n - 0.5     # classifier of C17/adj-binomial-round-not-floor
        meas.see('ab.neg' + ('.roundup' if rounds_up else '.alpha-out' if not (0.0 <= ab_alpha(p, lr) <= 1.0) else ''), max(0.0, -float(d.min())))
        if float(d.min()) < -1e-12:
            ctx.violation('adjusted binomial returns a negative probability (mean_below = round(mean) rounds up when the '
                          'fractional part of the mean is >= 0.5, making epsilon_above negative)',
                          dict(cs, min=float(d.min()), mean_loss=m, dbn=d.tolist() if n <= 12 else None),
                          finding=('C17/adj-binomial-round-not-floor' if rounds_up else
                                   'C17/adj-binomial-alpha-outside-unit' if not (0.0 <= ab_alpha(p, lr) <= 1.0) else None),
                          clause='non-negative')
        if len(d) != n + 1 or not (abs(mass - 1) <= 1e-9):
            ctx.violation('adjusted binomial does not sum to one', dict(cs, mass=mass),
                          finding=(NOISE_ID if len(d) == n + 1 and abs(mass - 1) <= 1e-9 + 2.0
                                   and bool(ab_noise_mask(np, p[None, :], lr)[0]) else None), clause='mass-one')
        if not (abs(mean - m) <= 1e-9 * n):
            ctx.violation('adjusted binomial: mean differs from sum p_i*l_i', dict(cs, mean=mean, expected=m),
                          finding='C17/adj-binomial-round-not-floor' if half else None, clause='mean')
        if n > 1:
            nontriv += 1
        if t < (120 if quick else 1500):
            ops.append(f'AB {n} {fl(p)} {fl(lr)}')
            checks.append(('adj_binomial', d, cs))
    ctx.count('indep_loss_dbn_hetero_adj_binomial', n_cases, nontriv)

    # conditional default probabilities within a few ulp of 1 (what the copula mixture feeds in at the tail nodes for high
    # beta): the denominator of alpha cancels to rounding noise; witness family of C17/adj-binomial-alpha-denominator-noise
    n_w = 0
    for n in (80, 100, 125):
        for pat in ([0.6, 1.0, 1.4], [0.4, 1.6], [0.5, 1.5], [0.75, 1.25], [1.0]):
            lr = np.array([pat[i % len(pat)] for i in range(n)])
            lr = lr / lr.mean()
            for cpv in (1.0 - 2.0 ** -53, 1.0 - 2.0 ** -52, 1.0 - 3 * 2.0 ** -53, 1.0 - 1e-13, 1.0 - 1e-9, 2.0 ** -60, 1e-13):
                cp = np.full(n, cpv)
                d = LB.indep_loss_dbn_hetero_adj_binomial(n, cp, lr)
                mass = float(d.sum())
                noise = bool(ab_noise_mask(np, cp[None, :], lr)[0])
                n_w += 1
                meas.see('ab.near-one.mass' + ('.noise-denominator' if noise else ''), abs(mass - 1))
                if not (abs(mass - 1) <= 1e-9):
                    ctx.violation('adjusted binomial does not sum to one: v_approx - term cancels to rounding noise (clamped to 1e-30 '
                                  'when it is exactly 0), alpha = numer/denom is ~1e16 and alpha*B + (1 - alpha) loses the mass',
                                  case_of(fn='indep_loss_dbn_hetero_adj_binomial', num_credits=n, cond_probs_all_equal_to=cpv,
                                          loss_ratio_pattern=pat, mass=mass, last_entry=float(d[-1])),
                                  finding=NOISE_ID if noise and abs(mass - 1) <= 1e-9 + 2.0 else None, clause='mass-one')
    ctx.count('adj_binomial_probabilities_near_one', n_w, n_w)

    rng = ctx.rng('abgc')
    n_cases = 120 if quick else 1500
    n_noise_cases = [0]
    for t in range(n_cases):
        n = sample_n(rng)
        p = sample_p(rng, n)
        lr = np.array([rng.uniform(0.4, 1.6) for _ in range(n)]) if t % 3 else np.ones(n)
        lr = lr / lr.mean()
        b = sample_betas(rng, n)
        steps = rng.choice([20, 50, 100, 200])
        d = GC.loss_dbn_hetero_adj_binomial(n, p, lr, b, steps)
        cs = case_of(fn='loss_dbn_hetero_adj_binomial', num_credits=n, default_probs=p, loss_ratio=lr, beta_vector=b,
                     num_integration_steps=steps)
        mass = float(d.sum())
        mean = float((d * np.arange(len(d))).sum())
        m = float((p * lr).sum())
        thr = np.array([norminvcdf(x) for x in p])
        capped = ab_cap_nodes(np, Nf, thr, b, steps, lr)
        illc = ab_illcond_nodes(np, Nf, thr, b, steps, lr)
        w_noise = ab_noise_nodes(np, Nf, thr, b, steps, lr)
        n_noise_cases[0] += 1 if w_noise > 0 else 0
        meas.see('abgc.mass' + ('.noise-denominator' if w_noise > 0 else '.illcond' if illc else ''), abs(mass - 1))
        if w_noise > 0:
            meas.see('abgc.mass.noise-denominator / (2 x weight of those nodes)', abs(mass - 1) / (2 * w_noise))
        meas.see(f'abgc.mean.steps>={[s for s, _ in MEAN_TOL_BY_STEPS if steps >= s][0]}' + ('.capped' if capped else ''),
                 abs(mean - m) / n)
        # alpha = numer/denom is a ratio of two cancellation-prone differences; at nodes where the conditional mean is
        # << 1e-6 (or within 1e-6 of n) it is rounding noise of size up to ~1e9 and the mass alpha*S + (1-alpha) is
        # only accurate to |alpha|*1e-16: those cases get the loose tolerance (measured worst 2e-7)
        # nodes whose denominator is pure rounding noise (ab_noise_nodes): the node's law is off by at most ~1 in mass (alpha is
        # huge only when the code's p rounds to exactly 0 or 1: the binomial is then a unit vector, S = 1 exactly, and
        # fl(alpha + fl(1 - alpha)) is within ulp(alpha) <= 2 of 1 for alpha < 2^54 and equal to 0 above): a deviation within
        # 2 x (weight of those nodes) on top of the normal tolerance is that known defect, anything larger is not excused
        tol_mass = 1e-4 if illc else TOL_MASS_GC
        if not (abs(mass - 1) <= tol_mass):
            ctx.violation('copula adjusted-binomial distribution does not sum to one', dict(cs, mass=mass, weight_of_noise_nodes=w_noise),
                          finding=(NOISE_ID
                                   if w_noise > 0 and abs(mass - 1) <= tol_mass + 2 * w_noise else None), clause='mass-one')
        tol_mean = max(mean_tol(steps), 1e-4 if illc else 0.0) * n
        if not (abs(mean - m) <= tol_mean):
            ctx.violation('copula adjusted-binomial distribution: mean differs from sum p_i*l_i',
                          dict(cs, mean=mean, expected=m, weight_of_noise_nodes=w_noise),
                          finding=('C17/adj-binomial-round-not-floor' if capped else
                                   'C17/adj-binomial-alpha-denominator-noise'
                                   if w_noise > 0 and abs(mean - m) <= tol_mean + 2 * n * w_noise else None), clause='mean')
        if t < (40 if quick else 400):
            ops.append(f'ABGC {steps} {n} {fl(lr)} {fl(b)} {fl(thr)}')
            if w_noise > 0:
                extra_atol[len(checks)] = 2 * w_noise       # the model's p rounds differently from the Numba kernel's
            checks.append(('loss_dbn_hetero_adj_binomial', d, cs))
    ctx.count('loss_dbn_hetero_adj_binomial', n_cases, n_cases)
    ctx.cov['components']['loss_dbn_hetero_adj_binomial']['cases_with_noise_denominator_nodes'] = n_noise_cases[0]

    # =============================================================== 4. tranche survival, all method enums
    rng = ctx.rng('tranche')
    n_cases = 70 if quick else 800
    gauss_degenerate_cases = [0]
    methods = {
        'RECURSION': lambda k1, k2, n, q, R, b, s: GC.tranche_surv_prob_recursion(k1, k2, n, q, R, b, s),
        'ADJUSTED_BINOMIAL': lambda k1, k2, n, q, R, b, s: GC.tranche_surv_prob_adj_binomial(k1, k2, n, q, R, b, s),
        'GAUSSIAN': lambda k1, k2, n, q, R, b, s: GC.tranch_surv_prob_gaussian(k1, k2, n, q, R, b, s),
        'LHP': lambda k1, k2, n, q, R, b, s: LHP.tr_surv_prob_lhp(k1, k2, n, q, R, float(b[0])),
    }
    for t in range(n_cases):
        n = rng.choice([5, 10, 25, 50, 100, 125])
        hetero = (t % 5 == 0)
        Rc = rng.choice([0.0, 0.2, 0.4, 0.6, 0.9])
        R = np.array([rng.choice([0.25, 0.3, 0.4, 0.5]) for _ in range(n)]) if hetero else np.full(n, Rc)
        beta = rng.choice([0.0, 0.1, 0.3, 0.5, 0.7, 0.9, 0.99])
        b = np.full(n, beta)
        h = np.array([10 ** rng.uniform(-3, -0.7) for _ in range(n)]) if t % 2 else np.full(n, 10 ** rng.uniform(-3, -0.7))
        t1 = rng.uniform(0.25, 5.0)
        t2 = t1 + rng.uniform(0.25, 5.0)
        q1, q2 = np.exp(-h * t1), np.exp(-h * t2)
        steps = rng.choice([50, 100, 200])
        inner = sorted({round(rng.uniform(0.01, 0.6), 4) for _ in range(rng.randint(1, 4))})
        ks = [0.0] + inner + [1.0]
        for name, f in methods.items():
            if name == 'LHP' and beta == 0.0:
                pass
            el1, el2 = [], []
            bad = None
            for j in range(len(ks) - 1):
                try:
                    s1 = float(f(ks[j], ks[j + 1], n, q1, R, b, steps))
                    s2 = float(f(ks[j], ks[j + 1], n, q2, R, b, steps))
                except Exception as e:  # noqa: BLE001
                    bad = f'{type(e).__name__}: {e}'
                    break
                el1.append(1.0 - s1)
                el2.append(1.0 - s2)
            cs = case_of(method=name, num_credits=n, survival_probs_t1=q1, survival_probs_t2=q2, recovery_rates=R,
                         beta=beta, num_integration_steps=steps, attachment_points=ks, tranche_EL_t1=el1, tranche_EL_t2=el2)
            is_gcd = (name == 'RECURSION' and len(set(R.tolist())) > 1)
            if bad:
                # heterogeneous recoveries + RECURSION: the loss units are not integers (pair_gcd) and the kernel indexes past
                # the distribution array; whatever that path does is classified on the mechanism, never on the value it read
                ctx.violation(f'tranche survival ({name}) raised {bad}', cs, finding='C17/gcd-not-a-gcd' if is_gcd else None,
                              clause='callable')
                continue
            # nodes with sigma < 1e-6 and mu > k2 (the repaired branch of gauss_approx_tranche_loss): only a coverage tag now
            degen = gaussian_degenerate(np, Nf, norminvcdf, q1, q2, R, b, steps, ks) if name == 'GAUSSIAN' else False
            if is_gcd:
                # the loss units come from portfolio_gcd -> pair_gcd, which is not a gcd: only the partition clause is
                # examined for heterogeneous recoveries (known finding); everything else about this path is untested
                pel = float(((1 - q1) * (1 - R)).sum()) / n
                tot = sum((ks[j + 1] - ks[j]) * el1[j] for j in range(len(el1)))
                if not (abs(tot - pel) <= 1e-4 * max(pel, 1e-3) + 1e-6):        # also NaN / inf read from beyond the array
                    ctx.violation('RECURSION tranche ELs with heterogeneous recoveries do not add up to the portfolio EL '
                                  '(loss units are formed with pair_gcd, which does not compute a gcd)',
                                  dict(cs, partition_sum=tot, portfolio_EL=pel), finding='C17/gcd-not-a-gcd',
                                  clause='partition-adds-up')
                continue
            fid = None        # C17/gaussian-degenerate-sigma-sign is fixed (13a1996): a recurrence is a VIOLATION
            if degen:
                gauss_degenerate_cases[0] += 1
            pfid = fid
            if name == 'ADJUSTED_BINOMIAL':
                tl_ = float((1.0 - R).sum()) / n
                lr_ = (1.0 - R) / n / (tl_ / n)
                if any(ab_cap_nodes(np, Nf, np.array([norminvcdf(1.0 - x) for x in q]), b, steps, lr_) for q in (q1, q2)):
                    pfid = 'C17/adj-binomial-round-not-floor'
                w_ab = {w_: ab_noise_nodes(np, Nf, np.array([norminvcdf(1.0 - x) for x in q]), b, steps, lr_)
                        for w_, q in (('t1', q1), ('t2', q2))}
            else:
                w_ab = {'t1': 0.0, 't2': 0.0}
            tol_m = mean_tol(steps * (2 if (beta > 0.8 and name == 'RECURSION') else 1))
            for which, q, el in (('t1', q1, el1), ('t2', q2, el2)):
                pel = float(((1 - q) * (1 - R)).sum()) / n
                tot = sum((ks[j + 1] - ks[j]) * el[j] for j in range(len(el)))
                rel = abs(tot - pel) / max(pel, 1e-12)
                meas.see(f'tranche.partition.{name}' + ('.degen' if degen else ''), rel)
                meas.see(f'tranche.partition-abs/total.{name}' + ('.degen' if degen else '') + ('.capped' if pfid and not degen else ''),
                         abs(tot - pel) / (float((1.0 - R).sum()) / n))
                lo, hi = min(el), max(el)
                meas.see(f'tranche.range.{name}' + ('.degen' if degen else ''), max(-lo, hi - 1, 0.0))
                ptol = {'RECURSION': tol_m * 2 + 1e-7, 'ADJUSTED_BINOMIAL': mean_tol(steps) * 2 + 1e-7,
                        'GAUSSIAN': 2e-6, 'LHP': 2e-6}[name]
                target = pel
                if name == 'GAUSSIAN':
                    # the Gaussian fit lets the loss be negative / exceed 1: the partition telescopes to
                    # E[L+] - E[(L-1)+] of the fitted conditional normals, not to E[L]; compare with that
                    target = gaussian_partition_reference(np, Nf, norminvcdf, q, R, b, steps)
                    meas.see('tranche.partition.GAUSSIAN.vs-E[L]', rel)
                    rel = abs(tot - target) / max(target, 1e-12)
                    meas.see('tranche.partition.GAUSSIAN.vs-reference' + ('.degen' if degen else ''), rel)
                scale = target if name in ('GAUSSIAN', 'LHP') else float((1.0 - R).sum()) / n   # quadrature error is
                slack = 1e-9                                                                   # relative to the total loss
                if name == 'LHP' and ks[-1] <= (pel / (float((1 - q).sum()) / n)) * (1 + 1e-12):
                    # the partition telescopes to exp_min_lk(k_top); that is the exact p(1-r) only on the branch k >= 1-r. With
                    # the top strike AT the maximal loss (all recoveries 0: 1-r = EL/p = 1 up to rounding) the comparison is
                    # decided by the last bit of EL/p and the code may evaluate (1-r) M(c,-a,-beta) + k N(a) instead, whose
                    # error is bounded by (1-r) eps_M + k eps_N: eps_N = 7.5e-8 (Abramowitz-Stegun 26.2.17, Hull's N), eps_M =
                    # 6e-7 (Drezner-Wesolowsky 5-point rule built on that N: measured worst 5.2e-7 at |rho| = 0.7 against
                    # adaptive quadrature, 1.4e-7 below 0.7)
                    slack += (pel / (float((1 - q).sum()) / n)) * EPS_M + ks[-1] * EPS_N
                    meas.see('tranche.partition-abs.LHP.top-strike-at-maximal-loss', abs(tot - target))
                w_ = w_ab[which]
                if not (abs(tot - target) <= ptol * scale + slack):
                    ctx.violation(f'{name}: width-weighted tranche expected losses do not add up to the portfolio EL',
                                  dict(cs, at=which, partition_sum=tot, portfolio_EL=pel, reference=target),
                                  finding=pfid or (NOISE_ID if w_ > 0 and abs(tot - target) <= ptol * scale + slack + 2 * w_ * scale
                                                   else None), clause='partition-adds-up')
                rtol_ = {'RECURSION': 1e-7, 'ADJUSTED_BINOMIAL': 1e-7, 'GAUSSIAN': 1e-6, 'LHP': 2e-6}[name]
                if not (lo >= -rtol_ and hi <= 1 + rtol_):
                    ctx.violation(f'{name}: tranche expected loss outside [0,1]', dict(cs, at=which, min=lo, max=hi),
                                  finding=fid or (NOISE_ID if w_ > 0 and lo >= -rtol_ - 2 * w_ and hi <= 1 + rtol_ + 2 * w_ else None),
                                  clause='unit-interval')
            dec = max(a - c for a, c in zip(el1, el2))
            meas.see(f'tranche.monotone.{name}' + ('.degen' if degen else ''), max(dec, 0.0))
            mt = {'RECURSION': 1e-7, 'ADJUSTED_BINOMIAL': 1e-6, 'GAUSSIAN': 1e-6, 'LHP': 2e-6}[name]
            if not (dec <= mt):
                w_ = w_ab['t1'] + w_ab['t2']
                ctx.violation(f'{name}: tranche expected loss decreases in time', dict(cs, max_decrease=dec),
                              finding=fid or (NOISE_ID if w_ > 0 and dec <= mt + 2 * w_ else None),
                              clause='non-decreasing-in-time')
            # correspondence for the two modelled methods (homogeneous recoveries)
            if name == 'RECURSION' and t < (25 if quick else 250) and n * steps < 2e4:
                la = (1.0 - R[0]) / n
                stp = steps * (2 if beta > 0.8 else 1)
                thr = np.array([norminvcdf(1.0 - x) for x in q1])
                lu = np.array([((1.0 - r) / n) / la for r in R])
                m = int(1 + lu.sum())
                for j in range(len(ks) - 1):
                    ops.append(f'TSR {f2b(ks[j])} {f2b(ks[j + 1])} {f2b(la)} {m} {stp} {n} {fl(lu)} {fl(b)} {fl(thr)}')
                    checks.append(('tranche_surv_prob_recursion', np.array([1.0 - el1[j]]), dict(cs, tranche=j)))
            if name == 'ADJUSTED_BINOMIAL' and t < (25 if quick else 250) and n * steps < 2e4:
                tl = 0.0
                for r in R:
                    tl += (1.0 - r)
                tl /= n
                avg = tl / n
                lr = np.array([(1.0 - r) / n / avg for r in R])
                thr = np.array([norminvcdf(1.0 - x) for x in q1])
                for j in range(len(ks) - 1):
                    ops.append(f'TSA {f2b(ks[j])} {f2b(ks[j + 1])} {f2b(avg)} {steps} {n} {fl(lr)} {fl(b)} {fl(thr)}')
                    if w_ab['t1'] > 0:
                        extra_atol[len(checks)] = 2 * w_ab['t1']      # tranche loss per unit of misplaced mass <= 1
                    checks.append(('tranche_surv_prob_adj_binomial', np.array([1.0 - el1[j]]), dict(cs, tranche=j)))
    ctx.count('tranche_survival_all_methods', n_cases * 4, n_cases * 4,
              sample={'method': 'RECURSION', 'n': 125, 'beta': 0.5, 'attachment_points': [0, 0.03, 0.07, 0.1, 0.15, 0.3, 1.0]})
    ctx.cov['components']['tranche_survival_all_methods']['gaussian_cases_with_degenerate_nodes'] = gauss_degenerate_cases[0]

    # degenerate Gaussian-approximation kernel: sigma -> 0 limit must be min(mu,k2) - min(mu,k1)
    rng = ctx.rng('gauss-degenerate')
    for _ in range(40):
        k1 = rng.choice([0.0, rng.uniform(0, 0.3)])
        k2 = k1 + rng.uniform(0.01, 0.3)
        mu = rng.uniform(0.0, 0.8)
        v = float(GC.gauss_approx_tranche_loss(k1, k2, mu, 0.0))
        want = min(mu, k2) - min(mu, k1)
        if abs(v - want) > 1e-12:
            ctx.violation('gauss_approx_tranche_loss: the sigma<1e-6 branch is not the limit min(mu,k2)-min(mu,k1)',
                          {'k1': k1, 'k2': k2, 'mu': mu, 'sigma': 0.0, 'returned': v, 'limit': want}, clause='degenerate-limit')
    ctx.count('gauss_approx_tranche_loss_degenerate', 40, 40)

    # the former witness of C17/gaussian-degenerate-sigma-sign and its neighbourhood: high beta, every capital structure
    for beta_ in (0.9, 0.95, 0.99):
        for n_ in (25, 125):
            for qv in (0.84, 0.5, 0.99):
                q_, R_, b_ = np.full(n_, qv), np.full(n_, 0.4), np.full(n_, beta_)
                ks_ = [0.0, 0.03, 0.07, 0.15, 0.3, 1.0]
                sv = [float(GC.tranch_surv_prob_gaussian(ks_[j], ks_[j + 1], n_, q_, R_, b_, 100)) for j in range(5)]
                tot_ = sum((ks_[j + 1] - ks_[j]) * (1 - sv[j]) for j in range(5))
                ref_ = gaussian_partition_reference(np, Nf, norminvcdf, q_, R_, b_, 100)
                cs_ = {'fn': 'tranch_surv_prob_gaussian', 'num_credits': n_, 'survival_prob': qv, 'recovery': 0.4, 'beta': beta_,
                       'steps': 100, 'attachment_points': ks_, 'tranche_survival': sv, 'partition_sum': tot_, 'reference': ref_}
                meas.see('gaussian.highbeta.range', max(max(sv) - 1, -min(sv), 0.0))
                meas.see('gaussian.highbeta.partition-vs-reference', abs(tot_ - ref_) / ref_)
                if min(sv) < -1e-6 or max(sv) > 1 + 1e-6:
                    ctx.violation('GAUSSIAN tranche survival outside [0,1] at high beta', cs_, clause='unit-interval')
                if abs(tot_ - ref_) > 2e-6 * ref_ + 1e-9:
                    ctx.violation('GAUSSIAN tranche expected losses do not add up at high beta', cs_, clause='partition-adds-up')
    ctx.count('gaussian_high_beta_regression', 18, 18)

    # portfolio_gcd / pair_gcd
    rng = ctx.rng('gcd')
    for t in range(30):
        a, c = rng.randint(1, 60), rng.randint(1, 60)
        g = float(pair_gcd(float(a), float(c)))
        if g != float(math.gcd(a, c)):
            ctx.violation('pair_gcd does not return the greatest common divisor (float division in Euclid\'s algorithm)',
                          {'v1': a, 'v2': c, 'returned': g, 'gcd': math.gcd(a, c)},
                          finding='C17/gcd-not-a-gcd', clause='gcd-divides')
    ctx.count('pair_gcd', 30, 30)

    # LHPlus closed forms (anchor file gauss_copula_lhplus.py), callable since 89be0d9
    lhplus(ctx, meas, np, quick, LHP)

    # =============================================================== 5. default-time samplers (Student-t / Gaussian copula)
    S.samplers(ctx, meas, np, quick, ops, checks, fl, f2b)

    # =============================================================== 6. products: CDSTranche / CDSBasket
    products(ctx, meas, np, quick)

    # =============================================================== 7. re-use: the object holds the contract, not the portfolio
    RU.reuse(ctx, meas, np, quick)

    # =============================================================== 8. scalar kernels (generated text) and the basket survival loop
    K.kernels(ctx, meas, np, quick, ops, checks, fl, f2b)

    # =============================================================== correspondence: model vs implementation
    if drivers_ok and ops:
        try:
            outs = exedriver.run('c17driver', 'C17', ops)
        except C.DriverError as e:
            outs = None
            ctx.broke(f'model driver failed: {str(e)[:300]}')
        if outs is not None:
            nbad = {}
            for j_, (o, (comp, d, cs)) in enumerate(zip(outs, checks)):
                m = parse(o) if not o.startswith('bad') else []
                if comp == 'adj_binomial':
                    den, m = (m[0], m[1:]) if m else (0.0, [])
                    if abs(den) < 1e-7:      # alpha = numer/denom ill-conditioned: not compared
                        continue
                tol = TOL_MODEL_AB if comp in ('loss_dbn_hetero_adj_binomial', 'tranche_surv_prob_adj_binomial') else TOL_MODEL
                if j_ in extra_atol:
                    tol = (tol[0], tol[1] + extra_atol[j_])
                ok, worst = close_arr(m, [float(x) for x in d], *tol)
                meas.see(f'model.{comp}' + ('.noise-denominator' if j_ in extra_atol else ''), worst if worst == worst else 1.0)
                if not ok:
                    nbad[comp] = nbad.get(comp, 0) + 1
                    if nbad[comp] <= 2:
                        ctx.broke(f'correspondence {comp}: model != implementation (max abs diff {worst:.3g}) on '
                                  + json.dumps(cs, default=str)[:600])
            for comp in {c for c, _, _ in checks}:
                ctx.cov['components'].setdefault('model:' + comp, {'evaluations': 0, 'nontrivial': 0})
                k = sum(1 for c, _, _ in checks if c == comp)
                ctx.cov['components']['model:' + comp]['evaluations'] = k
                ctx.cov['components']['model:' + comp]['disagree_model'] = nbad.get(comp, 0)

    if MEASURE:
        for k in sorted(meas.w):
            print(f'MEASURE {k:55s} {meas.w[k]:.3e}')
    ctx.cov['measured_worst'] = {k: float(f'{v:.3e}') for k, v in sorted(meas.w.items())}
    ctx.assumptions += [
        'theorems are over the reals; IEEE rounding, fastmath re-association and FMA contraction are covered only by the '
        'correspondence tolerance (rtol 1e-9) and the oracle tolerances',
        'mass and mean of the copula distributions are proved equal to scalar quadrature sums (gc_mass, gc_mean); that those '
        'sums are close to 1 and to p_i (rectangle rule on [-6,6], Hull N, Acklam inverse) is validated numerically only',
        'loss units are integer-valued (sh = sz) in recursion_mass_one_partial / recursion_mean_partial; the complement is '
        'the known finding C17/recursion-unit-truncation',
        'LHP / LHPlus closed forms (bivariate/trivariate normal M, phi3 have loops) and the Gaussian-fit method are validated by oracles '
        'only',
        'default-time samplers: theorems inversion_marginal_correct(_iff/_anti) ASSUME that F is the distribution function of the '
        'latent variable g and that its law has no atoms (IsCdfOf: a fact about the Student-t / normal law, not proved), that g is '
        'measurable, that the applied function is strictly increasing, and that uniform_to_default_time inverts the survival curve '
        '(InvertsAt: proved for one pillar interval, interpTime_invertsAt; the interval search is tied by the UDT correspondence '
        'and the round-trip oracle). The code\'s choice of F is tied to SciPy\'s Student-t / normal distribution function at the '
        'simulated points (tolerance 1e-6), with the latent variables replayed from the NumPy seed in the sampler\'s draw order; '
        'a changed draw order is reported as a broken correspondence and decided by the binomial marginal oracle alone',
        'marginal oracle: exact binomial law of the count of default times <= T (antithetic pairs), two-sided tail 1e-8 per '
        'comparison; its power against a distribution-function error shrinks with the error (quick: 20000 trials, detects the '
        'normal-for-t substitution up to about 40 degrees of freedom; the deterministic tie detects it at any)',
        'adjusted binomial: the base binomial summing to one (binomial theorem) is validated, the adjustment step is proved',
        'gc_mass_one / gc_mean_regardless_of_correlation ASSUME the two scalar quadrature identities on the code\'s own nodes and '
        'weights (c*sum_k exp(-z_k^2/2) = 1, c*sum_k w_k p_i(z_k) = p_i for every credit); they hold only approximately (rectangle '
        'rule on [-6,6], Hull N) and are checked numerically on every run (mass 2e-8, mean per MEAN_TOL_BY_STEPS)',
        'gauss_approx_tranche_loss / exp_min_lk theorems are about the GENERATED text (Gen/CreditP) with N, norminvcdf and the '
        'bivariate normal M as arbitrary functions; the regular branches (sigma >= 1e-6, k < 1-R) are oracle-validated only',
        'tranche EL non-decreasing in time: proved as monotonicity of the expectation under tail dominance of the later law '
        '(trancheEL_mono_of_dominance); that the later law dominates (default probabilities grow with time) is validated numerically',
        'nth-to-default: proved that the basket survival probability is non-decreasing in n at every date; that the spread is a '
        'decreasing functional of the survival curve (CDS legs, C09) is validated by the spread oracle only',
    ]
    return C.finish(ctx, 'proof',
                    'lake build FinVerif.Props.C17a FinVerif.Props.C17b FinVerif.Props.C17c FinVerif.Props.C17d FinVerif.Props.C17e FinVerif.Props.C17f && lake env lean .cache/audit/Audit_C17.lean',
                    C.TRUSTED_BASE_COMMON + ['hand-written model FinVerif/Model/C17.lean + C17F.lean + C17Inv.lean, tied to the Numba kernels '
                                             'by the entry-wise correspondence of this run; the inversion step of the samplers '
                                             '(which function F is applied) is tied by the per-sample comparison with SciPy',
                                             'Spec: law of sum l_i*Bernoulli(p_i) as the enumeration of 2^n states (enumStates)'],
                    RULE)


# ------------------------------------------------------------------------------------------- helpers
def oracle_law(ctx, meas, np, tag, d, p, lu, tol_mass, tol_mean, cs):
    mass = float(d.sum())
    mean = float((d * np.arange(len(d))).sum())
    want = float((p * lu).sum())
    meas.see(tag + '.mass', abs(mass - 1))
    meas.see(tag + '.mean', abs(mean - want) / float(lu.sum()))
    if float(d.min()) < 0.0:
        ctx.violation('negative probability in the loss distribution', dict(cs, min=float(d.min())), clause='non-negative')
    if len(d) != 1 + int(lu.sum()):
        ctx.violation('loss distribution has the wrong support size', dict(cs, size=len(d)), clause='mass-one')
    if not (abs(mass - 1.0) <= tol_mass):
        ctx.violation('loss distribution does not sum to one', dict(cs, mass=mass), clause='mass-one')
    if not (abs(mean - want) <= tol_mean * float(lu.sum())):
        ctx.violation('mean of the loss distribution differs from sum p_i*l_i', dict(cs, mean=mean, expected=want),
                      clause='mean')


def enumerate_law(np, p, units, size):
    """law of sum l_i*Bernoulli(p_i) by enumerating all 2^n default states"""
    out = np.zeros(size)
    n = len(p)
    for state in itertools.product((0, 1), repeat=n):
        w = 1.0
        loss = 0
        for i, s in enumerate(state):
            if s:
                w *= p[i]
                loss += int(units[i])
            else:
                w *= 1.0 - p[i]
        if loss < size:
            out[loss] += w
    return out


def quad_nodes(np, steps):
    z = -6.0
    dz = 2.0 * abs(z) / steps
    zs = []
    for _ in range(steps):
        zs.append(z)
        z += dz
    zs = np.array(zs)
    return zs, np.exp(-(zs * zs) / 2.0), 0.3989422804014327 * dz


def cond_probs(np, Nf, thr, b, zs):
    den = np.sqrt(1.0 - b * b)
    out = np.empty((len(zs), len(thr)))
    for k, z in enumerate(zs):
        arg = (thr - b * z) / den
        out[k] = [Nf(float(a)) for a in arg]
    return out


def ab_alpha(p, lr):
    """the variance-matching weight alpha of indep_loss_dbn_hetero_adj_binomial, recomputed (classifier of
    C17/adj-binomial-alpha-outside-unit)"""
    n = len(p)
    pb = float((p * lr).sum()) / n
    va = float((lr * lr).sum()) * pb * (1 - pb)
    ve = float((lr * lr * p * (1 - p)).sum())
    m = pb * n
    above = min(round(m + 1), n)
    below = round(m)
    da, db = above - m, below - m
    term = da * da + (db * db - da * da) * da
    den = va - term
    if abs(den) < 1e-30:
        den = 1e-30
    return (ve - term) / den


def ab_illcond_nodes(np, Nf, thr, b, steps, lr):
    """some quadrature node has |v_approx - term| < 1e-6 * v_approx: alpha is ill-conditioned there"""
    zs, _, _ = quad_nodes(np, steps)
    pz = cond_probs(np, Nf, thr, b, zs)
    n = len(thr)
    pb = (pz * lr[None, :]).sum(axis=1) / n
    va = float((lr * lr).sum()) * pb * (1 - pb)
    m = pb * n
    above = np.minimum(np.round(m + 1), n)
    below = np.round(m)
    da, db = above - m, below - m
    term = da * da + (db * db - da * da) * da
    return bool((np.abs(va - term) < 1e-6 * np.maximum(va, 1e-300)).any())


U53 = 2.0 ** -53


def ab_noise_nodes(np, Nf, thr, b, steps, lr):
    """classifier of C17/adj-binomial-alpha-denominator-noise: total quadrature weight (c*sum w_k) of the nodes at which the
    denominator of alpha, v_approx - term, is not determined by the inputs beyond the rounding of the code's own
    p = sum(l_i p_i)/n, i.e. |denom| <= U with the first-order worst-case bound
        dp    = (n+2) u sum|l_i p_i| / n                          (recursive / re-associated summation of n terms, u = 2^-53)
        dva   = S2 |1-2p| dp + S2 dp^2 + (n+3) u va + u S2 p      (v_approx = S2 p (1-p), S2 = sum l_i^2)
        dterm = 8 (n dp + u m) + 8 u                              (|d term/d mean| <= 4|da| + |da| + |db| <= 8, |da| <= 1.5, |db| <= 0.5)
        U     = dva + dterm.
    There alpha = numer/denom is noise of any sign and size (denom is clamped to 1e-30 when it cancels exactly: alpha up to
    1e18) and alpha*B + (1-alpha) at the two mean points loses |alpha| u: the node's "distribution" is off by O(1).
    Returns 0.0 when there is no such node."""
    zs, ws, cq = quad_nodes(np, steps)
    noise = ab_noise_mask(np, cond_probs(np, Nf, thr, b, zs), lr)
    return float(cq * ws[noise].sum())


def ab_noise_mask(np, pz, lr):
    """rows of pz (one vector of conditional default probabilities per row) with |v_approx - term| <= U (see ab_noise_nodes)"""
    n = pz.shape[1]
    s2 = float((lr * lr).sum())
    pb = (pz * lr[None, :]).sum(axis=1) / n
    dp = (n + 2) * U53 * np.abs(pz * lr[None, :]).sum(axis=1) / n
    va = s2 * pb * (1 - pb)
    m = pb * n
    above = np.minimum(np.round(m + 1), n)
    below = np.round(m)
    da, db = above - m, below - m
    term = da * da + (db * db - da * da) * da
    dva = s2 * np.abs(1 - 2 * pb) * dp + s2 * dp * dp + (n + 3) * U53 * np.abs(va) + U53 * s2 * pb
    dterm = 8.0 * (n * dp + U53 * m) + 8.0 * U53
    return np.abs(va - term) <= dva + dterm


def ab_cap_nodes(np, Nf, thr, b, steps, lr):
    """classifier of C17/adj-binomial-round-not-floor for copula mixtures (clause mean): at some quadrature node the
    conditional mean number of losses exceeds n - 0.5, where round() puts both adjustment points at n"""
    zs, _, _ = quad_nodes(np, steps)
    pz = cond_probs(np, Nf, thr, b, zs)
    m = (pz * lr[None, :]).sum(axis=1)
    return bool((m > len(thr) - 0.5).any())


def gaussian_partition_reference(np, Nf, norminvcdf, q, R, b, steps):
    """sum over a partition of [0,1] of the Gaussian-fit tranche losses = quadrature of E[L+] - E[(L-1)+] for the
    fitted conditional normal laws (with the correct sigma -> 0 limit)"""
    n = len(R)
    losses = (1.0 - R) / n
    zs, ws, cq = quad_nodes(np, steps)
    thr = np.array([norminvcdf(1.0 - x) for x in q])
    pz = cond_probs(np, Nf, thr, b, zs)
    mu = (pz * losses[None, :]).sum(axis=1)
    sig = np.sqrt(((losses ** 2)[None, :] * pz * (1 - pz)).sum(axis=1))
    tot = 0.0
    for m_, s_, w_ in zip(mu, sig, ws):
        if s_ < 1e-6:
            e = min(m_, 1.0) - min(m_, 0.0)
        else:
            def pos(k):
                d_ = (m_ - k) / s_
                return (m_ - k) * 0.5 * math.erfc(-d_ / math.sqrt(2)) + s_ * math.exp(-0.5 * d_ * d_) * 0.3989422804014327
            e = pos(0.0) - pos(1.0)
        tot += e * w_
    return tot * cq


def gaussian_degenerate(np, Nf, norminvcdf, q1, q2, R, b, steps, ks):
    """coverage tag (formerly the classifier of the now fixed C17/gaussian-degenerate-sigma-sign): some quadrature node has
    sigma < 1e-6 and mu > k2 for some tranche, i.e. the repaired branch of gauss_approx_tranche_loss is exercised"""
    n = len(R)
    losses = (1.0 - R) / n
    zs, _, _ = quad_nodes(np, steps)
    for q in (q1, q2):
        thr = np.array([norminvcdf(1.0 - x) for x in q])
        pz = cond_probs(np, Nf, thr, b, zs)
        mu = (pz * losses[None, :]).sum(axis=1)
        var = ((losses ** 2)[None, :] * pz * (1 - pz)).sum(axis=1)
        deg = np.sqrt(var) < 1e-6
        if deg.any() and float(mu[deg].max()) > min(ks[1:]):
            return True
    return False


def lhplus_reference(np, p, r, h, b, p0, r0, h0, b0, k, grid=[None]):
    """E[min(L,k)] and P(L>k) for L = (1-r) h X + (1-r0) h0 1{asset 0 defaults}, X = Phi((c - b Z)/sqrt(1-b^2)) the
    defaulted fraction of the large pool and asset 0 defaulting given Z with probability Phi((c0 - b0 Z)/sqrt(1-b0^2)):
    a one-dimensional integral over the common factor, computed with SciPy's normal law on a fine grid (independent of
    the library's N / M / phi3)."""
    from scipy.stats import norm
    if grid[0] is None:
        z = np.linspace(-9.0, 9.0, 36001)
        grid[0] = (z, norm.pdf(z) * (z[1] - z[0]))
    z, w = grid[0]
    x = norm.cdf((norm.ppf(p) - b * z) / math.sqrt(1 - b * b))
    d0 = norm.cdf((norm.ppf(p0) - b0 * z) / math.sqrt(1 - b0 * b0))
    pool = (1 - r) * h * x
    emin = float((w * (d0 * np.minimum(pool + (1 - r0) * h0, k) + (1 - d0) * np.minimum(pool, k))).sum())
    pgt = float((w * (d0 * (pool + (1 - r0) * h0 > k) + (1 - d0) * (pool > k))).sum())
    return emin, pgt


PHI3_ID = 'C17/phi3-zero-steps-division'


def phi3_window(args, k):
    """classifier of C17/phi3-zero-steps-division: one of the two upper limits a, b that LHPlusModel.exp_min_lk passes to
    phi3 lies in (-7.001, -6.999), where phi3's step count int((b1 + 7)/0.001) is 0 and dx = (b1 + 7)/0 raises"""
    from financepy.utils.math import norminvcdf
    p, r, h, beta, p0, r0, h0, beta_0 = args
    c = norminvcdf(p)
    out = []
    for arg in (k / (1.0 - r) / h, (k - (1.0 - r0) * h0) / (1.0 - r) / h):
        if 0.0 < arg < 1.0:
            out.append((c - math.sqrt(1.0 - beta * beta) * norminvcdf(arg)) / beta)
    return any(-7.001 - 1e-9 < x < -6.999 + 1e-9 for x in out)


def lhplus(ctx, meas, np, quick, LHP):
    """LHPlusModel: E[min(L,k)] closed forms, P(L>k), the numerically integrated tranche survival probability."""
    from financepy.models.gauss_copula_lhplus import LHPlusModel
    from financepy.utils.error import FinError
    rng = ctx.rng('lhplus')
    DK = 1e-5                      # the step hard-coded in LHPlusModel.tranche_survival_prob
    n_cases = 60 if quick else 600
    for t in range(n_cases):
        p = rng.uniform(0.005, 0.3)
        r = rng.choice([0.0, 0.4, 0.6])
        b = rng.choice([0.1, 0.3, 0.5, 0.7, 0.9])
        p0 = rng.uniform(0.005, 0.3)
        r0 = rng.choice([0.0, 0.4])
        h0 = rng.choice([0.0, 0.0, 0.01, 0.05, 0.1])
        h = 1.0 - h0
        b0 = rng.choice([0.1, 0.3, 0.5, 0.7, 0.9])
        args = [p, r, h, b, p0, r0, h0, b0]
        mdl = LHPlusModel(*args)
        lo, hi = (1 - r0) * h0, (1 - r) * h            # domain of the closed forms: argb >= 0 and arga <= 1
        total_el = p * h * (1 - r) + p0 * h0 * (1 - r0)
        ks = sorted(lo + (hi - lo) * u for u in (rng.uniform(0.002, 0.2), rng.uniform(0.2, 0.6), rng.uniform(0.6, 0.999)))
        cs = {'LHPlusModel': dict(zip(['p', 'r', 'h', 'beta', 'p0', 'r0', 'h0', 'beta_0'], args)), 'strikes': ks}
        try:
            el = [float(mdl.exp_min_lk(k)) for k in ks]
            el2 = [float(mdl.exp_min_lk2(k)) for k in ks]
            pg = [float(mdl.prob_loss_gt_k(k)) for k in ks]
            mdl_later = LHPlusModel(min(0.9, p * 1.5), r, h, b, min(0.9, p0 * 1.5), r0, h0, b0)   # later horizon: higher PDs
            el_later = [float(mdl_later.exp_min_lk(k)) for k in ks]
        except Exception as e:  # noqa: BLE001
            later = [min(0.9, p * 1.5), r, h, b, min(0.9, p0 * 1.5), r0, h0, b0]
            hit = isinstance(e, ZeroDivisionError) and any(phi3_window(a_, k) for a_ in (args, later) for k in ks)
            ctx.violation(f'LHPlus closed form raised {type(e).__name__}: {e} inside its domain', cs,
                          finding=PHI3_ID if hit else None, clause='callable')
            continue
        cs.update(exp_min_lk=el, prob_loss_gt_k=pg)
        for k, a, a2, g in zip(ks, el, el2, pg):
            re, rg = lhplus_reference(np, *args, k)
            tag = 'lhplus.h0>0' if h0 > 0 else 'lhplus.h0=0'
            meas.see(tag + '.exp_min_lk-vs-integral', abs(a - re))
            meas.see(tag + '.prob-vs-integral', abs(g - rg))
            meas.see('lhplus.exp_min_lk-vs-exp_min_lk2', abs(a - a2))
            # phi3 / M / N are 6-7 digit approximations: measured 1.7e-7 (h0 = 0), 1.6e-5 (h0 > 0); P(L>k) is compared
            # with a grid integral of an indicator (grid error ~1e-4): measured 9.4e-5
            if not (abs(a - re) <= 5e-5) or not (abs(a2 - re) <= 5e-5):
                ctx.violation('LHPlus exp_min_lk differs from E[min(L,k)] computed by direct integration over the factor',
                              dict(cs, k=k, exp_min_lk=a, exp_min_lk2=a2, reference=re), clause='lhplus-expectation')
            if not (abs(g - rg) <= 5e-4):
                ctx.violation('LHPlus prob_loss_gt_k differs from P(L>k) computed by direct integration over the factor',
                              dict(cs, k=k, prob=g, reference=rg), clause='lhplus-tail-probability')
            if not (-1e-6 <= g <= 1 + 1e-6):
                ctx.violation('LHPlus P(L>k) outside [0,1]', dict(cs, k=k, prob=g), clause='unit-interval')
            if not (-1e-6 <= a <= min(k, total_el) + 5e-5):
                ctx.violation('LHPlus E[min(L,k)] outside [0, min(k, portfolio EL)]', dict(cs, k=k, portfolio_EL=total_el),
                              clause='unit-interval')
        # tranche EL as a fraction of the width in [0,1]; E[min(L,k)] non-decreasing in k; non-decreasing in time
        for j in range(2):
            frac = (el[j + 1] - el[j]) / (ks[j + 1] - ks[j])
            meas.see('lhplus.tranche-EL-range', max(-frac, frac - 1, 0.0))
            if not (-1e-4 <= frac <= 1 + 1e-4):      # 2 x 5e-5 closed-form error over widths >= ~0.1 (hi - lo)
                ctx.violation('LHPlus tranche expected loss / width outside [0,1]', dict(cs, tranche=[ks[j], ks[j + 1]], EL=frac),
                              clause='unit-interval')
        dec = max(a - c for a, c in zip(el, el_later))
        meas.see('lhplus.monotone-in-time', max(dec, 0.0))
        if dec > 5e-5:
            ctx.violation('LHPlus expected tranche loss decreases when default probabilities increase', dict(cs, later=el_later),
                          clause='non-decreasing-in-time')
        # partition: at the top of the pool the expected loss is the portfolio EL up to the extra asset's own loss
        try:
            top = float(mdl.exp_min_lk(hi * (1 - 1e-9)))
        except Exception as e:  # noqa: BLE001
            hit = isinstance(e, ZeroDivisionError) and phi3_window(args, hi * (1 - 1e-9))
            ctx.violation(f'LHPlus closed form raised {type(e).__name__}: {e} just below the top of the pool',
                          dict(cs, k=hi * (1 - 1e-9)), finding=PHI3_ID if hit else None, clause='callable')
            continue
        meas.see('lhplus.partition-top' + ('.h0>0' if h0 > 0 else '.h0=0'), max(top - total_el, total_el - p0 * h0 * (1 - r0) - top, 0.0))
        if not (total_el - p0 * h0 * (1 - r0) - 5e-5 <= top <= total_el + 5e-5):
            ctx.violation('LHPlus: E[min(L, top of the pool)] is not within [EL - p0 h0 (1-r0), EL] of the portfolio EL',
                          dict(cs, top=top, portfolio_EL=total_el), clause='partition-adds-up')
        if h0 == 0.0:
            # reduces to the LHP model: same closed form, and the numerically integrated tranche survival agrees with LHP
            for k, a in zip(ks, el):
                lhp = float(LHP.exp_min_lk(k, p, r, 1.0, b))
                meas.see('lhplus.vs-LHP.exp_min_lk', abs(a - lhp))
                if not (abs(a - lhp) <= 1e-6):     # measured 1e-8 (different routes through N / M / phi3)
                    ctx.violation('LHPlus with no extra asset differs from the LHP closed form', dict(cs, k=k, lhplus=a, lhp=lhp),
                                  clause='reduces-to-LHP')
            if t < (12 if quick else 120):
                k1, k2 = ks[0], ks[1]
                try:
                    sv = float(mdl.tranche_survival_prob(k1, k2))
                except Exception as e:  # noqa: BLE001
                    ctx.violation(f'LHPlus tranche_survival_prob raised {type(e).__name__}: {e}', dict(cs, k1=k1, k2=k2), clause='callable')
                    continue
                want = 1.0 - (el[1] - el[0]) / (k2 - k1)
                # right-endpoint sum with step dk overstates each E[min(L,k)] by at most dk (measured 5e-6 = dk/2)
                tol = 2 * DK / (k2 - k1) + 1e-6      # measured 0.3*dk/width
                meas.see('lhplus.tranche_survival_prob-vs-closed x width/dk', abs(sv - want) * (k2 - k1) / DK)
                if not (-tol <= sv <= 1 + tol):
                    ctx.violation('LHPlus tranche survival probability outside [0,1]', dict(cs, k1=k1, k2=k2, value=sv), clause='unit-interval')
                if not (abs(sv - want) <= tol):
                    ctx.violation('LHPlus tranche_survival_prob (numerical integral) differs from its own closed form / LHP',
                                  dict(cs, k1=k1, k2=k2, value=sv, closed_form=want), clause='reduces-to-LHP')
    ctx.count('LHPlusModel', n_cases, n_cases, sample={'p': 0.05, 'r': 0.4, 'h': 0.95, 'beta': 0.5, 'p0': 0.03, 'r0': 0.4, 'h0': 0.05, 'beta_0': 0.3})
    # the two entry conditions under which tranche_survival_prob cannot be used at all
    mdl = LHPlusModel(0.05, 0.4, 1.0, 0.5, 0.03, 0.4, 0.0, 0.5)
    try:
        v = float(mdl.tranche_survival_prob(0.0, 0.03))
        if not (-1e-3 <= v <= 1 + 1e-3):
            ctx.violation('LHPlus equity tranche survival outside [0,1]', {'k1': 0.0, 'k2': 0.03, 'value': v}, clause='unit-interval')
    except ZeroDivisionError as e:
        ctx.violation(f'LHPlusModel.tranche_survival_prob(0, k2) raises ZeroDivisionError ({e}): exp_min_lk_integral(0, dk) divides by num_steps = 0',
                      {'ctor': [0.05, 0.4, 1.0, 0.5, 0.03, 0.4, 0.0, 0.5], 'k1': 0.0, 'k2': 0.03},
                      finding='C17/lhplus-equity-tranche-zero-division', clause='callable')
    except Exception as e:  # noqa: BLE001
        ctx.violation(f'LHPlusModel.tranche_survival_prob(0, k2) raised {type(e).__name__}: {e}',
                      {'ctor': [0.05, 0.4, 1.0, 0.5, 0.03, 0.4, 0.0, 0.5], 'k1': 0.0, 'k2': 0.03}, clause='callable')
    mdl = LHPlusModel(0.05, 0.4, 0.95, 0.5, 0.03, 0.4, 0.05, 0.3)
    try:
        v = float(mdl.tranche_survival_prob(0.05, 0.1))
        if not (-1e-3 <= v <= 1 + 1e-3):
            ctx.violation('LHPlus tranche survival outside [0,1]', {'k1': 0.05, 'k2': 0.1, 'value': v}, clause='unit-interval')
    except FinError as e:
        ctx.violation(f'LHPlusModel.tranche_survival_prob raises FinError ({e}) whenever the extra asset has weight: the integral '
                      'starts at dk = 1e-5, below (1-r0)*h0 where prob_loss_gt_k refuses to work',
                      {'ctor': [0.05, 0.4, 0.95, 0.5, 0.03, 0.4, 0.05, 0.3], 'k1': 0.05, 'k2': 0.1},
                      finding='C17/lhplus-integral-starts-below-extra-asset-loss', clause='callable')
    except Exception as e:  # noqa: BLE001
        ctx.violation(f'LHPlusModel.tranche_survival_prob raised {type(e).__name__}: {e}',
                      {'ctor': [0.05, 0.4, 0.95, 0.5, 0.03, 0.4, 0.05, 0.3], 'k1': 0.05, 'k2': 0.1}, clause='callable')
    ctx.count('LHPlusModel_entry_conditions', 2, 2)
    # phi3 (trivariate normal by integration from -7 in steps of 0.001): an upper limit within 0.001 of -7 gives 0 steps
    from financepy.utils.math import phi3, norminvcdf
    n_phi3 = 0
    for b1 in (-6.9995, -7.0, -7.0005, -6.99901, -7.00099, -6.998, -7.002, -8.0):
        n_phi3 += 1
        try:
            v = float(phi3(b1, 0.3, -0.2, 0.5, 0.4, 0.2))
            if not (-1e-9 <= v <= 1e-9):                 # P(X1 <= b1, ...) <= Phi(-6.998) = 1.3e-12
                ctx.violation('phi3 with an upper limit near -7 is not ~0', {'b1': b1, 'b2': 0.3, 'b3': -0.2, 'r12': 0.5, 'r13': 0.4,
                                                                             'r23': 0.2, 'returned': v}, clause='lhplus-expectation')
        except ZeroDivisionError as e:
            ctx.violation(f'phi3 raises ZeroDivisionError ({e}): num_points = int((b1 + 7)/0.001) = 0 and dx = (b1 + 7)/num_points',
                          {'b1': b1, 'b2': 0.3, 'b3': -0.2, 'r12': 0.5, 'r13': 0.4, 'r23': 0.2},
                          finding=PHI3_ID if -7.001 < b1 < -6.999 else None, clause='callable')
    # the same through LHPlusModel.exp_min_lk: strike at which a = (c - sqrt(1-beta^2) NormSInv(k/((1-r)h)))/beta = -6.9995
    p_, r_, beta_ = 0.05, 0.4, 0.5
    inva = (norminvcdf(p_) + 6.9995 * beta_) / math.sqrt(1 - beta_ * beta_)
    k_ = 0.5 * math.erfc(-inva / math.sqrt(2.0)) * (1 - r_)
    wit = [p_, r_, 1.0, beta_, 0.03, 0.4, 0.0, 0.5]
    n_phi3 += 1
    try:
        v = float(LHPlusModel(*wit).exp_min_lk(k_))
        ref, _ = lhplus_reference(np, *wit, k_)
        if not (abs(v - ref) <= 5e-5):
            ctx.violation('LHPlus exp_min_lk differs from E[min(L,k)] computed by direct integration over the factor',
                          {'ctor': wit, 'k': k_, 'exp_min_lk': v, 'reference': ref}, clause='lhplus-expectation')
    except Exception as e:  # noqa: BLE001
        ctx.violation(f'LHPlusModel.exp_min_lk raised {type(e).__name__}: {e} inside its domain', {'ctor': wit, 'k': k_},
                      finding=PHI3_ID if isinstance(e, ZeroDivisionError) and phi3_window(wit, k_) else None, clause='callable')
    ctx.count('phi3_upper_limit_near_minus_7', n_phi3, n_phi3)


def products(ctx, meas, np, quick):
    from financepy.utils.date import Date
    from financepy.market.curves.discount_curve_flat import DiscountCurveFlat
    from financepy.products.credit.cds import CDS
    from financepy.products.credit.cds_curve import CDSCurve
    from financepy.products.credit.cds_basket import CDSBasket
    from financepy.products.credit.cds_tranche import CDSTranche, FinLossDistributionBuilder
    from financepy.utils.math import corr_matrix_generator
    rng = ctx.rng('products')
    value_dt = Date(20, 3, 2024)
    libor = DiscountCurveFlat(value_dt, 0.03)

    skipped = [0]

    def issuer(spread, rec):
        cds = [CDS(value_dt, ten, spread) for ten in ('1Y', '3Y', '5Y', '7Y')]
        for _ in range(5):
            try:
                return CDSCurve(value_dt, cds, libor, rec)
            except ZeroDivisionError:        # a CDS-kernel matter (C09), not a loss-distribution one
                skipped[0] += 1
                cds = [CDS(value_dt, ten, spread * rng.uniform(0.9, 1.1)) for ten in ('1Y', '3Y', '5Y', '7Y')]
        raise RuntimeError('could not build an issuer curve')

    n_b = 6 if quick else 40
    for t in range(n_b):
        n = rng.choice([3, 5, 8])
        rec = rng.choice([0.3, 0.4])
        curves = [issuer(rng.uniform(0.003, 0.05), rec) for _ in range(n)]
        mat = value_dt.add_tenor(rng.choice(['3Y', '5Y']))
        bsk = CDSBasket(value_dt, mat)
        beta = rng.choice([0.0, 0.3, 0.6, 0.9])
        bv = np.full(n, beta)
        spds = [float(bsk.value_1f_gaussian_homo(value_dt, k, curves, bv, libor, 50)[3]) for k in range(1, n + 1)]
        cs = {'fn': 'CDSBasket.value_1f_gaussian_homo', 'num_credits': n, 'beta': beta, 'recovery': rec,
              'spreads_by_n_to_default': spds}
        if not all(spds[i] >= spds[i + 1] - 1e-12 for i in range(n - 1)) or min(spds) < -1e-12:
            ctx.violation('nth-to-default spreads do not decrease in n (1-factor Gaussian)', cs, clause='ntd-decreasing')
        rho = beta * beta
        cm = corr_matrix_generator(rho, n)
        seed = rng.randint(1, 10 ** 6)
        trials = 2000
        dof = rng.choice([3, 8] + S.DOFS)      # both sides of the 'nearly normal' region
        for nm, call in (('Gaussian MC', lambda k: bsk.value_gaussian_mc(value_dt, k, curves, cm, libor, trials, seed)),
                         ('Student-t MC', lambda k: bsk.value_student_t_mc(value_dt, k, curves, cm, dof, libor, trials, seed))):
            try:
                s_ = [float(call(k)[2]) for k in range(1, n + 1)]
            except IndexError as e:
                ctx.violation(f'CDSBasket {nm}: value_legs_mc raises IndexError ({e}) when the n-th default falls in the '
                              'last coupon period (payment index = int(tau / average accrual) overruns rpv01_to_times)',
                              {'fn': nm, 'num_credits': n, 'rho': rho, 'seed': seed, 'trials': trials,
                               'value_dt': '20-MAR-2024', 'maturity': str(mat)},
                              finding='C17/basket-mc-index-overrun', clause='callable')
                continue
            except Exception as e:  # noqa: BLE001
                ctx.violation(f'CDSBasket {nm} raised {type(e).__name__}: {e}',
                              {'fn': nm, 'num_credits': n, 'rho': rho, 'seed': seed, 'trials': trials, 'degrees_of_freedom': dof,
                               'value_dt': '20-MAR-2024', 'maturity': str(mat)}, clause='callable')
                continue
            if not all(s_[i] >= s_[i + 1] - 1e-12 for i in range(n - 1)) or min(s_) < -1e-12:
                ctx.violation(f'nth-to-default spreads do not decrease in n ({nm})',
                              {'fn': nm, 'num_credits': n, 'rho': rho, 'seed': seed, 'spreads': s_}, clause='ntd-decreasing')
    ctx.count('CDSBasket_nth_to_default', n_b * 3, n_b * 3)

    n_t = 4 if quick else 30
    for t in range(n_t):
        n = rng.choice([10, 25])
        rec = 0.4
        curves = [issuer(rng.uniform(0.003, 0.03), rec) for _ in range(n)]
        mat = value_dt.add_tenor('5Y')
        corr = rng.choice([0.0, 0.1, 0.3, 0.6])
        for model in FinLossDistributionBuilder:
            pvs = []
            ks = [0.0, 0.03, 0.07, 0.15, 1.0]
            bad = None
            for j in range(len(ks) - 1):
                tr = CDSTranche(value_dt, mat, ks[j], ks[j + 1], notional=1.0)
                trs = CDSTranche(value_dt, mat, ks[j], ks[j + 1], notional=1.0, long_protect=False)
                try:
                    v = tr.value_bc(value_dt, curves, 0.0, 0.01, corr, corr, 50, model)
                    vs = trs.value_bc(value_dt, curves, 0.0, 0.01, corr, corr, 50, model)
                except ZeroDivisionError:
                    bad = 'skip'
                    break
                except Exception as e:  # noqa: BLE001
                    bad = f'{type(e).__name__}: {e}'
                    break
                pvs.append(float(v[2]))
                if abs(float(v[0]) + float(vs[0])) > 1e-12:
                    ctx.violation('CDSTranche: long protection value is not minus short protection value',
                                  {'model': model.name, 'k1': ks[j], 'k2': ks[j + 1], 'long': float(v[0]), 'short': float(vs[0])},
                                  clause='long-short')
            cs = {'fn': 'CDSTranche.value_bc', 'model': model.name, 'num_credits': n, 'corr': corr, 'attachment_points': ks,
                  'prot_leg_pv_per_unit_tranche_notional': pvs, 'error': bad}
            if bad == 'skip':
                skipped[0] += 1
                continue
            if bad:
                ctx.violation(f'CDSTranche.value_bc({model.name}) raised {bad}', cs, clause='callable')
                continue
            if min(pvs) < -1e-9 or max(pvs) > 1 + 1e-9:
                ctx.violation('CDSTranche protection leg PV per unit notional outside [0,1]', cs, clause='unit-interval')
            # flat base correlation: protection PVs of a partition add up (width-weighted) to the portfolio protection PV
            tot = sum((ks[j + 1] - ks[j]) * pvs[j] for j in range(len(pvs)))
            port = 0.0
            cds = CDS(value_dt, mat, 0.01, 1.0)
            for c in curves:
                port += float(cds.prot_leg_pv(value_dt, c, rec)) / n
            rel = abs(tot - port) / port
            meas.see(f'product.partition.{model.name}', rel)
            ptol = {'RECURSION': 2e-3, 'ADJUSTED_BINOMIAL': 2e-3, 'GAUSSIAN': 0.15, 'LHP': 2e-3}[model.name]
            if rel > ptol:
                ctx.violation('CDSTranche: width-weighted protection legs of a partition do not add up to the portfolio '
                              'protection leg (flat correlation)', dict(cs, partition_sum=tot, portfolio=port),
                              clause='partition-adds-up')
    ctx.count('CDSTranche_value_bc', n_t * 4 * 4, n_t * 4 * 4)
    if skipped[0]:
        ctx.notes.append(f'{skipped[0]} product case(s) skipped: the CDS kernels raised ZeroDivisionError (decided under C09)')


def replay(ctx, path):
    rp = json.load(open(path))
    v = rp.get('violation')
    if not v:
        print('replay: no concrete input in this file:', rp.get('broken'))
        return 1
    C.import_financepy()
    import numpy as np
    from financepy.models import loss_dbn_builder as LB
    from financepy.models import gauss_copula_onefactor as GC
    cs = v['case']
    fn = cs.get('fn')
    if fn == 'indep_loss_dbn_recursion_gcd':
        p, lu = np.array(cs['cond_default_probs'], float), np.array(cs['loss_units'], float)
        d = LB.indep_loss_dbn_recursion_gcd(len(p), p, lu)
        mass, mean = float(d.sum()), float((d * np.arange(len(d))).sum())
        print(f'replay {fn}: mass={mass!r} mean={mean!r} expected mean={float((p * lu).sum())!r} min={float(d.min())!r}')
        bad = abs(mass - 1) > 1e-12 * (len(p) + 4) or abs(mean - float((p * lu).sum())) > 1e-12 * (len(p) + 4) * lu.sum() or d.min() < 0
        if len(p) <= 12:
            en = enumerate_law(np, p, lu.astype(int), len(d))
            bad = bad or float(np.max(np.abs(en - d))) > 1e-13
    elif fn == 'loss_dbn_recursion_gcd':
        p, lu, b = (np.array(cs[k], float) for k in ('default_probs', 'loss_units', 'beta_vector'))
        d = GC.loss_dbn_recursion_gcd(len(p), p, lu, b, int(cs['num_integration_steps']))
        mass, mean = float(d.sum()), float((d * np.arange(len(d))).sum())
        print(f'replay {fn}: mass={mass!r} mean={mean!r} expected mean={float((p * lu).sum())!r} min={float(d.min())!r}')
        bad = abs(mass - 1) > TOL_MASS_GC or abs(mean - float((p * lu).sum())) > mean_tol(int(cs['num_integration_steps'])) * lu.sum() or d.min() < 0
    elif fn == 'gauss_approx_tranche_loss':
        v_ = float(GC.gauss_approx_tranche_loss(cs['k1'], cs['k2'], cs['mu'], cs['sigma']))
        want = min(max(cs['mu'] - cs['k1'], 0.0), cs['k2'] - cs['k1'])
        print(f'replay {fn}: returned={v_!r} tranche function at mu={want!r}')
        bad = (abs(cs['sigma']) < 1e-6 and abs(v_ - want) > 1e-15) or not (-1e-7 <= v_ <= cs['k2'] - cs['k1'] + 1e-7)
    elif fn == 'exp_min_lk':
        from financepy.models import gauss_copula_lhp as LHP
        v_ = float(LHP.exp_min_lk(cs['k'], cs['p'], cs['r'], 1.0, cs['beta']))
        el = cs['p'] * (1.0 - cs['r'])
        print(f'replay {fn}: returned={v_!r} p(1-R)={el!r}')
        bad = (v_ != el) if (cs['k'] >= 1.0 - cs['r'] and cs['k'] != 0.0 and cs['p'] != 0.0) else not (-1e-6 <= v_ <= min(cs['k'], el) + 1e-6)
    elif fn == 'reuse':
        bad = RU.replay_case(np, cs)
    elif fn in (S.T_NAME, S.G_NAME):
        keys = ['fn', 'value_dt', 'libor_flat_rate', 'cds_tenors', 'cds_spreads', 'recovery', 'flat_correlation', 'num_trials',
                'seed', 'degrees_of_freedom']
        bad = S.replay_case(np, {k: cs[k] for k in keys if k in cs})
    else:
        print('replay case (re-run ./check C17 with the recorded seed to reproduce):', json.dumps(v, default=str)[:2000])
        return 1
    if bad:
        print(f'VIOLATION property=C17 replay={path}')
        return 1
    return 0
