"""C17 — scalar kernels and the basket survival loop (section 8 of c17.py).

Ties the GENERATED Lean text of `gauss_approx_tranche_loss` and `exp_min_lk` (Gen/CreditF, theorems on Gen/CreditP in
Props/C17f) and the hand models `trancheLoss`, `basketSurv`, `trSurvLhpCore` (Model/C17.lean, theorems in Props/C17e/f) to the
implementation: every case below is appended to the driver ops of c17.py (entry-wise correspondence, rtol 1e-9 / atol 1e-12)
and is examined by a direct oracle on the implementation first.

Oracles (tolerances derived in notes/C17.md):
* gauss_approx_tranche_loss, |sigma| < 1e-6: equal to min(max(mu-k1,0), k2-k1) (theorem gauss_approx_degenerate_eq_trancheLoss)
  to 4 ulp of max(|mu|,|k2|); across the branch switch at sigma = 1e-6 the value moves by at most 0.8e-6 (the exact
  expression is 1-Lipschitz in sigma/sqrt(2 pi) and the branch itself drops at most sigma/sqrt(2 pi) + Hull-N error).
* exp_min_lk: p(1-R) bit-for-bit for k >= 1-R, 0 for k = 0 and for p = 0 (theorems exp_min_lk_boundary / exp_min_lk_zero);
  below the boundary 0 <= E[min(L,k)] <= min(k, p(1-R)) + eps and non-decreasing in k (+ eps), eps = (1-R) EPS_M + k EPS_N.
* tr_surv_prob_lhp: partition from 0 to a top strike strictly above 1-R adds up to the portfolio EL (theorem
  lhp_partition_adds_up; 1e-12 relative: the sum telescopes and the boundary branch is exact).
* CDSBasket.value_1f_gaussian_homo: the survival curve handed to the CDS legs is 1 - sum_{i>=n} dbn[i] of the loss distribution
  of that date (observed by wrapping homog_basket_loss_dbn and the contract's prot_leg_pv for the duration of one call; the
  wrappers are removed afterwards), it is non-decreasing in n at every date and inside [0,1] (theorems basketSurv_eq,
  basketSurv_mono_in_n, basketSurv_unit_interval).
"""
import math

EPS_N = 7.5e-8
EPS_M = 6e-7


def kernels(ctx, meas, np, quick, ops, checks, fl, f2b):
    from financepy.models import gauss_copula_onefactor as GC
    from financepy.models import gauss_copula_lhp as LHP
    from financepy.utils.math import norminvcdf, M as Mf

    # ------------------------------------------------------------------ gauss_approx_tranche_loss
    rng = ctx.rng('kern-gatl')
    n_c = 150 if quick else 2000
    nontriv = 0
    for t in range(n_c):
        k1 = rng.choice([0.0, rng.uniform(0, 0.3)])
        k2 = k1 + rng.uniform(0.005, 0.5)
        mode = t % 5
        mu = rng.choice([rng.uniform(0.0, 0.9), k1, k2, k2 + rng.uniform(0, 0.3), k1 * rng.uniform(0, 1)])
        if mode == 0:
            sigma = 0.0
        elif mode == 1:
            sigma = rng.choice([1, -1]) * rng.uniform(0.0, 0.999999e-6)
        elif mode == 2:
            sigma = rng.choice([9.99999e-7, 1.000001e-6, 1e-6])
        else:
            sigma = 10 ** rng.uniform(-5.5, -0.5)
        v = float(GC.gauss_approx_tranche_loss(k1, k2, mu, sigma))
        cs = {'fn': 'gauss_approx_tranche_loss', 'k1': k1, 'k2': k2, 'mu': mu, 'sigma': sigma, 'returned': v}
        ops.append(f'GATL {f2b(k1)} {f2b(k2)} {f2b(mu)} {f2b(sigma)}')
        checks.append(('gauss_approx_tranche_loss', np.array([v]), cs))
        want = min(max(mu - k1, 0.0), k2 - k1)
        ops.append(f'TLF {f2b(mu)} {f2b(k1)} {f2b(k2)}')
        checks.append(('tranche_loss_function', np.array([min(mu, k2) - min(mu, k1)]), dict(cs, fn='min(L,k2)-min(L,k1)')))
        if abs(sigma) < 1e-6:
            nontriv += 1 if mu > k1 else 0
            dev = abs(v - want)
            meas.see('kern.gatl.degenerate-vs-tranche-function', dev)
            if not (dev <= 4 * 2.3e-16 * max(abs(mu), abs(k2), 1e-300)):
                ctx.violation('gauss_approx_tranche_loss: the |sigma| < 1e-6 branch is not the tranche loss function '
                              'min(max(mu-k1,0), k2-k1) at mu', dict(cs, tranche_function=want), clause='degenerate-limit')
        else:
            # the fitted normal's expected tranche loss lies in [0, k2-k1] as well (exact formula); Hull N error 7.5e-8 per term
            slack = EPS_N * (abs(mu - k1) + abs(mu - k2)) + 1e-15
            meas.see('kern.gatl.range-excess', max(-v, v - (k2 - k1), 0.0))
            if not (-slack <= v <= (k2 - k1) + slack):
                ctx.violation('gauss_approx_tranche_loss outside [0, k2-k1]', cs, clause='unit-interval')
    # across the branch switch
    for t in range(40 if quick else 400):
        k1 = rng.choice([0.0, rng.uniform(0, 0.3)])
        k2 = k1 + rng.uniform(0.005, 0.5)
        mu = rng.choice([rng.uniform(0.0, 0.9), k1, k2, k2 + rng.uniform(0, 0.3)])
        lo = float(GC.gauss_approx_tranche_loss(k1, k2, mu, 0.9999e-6))
        hi = float(GC.gauss_approx_tranche_loss(k1, k2, mu, 1.0001e-6))
        meas.see('kern.gatl.jump-at-branch-switch', abs(hi - lo))
        if not (abs(hi - lo) <= 0.8e-6 + EPS_N * (abs(mu - k1) + abs(mu - k2))):
            ctx.violation('gauss_approx_tranche_loss: the degenerate branch is not the sigma -> 0 limit of the regular one '
                          '(jump at sigma = 1e-6)', {'k1': k1, 'k2': k2, 'mu': mu, 'below': lo, 'above': hi},
                          clause='degenerate-limit')
    ctx.count('gauss_approx_tranche_loss_kernel', n_c, nontriv,
              sample={'k1': 0.03, 'k2': 0.07, 'mu': 0.2, 'sigma': 0.0, 'expected': 0.04})

    # ------------------------------------------------------------------ exp_min_lk
    rng = ctx.rng('kern-elk')
    n_c = 150 if quick else 2000
    nontriv = 0
    for t in range(n_c):
        p = rng.choice([10 ** rng.uniform(-4, -0.3), rng.uniform(0.001, 0.6)])
        r = rng.choice([0.0, 0.25, 0.4, 0.6, rng.uniform(0.0, 0.9)])
        beta = rng.choice([0.0, 0.1, 0.3, 0.5, 0.7, 0.9, 0.99, rng.uniform(0.01, 0.99)])
        mode = t % 6
        top = 1.0 - r
        if mode == 0:
            k = top * rng.uniform(1.0, 1.5) + (1e-12 if rng.random() < 0.5 else 0.0)
        elif mode == 1:
            k = rng.choice([0.0, top])
        else:
            k = top * rng.uniform(0.001, 0.999)
        if mode == 2 and t % 12 == 2:
            p = 0.0
        v = float(LHP.exp_min_lk(k, p, r, 1.0, beta))
        cs = {'fn': 'exp_min_lk', 'k': k, 'p': p, 'r': r, 'n': 1.0, 'beta': beta, 'returned': v}
        b1 = 1e-10 if beta == 0 else beta
        mval = 0.0
        if p != 0.0 and k != 0.0 and not (k >= 1.0 - r) and abs(b1) <= 1.0:
            c = norminvcdf(p)
            arga = k / (1.0 - r) / 1.0
            a = 1.0 / b1 * (c - np.sqrt(1.0 - b1 * b1) * norminvcdf(arga))
            mval = float(Mf(c, -a, -b1))
            nontriv += 1
        ops.append(f'ELK {f2b(k)} {f2b(p)} {f2b(r)} {f2b(1.0)} {f2b(beta)} {f2b(mval)}')
        checks.append(('exp_min_lk', np.array([v]), cs))
        el = p * (1.0 - r)
        if k == 0.0 or p == 0.0:
            if v != 0.0:
                ctx.violation('exp_min_lk: E[min(L,0)] (or p = 0) is not 0', cs, clause='lhp-boundary')
        elif k >= 1.0 - r:
            if v != el:
                ctx.violation('exp_min_lk: for k >= 1-R the whole expected loss p(1-R) must be returned', dict(cs, expected=el),
                              clause='lhp-boundary')
        else:
            eps = (1.0 - r) * EPS_M + k * EPS_N
            meas.see('kern.elk.excess-over-min(k,EL)', max(v - min(k, el), -v, 0.0))
            if not (-eps <= v <= min(k, el) + eps):
                ctx.violation('exp_min_lk: E[min(L,k)] outside [0, min(k, p(1-R))]', dict(cs, portfolio_EL=el), clause='lhp-boundary')
            k_hi = k + (top - k) * rng.uniform(0.05, 1.0)
            v_hi = float(LHP.exp_min_lk(k_hi, p, r, 1.0, beta))
            meas.see('kern.elk.decrease-in-k', max(v - v_hi, 0.0))
            if not (v_hi >= v - 2 * eps):
                ctx.violation('exp_min_lk decreases in k', dict(cs, k_higher=k_hi, returned_higher=v_hi), clause='lhp-boundary')
    ctx.count('exp_min_lk_kernel', n_c, nontriv, sample={'k': 0.7, 'p': 0.02, 'r': 0.4, 'beta': 0.5, 'expected': 0.012})

    # ------------------------------------------------------------------ tr_surv_prob_lhp: partition with the top strike above 1-R
    rng = ctx.rng('kern-lhp')
    n_c = 40 if quick else 500
    for t in range(n_c):
        n = rng.choice([1, 5, 25, 125])
        R = np.array([rng.choice([0.1, 0.25, 0.4, 0.6]) for _ in range(n)]) if t % 3 == 0 else np.full(n, rng.choice([0.2, 0.4, 0.6]))
        q = np.array([math.exp(-10 ** rng.uniform(-3, -0.5) * rng.uniform(0.5, 7)) for _ in range(n)])
        beta = rng.choice([0.0, 0.2, 0.5, 0.8, 0.99])
        inner = sorted({round(rng.uniform(0.01, 0.35), 4) for _ in range(rng.randint(1, 4))})
        ks = [0.0] + inner + [1.0]
        pm = float((1 - q).sum()) / n
        elp = float(((1 - q) * (1 - R)).sum()) / n
        rec = 1.0 - elp / pm
        if not (ks[-1] >= (1.0 - rec) * (1 + 1e-9) and inner[-1] < 1.0 - rec):
            continue
        sv = [float(LHP.tr_surv_prob_lhp(ks[j], ks[j + 1], n, q, R, beta)) for j in range(len(ks) - 1)]
        tot = sum((ks[j + 1] - ks[j]) * (1.0 - sv[j]) for j in range(len(sv)))
        cs = {'fn': 'tr_surv_prob_lhp', 'num_credits': n, 'survival_probs': q.tolist(), 'recovery_rates': R.tolist(), 'beta': beta,
              'attachment_points': ks, 'tranche_survival': sv, 'partition_sum': tot, 'portfolio_EL': elp}
        meas.see('kern.lhp.partition-top-above-max-loss', abs(tot - elp) / elp)
        if not (abs(tot - elp) <= 1e-12 * elp + 1e-15 * len(ks)):
            ctx.violation('LHP: width-weighted tranche expected losses of a partition reaching above the maximal loss 1-R do not '
                          'add up to the portfolio EL (the sum telescopes to exp_min_lk(k_top) = p(1-R))', cs,
                          clause='partition-adds-up')
        b1 = 1e-10 if beta == 0 else beta
        ms = []
        for k in ks:
            if k == 0.0 or k >= 1.0 - rec:
                ms.append(0.0)
            else:
                c = norminvcdf(pm)
                a = 1.0 / b1 * (c - np.sqrt(1.0 - b1 * b1) * norminvcdf(k / (1.0 - rec) / 1.0))
                ms.append(float(Mf(c, -a, -b1)))
        for j in range(len(sv)):
            ops.append(f'TSL {n} {f2b(ks[j])} {f2b(ks[j + 1])} {f2b(beta)} {f2b(ms[j])} {f2b(ms[j + 1])} {fl(q)} {fl(R)}')
            checks.append(('tr_surv_prob_lhp', np.array([sv[j]]), dict(cs, tranche=j)))
    ctx.count('tr_surv_prob_lhp_partition_above_max_loss', n_c, n_c)

    # ------------------------------------------------------------------ portfolio_cdf_lhp: the LHP loss law itself
    # F(k) = P(L <= k) must be a distribution function on [0, 1-R] (R = the default-probability-weighted pool recovery, the one
    # tr_surv_prob_lhp uses), reach 1 exactly at the maximal loss 1-R, and have the portfolio EL as its mean:
    # integral_0^{1-R} (1 - F(k)) dk = sum (1-q_i)(1-R_i) / n, whatever the correlation (seed C17-12: the sibling of
    # tr_surv_prob_lhp switched to the plain mean of the recoveries)
    rng = ctx.rng('kern-lhp-cdf')
    n_c = 40 if quick else 400
    gx, gw = np.polynomial.legendre.leggauss(600)
    done = 0
    for t in range(n_c):
        n = rng.choice([2, 5, 25, 125])
        R = np.array([rng.choice([0.1, 0.25, 0.4, 0.6, 0.8]) for _ in range(n)]) if t % 4 else np.full(n, rng.choice([0.2, 0.4, 0.6]))
        q = np.array([math.exp(-10 ** rng.uniform(-2.5, -0.5) * rng.uniform(0.5, 7)) for _ in range(n)])
        if t % 4 == 1:                       # recoveries correlated with default probabilities
            R = np.clip(0.8 - 0.7 * (1 - q) / max(1e-12, float((1 - q).max())), 0.05, 0.8)
        beta = rng.choice([0.25, 0.4, 0.6, 0.8])
        pm = float((1 - q).sum()) / n
        elp = float(((1 - q) * (1 - R)).sum()) / n
        rec = 1.0 - elp / pm
        kmax = 1.0 - rec
        F = lambda k: float(LHP.portfolio_cdf_lhp(float(k), n, q, R, beta, 50))  # noqa: E731
        cs = {'fn': 'portfolio_cdf_lhp', 'num_credits': n, 'survival_probs': q.tolist(), 'recovery_rates': R.tolist(), 'beta': beta,
              'portfolio_EL': elp, 'weighted_recovery': rec}
        done += 1
        above, below = F(kmax * (1 + 1e-9)), F(kmax * (1 - 1e-6))
        if above != 1.0 or not (0.0 <= below <= 1.0):   # (F just below may round to 1.0 in doubles: no strict test)
            ctx.violation('LHP loss distribution function does not reach 1 exactly at the maximal pool loss 1-R (R = default-probability-'
                          'weighted recovery): F just above it / just below it', dict(cs, F_above=above, F_below=below, k_max=kmax),
                          clause='lhp-cdf-is-a-law')
            continue
        ks = 0.5 * kmax * (gx + 1.0)
        fv = np.array([F(k) for k in ks])
        if not (np.all(fv >= 0.0) and np.all(fv <= 1.0) and np.all(np.diff(fv) >= -1e-12)):
            ctx.violation('LHP loss distribution function is not a non-decreasing function into [0, 1]', dict(cs, values=fv[:20].tolist()),
                          clause='lhp-cdf-is-a-law')
            continue
        mean = float(0.5 * kmax * np.dot(gw, 1.0 - fv))
        meas.see('kern.lhp.cdf-mean-vs-EL', abs(mean - elp) / elp)
        # Hull N is within 7.5e-8 of Phi and the coded inverse within ~1e-9; 600 Gauss-Legendre nodes on a smooth integrand (beta >= 0.25)
        if not abs(mean - elp) <= 2e-4 * elp + 1e-7 * kmax:
            ctx.violation('the mean of the LHP loss law, integral of (1 - F), is not the portfolio expected loss sum (1-q_i)(1-R_i)/n',
                          dict(cs, mean_of_law=mean), clause='lhp-cdf-mean')
    ctx.count('portfolio_cdf_lhp_is_a_law_with_mean_EL', done, done)

    # ------------------------------------------------------------------ basket survival loop of CDSBasket.value_1f_gaussian_homo
    basket_survival(ctx, meas, np, quick, ops, checks, fl)


def basket_survival(ctx, meas, np, quick, ops, checks, fl):
    from financepy.utils.date import Date
    from financepy.market.curves.discount_curve_flat import DiscountCurveFlat
    from financepy.products.credit.cds import CDS
    from financepy.products.credit.cds_curve import CDSCurve
    from financepy.products.credit.cds_basket import CDSBasket
    import financepy.products.credit.cds_basket as CB
    rng = ctx.rng('kern-basket')
    value_dt = Date(20, 3, 2024)
    libor = DiscountCurveFlat(value_dt, 0.03)

    def issuer(spread, rec):
        for _ in range(6):
            try:
                return CDSCurve(value_dt, [CDS(value_dt, ten, spread) for ten in ('1Y', '3Y', '5Y', '7Y')], libor, rec)
            except ZeroDivisionError:        # a CDS-kernel matter (C09)
                spread *= rng.uniform(0.9, 1.1)
        return None

    n_b = 3 if quick else 20
    n_eval = 0
    for t in range(n_b):
        n = rng.choice([2, 3, 5, 8])
        rec = rng.choice([0.3, 0.4])
        curves = [issuer(rng.uniform(0.003, 0.08), rec) for _ in range(n)]
        if any(c is None for c in curves):
            continue
        mat = value_dt.add_tenor(rng.choice(['3Y', '5Y']))
        beta = rng.choice([0.0, 0.3, 0.6, 0.9])
        bv = np.full(n, beta)
        by_n = []
        for ntd in range(1, n + 1):
            bsk = CDSBasket(value_dt, mat)
            cap = {'d': [], 'curve': None}
            orig_h = CB.homog_basket_loss_dbn
            orig_p = bsk.cds_contract.prot_leg_pv

            def spy_h(qv, Rv, bvec, npts, _o=orig_h, _c=cap):
                d = _o(qv, Rv, bvec, npts)
                _c['d'].append(np.array(d, dtype=float))
                return d

            def spy_p(vd, curve, rr, _o=orig_p, _c=cap):
                _c['curve'] = np.array(curve._values, dtype=float)
                return _o(vd, curve, rr)

            CB.homog_basket_loss_dbn = spy_h
            bsk.cds_contract.prot_leg_pv = spy_p
            try:
                bsk.value_1f_gaussian_homo(value_dt, ntd, curves, bv, libor, 50)
            finally:
                CB.homog_basket_loss_dbn = orig_h
                del bsk.cds_contract.prot_leg_pv
            cs = {'fn': 'CDSBasket.value_1f_gaussian_homo', 'num_credits': n, 'n_to_default': ntd, 'beta': beta, 'recovery': rec}
            if cap['curve'] is None or len(cap['d']) != len(cap['curve']):
                ctx.broke('correspondence basket survival: the loss distributions / the basket curve of value_1f_gaussian_homo '
                          'could not be observed (structure of the method changed)')
                return
            sv = cap['curve']
            by_n.append(sv)
            for it, d in enumerate(cap['d']):
                n_eval += 1
                want = 1.0
                for i in range(ntd, n + 1):
                    want -= float(d[i])
                dev = abs(want - float(sv[it]))
                meas.see('kern.basket.survival-vs-tail-sum', dev)
                if not (dev <= 1e-13):
                    ctx.violation('CDSBasket.value_1f_gaussian_homo: basket survival probability is not 1 - sum_{i>=n} dbn[i]',
                                  dict(cs, date_index=it, dbn=d.tolist(), survival=float(sv[it]), expected=want),
                                  clause='basket-survival')
                if not (-2e-8 <= float(sv[it]) <= 1.0 + 1e-14):
                    ctx.violation('CDSBasket.value_1f_gaussian_homo: basket survival probability outside [0,1]',
                                  dict(cs, date_index=it, survival=float(sv[it])), clause='unit-interval')
                if it % 4 == 1:
                    ops.append(f'BSV {ntd} {n} {fl(d)}')
                    checks.append(('basket_survival', np.array([float(sv[it])]), dict(cs, date_index=it)))
        for a in range(len(by_n) - 1):
            dec = float(np.max(by_n[a] - by_n[a + 1]))
            meas.see('kern.basket.survival-decrease-in-n', max(dec, 0.0))
            if not (dec <= 1e-14):
                ctx.violation('nth-to-default basket survival curve decreases in n (P(at least n defaults) must be non-increasing '
                              'in n)', {'fn': 'CDSBasket.value_1f_gaussian_homo', 'num_credits': n, 'beta': beta,
                                        'n_to_default': a + 1, 'curve_n': by_n[a].tolist(), 'curve_n_plus_1': by_n[a + 1].tolist()},
                              clause='ntd-decreasing')
    ctx.count('CDSBasket_survival_curve', n_eval, n_eval)
