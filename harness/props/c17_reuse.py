"""C17 — re-use oracle: a product / model object holds the CONTRACT (or the model parameters), never the portfolio.

"The loss distribution used for a basket or tranche is the law of the portfolio being priced" is a statement about the
inputs of THAT call, whatever the object valued before.  For every object of the property that can be valued more than
once — CDSBasket (value_1f_gaussian_homo, value_gaussian_mc, value_student_t_mc), CDSTranche (value_bc with every
FinLossDistributionBuilder), CDSIndexPortfolio (all intrinsic_* / *_spread methods), StudentTCopula.default_times,
LHPlusModel — ONE object is taken through a chain of valuations in which each step differs from the previous one in
exactly ONE input (issuer curves, recovery, libor curve argument, libor curve of the market, beta / correlation, number of
integration points / trials / seed / degrees of freedom, valuation date, n-to-default, the method / builder enum, …) and
finally returns to the first inputs; every answer is compared BIT-FOR-BIT with a freshly constructed identical object
valued once under those inputs (deterministic builders: same inputs, same bits; Monte Carlo: same seed).  Exceptions are
outcomes too (type compared).  Markets (libor curve, issuer curves, beta vectors, correlation matrices) are built anew from
plain numbers for every single call, so the only carriers of history are the object itself — and the inputs, which are
snapshotted around each call (a valuation must not modify the curves / vectors it is given).  On the last portfolio of a
basket chain the re-used object also prices every n: nth-to-default spreads must decrease in n AFTER the history.

Comparison is exact (IEEE bits); there is no tolerance to tune.  Everything is reproducible from the recorded chain
(`replay_case`)."""
import math
import struct

TENORS = ['1Y', '3Y', '5Y', '7Y']
B_HOMO, B_GMC, B_TMC = 'value_1f_gaussian_homo', 'value_gaussian_mc', 'value_student_t_mc'


def _bits(x):
    return struct.unpack('<Q', struct.pack('<d', float(x)))[0]


def canon(x):
    import numpy as np
    if isinstance(x, dict):
        return ('dict',) + tuple((str(k), canon(v)) for k, v in sorted(x.items(), key=lambda kv: str(kv[0])))
    if isinstance(x, (list, tuple)):
        return ('seq',) + tuple(canon(v) for v in x)
    if isinstance(x, np.ndarray):
        return ('arr', x.shape) + tuple(_bits(v) for v in x.ravel())
    if isinstance(x, (float, int, np.floating, np.integer)):
        return ('f', _bits(x))
    return ('repr', repr(x))


def show(c):
    """readable image of a canonical value (floats as floats)"""
    f = lambda b: struct.unpack('<d', struct.pack('<Q', b))[0]          # noqa: E731
    if not isinstance(c, tuple) or not c:
        return c
    if c[0] == 'f':
        return f(c[1])
    if c[0] == 'arr':
        v = [f(b) for b in c[2:]]
        return v if len(v) <= 12 else v[:12] + ['…']
    if c[0] == 'seq':
        return [show(v) for v in c[1:]]
    if c[0] == 'dict':
        return {k: show(v) for k, v in c[1:]}
    return c[-1]


def outcome(f):
    try:
        return canon(f())
    except Exception as e:  # noqa: BLE001
        return ('exc', type(e).__name__)


# ------------------------------------------------------------------------------------------ markets from plain numbers
def build_market(m, memo=None):
    """{'value_dt': [d,m,y], 'libor_rate', 'cds_spreads', 'recovery'} -> (value_dt, libor, issuer curves).  With a `memo`
    (the chain of the re-used object) an input that did not change between two steps is THE SAME Python object as before,
    as in a scenario run of a user (so that a cache keyed on object identity is reached as well); without, all objects are new."""
    from financepy.utils.date import Date
    from financepy.market.curves.discount_curve_flat import DiscountCurveFlat
    from financepy.products.credit.cds import CDS
    from financepy.products.credit.cds_curve import CDSCurve
    memo = {} if memo is None else memo

    def get(key, make):
        if key not in memo:
            memo[key] = make()
        return memo[key]
    dk = tuple(m['value_dt'])
    value_dt = get(('date', dk), lambda: Date(*dk))
    libor = get(('libor', dk, m['libor_rate']), lambda: DiscountCurveFlat(value_dt, m['libor_rate']))
    curves = get(('curves', dk, m['libor_rate'], tuple(m['cds_spreads']), m['recovery']),
                 lambda: [CDSCurve(value_dt, [CDS(value_dt, ten, float(s_)) for ten in TENORS], libor, m['recovery'])
                          for s_ in m['cds_spreads']])
    return value_dt, libor, curves


def memo_get(memo, key, make):
    if memo is None:
        return make()
    if key not in memo:
        memo[key] = make()
    return memo[key]


def market_ok(m):
    try:
        build_market(m)
        return True
    except ZeroDivisionError:            # CDS bootstrap (C09 matter)
        return False


def corr_of(np, n, beta):
    c = np.full((n, n), float(beta) ** 2)
    np.fill_diagonal(c, 1.0)
    return c


def snapshot(np, curves, arrays):
    return canon([[np.array(c._times, float), np.array(c._values, float), float(c.recovery_rate)] for c in curves]
                 + [np.array(a, float) for a in arrays])


def shift_date(dmy, days):
    from financepy.utils.date import Date
    d = Date(*dmy).add_days(days)
    return [d.d, d.m, d.y]


# ------------------------------------------------------------------------------------------ single-input changes
def mutate_market(rng, m, what):
    m = dict(m)
    if what == 'issuer_curves':
        mode = rng.randrange(3)
        if mode == 0:          # the whole portfolio tightens / widens (scenario run)
            f = rng.choice([0.08, 0.1, 0.3, 3.0, 8.0])
            m['cds_spreads'] = [round(min(max(s * f, 0.0005), 0.12), 6) for s in m['cds_spreads']]
        elif mode == 1:        # one name bumped
            s = list(m['cds_spreads'])
            j = rng.randrange(len(s))
            s[j] = round(min(s[j] * rng.choice([0.2, 5.0]) + 0.0001, 0.12), 6)
            m['cds_spreads'] = s
        else:                  # another portfolio of the same size
            m['cds_spreads'] = [round(10 ** rng.uniform(math.log10(0.002), math.log10(0.06)), 6) for _ in m['cds_spreads']]
    elif what == 'recovery':
        m['recovery'] = rng.choice([r for r in (0.2, 0.3, 0.4, 0.5) if r != m['recovery']])
    elif what == 'libor_curve':
        m['libor_rate'] = rng.choice([r for r in (0.01, 0.03, 0.05, 0.07) if r != m['libor_rate']])
    elif what == 'value_dt':
        m['value_dt'] = shift_date(m['value_dt'], rng.choice([1, 7, 30, 91]))
    return m


def mutate(rng, inp, kinds):
    """a copy of `inp` differing in exactly one input; -> (new inputs, name of the changed input)"""
    for _ in range(40):
        what = rng.choice(kinds)
        new = dict(inp)
        if what in ('issuer_curves', 'recovery', 'libor_curve', 'value_dt'):
            new['market'] = mutate_market(rng, inp['market'], what)
            if not market_ok(new['market']):
                continue
        elif what == 'libor_curve_argument':
            new['libor_arg_rate'] = rng.choice([r for r in (0.0, 0.02, 0.04, 0.08) if r != inp.get('libor_arg_rate')])
        elif what == 'beta':
            new['beta'] = rng.choice([b for b in (0.0, 0.2, 0.4, 0.6, 0.8, 0.95) if b != inp['beta']])
        elif what == 'num_points':
            new['num_points'] = rng.choice([k for k in (20, 40, 50, 60, 100) if k != inp['num_points']])
        elif what == 'num_trials':
            new['num_trials'] = rng.choice([k for k in (60, 100, 150) if k != inp['num_trials']])
        elif what == 'seed':
            new['seed'] = inp['seed'] + rng.randint(1, 1000)
        elif what == 'degrees_of_freedom':
            new['degrees_of_freedom'] = rng.choice([k for k in (3, 5, 10, 30, 31, 60) if k != inp['degrees_of_freedom']])
        elif what == 'n_to_default':
            n = len(inp['market']['cds_spreads'])
            if n == 1:
                continue
            new['n_to_default'] = rng.choice([k for k in range(1, n + 1) if k != inp['n_to_default']])
        elif what == 'method':
            alt = [k for k in inp['methods'] if k != inp['method']]
            if not alt:
                continue
            new['method'] = rng.choice(alt)
        elif what == 'corr1':
            new['corr1'] = rng.choice([c for c in (0.0, 0.1, 0.3, 0.6) if c != inp['corr1']])
        elif what == 'corr2':
            new['corr2'] = rng.choice([c for c in (0.0, 0.1, 0.3, 0.6) if c != inp['corr2']])
        elif what == 'upfront':
            new['upfront'] = rng.choice([c for c in (0.0, 0.05, 0.3) if c != inp['upfront']])
        elif what == 'running_cpn':
            new['running_cpn'] = rng.choice([c for c in (0.0, 0.01, 0.05) if c != inp['running_cpn']])
        elif what == 'maturity':
            new['maturity'] = rng.choice([c for c in ('3Y', '5Y', '7Y') if c != inp['maturity']])
        elif what == 'strike':
            new['strike'] = inp['strike'] * rng.choice([0.5, 0.8, 1.25])
        else:
            raise ValueError(what)
        return new, what
    return dict(inp), 'nothing'


# ------------------------------------------------------------------------------------------ evaluators
def basket_obj(ctor):
    from financepy.utils.date import Date
    from financepy.products.credit.cds_basket import CDSBasket
    return CDSBasket(Date(*ctor['step_in_dt']), Date(*ctor['maturity_dt']), ctor['notional'], ctor['running_cpn_bp'],
                     ctor['long_protect'])


def basket_eval(np, obj, inp, mutated, memo=None):
    from financepy.market.curves.discount_curve_flat import DiscountCurveFlat
    value_dt, libor, curves = build_market(inp['market'], memo)
    if inp.get('libor_arg_rate') is not None:
        libor = memo_get(memo, ('libor-arg', tuple(inp['market']['value_dt']), inp['libor_arg_rate']),
                         lambda: DiscountCurveFlat(value_dt, inp['libor_arg_rate']))
    n = len(curves)
    beta = memo_get(memo, ('beta', n, inp['beta']), lambda: np.full(n, float(inp['beta'])))
    corr = memo_get(memo, ('corr', n, inp['beta']), lambda: corr_of(np, n, inp['beta']))
    before = snapshot(np, curves, [beta, corr])
    k = inp['n_to_default']
    if inp['method'] == B_HOMO:
        out = outcome(lambda: obj.value_1f_gaussian_homo(value_dt, k, curves, beta, libor, inp['num_points']))
    elif inp['method'] == B_GMC:
        out = outcome(lambda: obj.value_gaussian_mc(value_dt, k, curves, corr, libor, inp['num_trials'], inp['seed']))
    else:
        out = outcome(lambda: obj.value_student_t_mc(value_dt, k, curves, corr, inp['degrees_of_freedom'], libor,
                                                     inp['num_trials'], inp['seed']))
    if snapshot(np, curves, [beta, corr]) != before:
        mutated.append(inp['method'])
    return out


def tranche_obj(ctor):
    from financepy.utils.date import Date
    from financepy.products.credit.cds_tranche import CDSTranche
    return CDSTranche(Date(*ctor['step_in_dt']), Date(*ctor['maturity_dt']), ctor['k1'], ctor['k2'], ctor['notional'], 0.0,
                      ctor['long_protect'])


def tranche_eval(np, obj, inp, mutated, memo=None):
    from financepy.products.credit.cds_tranche import FinLossDistributionBuilder
    value_dt, _, curves = build_market(inp['market'], memo)
    before = snapshot(np, curves, [])
    out = outcome(lambda: obj.value_bc(value_dt, curves, inp['upfront'], inp['running_cpn'], inp['corr1'], inp['corr2'],
                                       inp['num_points'], FinLossDistributionBuilder[inp['method']]))
    if snapshot(np, curves, []) != before:
        mutated.append(inp['method'])
    return out


INDEX_METHODS = ['intrinsic_rpv01', 'intrinsic_prot_leg_pv', 'intrinsic_spread', 'average_spread', 'total_spread', 'min_spread',
                 'max_spread']


def index_obj(ctor):
    from financepy.products.credit.cds_index_portfolio import CDSIndexPortfolio
    return CDSIndexPortfolio()


def index_eval(np, obj, inp, mutated, memo=None):
    value_dt, _, curves = build_market(inp['market'], memo)
    mat = memo_get(memo, ('mat', tuple(inp['market']['value_dt']), inp['maturity']), lambda: value_dt.add_tenor(inp['maturity']))
    before = snapshot(np, curves, [])
    out = outcome(lambda: getattr(obj, inp['method'])(value_dt, value_dt, mat, curves))
    if snapshot(np, curves, []) != before:
        mutated.append(inp['method'])
    return out


def copula_obj(ctor):
    from financepy.models.student_t_copula import StudentTCopula
    return StudentTCopula()


def copula_eval(np, obj, inp, mutated, memo=None):
    _, _, curves = build_market(inp['market'], memo)
    n = len(curves)
    corr = memo_get(memo, ('corr', n, inp['beta']), lambda: corr_of(np, n, inp['beta']))
    before = snapshot(np, curves, [corr])
    out = outcome(lambda: obj.default_times(curves, corr, inp['degrees_of_freedom'], inp['num_trials'], inp['seed']))
    if snapshot(np, curves, [corr]) != before:
        mutated.append('default_times')
    return out


LHPLUS_METHODS = ['exp_min_lk', 'exp_min_lk2', 'prob_loss_gt_k']


def lhplus_obj(ctor):
    from financepy.models.gauss_copula_lhplus import LHPlusModel
    return LHPlusModel(*ctor['args'])


def lhplus_eval(np, obj, inp, mutated, memo=None):
    return outcome(lambda: getattr(obj, inp['method'])(inp['strike']))


KINDS = {
    'CDSBasket': (basket_obj, basket_eval),
    'CDSTranche': (tranche_obj, tranche_eval),
    'CDSIndexPortfolio': (index_obj, index_eval),
    'StudentTCopula': (copula_obj, copula_eval),
    'LHPlusModel': (lhplus_obj, lhplus_eval),
}


def strip(inp):
    return {k: v for k, v in inp.items() if k != 'methods'}


def run_chain(np, kind, ctor, chain):
    """-> list of (step index, outcome of the re-used object, outcome of a fresh object), mutated-input notes"""
    make, ev = KINDS[kind]
    obj = make(ctor)
    mutated = []
    res = []
    memo = {}                 # unchanged inputs stay the same objects along the chain of the re-used object
    for i, inp in enumerate(chain):
        got = ev(np, obj, inp, mutated, memo)
        want = ev(np, make(ctor), inp, [])            # fresh object, freshly built inputs
        res.append((i, got, want))
    return obj, res, mutated, memo


def report(ctx, kind, ctor, chain, changes, res, mutated):
    for i, got, want in res:
        if got != want:
            ctx.violation(f'{kind}.{chain[i]["method"]}: an object that was valued before returns a different answer than a fresh '
                          f'object under the same inputs (step {i} of the chain, input changed from the previous step: '
                          f'{changes[i]}): the object keeps state of an earlier portfolio / market',
                          {'fn': 'reuse', 'kind': kind, 'ctor': ctor, 'chain': [strip(c) for c in chain[:i + 1]],
                           'changed_inputs': changes[:i + 1], 'step': i, 'reused_object': show(got), 'fresh_object': show(want)},
                          clause='reuse')
            return False
    if mutated:
        ctx.violation(f'{kind}: a valuation modified the issuer curves / vectors it was given ({sorted(set(mutated))})',
                      {'fn': 'reuse', 'kind': kind, 'ctor': ctor, 'chain': [strip(c) for c in chain], 'changed_inputs': changes},
                      clause='reuse')
        return False
    return True


def spreads_of(out, idx):
    if out[0] == 'exc':
        return None
    v = show(out)
    return float(v[idx])


# ------------------------------------------------------------------------------------------ driver
def reuse(ctx, meas, np, quick):
    rng = ctx.rng('reuse')

    def new_market(n):
        for _ in range(20):
            m = {'value_dt': [20, 3, 2024], 'libor_rate': rng.choice([0.02, 0.03, 0.04]),
                 'cds_spreads': [round(10 ** rng.uniform(math.log10(0.002), math.log10(0.06)), 6) for _ in range(n)],
                 'recovery': rng.choice([0.3, 0.4])}
            if market_ok(m):
                return m
        raise RuntimeError('could not build a market')

    def make_chain(first, kinds, length):
        chain, changes = [first], ['-']
        for _ in range(length):
            nxt, what = mutate(rng, chain[-1], kinds)
            chain.append(nxt)
            changes.append(what)
        chain.append(dict(first))                   # and back to the first inputs
        changes.append('back to the first inputs')
        return chain, changes

    n_eval = {k: 0 for k in KINDS}

    # ---- CDSBasket ------------------------------------------------------------------------------------------
    common = ['issuer_curves', 'issuer_curves', 'recovery', 'libor_curve', 'libor_curve_argument', 'beta', 'value_dt', 'n_to_default',
              'n_to_default', 'method']
    extra = {B_HOMO: ['num_points', 'num_points'], B_GMC: ['num_trials', 'seed'], B_TMC: ['num_trials', 'seed', 'degrees_of_freedom']}
    methods = [B_HOMO, B_GMC, B_TMC]
    n_chains = 9 if quick else 60
    for t in range(n_chains):
        n = rng.choice([2, 3, 5])
        m = new_market(n)
        ctor = {'step_in_dt': m['value_dt'], 'maturity_dt': [20, 6, 2024 + rng.choice([3, 5])], 'notional': 1.0e6,
                'running_cpn_bp': rng.choice([0.0, 100.0]), 'long_protect': rng.choice([True, False])}
        method = methods[t % 3]
        first = {'market': m, 'method': method, 'methods': methods if t % 2 else [method], 'n_to_default': rng.randint(1, n),
                 'beta': rng.choice([0.2, 0.4, 0.6]), 'num_points': 50, 'num_trials': 100, 'seed': rng.randint(1, 10 ** 6),
                 'degrees_of_freedom': rng.choice([3, 5, 31]), 'libor_arg_rate': None}
        kinds = common + extra[method] + (sum((extra[k] for k in methods), []) if t % 2 else [])
        if t % 3 == 0 and t % 2 == 0:
            # the scenario run: every n on one portfolio, then every n on another one, same object (only the curves change)
            chain, changes = [], []
            for k in range(1, n + 1):
                chain.append(dict(first, n_to_default=k))
                changes.append('n_to_default')
            second = mutate_market(rng, m, 'issuer_curves')
            if market_ok(second):
                for k in range(1, n + 1):
                    chain.append(dict(first, market=second, n_to_default=k))
                    changes.append('issuer_curves' if k == 1 else 'n_to_default')
        else:
            chain, changes = make_chain(first, kinds, 3 if quick else 5)
        obj, res, mutated, memo = run_chain(np, 'CDSBasket', ctor, chain)
        n_eval['CDSBasket'] += len(chain)
        if not report(ctx, 'CDSBasket', ctor, chain, changes, res, mutated):
            continue
        # nth-to-default spreads on the last portfolio, priced by the object that carries the history
        last = chain[-2] if len(chain) > 1 else chain[-1]
        if last['method'] == B_TMC and quick and n > 3:
            continue
        idx = 3 if last['method'] == B_HOMO else 2
        outs = [basket_eval(np, obj, dict(last, n_to_default=k), [], memo) for k in range(1, n + 1)]
        fresh = [basket_eval(np, basket_obj(ctor), dict(last, n_to_default=k), []) for k in range(1, n + 1)]
        n_eval['CDSBasket'] += n
        cs = {'fn': 'reuse', 'kind': 'CDSBasket', 'ctor': ctor, 'chain': [strip(c) for c in chain] +
              [strip(dict(last, n_to_default=k)) for k in range(1, n + 1)], 'changed_inputs': changes + ['n_to_default'] * n}
        if outs != fresh:
            k = [a != b for a, b in zip(outs, fresh)].index(True)
            ctx.violation(f'CDSBasket.{last["method"]}: after a chain of valuations the {k + 1}-to-default answer differs from a '
                          'fresh object under the same inputs', dict(cs, step=len(chain) + k, reused_object=show(outs[k]),
                                                                     fresh_object=show(fresh[k])), clause='reuse')
            continue
        if any(o[0] == 'exc' for o in outs):
            continue                      # IndexError of the MC legs: C17/basket-mc-index-overrun, reported by products()
        s = [spreads_of(o, idx) for o in outs]
        if not all(s[i] >= s[i + 1] - 1e-12 for i in range(n - 1)) or min(s) < -1e-12:
            ctx.violation(f'nth-to-default spreads of a re-used basket do not decrease in n ({last["method"]})',
                          dict(cs, spreads_by_n_to_default=s), clause='ntd-decreasing')
    ctx.count('reuse:CDSBasket', n_eval['CDSBasket'], n_eval['CDSBasket'],
              sample={'chain': 'A, then B differing in exactly one input, ..., back to A; each vs a fresh object, bit for bit'})

    # ---- CDSTranche -----------------------------------------------------------------------------------------
    models = ['RECURSION', 'ADJUSTED_BINOMIAL', 'GAUSSIAN', 'LHP']
    tkinds = ['issuer_curves', 'issuer_curves', 'recovery', 'libor_curve', 'value_dt', 'corr1', 'corr2', 'num_points', 'upfront',
              'running_cpn', 'method']
    n_chains = 4 if quick else 24
    for t in range(n_chains):
        n = rng.choice([5, 10])
        m = new_market(n)
        k1 = rng.choice([0.0, 0.03, 0.07])
        ctor = {'step_in_dt': m['value_dt'], 'maturity_dt': [20, 6, 2029], 'k1': k1, 'k2': k1 + rng.choice([0.03, 0.08, 0.2]),
                'notional': 1.0, 'long_protect': rng.choice([True, False])}
        first = {'market': m, 'method': models[t % 4], 'methods': models, 'upfront': 0.0, 'running_cpn': 0.01,
                 'corr1': rng.choice([0.1, 0.3]), 'corr2': rng.choice([0.1, 0.3]), 'num_points': rng.choice([20, 40])}
        chain, changes = make_chain(first, tkinds, 3 if quick else 6)
        _, res, mutated, _m = run_chain(np, 'CDSTranche', ctor, chain)
        n_eval['CDSTranche'] += len(chain)
        report(ctx, 'CDSTranche', ctor, chain, changes, res, mutated)
    ctx.count('reuse:CDSTranche', n_eval['CDSTranche'], n_eval['CDSTranche'])

    # ---- CDSIndexPortfolio ------------------------------------------------------------------------------------
    for t in range(3 if quick else 12):
        m = new_market(rng.choice([3, 8]))
        first = {'market': m, 'method': INDEX_METHODS[t % len(INDEX_METHODS)], 'methods': INDEX_METHODS, 'maturity': '5Y'}
        chain, changes = make_chain(first, ['issuer_curves', 'issuer_curves', 'recovery', 'libor_curve', 'value_dt', 'maturity',
                                            'method', 'method'], 5 if quick else 8)
        _, res, mutated, _m = run_chain(np, 'CDSIndexPortfolio', {}, chain)
        n_eval['CDSIndexPortfolio'] += len(chain)
        report(ctx, 'CDSIndexPortfolio', {}, chain, changes, res, mutated)
    ctx.count('reuse:CDSIndexPortfolio', n_eval['CDSIndexPortfolio'], n_eval['CDSIndexPortfolio'])

    # ---- model objects ---------------------------------------------------------------------------------------
    for t in range(2 if quick else 10):
        m = new_market(rng.choice([1, 3]))
        first = {'market': m, 'method': 'default_times', 'methods': ['default_times'], 'beta': rng.choice([0.0, 0.5]),
                 'degrees_of_freedom': rng.choice([3, 31]), 'num_trials': 60, 'seed': rng.randint(1, 10 ** 6)}
        chain, changes = make_chain(first, ['issuer_curves', 'recovery', 'beta', 'degrees_of_freedom', 'num_trials', 'seed'], 3)
        _, res, mutated, _m = run_chain(np, 'StudentTCopula', {}, chain)
        n_eval['StudentTCopula'] += len(chain)
        report(ctx, 'StudentTCopula', {}, chain, changes, res, mutated)
    ctx.count('reuse:StudentTCopula', n_eval['StudentTCopula'], n_eval['StudentTCopula'])
    for t in range(2 if quick else 10):
        p, r, b = rng.uniform(0.01, 0.2), rng.choice([0.0, 0.4]), rng.choice([0.3, 0.5])
        h0 = rng.choice([0.0, 0.05])
        ctor = {'args': [p, r, 1.0 - h0, b, rng.uniform(0.01, 0.2), 0.4, h0, rng.choice([0.3, 0.5])]}
        lo, hi = 0.6 * h0, (1 - r) * (1.0 - h0)
        first = {'method': LHPLUS_METHODS[t % 3], 'methods': LHPLUS_METHODS, 'strike': lo + (hi - lo) * rng.uniform(0.3, 0.7)}
        chain, changes = make_chain(first, ['strike', 'strike', 'method'], 3)
        _, res, mutated, _m = run_chain(np, 'LHPlusModel', ctor, chain)
        n_eval['LHPlusModel'] += len(chain)
        report(ctx, 'LHPlusModel', ctor, chain, changes, res, mutated)
    ctx.count('reuse:LHPlusModel', n_eval['LHPlusModel'], n_eval['LHPlusModel'])


def replay_case(np, cs):
    """re-run a recorded chain; True = the re-used object still differs from a fresh one"""
    kind, ctor, chain = cs['kind'], cs['ctor'], cs['chain']
    _, res, mutated, _m = run_chain(np, kind, ctor, chain)
    bad = False
    for i, got, want in res:
        flag = '' if got == want else '   <-- DIFFERENT'
        print(f'replay reuse {kind} step {i} ({cs["changed_inputs"][i] if i < len(cs["changed_inputs"]) else "?"}, '
              f'{chain[i].get("method")}): re-used {show(got)} fresh {show(want)}{flag}')
        bad = bad or got != want
    if mutated:
        print('replay reuse: inputs modified by', sorted(set(mutated)))
    if 'spreads_by_n_to_default' in cs:
        n = len(cs['spreads_by_n_to_default'])
        idx = 3 if chain[-1]['method'] == B_HOMO else 2
        s = [spreads_of(g, idx) for _, g, _ in res[-n:]]
        print('replay reuse: spreads by n on the re-used object:', s)
        bad = bad or None in s or not all(s[i] >= s[i + 1] - 1e-12 for i in range(n - 1))
    return bad or bool(mutated)
