"""C17 — default-time samplers (anchors student_t_copula.py, gauss_copula.py: default_times_gc, helpers.py:
uniform_to_default_time).

Property reading: "the mean equals the sum of default probability x loss regardless of correlation" for the Student-t and
Gaussian copulas means, for simulated default times, that EVERY name's simulated default time has the marginal law of
its own curve, P(tau <= T) = 1 - Q(T) for every horizon T, whatever the correlation, the number of names and the degrees
of freedom (marginals of a copula do not depend on the copula).

Three layers, all run on every check:

1. `uniform_to_default_time`: round trip Q(tau(u)) = u (own log-linear curve through the pillars; flat average hazard
   beyond the last pillar, which is what the index-0 wrap-around of the code amounts to), monotone, end values; entry-wise
   correspondence with the Lean model `uniformToDefaultTimeF` (driver op UDT; theorems interpTime_* in Props/C17c).
2. CDF tie (deterministic, exact): the latent variables g are reproduced from the seed (same NumPy draws as the sampler),
   the uniform the code used is read back from the returned default time (u = Q(tau)), and compared with the distribution
   function of g's own law taken from SciPy (Student-t with the given degrees of freedom / normal).  By theorem
   `inversion_marginal_correct_iff` every disagreement IS a horizon T = tau with a wrong marginal default probability:
   P(tau <= T) = 1 - F(g) instead of 1 - Q(T) = 1 - u.  The replay is accepted only if u is a monotone function of the
   replayed g (otherwise the draw order of the sampler changed: correspondence broken, and the statistical search decides).
3. Marginal oracle (statistical, exact law): for every name and horizon, the number of simulated default times <= T is
   Binomial(N, 2p) (antithetic pairs are mutually exclusive for p <= 1/2; N + Binomial(N, 2p-1) above), p = 1 - Q(T) from
   the issuer curve; two-sided exact binomial tail < ALPHA is a failing input.  Fixed trial counts; degrees of freedom from
   DOFS (both sides of the 30 "nearly normal" folklore threshold) x correlations x portfolio sizes.
"""
import math

DOFS = [3, 5, 10, 30, 31, 40, 60, 100]
RHOS = [0.0, 0.3, 0.6, 0.9]
SIZES = [1, 2, 3, 5]
TENORS = ['1Y', '3Y', '5Y', '7Y', '10Y']
PD_LEVELS = [0.002, 0.005, 0.01, 0.02, 0.05, 0.1, 0.25]
T_FRACTIONS = [0.37, 0.81]
ALPHA = 1e-8          # per comparison, two-sided exact binomial (about 5.7 standard errors); ~300 comparisons per quick run
TOL_CDF = 1e-6        # |u_code - F(g)|: Hull's N is good to 7.5e-8, the read-back of u to 1e-13 (measured 7.5e-8 / 4e-16)
TOL_ROUNDTRIP = (1e-9, 1e-12)   # rel (to u*(1+|log u|)), abs on u (measured 8e-13)
T_NAME = 'StudentTCopula.default_times'
G_NAME = 'default_times_gc'


# ------------------------------------------------------------------------------------------ curves
def build_curves(spreads, recovery):
    from financepy.utils.date import Date
    from financepy.market.curves.discount_curve_flat import DiscountCurveFlat
    from financepy.products.credit.cds import CDS
    from financepy.products.credit.cds_curve import CDSCurve
    value_dt = Date(20, 3, 2024)
    libor = DiscountCurveFlat(value_dt, 0.03)
    return [CDSCurve(value_dt, [CDS(value_dt, ten, float(s)) for ten in TENORS], libor, recovery) for s in spreads]


def sample_curves(rng, n):
    """n issuer curves (CDS spreads 15bp..600bp, log-uniform); the CDS bootstrap can raise ZeroDivisionError for some
    spreads (a C09 matter): resample"""
    recovery = rng.choice([0.2, 0.4])
    for _ in range(8):
        spreads = [round(10 ** rng.uniform(math.log10(0.0015), math.log10(0.06)), 6) for _ in range(n)]
        try:
            return spreads, recovery, build_curves(spreads, recovery)
        except ZeroDivisionError:
            continue
    raise RuntimeError('could not build issuer curves')


def own_surv(np, times, values, tau):
    """log-linear survival curve through the pillars; beyond the last pillar the flat average hazard
    -log(v_last)/t_last (what the index-0 wrap-around of uniform_to_default_time extrapolates with)"""
    tau = np.asarray(tau, dtype=float)
    lv = np.log(values)
    with np.errstate(over='ignore', invalid='ignore'):
        inside = np.exp(np.interp(np.minimum(tau, times[-1]), times, lv))
        outside = np.exp(tau / times[-1] * lv[-1])
        return np.where(tau <= times[-1], inside, outside)


def own_time_of_pd(np, times, values, pd):
    """T with 1 - Q(T) = pd on the log-linear curve, or None beyond the last pillar"""
    q = 1.0 - pd
    if not (values[-1] < q < 1.0):
        return None
    lv = np.log(values)
    return float(np.interp(-math.log(q), -lv, times))


# ------------------------------------------------------------------------------------------ samplers
def corr_matrix(np, rho, n):
    m = np.full((n, n), float(rho))
    np.fill_diagonal(m, 1.0)
    return m


def run_sampler(np, kind, curves, rho, dof, trials, seed):
    corr = corr_matrix(np, rho, len(curves))
    if kind == 't':
        from financepy.models.student_t_copula import StudentTCopula
        return np.asarray(StudentTCopula().default_times(curves, corr, dof, trials, seed))
    from financepy.models.gauss_copula import default_times_gc
    return np.asarray(default_times_gc(curves, corr, trials, seed))


def replay_latents(np, kind, n, rho, dof, trials, seed):
    """the latent variables of the sampler, drawn again from the same seed in the same order: correlated normals
    y = chol(corr) x and, for the Student-t copula, one chi-square per trial: g = y / sqrt(chi2/dof) ~ t_dof"""
    st = np.random.get_state()
    try:
        np.random.seed(seed)
        x = np.random.normal(0.0, 1.0, size=(n, trials))
        y = np.dot(np.linalg.cholesky(corr_matrix(np, rho, n)), x)
        if kind != 't':
            return y
        g = np.empty((n, trials))
        for k in range(trials):
            chi2 = np.random.chisquare(dof)
            g[:, k] = y[:, k] / math.sqrt(chi2 / dof)
        return g
    finally:
        np.random.set_state(st)


def make_case(kind, spreads, recovery, rho, dof, trials, seed):
    cs = {'fn': T_NAME if kind == 't' else G_NAME, 'value_dt': '20-MAR-2024', 'libor_flat_rate': 0.03,
          'cds_tenors': TENORS, 'cds_spreads': list(spreads), 'recovery': recovery, 'flat_correlation': rho,
          'num_trials': trials, 'seed': seed}
    if kind == 't':
        cs['degrees_of_freedom'] = dof
    return cs


def case_kind(cs):
    return 't' if cs['fn'] == T_NAME else 'g'


# ------------------------------------------------------------------------------------------ layer 2: CDF tie
def cdf_tie(np, cs, curves=None, taus=None):
    """-> dict(status = 'ok' | 'mismatch' | 'out-of-sync', worst = max |u_code - F(g)|, witness = {...})"""
    from scipy.stats import t as student, norm
    kind = case_kind(cs)
    curves = curves or build_curves(cs['cds_spreads'], cs['recovery'])
    n, trials, dof = len(curves), cs['num_trials'], cs.get('degrees_of_freedom')
    if taus is None:
        taus = run_sampler(np, kind, curves, cs['flat_correlation'], dof, trials, cs['seed'])
    g = replay_latents(np, kind, n, cs['flat_correlation'], dof, trials, cs['seed'])
    out = {'status': 'ok', 'worst': 0.0, 'antithetic': 0.0}
    for i, c in enumerate(curves):
        times, values = np.asarray(c.times(), float), np.asarray(c.values(), float)
        ua = own_surv(np, times, values, taus[i, :trials])
        ub = own_surv(np, times, values, taus[i, trials:])
        # the half whose uniform increases with g carries u = F(g) (as coded: the first half of the Student-t sampler, the
        # second half of the Gaussian one, u1 = 1 - N(g)); which half it is does not matter to the property
        order = np.argsort(g[i])
        if not np.any(np.diff(ua[order]) < -1e-12):
            u_inc, first = ua, True
        elif not np.any(np.diff(ub[order]) < -1e-12):
            u_inc, first = ub, False
        else:
            out.update(status='out-of-sync', witness={'name': i})
            return out
        out['antithetic'] = max(out['antithetic'], float(np.max(np.abs(ua + ub - 1.0))))
        F = student.cdf(g[i], dof) if kind == 't' else norm.cdf(g[i])
        d = np.abs(u_inc - F)
        k = int(np.argmax(d))
        # witness: preferably a horizon inside the curve's pillars, with the largest relative error of the default probability
        tau_inc = taus[i, :trials] if first else taus[i, trials:]
        inside = (tau_inc <= times[-1]) & (d > TOL_CDF)
        if inside.any():
            k = int(np.argmax(np.where(inside, d / np.maximum(1.0 - u_inc, 1e-300), -1.0)))
        if float(np.max(d)) > out['worst']:
            out['worst'] = float(np.max(d))
            tau = float(tau_inc[k])
            out['witness'] = {
                'name': i, 'trial': k, 'latent_g': float(g[i, k]), 'horizon_T_=_returned_default_time': tau,
                'uniform_the_code_used_(=Q(T))': float(u_inc[k]),
                'distribution_function_of_g_(SciPy)': float(F[k]),
                'marginal_default_probability_by_T_implied_(theorem marginal_of_inversion)': float(1.0 - F[k]),
                'marginal_default_probability_by_T_required_1-Q(T)': float(1.0 - u_inc[k]),
                'relative_error_of_the_default_probability': float((u_inc[k] - F[k]) / max(1.0 - u_inc[k], 1e-300)),
            }
    if out['worst'] > TOL_CDF:
        out['status'] = 'mismatch'
    return out


# ------------------------------------------------------------------------------------------ layer 3: marginals
def horizons(np, curve):
    times, values = np.asarray(curve.times(), float), np.asarray(curve.values(), float)
    ts = [float(x) for x in times[1:]]
    for pd in PD_LEVELS:
        t = own_time_of_pd(np, times, values, pd)
        if t is not None:
            ts.append(t)
    ts += [f * float(times[-1]) for f in T_FRACTIONS]
    return sorted(set(ts))


def marginals(np, cs, curves=None, taus=None, names=None):
    """-> (failures, worst |z|, comparisons).  Exact law of the count under the property."""
    from scipy.stats import binom
    kind = case_kind(cs)
    curves = curves or build_curves(cs['cds_spreads'], cs['recovery'])
    trials = cs['num_trials']
    if taus is None:
        taus = run_sampler(np, kind, curves, cs['flat_correlation'], cs.get('degrees_of_freedom'), trials, cs['seed'])
    fails, worst, ncmp = [], 0.0, 0
    for i, c in enumerate(curves):
        if names is not None and i not in names:
            continue
        for T in horizons(np, c):
            p = 1.0 - float(c.survival_prob(float(T)))
            if not (1e-6 < p < 1 - 1e-6):
                continue
            K = int(np.sum(taus[i] <= T))
            m, kb = (2 * p, K) if p <= 0.5 else (2 * p - 1, K - trials)
            if not (0 <= kb <= trials):
                pv = 0.0
            else:
                pv = min(1.0, 2.0 * min(float(binom.cdf(kb, trials, m)), float(binom.sf(kb - 1, trials, m))))
            se = math.sqrt(max(m * (1 - m), 1e-300) / (4.0 * trials))
            z = (K / (2.0 * trials) - p) / se
            worst = max(worst, abs(z))
            ncmp += 1
            if pv < ALPHA:
                fails.append({'name': i, 'cds_spread': cs['cds_spreads'][i], 'horizon_T': T,
                              'simulated_fraction_defaulted_by_T': K / (2.0 * trials), 'exact_1-Q(T)': p,
                              'ratio': K / (2.0 * trials) / p, 'standard_errors': z, 'binomial_two_sided_p_value': pv})
    return fails, worst, ncmp


def try_sampler(ctx, np, cs, curves):
    try:
        taus = run_sampler(np, case_kind(cs), curves, cs['flat_correlation'], cs.get('degrees_of_freedom'), cs['num_trials'],
                           cs['seed'])
    except Exception as e:  # noqa: BLE001
        ctx.violation(f'{cs["fn"]} raised {type(e).__name__}: {e}', cs, clause='callable')
        return None
    if taus.shape != (len(curves), 2 * cs['num_trials']) or not np.all(np.isfinite(taus)) or np.any(taus < 0.0):
        ctx.violation(f'{cs["fn"]}: default times are not a finite non-negative (names x 2*trials) array',
                      dict(cs, shape=list(taus.shape)), clause='callable')
        return None
    return taus


# ------------------------------------------------------------------------------------------ driver of the three layers
def samplers(ctx, meas, np, quick, ops, checks, fl, f2b):
    from financepy.utils.helpers import uniform_to_default_time

    # ---- layer 1: uniform_to_default_time ----------------------------------------------------------------
    rng = ctx.rng('udt')
    n_curves = 14 if quick else 120
    n_eval = 0
    for c_ in range(n_curves):
        if c_ % 3 == 0:
            _, _, cv = sample_curves(rng, 1)
            t, v = np.asarray(cv[0].times(), float).copy(), np.asarray(cv[0].values(), float).copy()
        else:
            npts = rng.choice([2, 3, 5, 8, 12])
            dts = np.array([rng.uniform(0.25, 3.0) for _ in range(npts - 1)])
            hz = np.array([10 ** rng.uniform(-4, -0.3) for _ in range(npts - 1)])
            t = np.concatenate([[0.0], np.cumsum(dts)])
            v = np.concatenate([[1.0], np.exp(-np.cumsum(hz * dts))])
        us = [0.0, 1.0] + [float(x) for x in v[1:]]
        us += [float(np.nextafter(x, 0.0)) for x in v[1:]] + [float(np.nextafter(x, 2.0)) for x in v[1:]]
        us += [rng.uniform(0.0, 1.0) for _ in range(8)] + [float(v[-1]) * rng.uniform(0.01, 0.99) for _ in range(3)]
        us += [float(v[-1]) + (1.0 - float(v[-1])) * rng.uniform(0.0, 1.0) for _ in range(6)]
        us += [1.0 - 10 ** rng.uniform(-12, -3), 10 ** rng.uniform(-12, -2), float(np.nextafter(1.0, 0.0)), 1e-300]
        us = sorted(set(us))
        cs = {'fn': 'uniform_to_default_time', 't': t.tolist(), 'v': v.tolist()}
        try:
            taus = np.array([float(uniform_to_default_time(u, t, v)) for u in us])
        except Exception as e:  # noqa: BLE001
            ctx.violation(f'uniform_to_default_time raised {type(e).__name__}: {e}', dict(cs, uniforms=us), clause='callable')
            continue
        n_eval += len(us)
        for u, tau in zip(us, taus):
            ops.append(f'UDT {len(t)} {f2b(u)} {fl(t)} {fl(v)}')
            checks.append(('uniform_to_default_time', np.array([tau]), dict(cs, u=u)))
        if taus[0] != 99999.0 or taus[-1] != 0.0:
            ctx.violation('uniform_to_default_time: u = 0 must map to the never-defaults sentinel 99999 and u = 1 to time 0',
                          dict(cs, at_u0=float(taus[0]), at_u1=float(taus[-1])), clause='default-time-inversion')
        inner = [(u, tau) for u, tau in zip(us, taus) if 0.0 < u < 1.0]
        ui, ti = np.array([a for a, _ in inner]), np.array([b for _, b in inner])
        back = own_surv(np, t, v, ti)
        err = np.abs(back - ui)
        # the reference exp(tau * log(v)/t) amplifies the rounding of log(v) by |log u| (u = 1e-300 on a curve with a 1e-4
        # hazard: 5e-10 relative): the tolerance is relative to u * (1 + |log u|)
        scale = ui * (1.0 + np.abs(np.log(ui)))
        meas.see('udt.roundtrip-rel/(1+|log u|)', float(np.max(err / scale)))
        bad = ~(np.isfinite(ti)) | (ti < 0.0) | (err > TOL_ROUNDTRIP[0] * scale + TOL_ROUNDTRIP[1])
        if bad.any():
            k = int(np.argmax(bad))
            ctx.violation('uniform_to_default_time: the survival curve at the returned default time is not the uniform '
                          '(tau is not Q^-1(u): simulated marginals cannot be 1-Q(T))',
                          dict(cs, u=float(ui[k]), returned_tau=float(ti[k]), survival_at_tau=float(back[k])),
                          clause='default-time-inversion')
        # non-increasing in u, judged in survival space.  tau = (t1 log(q2/u) + t2 log(u/q1)) / log(q2/q1) is ill-conditioned
        # across a nearly flat interval: the quotient q2/q1 and its log carry an absolute error ~u53, i.e. a relative error
        # 2 u53 / L in the denominator L = |log(q2/q1)|, hence |d tau| <= 4 u53 t_max / L_min; read back through the steepest
        # neighbouring interval (hazard h_max) that is a relative error h_max |d tau| of the survival probability.  With a safety
        # factor 4: cond = 16 u53 t_max h_max / L_min (seed 29: pillar between hazards 0.39 and 2.1e-4: measured 3.6e-12,
        # bound 6.3e-11).  The round-trip tolerance 1e-9 stays far above cond for every generated curve (<= 3e-10).
        seg_l = np.abs(np.diff(np.log(v)))
        cond = 16.0 * 2.0 ** -53 * float(t[-1]) * float(np.max(seg_l / np.diff(t))) / float(np.min(seg_l))
        meas.see('udt.monotone-drop-rel / cond', float(np.max(np.where(np.diff(ti) > 0.0, (back[:-1] - back[1:]) / (ui[1:] * cond), 0.0))))
        wrong = (np.diff(ti) > 0.0) & (back[:-1] - back[1:] > 1e-12 * scale[1:] + cond * ui[1:])
        if wrong.any():
            k = int(np.argmax(wrong))
            ctx.violation('uniform_to_default_time is not non-increasing in u',
                          dict(cs, u_lo=float(ui[k]), tau_lo=float(ti[k]), u_hi=float(ui[k + 1]), tau_hi=float(ti[k + 1])),
                          clause='default-time-inversion')
    ctx.count('uniform_to_default_time', n_eval, n_eval, sample={'u': 0.97, 't': [0, 1.25, 3.25], 'v': [1, 0.99, 0.96]})

    # ---- layer 2: CDF tie ---------------------------------------------------------------------------------
    rng = ctx.rng('cdf-tie')
    tie_trials = 150 if quick else 1000
    escalate = {}          # kind -> (spreads, recovery, dof) of the first broken tie
    configs = [('t', d) for d in DOFS]
    configs += [('t', rng.choice([1, 2, 4, 7, 15, 20, 25, 29, 32, 35, 50, 75, 150, 300, 1000])) for _ in range(3 if quick else 12)]
    configs += [('t', round(rng.uniform(1.5, 120.0), 3)) for _ in range(2 if quick else 8)]      # non-integer degrees of freedom
    configs += [('g', None)] * (6 if quick else 24)
    n_tie = {'t': 0, 'g': 0}
    for kind, dof in configs:
        n = rng.choice(SIZES)
        rho = rng.choice(RHOS)
        spreads, recovery, curves = sample_curves(rng, n)
        cs = make_case(kind, spreads, recovery, rho, dof, tie_trials, rng.randint(1, 10 ** 6))
        nm = cs['fn']
        taus = try_sampler(ctx, np, cs, curves)
        if taus is None:
            continue
        r = cdf_tie(np, cs, curves, taus)
        n_tie[kind] += 1
        if r['status'] == 'out-of-sync':
            ctx.broke(f'correspondence {nm}: the returned default times are not a monotone function of the latent variables '
                      f'replayed from the seed (draw order / Cholesky step of the sampler changed) on ' + str(cs)[:400])
            escalate.setdefault(kind, (spreads, recovery, dof))
            continue
        meas.see(f'sampler.{kind}.cdf-tie', r['worst'])
        meas.see(f'sampler.{kind}.antithetic', r['antithetic'])
        if r['antithetic'] > 1e-9:
            ctx.violation(f'{nm}: the two halves of the simulation are not antithetic (u2 = 1 - u1)',
                          dict(cs, max_abs_u1_plus_u2_minus_1=r['antithetic']), clause='marginal-default-probability')
        if r['status'] == 'mismatch':
            law = f'Student-t({dof})' if kind == 't' else 'standard normal'
            ctx.violation(f'{nm}: the uniform fed to the curve inversion is not the distribution function of the latent '
                          f'variable\'s own law ({law}): the simulated marginal default probability by the horizon T below is '
                          f'1 - F(g), not 1 - Q(T), whatever the correlation (theorem inversion_marginal_correct_iff)',
                          dict(cs, max_abs_cdf_difference=r['worst'], **r['witness']), clause='marginal-default-probability')
            escalate.setdefault(kind, (spreads, recovery, dof))
    ctx.count('StudentTCopula.default_times:cdf-vs-scipy-t', n_tie['t'] * tie_trials, n_tie['t'] * tie_trials,
              sample={'degrees_of_freedom': DOFS, 'correlations': RHOS, 'portfolio_sizes': SIZES, 'trials': tie_trials})
    ctx.count('default_times_gc:cdf-vs-scipy-normal', n_tie['g'] * tie_trials, n_tie['g'] * tie_trials)

    # ---- layer 3: marginal default probabilities ---------------------------------------------------------------
    rng = ctx.rng('marginals')
    plan = []
    if quick:
        plan += [('t', rng.choice([3, 5, 10, 30]), 1, 20000), ('t', rng.choice([31, 40]), 1, 20000),
                 ('t', rng.choice([60, 100]), 2, 5000), ('t', rng.choice(DOFS), 3, 3000)]
        plan += [('g', None, n, 40000) for n in SIZES]
    else:
        for d in DOFS:
            plan += [('t', d, 1, 40000), ('t', d, rng.choice([2, 3, 5]), 40000)]
        plan += [('g', None, n, 200000) for n in SIZES] * 3
    n_cmp = 0
    for kind, dof, n, trials in plan:
        rho = rng.choice(RHOS) if n > 1 else 0.0
        spreads, recovery, curves = sample_curves(rng, n)
        cs = make_case(kind, spreads, recovery, rho, dof, trials, rng.randint(1, 10 ** 6))
        taus = try_sampler(ctx, np, cs, curves)
        if taus is None:
            continue
        fails, worst, k = marginals(np, cs, curves, taus)
        n_cmp += k
        meas.see(f'sampler.{kind}.marginal-worst-z', worst)
        if fails:
            f0 = max(fails, key=lambda f: abs(f['standard_errors']))
            ctx.violation(f'{cs["fn"]}: the fraction of simulated default times <= T differs from the name\'s default '
                          f'probability 1-Q(T) ({len(fails)} name/horizon pairs beyond the exact binomial {ALPHA:g} tail)',
                          dict(cs, **f0, failing_pairs=len(fails)), clause='marginal-default-probability')
    ctx.count('default_time_marginals', n_cmp, n_cmp,
              sample={'fn': T_NAME, 'degrees_of_freedom': 31, 'num_trials': 20000, 'horizons': 'pillars + PD levels ' + str(PD_LEVELS)})

    # ---- search for a statistical failing input where a tie broke ------------------------------------------------
    for kind, (spreads, recovery, dof) in escalate.items():
        cs = make_case(kind, spreads[:1], recovery, 0.0, dof, 40000, 20240320)
        curves = build_curves(cs['cds_spreads'], cs['recovery'])
        taus = try_sampler(ctx, np, cs, curves)
        if taus is None:
            continue
        fails, worst, _ = marginals(np, cs, curves, taus)
        if fails:
            f0 = max(fails, key=lambda f: abs(f['standard_errors']))
            ctx.violation(f'{cs["fn"]}: the fraction of simulated default times <= T differs from the name\'s default '
                          f'probability 1-Q(T) ({len(fails)} horizons beyond the exact binomial {ALPHA:g} tail)',
                          dict(cs, **f0, failing_pairs=len(fails)), clause='marginal-default-probability')
        else:
            ctx.notes.append(f'{cs["fn"]}: tie broken; 40000-trial marginal search found worst |z| = {worst:.2f} (no statistical failing input)')


def replay_case(np, cs):
    """re-evaluate a recorded sampler case; True = still failing"""
    bad = False
    r = cdf_tie(np, cs)
    print(f"replay {cs['fn']}: cdf tie status={r['status']} max|u_code - F(g)|={r['worst']:.3e} (tolerance {TOL_CDF:g})")
    if r['status'] != 'ok':
        print('  witness:', r.get('witness'))
        bad = True
    fails, worst, k = marginals(np, cs)
    print(f"replay {cs['fn']}: marginal oracle: {len(fails)} of {k} name/horizon pairs beyond the binomial {ALPHA:g} tail; worst |z|={worst:.2f}")
    for f in fails[:5]:
        print('  ', f)
    return bad or bool(fails)
