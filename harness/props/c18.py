"""C18 — results depend only on the arguments: no hidden state or history dependence.

Model: effect summaries GENERATED from the source (tools/effects → lean/FinVerif/Gen/Effects.lean) and the
abstract object-store semantics of lean/FinVerif/Model/C18.lean.  Theorems: FinVerif/Props/C18a.lean
(`discipline_sound`, generic) and FinVerif/Props/C18b.lean (`discipline_holds_except` decided on the generated
summaries + one state machine / counterexample per listed exception).

Correspondence / failing-input search (this file): random call HISTORIES over a pool of shared objects, each
call's result compared bit-for-bit with the same call on freshly constructed objects (harness/c18_hist.py,
separate processes); observed attribute changes compared with the generated write sets; vector calls against
element-wise scalar calls; input lists before/after."""
import datetime
import inspect
import json
import os
import subprocess
import sys
from concurrent.futures import ThreadPoolExecutor

sys.path.insert(0, os.path.dirname(os.path.dirname(os.path.abspath(__file__))))
import common as C  # noqa: E402

GEN = ['Effects', 'VecShape', 'ArgWrites']
PROPS = ['FinVerif.Props.C18a', 'FinVerif.Props.C18b', 'FinVerif.Props.C18c', 'FinVerif.Props.C18d', 'FinVerif.Props.C18e',
         'FinVerif.Props.C18f', 'FinVerif.Props.C18g']
DRIVERS = ['FinVerif.Driver.C18']
HIST = os.path.join(os.path.dirname(os.path.dirname(os.path.abspath(__file__))), 'c18_hist.py')
NPROC = int(os.environ.get('VERIF_JOBS', '0')) or min(12, os.cpu_count() or 4)

RULE = ('call histories: quick 2 000 / thorough 100 000 random sequences of 1..12 API calls over a pool of ~45 shared '
        'objects; 30 % of the histories are LADDERS - consecutive calls on one object that differ in exactly one input (spot / '
        'one curve / model / date / method) with all the others equal; (flat and bootstrapped curves, instrument lists, BlackScholes DEFAULT/ANALYTICAL/CRR/BAW, Black, HW/BK/BDT '
        'trees, bonds, callable bond, swap legs, swap, swaption, cap/floor, equity/FX vanillas, American option, calendars, '
        'schedule) and process settings (date format changes, date-table extension by constructing years up to 2300); every '
        "call's result compared bit-for-bit with the same call on freshly constructed objects in another process, a sample "
        'in truly fresh interpreters; attribute changes observed on every object involved compared with the generated '
        'write sets; a worker that dies or hangs on a history whose calls all survive on fresh objects is a violation '
        '(history-crash); vectorised calls vs element-wise scalar calls (bs_* kernels, curve queries and Date add_months / '
        'add_years / add_tenor on lists whose elements interact); instrument lists before/after curve construction. '
        'Non-trivial = calls preceded by at least one call that touched one of the same objects or a process setting.')

FORMATS = ['UK_LONGEST', 'UK_LONG', 'UK_MEDIUM', 'UK_SHORT', 'US_LONGEST', 'US_LONG', 'US_MEDIUM', 'US_SHORT', 'BLOOMBERG',
           'DATETIME']


# --------------------------------------------------------------------------------------------- spec helpers
def D(t):
    return ['D', t[0], t[1], t[2]]


def E(c, m):
    return ['E', c, m]


def R(n):
    return ['ref', n]


def new(c, *a, **k):
    return ['new', c, list(a), k]


def dplus(t, days):
    x = datetime.date(t[2], t[1], t[0]) + datetime.timedelta(days=days)
    return (x.day, x.month, x.year)


def mplus(t, months):
    y = t[2] + (t[1] - 1 + months) // 12
    m = (t[1] - 1 + months) % 12 + 1
    last = (datetime.date(y + (m == 12), (m % 12) + 1, 1) - datetime.timedelta(days=1)).day
    return (min(t[0], last), m, y)


def weekday(t):
    return datetime.date(t[2], t[1], t[0]).weekday()


def easter_monday(y):
    """(d, m, y) of Easter Monday (anonymous Gregorian computus)"""
    a, b, c = y % 19, y // 100, y % 100
    d, e = b // 4, b % 4
    g = (8 * b + 13) // 25
    h = (19 * a + b - d - g + 15) % 30
    i, k = c // 4, c % 4
    l_ = (32 + 2 * e + 2 * i - h - k) % 7
    m = (a + 11 * h + 19 * l_) // 433
    mo = (h + l_ - 7 * m + 90) // 25
    da = (h + l_ - 7 * m + 33 * mo + 19) % 32
    return dplus((da, mo, y), 1)


def holiday_dates(y):
    """dates on and around the movable and fixed holidays of year y"""
    em = easter_monday(y)
    out = [em, dplus(em, -3), dplus(em, 38), dplus(em, 49), dplus(em, 1), (1, 5, y), (25, 12, y), (26, 12, y), (1, 1, y),
           (4, 7, y), (31, 12, y), (15, 8, y), (1, 11, y), (2, 1, y)]
    return out


#: themed histories hammer one family of objects: ranges of the op selector `k` in gen_op
THEMES = {'cal': (22, 30), 'date': (10, 21), 'bond': (69, 79), 'rates': (84, 99), 'equity': (35, 54), 'curve': (58, 68),
          'tree': (80, 83), 'options': (91, 99)}


# --------------------------------------------------------------------------------------------- pool
def make_pool(rng):
    """pool of shared objects (specs) + the python-side facts the op generator and the classifiers need"""
    vd = (rng.choice([1, 5, 14, 15, 20, 28]), rng.randint(1, 12), rng.randint(2016, 2030))
    while weekday(vd) >= 5:
        vd = dplus(vd, 1)
    vd2 = dplus(vd, rng.choice([1, 7, 31, 92, 200]))
    lag = rng.choice([0, 0, 2, 3])
    st = dplus(vd, lag)
    while weekday(st) >= 5:
        st = dplus(st, 1)
    rA, rB = round(rng.uniform(0.005, 0.06), 4), round(rng.uniform(-0.005, 0.04), 4)
    vol = round(rng.uniform(0.1, 0.4), 3)
    issue = mplus(vd, -rng.choice([6, 18, 30, 41]))
    mat = mplus(issue, 12 * rng.choice([3, 5, 10]))
    cpn = round(rng.uniform(0.01, 0.07), 4)
    bfreq = rng.choice(['ANNUAL', 'SEMI_ANNUAL', 'QUARTERLY'])
    bdc = rng.choice(['ACT_ACT_ICMA', 'THIRTY_E_360', 'ACT_365F'])
    exp = mplus(vd, rng.choice([3, 6, 12, 24]))
    K = float(rng.choice([80, 95, 100, 105, 130]))
    # schedule whose termination date falls on a weekend in ~1/3 of the pools (regeneration then re-anchors)
    seff = mplus(vd, -rng.choice([0, 3, 7]))
    sterm = mplus(seff, rng.choice([6, 12, 24]))
    if rng.random() < 0.4:
        while weekday(sterm) < 5:
            sterm = dplus(sterm, 1)
    scal = rng.choice(['WEEKEND', 'UNITED_STATES', 'TARGET', 'NONE'])
    sconv = rng.choice(['FOLLOWING', 'MODIFIED_FOLLOWING', 'PRECEDING', 'NONE'])
    srule = rng.choice(['BACKWARD', 'FORWARD'])
    sadj = rng.random() < 0.7
    nst = rng.choice([10, 20, 30])
    ex1, swm = mplus(vd, 12), mplus(vd, 48)
    p = {
        'vd': D(vd), 'vd2': D(vd2),
        'cfA': new('DiscountCurveFlat', R('vd'), rA),
        'cfB': new('DiscountCurveFlat', R('vd'), rB),
        'cf2': new('DiscountCurveFlat', R('vd2'), rA),
        'cf2b': new('DiscountCurveFlat', R('vd2'), rB),
        # index curves of different bases, and a pillar curve (bump-then-requery)
        'cfC': new('DiscountCurveFlat', R('vd'), rB, E('FrequencyTypes', 'CONTINUOUS'), E('DayCountTypes', 'ACT_360')),
        'cfD': new('DiscountCurveFlat', R('vd'), rB, E('FrequencyTypes', 'CONTINUOUS'), E('DayCountTypes', 'ACT_365F')),
        'dcp': new('DiscountCurve', R('vd'), ['L', [D(mplus(vd, 6)), D(mplus(vd, 12)), D(mplus(vd, 24))]],
                   ['A', [round(1 - rA / 2, 6), round(1 - rA * 1.02, 6), round(1 - rA * 2.1, 6)]],
                   E('InterpTypes', rng.choice(['FLAT_FWD_RATES', 'LINEAR_ZERO_RATES', 'LINEAR_FWD_RATES']))),
        'depos': ['L', [new('IborDeposit', D(st), '3M', rA, E('DayCountTypes', 'ACT_360')),
                        new('IborDeposit', D(st), '6M', rA + 0.002, E('DayCountTypes', 'ACT_360'))]],
        'fras': ['L', []],
        'swaps': ['L', [new('IborSwap', D(st), tn, E('SwapTypes', 'PAY'), rA + dr, E('FrequencyTypes', 'SEMI_ANNUAL'),
                            E('DayCountTypes', 'THIRTY_E_360')) for tn, dr in (('2Y', 0.004), ('3Y', 0.006), ('5Y', 0.009))]],
        'ibc': new('IborSingleCurve', R('vd'), R('depos'), R('fras'), R('swaps')),
        'calUS': new('Calendar', E('CalendarTypes', 'UNITED_STATES')),
        'calUK': new('Calendar', E('CalendarTypes', 'UNITED_KINGDOM')),
        'calTGT': new('Calendar', E('CalendarTypes', 'TARGET')),
        'calJP': new('Calendar', E('CalendarTypes', 'JAPAN')),
        'calWE': new('Calendar', E('CalendarTypes', 'WEEKEND')),
        'sched': new('Schedule', D(seff), D(sterm), E('FrequencyTypes', rng.choice(['MONTHLY', 'QUARTERLY', 'SEMI_ANNUAL'])),
                     E('CalendarTypes', scal), E('BusDayAdjustTypes', sconv), E('DateGenRuleTypes', srule), sadj),
        'bsD': new('BlackScholes', vol),
        'bsA': new('BlackScholes', vol, E('BlackScholesTypes', 'ANALYTICAL')),
        'bsT': new('BlackScholes', vol, E('BlackScholesTypes', 'CRR_TREE'), 20),
        'bsB': new('BlackScholes', vol, E('BlackScholesTypes', 'BARONE_ADESI')),
        'blk': new('Black', vol),
        'blkT': new('Black', vol, E('BlackTypes', 'CRR_TREE'), 20),
        'hw': new('HWTree', 0.01, 0.1, nst),
        'hwJ': new('HWTree', 0.012, 0.05, nst, E('FinHWEuropeanCalcType', 'JAMSHIDIAN')),
        'hwE': new('HWTree', 0.011, 0.08, nst, E('FinHWEuropeanCalcType', 'EXPIRY_ONLY')),
        'bk': new('BKTree', 0.2, 0.1, nst),
        'bdt': new('BDTTree', 0.2, nst),
        'bond': new('Bond', D(issue), D(mat), cpn, E('FrequencyTypes', bfreq), E('DayCountTypes', bdc)),
        'bond2': new('Bond', D(issue), D(mplus(mat, 24)), cpn + 0.01, E('FrequencyTypes', 'SEMI_ANNUAL'),
                     E('DayCountTypes', 'ACT_ACT_ICMA'), rng.choice([0, 0, 5])),
        'beo': new('BondEmbeddedOption', D(issue), D(mplus(vd, 60)), cpn, E('FrequencyTypes', bfreq), E('DayCountTypes', bdc),
                   ['L', [D(mplus(vd, 12)), D(mplus(vd, 24))]], ['L', [102.0, 101.0]],
                   ['L', [D(mplus(vd, 18))]], ['L', [98.0]]),
        'fixleg': new('SwapFixedLeg', D(st), D(mplus(st, 36)), E('SwapTypes', rng.choice(['PAY', 'RECEIVE'])), cpn,
                      E('FrequencyTypes', 'SEMI_ANNUAL'), E('DayCountTypes', 'THIRTY_E_360')),
        'fltleg': new('SwapFloatLeg', D(st), D(mplus(st, 36)), E('SwapTypes', 'RECEIVE'), 0.001,
                      E('FrequencyTypes', 'QUARTERLY'), E('DayCountTypes', 'ACT_360')),
        'swap': new('IborSwap', D(st), '4Y', E('SwapTypes', 'PAY'), cpn, E('FrequencyTypes', 'ANNUAL'),
                    E('DayCountTypes', 'ACT_360')),
        'swpt': new('IborSwaption', R('vd'), D(ex1), D(swm), E('SwapTypes', rng.choice(['PAY', 'RECEIVE'])), rA + 0.005,
                    E('FrequencyTypes', 'SEMI_ANNUAL'), E('DayCountTypes', 'ACT_360')),
        'cap': new('IborCapFloor', R('vd'), '2Y', E('FinCapFloorTypes', 'CAP'), rA + 0.002),
        'flr': new('IborCapFloor', R('vd'), D(mplus(vd, 36)), E('FinCapFloorTypes', 'FLOOR'), rA),
        'eqC': new('EquityVanillaOption', D(exp), K, E('OptionTypes', 'EUROPEAN_CALL')),
        'eqP': new('EquityVanillaOption', D(exp), K, E('OptionTypes', 'EUROPEAN_PUT'), 10.0),
        'eqAm': new('EquityAmericanOption', D(exp), K, E('OptionTypes', rng.choice(['AMERICAN_PUT', 'AMERICAN_CALL']))),
        'eqAe': new('EquityAmericanOption', D(exp), K, E('OptionTypes', 'EUROPEAN_PUT')),
        'fxC': new('FXVanillaOption', D(exp), 1.1, 'EURUSD', E('OptionTypes', 'EUROPEAN_CALL'), 1e6, 'USD'),
        'fxP': new('FXVanillaOption', D(exp), 1.05, 'EURUSD', E('OptionTypes', 'EUROPEAN_PUT'), 1e6, 'EUR', 2),
        # credit: one CDS valued on two dates against issuer curves anchored on each
        'cdsA': new('CDSCurve', R('vd'), ['L', [new('CDS', R('vd'), tn, sp) for tn, sp in (('1Y', 0.008), ('3Y', 0.011), ('5Y', 0.014))]],
                    R('cfA'), 0.4),
        'cds2': new('CDSCurve', R('vd2'), ['L', [new('CDS', R('vd2'), tn, sp) for tn, sp in (('1Y', 0.009), ('3Y', 0.012), ('5Y', 0.015))]],
                    R('cf2'), 0.4),
        'cds': new('CDS', R('vd'), '5Y', 0.01),
        'heston': new('Heston', 0.04, 1.5, 0.05, 0.4, -0.6),
        # bumped copies of the flat curves (same value date => same time grid), a second analytical model, the other
        # rate-option models, and the products whose caches are keyed by market data
        'cfAh': new('DiscountCurveFlat', R('vd'), round(rA + 0.01, 4)),
        'cfBh': new('DiscountCurveFlat', R('vd'), round(rB + 0.01, 4)),
        'bsA2': new('BlackScholes', round(vol + 0.07, 3), E('BlackScholesTypes', 'ANALYTICAL')),
        'blkS': new('BlackShifted', vol, 0.01),
        'bach': new('Bachelier', 0.006),
        'sabr': new('SABR', 0.03, 0.5, -0.3, 0.4),
        'sabrS': new('SABRShifted', 0.03, 0.5, -0.3, 0.4, 0.01),
        'bondL': new('Bond', D(issue), D(mplus(vd, 96)), cpn, E('FrequencyTypes', 'SEMI_ANNUAL'), E('DayCountTypes', 'ACT_ACT_ICMA')),
        'bopt': new('BondOption', R('bondL'), D(mplus(vd, 18)), 100.0, E('OptionTypes', 'EUROPEAN_CALL')),
        'boptA': new('BondOption', R('bondL'), D(mplus(vd, 18)), 100.0, E('OptionTypes', 'AMERICAN_PUT')),
        'fxF': new('FXForward', D(exp), 1.12, 'EURUSD', 1e6, 'USD'),
        'fxB': new('FXBarrierOption', D(exp), 1.1, 'EURUSD', E('FinFXBarrierTypes', 'UP_AND_OUT_CALL'), 1.45, 252, 1e6, 'USD'),
        'fxD': new('FXDigitalOption', D(exp), 1.1, 'EURUSD', E('OptionTypes', 'DIGITAL_CALL'), 1e6, 'USD'),
        'fxT': new('FXOneTouchOption', D(exp), E('TouchOptionTypes', 'UP_AND_IN_CASH_AT_EXPIRY'), 1.4, 1e6),
        'eqCo': new('EquityCompoundOption', D(mplus(vd, 6)), E('OptionTypes', 'EUROPEAN_CALL'), 5.0, D(mplus(vd, 18)),
                    E('OptionTypes', 'EUROPEAN_PUT'), K),
        'eqB': new('EquityBarrierOption', D(exp), K, E('EquityBarrierTypes', 'DOWN_AND_OUT_CALL'), 60.0),
        'eqD': new('EquityDigitalOption', D(exp), K, E('OptionTypes', 'EUROPEAN_CALL'), E('FinDigitalOptionTypes', 'CASH_OR_NOTHING')),
        'eqT': new('EquityOneTouchOption', D(exp), E('TouchOptionTypes', 'UP_AND_IN_CASH_AT_EXPIRY'), 160.0, 10.0),
        'eqCh': new('EquityChooserOption', D(mplus(vd, 6)), D(mplus(vd, 18)), D(mplus(vd, 18)), K, K),
        'krates': ['L', [round(rA + 0.001 * i, 5) for i in range(2)]],
        'ktenors': ['A', [1.0, 3.0]],
        'qdates': ['L', [D(mplus(vd, k)) for k in (1, 7, 13, 30)]],
        'spots': ['A', [80.0, 100.0, 123.5]],
    }
    nper = {'ANNUAL': 12, 'SEMI_ANNUAL': 6, 'QUARTERLY': 3}[bfreq]
    cpn_dates = [mplus(issue, nper * j) for j in range(1, 200) if mplus(issue, nper * j) <= mat]
    facts = {'cpn_dates': cpn_dates, 'vd': vd, 'vd2': vd2, 'st': st, 'lag': lag, 'issue': issue, 'mat': mat, 'exp': exp, 'K': K, 'rA': rA,
             'sched': {'eff': seff, 'term': sterm, 'cal': scal, 'conv': sconv, 'rule': srule, 'adjust': sadj},
             'bond2_mat': mplus(mat, 24), 'ex1': ex1, 'swm': swm}
    return p, facts


# --------------------------------------------------------------------------------------------- ops
def OP(o, m, a=(), k=None, cls=None, tag=None, **extra):
    d = {'o': o, 'm': m, 'a': list(a), 'k': k or {}, 'cls': cls, 'tag': tag}
    d.update(extra)
    return d


def gen_op(rng, f, state):
    """one random API call; `state` tracks the date format the history has set"""
    vd, vd2 = f['vd'], f['vd2']
    r = rng.random()
    any_dt = lambda: D(rng.choice([vd, vd2, dplus(vd, rng.randint(-400, 1500)), f['exp'], f['mat'], f['issue']]))  # noqa: E731
    val_dt = lambda: R(rng.choice(['vd', 'vd', 'vd', 'vd2']))  # noqa: E731
    curve = lambda: R(rng.choice(['cfA', 'cfA', 'cfB', 'ibc']))  # noqa: E731
    spot = lambda: rng.choice([float(rng.choice([70, 90, 100, 101.5, 140])), R('spots')])  # noqa: E731

    def mkt():
        # valuation date with curves anchored on it (the same product is valued on two different dates)
        if rng.random() < 0.65:
            return [R('vd'), R('cfA'), R('cfB')]
        if rng.random() < 0.8:
            return [R('vd2'), R('cf2'), R('cf2b')]
        return [R('vd2'), R('cfA'), R('cfB')]      # mismatched: FinError either way
    th = state.get('theme')
    if th == 'fmt':
        # process-wide print format x dates whose TEXT collides under some format (dd/mm <-> mm/dd, two-digit years a
        # century apart): calendar / schedule results must depend neither on the format nor on earlier queries
        r = rng.random()
        if r < 0.3:
            fm = rng.choice(FORMATS + ['UK_SHORT', 'US_SHORT', 'BLOOMBERG'] * 3)
            state['fmt'] = fm
            return OP(None, 'set_date_format', [E('DateFormatTypes', fm)], cls='<date>', tag='global')
        if r < 0.4:
            return OP(None, 'attr', [R('schedF'), 'adjusted_dts'], cls='Schedule', meth='<attr>', tag='sched-fmt')
        if r < 0.45:
            return OP(None, 'str', [D(rng.choice(state['coll']))], cls='Date', meth='__repr__', tag='print', fmt=state['fmt'])
        cal = state['cals'][0]
        dt = D(rng.choice(state['coll']))
        j = rng.randrange(10)
        if j < 5:
            return OP(cal, 'is_business_day', [dt], cls='Calendar', tag='cal')
        if j < 7:
            return OP(cal, 'adjust', [dt, E('BusDayAdjustTypes', rng.choice(['FOLLOWING', 'MODIFIED_FOLLOWING', 'PRECEDING']))],
                      cls='Calendar', tag='cal')
        if j < 9:
            return OP(cal, 'add_business_days', [dt, rng.choice([-2, -1, 1, 2, 3])], cls='Calendar', tag='cal')
        return OP(cal, 'is_holiday', [dt], cls='Calendar', tag='cal')
    k = rng.randint(*THEMES[th]) if th and rng.random() < 0.85 else rng.randrange(100)
    if k < 6:
        fm = rng.choice(FORMATS)
        state['fmt'] = fm
        return OP(None, 'set_date_format', [E('DateFormatTypes', fm)], cls='<date>', tag='global')
    if k < 10:
        y = rng.choice([2101, 2120, 2150, 2199, 2250, 2300, 2099])
        return OP(None, 'date_new', [rng.choice([1, 28, 31]), rng.choice([1, 12]), y], cls='Date', meth='__init__',
                  tag='global')
    if k < 13:
        return OP(None, 'str', [any_dt()], cls='Date', meth='__repr__', tag='print', fmt=state['fmt'])
    if k < 20:
        if th == 'date' and rng.random() < 0.4:
            # the IMM helper across far-apart years (the weekday pattern repeats every 28 years except across 2100)
            return OP(rng.choice(['vd', 'vd2']), 'third_wednesday_of_month',
                      [rng.choice([3, 6]), rng.choice([2099, 2127, 2100, 2128, vd[2], vd[2] + 28])], cls='Date', tag='date')
        m, a = rng.choice([('add_days', [rng.randint(-400, 400)]), ('add_months', [rng.randint(-30, 60)]),
                           ('add_tenor', [rng.choice(['1D', '2W', '3M', '18M', '4Y', '-6M'])]),
                           ('add_weekdays', [rng.randint(-12, 12)]), ('next_imm_date', []), ('next_cds_date', []),
                           ('eom', []), ('add_years', [rng.choice([1, 2.5, 10, 90])]),
                           ('third_wednesday_of_month', [rng.choice([3, 6, 9, 12]),
                                                         rng.choice([vd[2], vd[2] + 28, vd[2] + 56, 2099, 2100, 2101, 2127, 2128])])])
        return OP(rng.choice(['vd', 'vd2']), m, a, cls='Date', tag='date')
    if k < 22:
        return OP(None, 'cmp', [R('vd'), rng.choice([R('vd2'), any_dt()])], cls='Date', meth='__lt__', tag='date')
    if k < 31:
        cal = rng.choice(state.get('cals') or ['calUS', 'calUK', 'calTGT', 'calJP', 'calWE'])
        j = rng.randrange(12)
        dt = D(rng.choice([dplus(vd, rng.randint(-300, 900)), (25, 12, vd[2]), (4, 7, vd[2]), (1, 1, vd[2] + 1),
                           (rng.randint(1, 28), rng.randint(3, 5), vd[2]), rng.choice(holiday_dates(vd[2] + rng.randint(0, 1))),
                           rng.choice(holiday_dates(vd[2]))]))
        if j < 3:
            return OP(cal, 'is_holiday', [dt], cls='Calendar', tag='cal')
        if j < 5:
            return OP(cal, 'is_business_day', [dt], cls='Calendar', tag='cal')
        if j < 7:
            return OP(cal, 'adjust', [dt, E('BusDayAdjustTypes', rng.choice(['FOLLOWING', 'MODIFIED_FOLLOWING', 'PRECEDING',
                                                                             'MODIFIED_PRECEDING']))], cls='Calendar', tag='cal')
        if j < 9:
            return OP(cal, 'add_business_days', [dt, rng.randint(-10, 10)], cls='Calendar', tag='cal')
        if j < 10:
            if rng.random() < 0.5:
                # returns the holidays as TEXT in the global print format: the format is an explicit argument here
                return OP(cal, 'get_holiday_list', [vd[2] + rng.randint(0, 3)], cls='Calendar', tag='print', fmt=state['fmt'])
            return OP(cal, 'easter_monday', [vd[2] + rng.randint(0, 3)], cls='Calendar', tag='cal')
        hol = {'calUS': 'holiday_united_states', 'calUK': 'holiday_united_kingdom', 'calTGT': 'holiday_target',
               'calJP': 'holiday_japan', 'calWE': 'holiday_weekend'}[cal]
        return OP(cal, hol, [dt], cls='Calendar', tag='cal-direct')
    if k < 35:
        j = rng.randrange(3)
        if j == 0:
            return OP('sched', 'generate', [], cls='Schedule', tag='sched')
        if j == 1:
            return OP('sched', 'schedule_dts', [], cls='Schedule', tag='sched')
        return OP(None, 'attr', [R('sched'), rng.choice(['adjusted_dts', 'termination_dt'])], cls='Schedule', meth='<attr>',
                  tag='sched')
    if k < 43:
        mdl = rng.choice(['bsD', 'bsD', 'bsD', 'bsA', 'bsT', 'bsB'])
        ot = rng.choice(['EUROPEAN_CALL', 'EUROPEAN_PUT', 'AMERICAN_CALL', 'AMERICAN_PUT'])
        return OP(mdl, 'value', [float(rng.choice([90, 100, 110])), rng.choice([0.25, 1.0, 2.5]), 100.0, 0.03, 0.01,
                                 E('OptionTypes', ot)], cls='BlackScholes', tag='bs', fam=ot[0])
    if k < 51:
        j = rng.randrange(10)
        if j < 6:
            o = rng.choice(['eqC', 'eqP'])
            m = rng.choice(['value', 'value', 'delta', 'gamma', 'vega', 'theta', 'rho'])
            mdl = rng.choice(['bsD', 'bsA', 'bsT'])
            v, c1, c2 = mkt()
            return OP(o, m, [v, spot(), c1, c2, R(mdl)], cls='EquityVanillaOption', tag='eq', fam='E')
        if j < 7:
            v, c1, c2 = mkt()
            return OP(rng.choice(['eqC', 'eqP']), 'intrinsic', [v, spot(), c1, c2], cls='EquityVanillaOption', tag='eq')
        o = rng.choice(['eqAm', 'eqAm', 'eqAe'])
        v, c1, c2 = mkt()
        return OP(o, 'value', [v, spot(), c1, c2, R(rng.choice(['bsD', 'bsD', 'bsT', 'bsB']))],
                  cls='EquityAmericanOption', tag='eq', fam='A' if o == 'eqAm' else 'E')
    if k < 55 and rng.random() < 0.3:
        # one Heston model, a ladder of spots / rates (Monte Carlo with a fixed seed is deterministic)
        return OP('heston', 'value_mc', [R('vd'), R(rng.choice(['eqC', 'eqP'])), float(rng.choice([80, 100, 120])),
                                        rng.choice([0.01, 0.05]), rng.choice([0.0, 0.02]), 500, 20, rng.choice([42, 7])],
                  cls='Heston', tag='heston')
    if k < 55:
        m = rng.choice(['value', 'delta', 'gamma', 'vega', 'theta'])
        v, c1, c2 = mkt()
        return OP(rng.choice(['fxC', 'fxP']), m, [v, rng.choice([1.0, 1.1, 1.25]), c1, c2,
                                                 R(rng.choice(['bsD', 'bsA']))], cls='FXVanillaOption', tag='fx')
    if k < 58:
        m = rng.choice(['value', 'delta', 'gamma', 'theta', 'vega'])
        ot = rng.choice(['EUROPEAN_CALL', 'EUROPEAN_PUT', 'AMERICAN_CALL', 'AMERICAN_PUT'])
        return OP(rng.choice(['blk', 'blkT']), m, [0.03, rng.choice([0.02, 0.03, 0.05]), rng.choice([0.5, 2.0]), 0.95,
                                                  E('OptionTypes', ot)], cls='Black', tag='black')
    if k < 66:
        c = rng.choice(['cfA', 'cfB', 'cf2', 'ibc', 'ibc', 'dcp', 'dcp', 'cfC'])
        j = rng.randrange(6)
        cls = 'IborSingleCurve' if c == 'ibc' else 'DiscountCurve' if c == 'dcp' else 'DiscountCurveFlat'
        if c in ('dcp', 'ibc') and rng.random() < 0.35:
            # a bumped copy (rho calculations do this); the curve itself must stay as it was
            return OP(None, 'bump_df', [R(c), rng.choice([0.0, 0.0001, 0.01]), R('qdates')], cls=cls, meth='bump', tag='curve')
        if j == 0:
            return OP(c, 'df', [R('qdates')], cls=cls, tag='curve')
        if j == 1:
            return OP(c, 'zero_rate', [any_dt()], cls=cls, tag='curve')
        if j == 2:
            return OP(c, 'fwd_rate', [D(mplus(vd, rng.randint(1, 40))), rng.choice(['3M', '6M', '1Y'])], cls=cls, tag='curve')
        if j == 3:
            return OP(c, 'swap_rate', [R('vd'), D(mplus(vd, rng.choice([12, 36, 60])))], cls=cls, tag='curve')
        return OP(c, 'df', [D(mplus(vd, rng.randint(0, 70)))], cls=cls, tag='curve')
    if k < 69:
        j = rng.randrange(3)
        if j == 0:
            return OP(None, 'len', [R(rng.choice(['depos', 'depos', 'swaps', 'fras']))], cls='<list>', meth='len', tag='inputs')
        interp = rng.choice(['FLAT_FWD_RATES', 'LINEAR_ZERO_RATES', 'LINEAR_FWD_RATES'])
        return OP(None, 'ibor_curve', [R('vd'), R('depos'), R('fras'), R('swaps'), E('InterpTypes', interp), R('qdates')],
                  cls='IborSingleCurve', meth='__init__', tag='curve-build')
    if k < 80:
        b = rng.choice(['bond', 'bond', 'bond2'])
        mat = f['mat'] if b == 'bond' else f['bond2_mat']
        s = rng.choice([R('vd'), R('vd'), R('vd2'), D(dplus(vd, rng.randint(0, 300))), D(mat), D(dplus(mat, rng.choice([1, 40]))),
                        D(dplus(mat, -rng.randint(1, 200))), D(f['issue'])])
        if b == 'bond' and rng.random() < 0.3:
            # on / just before / just after a coupon date (a call inside a period, then on the date closing it)
            cd = rng.choice([c for c in f['cpn_dates'] if c >= vd] or f['cpn_dates'])
            s = D(dplus(cd, rng.choice([0, 0, -1, 1, -30])))
        conv = E('YTMCalcType', rng.choice(['UK_DMO', 'US_STREET', 'US_TREASURY']))
        y = rng.choice([0.01, 0.035, 0.08])
        px = rng.choice([92.5, 100.0, 108.25])
        j = rng.randrange(16)
        table = [
            ('accrued_interest', [s]), ('accrued_interest', [s, 1000.0]), ('dirty_price_from_ytm', [s, y, conv]),
            ('clean_price_from_ytm', [s, y, conv]), ('yield_to_maturity', [s, px, conv]),
            ('dirty_price_from_discount_curve', [s, R('cfA')]), ('clean_price_from_discount_curve', [s, R('cfA')]),
            ('modified_duration', [s, y, conv]), ('macauley_duration', [s, y, conv]), ('convexity_from_ytm', [s, y, conv]),
            ('principal', [s, y, 1e6, conv]), ('dollar_duration', [s, y, conv]),
            ('asset_swap_spread', [s, px, R('cfA')]), ('option_adjusted_spread', [s, px, R('cfA')]),
            ('calc_ror', [s, D(dplus(vd, 400)), y, y + 0.005, conv]),
        ]
        if j == 15:
            kw = {'key_rate_tenors': R('ktenors')}
            if rng.random() < 0.6:
                kw['rates'] = R('krates')
            return OP(b, 'key_rate_durations', [R('vd'), y], kw, cls='Bond', tag='bond-krd')
        m, a = table[j]
        return OP(b, m, a, cls='Bond', tag='bond')
    if k < 84:
        if rng.random() < 0.6:
            # one tree model reused for several curves on the same time grid (same settlement date)
            return OP('beo', 'value', [rng.choice([R('vd'), R('vd'), R('vd2')]), R(rng.choice(['cfA', 'cfB', 'cf2', 'ibc'])),
                                      R(rng.choice(['hw', 'hw', 'bk', 'hwJ', 'hwE']))], cls='BondEmbeddedOption', tag='tree')
        mdl = rng.choice(['hw', 'bk', 'bdt', 'hwJ', 'hwJ', 'hwE'])
        tm = rng.choice([3.0, 5.0])
        return OP(None, 'tree_build_query',
                  [R(mdl), tm, ['A', [0.0, 1.0, 5.0, 10.0]], ['A', rng.choice([[1.0, 0.97, 0.86, 0.74], [1.0, 0.99, 0.95, 0.90]])],
                   1.0, rng.choice([95.0, 102.0]), 100.0,
                   ['A', [0.5, 1.0, 1.5, 2.0, 2.5, 3.0]], ['A', [2.0] * 6], E('FinExerciseTypes', rng.choice(['EUROPEAN', 'AMERICAN']))],
                  cls={'hw': 'HWTree', 'hwJ': 'HWTree', 'hwE': 'HWTree', 'bk': 'BKTree', 'bdt': 'BDTTree'}[mdl], meth='build_tree+bond_option',
                  tag='tree')
    if k < 91:
        j = rng.randrange(9)
        if j < 2:
            return OP('fixleg', 'value', [val_dt(), curve()], cls='SwapFixedLeg', tag='leg')
        if j < 4:
            a = [val_dt(), curve(), rng.choice([R('cfB'), None, R('ibc'), R('cfC'), R('cfD'), R('cfC'), R('cfD')])]
            if rng.random() < 0.5:
                a.append(rng.choice([0.02, 0.031]))
            return OP('fltleg', 'value', a, cls='SwapFloatLeg', tag='leg')
        if j == 4:
            return OP('fixleg', 'generate_payments', [], cls='SwapFixedLeg', tag='leg')
        if j == 5:
            return OP('fltleg', 'generate_payment_dts', [], cls='SwapFloatLeg', tag='leg')
        m = rng.choice(['value', 'pv01', 'swap_rate'])
        a = [val_dt(), curve()]
        if m != 'pv01' and rng.random() < 0.5:
            a.append(rng.choice([R('cfC'), R('cfD')]))
        return OP('swap', m, a, cls='IborSwap', tag='leg')
    if k < 96 and rng.random() < 0.35:
        v, ic = rng.choice([('vd', 'cdsA'), ('vd', 'cdsA'), ('vd2', 'cds2')])
        m = rng.choice(['value', 'risky_pv01', 'par_spread', 'premium_leg_pv', 'prot_leg_pv'])
        return OP('cds', m, [R(v), R(ic)] + ([0.4] if m == 'value' else []), cls='CDS', tag='cds')
    if k < 96:
        mdl = rng.choice(['blk', 'blk', 'hw', 'hwJ', 'bk', 'bdt'])
        if rng.random() < 0.2:
            return OP('swpt', 'cash_settled_value', [R('vd'), curve(), 0.03, R('blk')], cls='IborSwaption', tag='swaption')
        return OP('swpt', 'value', [val_dt(), curve(), R(mdl)], cls='IborSwaption', tag='swaption')
    o = rng.choice(['cap', 'flr'])
    if rng.random() < 0.15:
        return OP(o, 'value_caplet_floor_let', [R('vd'), D(mplus(vd, 6)), D(mplus(vd, 9)), curve(), R('blk')], cls='IborCapFloor',
                  tag='caplet-direct')
    return OP(o, 'value', [val_dt(), curve(), R(rng.choice(['blk', 'blk', 'hw']))], cls='IborCapFloor', tag='cap')


def ladder_templates(f):
    """call templates for the one-input-at-a-time histories: an object (or function), its methods with the order of
    their argument slots, and the alternatives of every slot.  A slot value ('multi', [...]) expands to several
    arguments (inputs that only make sense together, e.g. a valuation date and the issuer curve anchored on it)."""
    vd = f['vd']
    eqargs = ['date', 'spot', 'disc', 'div', 'model']
    eqslots = {'date': [R('vd')], 'spot': [90.0, 100.0, 110.0], 'disc': [R('cfA'), R('cfAh')], 'div': [R('cfB'), R('cfBh')],
               'model': [R('bsA'), R('bsA2')]}
    fxslots = {'date': [R('vd')], 'spot': [1.1, 1.2], 'disc': [R('cfA'), R('cfAh')], 'div': [R('cfB'), R('cfBh')],
               'model': [R('bsA'), R('bsA2')]}
    T = []
    for o, cls, ms in (('eqC', 'EquityVanillaOption', ['value', 'delta', 'gamma', 'vega', 'theta', 'rho']),
                       ('eqP', 'EquityVanillaOption', ['value', 'delta', 'gamma', 'vega', 'theta', 'rho']),
                       ('eqCo', 'EquityCompoundOption', ['value', 'delta', 'vega']), ('eqB', 'EquityBarrierOption', ['value', 'delta', 'vega']),
                       ('eqD', 'EquityDigitalOption', ['value', 'delta', 'vega']), ('eqT', 'EquityOneTouchOption', ['value', 'delta', 'vega']),
                       ('eqCh', 'EquityChooserOption', ['value', 'delta', 'vega'])):
        T.append({'o': o, 'cls': cls, 'tag': 'eq', 'methods': {m: eqargs for m in ms}, 'slots': eqslots})
    T.append({'o': 'eqAm', 'cls': 'EquityAmericanOption', 'tag': 'eq', 'methods': {'value': eqargs},
              'slots': dict(eqslots, model=[R('bsT'), R('bsB'), R('bsD')])})
    for o, cls, ms in (('fxC', 'FXVanillaOption', ['value', 'delta', 'gamma', 'vega', 'theta']),
                       ('fxP', 'FXVanillaOption', ['value', 'delta', 'gamma', 'vega', 'theta']),
                       ('fxB', 'FXBarrierOption', ['value', 'delta', 'vega']), ('fxD', 'FXDigitalOption', ['value']),
                       ('fxT', 'FXOneTouchOption', ['value', 'delta', 'vega'])):
        T.append({'o': o, 'cls': cls, 'tag': 'fx', 'methods': {m: eqargs for m in ms}, 'slots': fxslots})
    T.append({'o': 'fxF', 'cls': 'FXForward', 'tag': 'fx', 'methods': {'value': ['date', 'spot', 'disc', 'div']}, 'slots': fxslots})
    capmodels = [R('blk'), R('blkS'), R('bach'), R('sabr'), R('sabrS'), R('hw')]
    for o in ('cap', 'flr'):
        T.append({'o': o, 'cls': 'IborCapFloor', 'tag': 'cap',
                  'methods': {'value': ['date', 'curve', 'model'], 'value_caplet_floor_let': ['date', 'cs', 'ce', 'curve', 'model']},
                  'slots': {'date': [R('vd'), R('vd2')], 'curve': [R('cfA'), R('cfAh'), R('ibc')], 'model': capmodels,
                            'cs': [D(mplus(vd, 6))], 'ce': [D(mplus(vd, 9))]}})
    T.append({'o': 'swpt', 'cls': 'IborSwaption', 'tag': 'swaption', 'methods': {'value': ['date', 'curve', 'model']},
              'slots': {'date': [R('vd')], 'curve': [R('cfA'), R('cfAh'), R('ibc')],
                        'model': [R('blk'), R('blkS'), R('sabr'), R('sabrS'), R('hw'), R('hwJ'), R('bk'), R('bdt')]}})
    trees = [R('bk'), R('bdt'), R('hw'), R('hwJ'), R('hwE')]
    for o in ('bopt', 'boptA'):
        T.append({'o': o, 'cls': 'BondOption', 'tag': 'tree', 'methods': {'value': ['date', 'curve', 'model']},
                  'slots': {'date': [R('vd')], 'curve': [R('cfA'), R('cfAh'), R('cfB')], 'model': trees}})
    T.append({'o': 'beo', 'cls': 'BondEmbeddedOption', 'tag': 'tree', 'methods': {'value': ['date', 'curve', 'model']},
              'slots': {'date': [R('vd'), R('vd2')], 'curve': [R('cfA'), R('cfAh'), R('ibc')], 'model': [R('hw'), R('bk'), R('hwJ')]}})
    T.append({'o': None, 'cls': None, 'tag': 'tree',
              'methods': {'tree_build_query': ['model', 'tm', 'times', 'dfs', 'texp', 'strike', 'face', 'ct', 'cf', 'ex']},
              'slots': {'model': trees, 'tm': [3.0, 5.0], 'times': [['A', [0.0, 1.0, 5.0, 10.0]]],
                        'dfs': [['A', [1.0, 0.97, 0.86, 0.74]], ['A', [1.0, 0.99, 0.95, 0.90]]], 'texp': [1.0], 'strike': [95.0, 102.0],
                        'face': [100.0], 'ct': [['A', [0.5, 1.0, 1.5, 2.0, 2.5, 3.0]]], 'cf': [['A', [2.0] * 6]],
                        'ex': [E('FinExerciseTypes', 'EUROPEAN'), E('FinExerciseTypes', 'AMERICAN')]}})
    T.append({'o': 'fixleg', 'cls': 'SwapFixedLeg', 'tag': 'leg', 'methods': {'value': ['date', 'disc']},
              'slots': {'date': [R('vd'), R('vd2')], 'disc': [R('cfA'), R('cfAh'), R('ibc')]}})
    T.append({'o': 'fltleg', 'cls': 'SwapFloatLeg', 'tag': 'leg', 'methods': {'value': ['date', 'disc', 'index']},
              'slots': {'date': [R('vd'), R('vd2')], 'disc': [R('cfA'), R('cfAh'), R('ibc')], 'index': [R('cfB'), R('cfC'), R('cfD'), None]}})
    T.append({'o': 'swap', 'cls': 'IborSwap', 'tag': 'leg',
              'methods': {'value': ['date', 'disc', 'index'], 'swap_rate': ['date', 'disc', 'index'], 'pv01': ['date', 'disc']},
              'slots': {'date': [R('vd'), R('vd2')], 'disc': [R('cfA'), R('cfAh'), R('ibc')], 'index': [R('cfC'), R('cfD'), None]}})
    cds_ = [c for c in f['cpn_dates'] if c >= vd] or f['cpn_dates']
    settles = [R('vd'), R('vd2'), D(cds_[0]), D(dplus(cds_[0], -30)), D(dplus(cds_[0], 1))]
    ytm = ['settle', 'ytm', 'conv']
    T.append({'o': 'bond', 'cls': 'Bond', 'tag': 'bond',
              'methods': {'accrued_interest': ['settle'], 'dirty_price_from_ytm': ytm, 'clean_price_from_ytm': ytm, 'modified_duration': ytm,
                          'convexity_from_ytm': ytm, 'dirty_price_from_discount_curve': ['settle', 'curve'],
                          'clean_price_from_discount_curve': ['settle', 'curve']},
              'slots': {'settle': settles, 'ytm': [0.02, 0.05], 'curve': [R('cfA'), R('cfAh')],
                        'conv': [E('YTMCalcType', x) for x in ('UK_DMO', 'US_STREET', 'US_TREASURY')]}})
    T.append({'o': 'cds', 'cls': 'CDS', 'tag': 'cds',
              'methods': dict({m: ['mkt'] for m in ('risky_pv01', 'par_spread', 'premium_leg_pv', 'prot_leg_pv')}, value=['mkt', 'rec']),
              'slots': {'mkt': [('multi', [R('vd'), R('cdsA')]), ('multi', [R('vd2'), R('cds2')])], 'rec': [0.4]}})
    T.append({'o': 'heston', 'cls': 'Heston', 'tag': 'heston',
              'methods': {'value_mc': ['date', 'opt', 'spot', 'r', 'q', 'np', 'ns', 'seed']},
              'slots': {'date': [R('vd')], 'opt': [R('eqC'), R('eqP')], 'spot': [80.0, 100.0, 120.0], 'r': [0.01, 0.05], 'q': [0.0, 0.02],
                        'np': [500], 'ns': [20], 'seed': [42, 7]}})
    ots = [E('OptionTypes', x) for x in ('EUROPEAN_CALL', 'EUROPEAN_PUT', 'AMERICAN_CALL', 'AMERICAN_PUT')]
    for o in ('bsD', 'bsA', 'bsT'):
        T.append({'o': o, 'cls': 'BlackScholes', 'tag': 'bs', 'methods': {'value': ['s', 't', 'k', 'r', 'q', 'ot']},
                  'slots': {'s': [90.0, 100.0, 110.0], 't': [0.25, 1.0], 'k': [100.0, 105.0], 'r': [0.03, 0.05], 'q': [0.0, 0.01], 'ot': ots}})
    T.append({'o': 'blk', 'cls': 'Black', 'tag': 'black',
              'methods': {m: ['f', 'k', 't', 'df', 'ot'] for m in ('value', 'delta', 'gamma', 'vega', 'theta')},
              'slots': {'f': [0.03, 0.04], 'k': [0.03, 0.05], 't': [0.5, 2.0], 'df': [0.95, 0.9], 'ot': ots[:2]}})
    return T


def make_ladder(rng, maxlen=12):
    """a history in which consecutive calls on ONE object differ in exactly ONE input (or only in the method called) while
    everything else stays equal - the shape that an incomplete cache key or a stale scratch attribute gets wrong"""
    pool, facts = make_pool(rng)
    tpl = rng.choice(ladder_templates(facts))
    cur = {k: rng.choice(v) for k, v in tpl['slots'].items()}
    meths = sorted(tpl['methods'])
    m = rng.choice(meths)
    free = [k for k, v in tpl['slots'].items() if len(v) > 1]

    def emit():
        args = []
        for sl in tpl['methods'][m]:
            v = cur[sl]
            if isinstance(v, tuple) and v[0] == 'multi':
                args += v[1]
            else:
                args.append(v)
        return OP(tpl['o'], m, args, cls=tpl['cls'] or {'bk': 'BKTree', 'bdt': 'BDTTree'}.get(cur.get('model', [0, ''])[1], 'HWTree'),
                  tag=tpl['tag'], meth=('build_tree+bond_option' if m == 'tree_build_query' else m), ladder=True)
    ops = [emit()]
    for _ in range(rng.randint(2, maxlen - 1)):
        used = [k for k in free if k in tpl['methods'][m]]
        if len(meths) > 1 and (not used or rng.random() < 0.3):
            m = rng.choice([x for x in meths if x != m])
        elif used:
            k = rng.choice(used)
            cur[k] = rng.choice([v for v in tpl['slots'][k] if v != cur[k]])
        ops.append(emit())
    return {'pool': pool, 'ops': ops, 'facts': facts}


def make_history(rng, maxlen=12):
    if rng.random() < 0.3:
        return make_ladder(rng, maxlen)
    pool, facts = make_pool(rng)
    n = rng.randint(1, maxlen)
    state = {'fmt': 'UK_LONG'}
    if rng.random() < 0.35:
        state['theme'] = rng.choice(sorted(THEMES) + ['fmt', 'fmt'])
        if state['theme'] == 'cal':
            state['cals'] = rng.sample(['calUS', 'calUK', 'calTGT', 'calJP', 'calWE'], 2)
        if state['theme'] == 'fmt':
            y = facts['vd'][2]
            a, b = rng.choice([(4, 7), (1, 5), (6, 1), (12, 10), (3, 10), (1, 2), (11, 12), (5, 8),
                               (rng.randint(1, 12), rng.randint(1, 12)), (rng.randint(1, 12), rng.randint(1, 12))])
            em = easter_monday(y)
            gf = dplus(em, -3)
            coll = [(a, b, y), (b, a, y), (a, b, y + 100), (b, a, y + 100)]
            if rng.random() < 0.4:
                coll += [em, (em[0], em[1], y + 100), gf, (gf[0], gf[1], y + 100)]
            state['coll'] = coll
            state['cals'] = [rng.choice(['calUS', 'calUK', 'calTGT'])]
            caltype = {'calUS': 'UNITED_STATES', 'calUK': 'UNITED_KINGDOM', 'calTGT': 'TARGET'}[state['cals'][0]]
            pool['schedF'] = new('Schedule', D((a, b, y - 1)), D((a, b, y)), E('FrequencyTypes', 'SEMI_ANNUAL'),
                                 E('CalendarTypes', caltype), E('BusDayAdjustTypes', 'FOLLOWING'), E('DateGenRuleTypes', 'BACKWARD'))
            n = rng.randint(6, maxlen)
    ops = []
    focus = rng.random() < 0.5 and rng.randrange(100)
    for _ in range(n):
        op = gen_op(rng, facts, state)
        ops.append(op)
        # half of the histories repeat one kind of call more often (same objects hit repeatedly)
        if focus is not False and rng.random() < 0.35 and len(ops) < n:
            op2 = gen_op(C.Rng(focus, str(len(ops) % 3)), facts, state)
            ops.append(op2)
    ops = ops[:maxlen]
    for op in ops:
        if 'meth' not in op:
            op['meth'] = op['m']
    return {'pool': pool, 'ops': ops, 'facts': facts}


# --------------------------------------------------------------------------------------------- running jobs
class WorkerDied(RuntimeError):
    """the history worker ended without its final line (killed by a signal, hung, or wrote nothing)"""

    def __init__(self, mode, info):
        super().__init__(f"c18_hist.py ({mode}) {info['kind']} rc={info['rc']} at history {info['history']} call {info['op']}\n"
                         + info['stderr'][-1200:])
        self.info = info


def run_worker(mode, histories, snap=False, timeout=1700):
    """one worker process.  -> (done {index: (results, effects)}, info or None); `info` says where a worker that did
    not finish was: {'kind': 'died'|'timeout', 'rc', 'history', 'op', 'stderr'}"""
    env = dict(os.environ)
    env['FINVERIF_REPO'] = C.REPO
    job = {'mode': mode, 'snap': snap,
           'histories': [{'pool': h['pool'], 'ops': [{k: op[k] for k in ('o', 'm', 'a', 'k', 'fmt') if k in op}
                                                     for op in h['ops']]} for h in histories]}
    kind = 'died'
    try:
        p = subprocess.run([sys.executable, HIST], input=json.dumps(job), capture_output=True, text=True, env=env,
                           timeout=timeout)
        out, err, rc = p.stdout, p.stderr, p.returncode
    except subprocess.TimeoutExpired as e:
        def txt(x):
            return x.decode('utf-8', 'replace') if isinstance(x, bytes) else (x or '')
        out, err, rc, kind = txt(e.stdout), txt(e.stderr), None, 'timeout'
    done, finished, started, op = {}, False, None, None
    for ln in out.split('\n'):
        if ln.startswith('H '):
            try:
                d = json.loads(ln[2:])
            except ValueError:
                continue
            done[d['i']] = (d['r'], d.get('e'))
        elif ln.startswith('S '):
            started, op = int(ln[2:]), None
        elif ln.startswith('O '):
            q = ln.split()
            started, op = int(q[1]), int(q[2])
        elif ln.startswith('J '):
            finished = True
    if finished and len(done) == len(histories):
        return done, None
    return done, {'kind': kind, 'rc': rc, 'history': started, 'op': op, 'stderr': err[-1500:]}


def run_job(mode, histories, snap=False, timeout=1700):
    """strict: all histories in one worker; raises WorkerDied when the worker does not finish"""
    done, info = run_worker(mode, histories, snap, timeout)
    if info is not None:
        raise WorkerDied(mode, info)
    return {'results': [done[i][0] for i in range(len(histories))], 'effects': [done[i][1] for i in range(len(histories))]}


def run_robust(mode, histories, snap=False, max_crashes=4):
    """like run_job, but a worker that dies / hangs is survived: the history it was running is recorded in `crashed`
    (a worker that dies on a history every fresh evaluation survives IS a history dependence) and the rest of the
    chunk is run in a new worker.  Results of crashed / skipped histories are None."""
    n = len(histories)
    res, eff, crashed = [None] * n, [None] * n, {}
    pending = list(range(n))
    while pending:
        done, info = run_worker(mode, [histories[i] for i in pending], snap)
        for j, (r, e) in done.items():
            res[pending[j]], eff[pending[j]] = r, e
        if info is None:
            break
        if info['history'] is None:
            raise WorkerDied(mode, info)         # died before it started any history: not attributable
        killer = pending[info['history']]
        crashed[killer] = info
        pending = [i for j, i in enumerate(pending) if j not in done and i != killer]
        if len(crashed) >= max_crashes:
            for i in pending:
                crashed.setdefault(i, {'kind': 'skipped', 'rc': None, 'history': None, 'op': None, 'stderr': ''})
            break
    return {'results': res, 'effects': eff, 'crashed': crashed}


def run_parallel(mode, histories, snap=False, nproc=NPROC):
    n = len(histories)
    if n == 0:
        return {'results': [], 'effects': [], 'crashed': {}}
    k = max(1, min(nproc, n))
    chunks = [histories[i::k] for i in range(k)]
    with ThreadPoolExecutor(max_workers=k) as ex:
        outs = list(ex.map(lambda ch: run_robust(mode, ch, snap), chunks))
    res = [None] * n
    eff = [None] * n
    crashed = {}
    for j, o in enumerate(outs):
        res[j::k] = o['results']
        eff[j::k] = o['effects']
        for li, info in o['crashed'].items():
            crashed[j + li * k] = info
    return {'results': res, 'effects': eff, 'crashed': crashed}


def dies(h_ops_pool, timeout=400):
    """does this single history kill / hang its own worker?  -> info or None"""
    _, info = run_worker('shared', [h_ops_pool], False, timeout)
    return info


def report_crashes(ctx, hists, A):
    """a shared-objects worker died on a history: confirm that every call of it survives on fresh objects in its own
    interpreter, find the shortest crashing sub-history, report a violation (clause history-crash)"""
    real = [(hi, info) for hi, info in sorted(A.get('crashed', {}).items()) if info['kind'] != 'skipped']
    nskip = sum(1 for info in A.get('crashed', {}).values() if info['kind'] == 'skipped')
    if nskip:
        ctx.notes.append(f'{nskip} histories were not explored because their worker kept dying')
    for hi, info in real[:3]:
        h = hists[hi]
        k = info['op'] if info['op'] is not None else len(h['ops']) - 1
        ops = h['ops'][:k + 1]
        # every call on fresh objects, each in its own interpreter
        singles = [{'pool': h['pool'], 'ops': [o]} for o in ops]
        with ThreadPoolExecutor(max_workers=NPROC) as ex:
            fr = list(ex.map(lambda s_: run_worker('fresh', [s_], False, 400), singles))
        bad = [(o, i2) for o, (d, i2) in zip(ops, fr) if i2 is not None]
        if bad:
            raise RuntimeError(f'the call {show(bad[0][0])} kills the interpreter on FRESH objects too '
                               f'({bad[0][1]["kind"]} rc={bad[0][1]["rc"]}): not a history dependence\n' + bad[0][1]['stderr'][-800:])
        fresh_results = [d[0][0][0] for d, _ in fr]
        alone = dies({'pool': h['pool'], 'ops': ops})
        if alone is not None:
            # greedy single deletions (the last call stays), all candidates of a round in parallel
            for _ in range(4):
                cands = [ops[:j] + ops[j + 1:] for j in range(len(ops) - 1)]
                if not cands:
                    break
                with ThreadPoolExecutor(max_workers=NPROC) as ex:
                    rs = list(ex.map(lambda c: dies({'pool': h['pool'], 'ops': c}), cands))
                hit = [c for c, r in zip(cands, rs) if r is not None]
                if not hit:
                    break
                ops = hit[0]
            fresh_results = fresh_results[-1:]
        what = 'hangs' if info['kind'] == 'timeout' else f'crashes the interpreter (worker exit code {info["rc"]})'
        names = []
        for o in ops:
            for x in touched(h['pool'], o):
                if x not in names:
                    names.append(x)
        ctx.violation(f'call history {what}: {ops[-1].get("cls")}.{ops[-1].get("meth")} after {len(ops) - 1} earlier call(s) on shared '
                      'objects, while every call of the history succeeds on fresh objects in a fresh interpreter',
                      {'history': [show(o) for o in ops], 'crashing_call': show(ops[-1]), 'worker': info['kind'], 'exit_code': info['rc'],
                       'stderr': info['stderr'][-400:], 'reproduced_alone_in_a_new_interpreter': alone is not None,
                       'last_call_on_fresh_objects': fresh_results[-1], 'objects': {n: h['pool'][n] for n in names},
                       'replay': {'pool': h['pool'], 'ops': ops, 'facts': h['facts']}}, clause='history-crash')
        if len(ctx.broken) < 8:
            ctx.broke(f'correspondence: the crash of {ops[-1].get("cls")}.{ops[-1].get("meth")} after a history is not predicted by the '
                      'generated summaries + exception list')


# --------------------------------------------------------------------------------------------- prediction
def load_effects():
    sys.path.insert(0, os.path.join(C.VERIF, 'tools', 'effects'))
    os.environ['FINVERIF_REPO'] = C.REPO
    import importlib
    import extract
    importlib.reload(extract)
    extract.REPO = C.REPO
    return extract.analyse()


#: objects of these classes are not anchored by the property; their own caches are not modelled
UNMODELLED = {'IborDeposit', 'IborFRA'}


def refs_in(x, acc):
    if isinstance(x, list):
        if len(x) == 2 and x[0] == 'ref' and isinstance(x[1], str):
            acc.append(x[1])
        else:
            for v in x:
                refs_in(v, acc)
    elif isinstance(x, dict):
        for v in x.values():
            refs_in(v, acc)
    return acc


def pool_class(pool, name):
    s = pool[name]
    if isinstance(s, list) and s and s[0] == 'new':
        return s[1]
    if isinstance(s, list) and s and s[0] == 'D':
        return 'Date'
    return '<list>'


def touched(pool, op):
    """pool names an op involves directly or through the specs of its arguments"""
    acc = []
    if op.get('o'):
        acc.append(op['o'])
    refs_in(op.get('a', []), acc)
    refs_in(op.get('k', {}), acc)
    seen = []
    while acc:
        n = acc.pop()
        if n not in seen:
            seen.append(n)
            refs_in(pool[n], acc)
    return seen


class Predictor:
    """what the generated summaries allow an op to change"""

    def __init__(self, eff, classes):
        self.eff = eff
        self.classes = classes      # name -> real class (for parameter binding)
        #: anchored + auxiliary + EXTENDED classes (growth round: the receivers that used to be unjudged)
        self.all = dict(eff.get('extended', {}))
        self.all.update(eff['classes'])

    def method(self, cls, m):
        c = self.all.get(cls)
        return c['methods'].get(m) if c else None

    def allowed(self, pool, op):
        """{pool-name: set of attributes (or {'*'}) the op may change} according to the summaries"""
        out = {}
        cls, m = op.get('cls'), op.get('meth')
        if op['m'] == 'tree_build_query':
            mdl = op['a'][0][1]
            s = self.method(cls, 'build_tree')
            out[mdl] = set(s['writes']) if s else {'*'}
            return out
        if op['m'] == 'ibor_curve':
            s = self.method('IborSingleCurve', '__init__')
            names = ['value_dt', 'ibor_deposits', 'ibor_fras', 'ibor_swaps']
            for pw in (s or {}).get('pwrites', []):
                p, how = pw.split(':', 1)
                if p in names:
                    a = op['a'][names.index(p)]
                    if isinstance(a, list) and a[0] == 'ref':
                        out.setdefault(a[1], set()).add('<value>' if how.startswith('.') and how.endswith('()') else how)
            return out
        if not op.get('o'):
            return out
        s = self.method(cls, m)
        if s is None:
            # a product the extractor does not cover (BondOption, FX / equity exotics, …): it may call any public
            # method of the anchored objects it is given (e.g. build_tree on a tree model), nothing else; its OWN scratch
            # attributes are not judged (no summary to judge them against - the result comparison covers them)
            out[op['o']] = {'*'}
            for a in list(op.get('a', [])) + list(op.get('k', {}).values()):
                if isinstance(a, list) and len(a) == 2 and a[0] == 'ref':
                    c = self.all.get(pool_class(pool, a[1]))
                    if c:
                        al = out.setdefault(a[1], set())
                        for mm, sm in c['methods'].items():
                            if sm['public'] and mm != '__init__':
                                al |= set(sm['writes'])
            return out
        out[op['o']] = set(s['writes'])
        # methods called on attribute-held objects may change those objects (seen as a change of the attribute)
        for pc in s['pcalls']:
            if pc.startswith('self.'):
                out[op['o']].add(pc[5:].split(':', 1)[0])
        # parameters: bind argument specs to parameter names of the real method
        try:
            sig = inspect.signature(getattr(self.classes[cls], m))
            params = [p for p in sig.parameters][1:]
        except Exception:  # noqa: BLE001
            params = []
        bind = {}
        for i, a in enumerate(op.get('a', [])):
            if i < len(params):
                bind[params[i]] = a
        bind.update(op.get('k', {}))
        for p, a in bind.items():
            if not (isinstance(a, list) and len(a) == 2 and a[0] == 'ref'):
                continue
            tgt = a[1]
            tcls = pool_class(pool, tgt)
            al = out.setdefault(tgt, set())
            for pw in s['pwrites']:
                q, how = pw.split(':', 1)
                if q == p:
                    if how.startswith('.') and (how.endswith('=') and not how.endswith('[]=')):
                        al.add(how[1:].rstrip('+=').rstrip('='))
                    else:
                        al.add('<value>')
            for pc in s['pcalls']:
                q, mm = pc.split(':', 1)
                if q == p:
                    s2 = self.method(tcls, mm)
                    if s2 is not None:
                        al |= set(s2['writes'])
        return out


# --------------------------------------------------------------------------------------------- classifiers
def classify(h, i, a, b):
    """finding id for a result that differs between the shared history (a) and fresh objects (b), from the
    failing op AND the earlier ops of the history; None = not a listed exception.  Only the two OPEN findings have a
    classifier; the five defects repaired in /repo (BlackScholes DEFAULT, Bond pcd/ncd, key_rate_durations rates,
    caplet day counter, deposits list) have none: a recurrence is a VIOLATION."""
    ops, f, pool = h['ops'], h['facts'], h['pool']
    op = ops[i]
    prev = ops[:i]
    mine = touched(pool, op)
    # 2. Schedule.generate() called again re-anchors on the adjusted termination date (C16/regenerate-reanchors)
    if op['tag'] == 'sched':
        ngen = sum(1 for o in prev if o['tag'] == 'sched' and o['m'] in ('generate', 'schedule_dts'))
        s = f['sched']
        if s['adjust'] and f.get('sched_term_moves') and ngen >= 1:
            return 'C18/schedule-regenerate-reanchors'
    # 5. holiday_* called directly reads weekday/day_in_year left by the last is_holiday
    if op['tag'] == 'cal-direct' and op['m'] not in ('holiday_weekend', 'holiday_none'):
        return 'C18/calendar-holiday-direct-call'
    return None


# --------------------------------------------------------------------------------------------- vector vs scalar
def vector_checks(ctx, rng):
    import numpy as np
    from financepy.models import black_scholes_analytic as bsa
    from financepy.utils.date import Date
    from financepy.utils.global_types import OptionTypes
    from financepy.market.curves.discount_curve_flat import DiscountCurveFlat
    from financepy.products.equity.equity_vanilla_option import EquityVanillaOption
    from financepy.models.black_scholes import BlackScholes, BlackScholesTypes
    n = 0
    fns = ['bs_value', 'bs_delta', 'bs_gamma', 'bs_vega', 'bs_theta', 'bs_rho', 'bs_vanna']
    for _ in range(40 if ctx.quick() else 400):
        m = rng.randint(2, 7)
        s = np.array([rng.uniform(50, 150) for _ in range(m)])
        t, kk, r, q, v = rng.uniform(0.05, 5), rng.uniform(60, 140), rng.uniform(-0.01, 0.08), rng.uniform(0, 0.05), rng.uniform(0.05, 0.6)
        oc = rng.choice([OptionTypes.EUROPEAN_CALL.value, OptionTypes.EUROPEAN_PUT.value])
        for fn in fns:
            fobj = getattr(bsa, fn, None)
            if fobj is None:
                continue
            for which, vec, mk in (('s', s, lambda x: (x, t, kk, r, q, v, oc)),
                                   ('k', s, lambda x: (100.0, t, x, r, q, v, oc)),
                                   ('v', s / 300.0, lambda x: (100.0, t, kk, r, q, x, oc))):
                try:
                    va = np.asarray(fobj(*mk(vec)), dtype=float)
                    sc = np.array([float(fobj(*mk(float(x)))) for x in vec])
                except Exception as e:  # noqa: BLE001
                    ctx.violation(f'{fn}: vector call raises where scalar calls do not', {'fn': fn, 'arg': which, 'err': repr(e)[:200]},
                                  clause='vector')
                    continue
                n += len(vec)
                if va.shape != sc.shape or not np.allclose(va, sc, rtol=1e-12, atol=1e-12):
                    ctx.violation(f'{fn}: element of a vectorised call differs from the scalar call',
                                  {'fn': fn, 'vector_arg': which, 'values': vec.tolist(), 'other': [t, kk, r, q, v, oc],
                                   'vector': va.tolist(), 'scalar': sc.tolist()}, clause='vector')
    ctx.count('vector vs scalar: bs_* kernels', n)
    # curve.df on a list of dates, Date comparisons on lists, EquityVanillaOption on an array of spots
    n = 0
    for _ in range(30 if ctx.quick() else 300):
        vd = Date(rng.randint(1, 28), rng.randint(1, 12), rng.randint(2015, 2030))
        c = DiscountCurveFlat(vd, rng.uniform(-0.01, 0.08))
        ds = [vd.add_days(rng.randint(0, 4000)) for _ in range(rng.randint(1, 6))]
        va = np.asarray(c.df(ds), dtype=float)
        sc = np.array([float(c.df(d)) for d in ds])
        n += len(ds)
        if va.shape != sc.shape or not np.allclose(va, sc, rtol=1e-13, atol=0):
            ctx.violation('curve.df(list of dates) differs from the scalar calls',
                          {'value_dt': str(vd), 'dates': [str(d) for d in ds], 'vector': va.tolist(), 'scalar': sc.tolist()}, clause='vector')
        piv = ds[0]
        for opn, fn in (('<', lambda a, b: a < b), ('>', lambda a, b: a > b), ('<=', lambda a, b: a <= b), ('>=', lambda a, b: a >= b),
                        ('==', lambda a, b: a == b), ('-', lambda a, b: a - b)):
            lv = fn(piv, ds)
            ls = [fn(piv, d) for d in ds]
            n += len(ds)
            if list(lv) != ls:
                ctx.violation(f'Date {opn} list differs from element-wise comparison', {'pivot': str(piv), 'dates': [str(d) for d in ds],
                              'vector': list(lv), 'scalar': ls}, clause='vector')
        opt = EquityVanillaOption(vd.add_months(rng.choice([3, 12, 30])), float(rng.choice([90, 100, 120])),
                                  rng.choice([OptionTypes.EUROPEAN_CALL, OptionTypes.EUROPEAN_PUT]))
        mdl = BlackScholes(rng.uniform(0.1, 0.5), BlackScholesTypes.ANALYTICAL)
        dq = DiscountCurveFlat(vd, 0.01)
        spots = np.array([rng.uniform(60, 150) for _ in range(rng.randint(2, 5))])
        for meth in ('value', 'delta', 'gamma', 'vega', 'theta', 'rho'):
            try:
                va = np.asarray(getattr(opt, meth)(vd, spots, c, dq, mdl), dtype=float)
                sc = np.array([float(getattr(opt, meth)(vd, float(x), c, dq, mdl)) for x in spots])
            except Exception as e:  # noqa: BLE001
                ctx.violation(f'EquityVanillaOption.{meth}: vector call raises', {'err': repr(e)[:200]}, clause='vector')
                continue
            n += len(spots)
            if va.shape != sc.shape or not np.allclose(va, sc, rtol=1e-11, atol=1e-12):
                ctx.violation(f'EquityVanillaOption.{meth}(array of spots) differs from scalar calls',
                              {'spots': spots.tolist(), 'vector': va.tolist(), 'scalar': sc.tolist()}, clause='vector')
    ctx.count('vector vs scalar: curve.df / Date comparisons / EquityVanillaOption', n)
    date_list_checks(ctx, rng)


def date_list_checks(ctx, rng):
    """list-valued date arithmetic (add_months / add_years / add_tenor) and curve queries on date lists, element by
    element against scalar calls; start days 28-31 and lists whose elements land in months of different lengths, so
    that any state carried from one element to the next shows"""
    import numpy as np
    from financepy.utils.date import Date
    from financepy.market.curves.discount_curve_flat import DiscountCurveFlat
    from financepy.market.curves.discount_curve import DiscountCurve
    from financepy.market.curves.interpolator import InterpTypes

    def fm(x):
        return f'{x.d}-{x.m}-{x.y}'
    n = 0
    tenors = ['1M', '2M', '3M', '-1M', '13M', '1Y', '4Y', '2W', '3D', '-6M', '18M', '1D']
    mlists = [[1, 2, 3], [-1, 1, 13], [3, 2, 1], [1, 12, 13, 25], [-3, -2, -1, 0, 1], [0, 1], [11, 1]]
    for it in range(150 if ctx.quick() else 3000):
        y = rng.randint(1995, 2090)
        m = rng.randint(1, 12)
        last = (datetime.date(y + (m == 12), (m % 12) + 1, 1) - datetime.timedelta(days=1)).day
        d = rng.choice([last, last, min(29, last), min(30, last), 28, rng.randint(1, last)])
        dt = Date(d, m, y)
        cases = []
        ml = rng.choice(mlists + [[rng.randint(-30, 60) for _ in range(rng.randint(2, 6))]])
        cases.append(('add_months', ml, lambda a: dt.add_months(a)))
        cases.append(('add_months(ndarray)', ml, lambda a: dt.add_months(np.array(a)) if isinstance(a, list) else dt.add_months(a)))
        yl = [rng.choice([1, 2, -1, 0.5, 2.25, 10, 0.08, 1.5]) for _ in range(rng.randint(2, 5))]
        cases.append(('add_years', yl, lambda a: dt.add_years(a)))
        tl = [rng.choice(tenors) for _ in range(rng.randint(2, 6))]
        cases.append(('add_tenor', tl, lambda a: dt.add_tenor(a)))
        for name, lst, f in cases:
            try:
                vec = [fm(x) for x in f(list(lst))]
                sca = [fm(f(x)) for x in lst]
            except Exception as e:  # noqa: BLE001
                try:
                    [f(x) for x in lst]
                except Exception:  # noqa: BLE001   the scalar calls fail too: not a vectorisation matter
                    continue
                ctx.violation(f'Date.{name}: list call raises where the scalar calls do not',
                              {'date': fm(dt), 'list': lst, 'err': repr(e)[:200]}, clause='vector')
                continue
            n += len(lst)
            if vec != sca:
                ctx.violation(f'Date.{name}(list): an element differs from the same quantity requested alone',
                              {'call': f'Date({dt.d},{dt.m},{dt.y}).{name.split("(")[0]}({lst})', 'list_call': vec,
                               'scalar_calls': sca}, clause='vector')
    ctx.count('vector vs scalar: Date.add_months / add_years / add_tenor on lists', n)
    n = 0
    for it in range(40 if ctx.quick() else 400):
        vd = Date(rng.choice([28, 29, 30, 31, 15]), rng.choice([1, 3, 5, 7, 8, 10, 12]), rng.randint(2015, 2030))
        pill = vd.add_months([6, 24, 60, 121])
        curves = [DiscountCurveFlat(vd, rng.uniform(-0.01, 0.08)),
                  DiscountCurve(vd, pill, np.array([0.99, 0.95, 0.85, 0.7]),
                                rng.choice([InterpTypes.FLAT_FWD_RATES, InterpTypes.LINEAR_ZERO_RATES, InterpTypes.LINEAR_FWD_RATES]))]
        ds = [vd.add_months(k) for k in sorted(rng.sample(range(1, 118), rng.randint(2, 5)))]
        for c in curves:
            for name, f in (('df', lambda x: c.df(x)), ('zero_rate', lambda x: c.zero_rate(x)), ('cc_rate', lambda x: c.cc_rate(x)),
                            ('fwd', lambda x: c.fwd(x)), ('fwd_rate', lambda x: c.fwd_rate(x, '3M')),
                            ('swap_rate', lambda x: c.swap_rate(vd, x)), ('survival_prob', lambda x: c.survival_prob(x))):
                try:
                    va = np.asarray(f(list(ds)), dtype=float).ravel()
                    sc = np.array([np.asarray(f(x), dtype=float).ravel()[0] for x in ds])
                except Exception as e:  # noqa: BLE001
                    ctx.violation(f'{type(c).__name__}.{name}: call on a list of dates raises', {'err': repr(e)[:200]}, clause='vector')
                    continue
                n += len(ds)
                if va.shape != sc.shape or not np.allclose(va, sc, rtol=1e-12, atol=1e-15):
                    ctx.violation(f'{type(c).__name__}.{name}(list of dates): an element differs from the scalar call',
                                  {'value_dt': fm(vd), 'dates': [fm(x) for x in ds], 'list_call': va.tolist(), 'scalar_calls': sc.tolist()},
                                  clause='vector')
    ctx.count('vector vs scalar: curve zero_rate / cc_rate / fwd / fwd_rate / swap_rate / survival_prob on date lists', n)


def curve_vector_checks(ctx, rng):
    """growth round 7: every curve class x interpolation type, every list-taking entry point: the call on a list of
    dates (1 element, several, WITH the value date and the day after among them) against the scalar calls, BIT FOR BIT
    (the same compiled kernel / NumPy ufunc evaluates both, so no tolerance is needed and none is used).  This is the
    executable reading of Props/C18e and the validation of what Gen/VecShape trusts (element-wise NumPy / SciPy / Numba)."""
    import numpy as np
    from financepy.utils.date import Date
    from financepy.utils.frequency import FrequencyTypes
    from financepy.utils.day_count import DayCountTypes
    from financepy.market.curves.discount_curve import DiscountCurve
    from financepy.market.curves.discount_curve_flat import DiscountCurveFlat
    from financepy.market.curves.discount_curve_zeros import DiscountCurveZeros
    from financepy.market.curves.discount_curve_pwf import DiscountCurvePWF
    from financepy.market.curves.discount_curve_pwl import DiscountCurvePWL
    from financepy.market.curves.discount_curve_ns import DiscountCurveNS
    from financepy.market.curves.discount_curve_nss import DiscountCurveNSS
    from financepy.market.curves.discount_curve_poly import DiscountCurvePoly
    from financepy.market.curves.interpolator import InterpTypes, Interpolator, interpolate
    from financepy.utils.helpers import times_from_dates

    def fm(x):
        return f'{x.d}-{x.m}-{x.y}'

    def bits(f):
        try:
            return [float(x).hex() for x in np.asarray(f(), dtype=float).ravel()]
        except Exception as e:  # noqa: BLE001
            return 'E:' + type(e).__name__
    n = nfind = 0
    spline_log = (InterpTypes.PCHIP_LOG_DISCOUNT, InterpTypes.NATCUBIC_LOG_DISCOUNT)
    freqs = [FrequencyTypes.CONTINUOUS, FrequencyTypes.SIMPLE, FrequencyTypes.ANNUAL, FrequencyTypes.SEMI_ANNUAL, FrequencyTypes.QUARTERLY]
    dcs = [DayCountTypes.ACT_ACT_ISDA, DayCountTypes.ACT_365F, DayCountTypes.ACT_360, DayCountTypes.THIRTY_E_360]
    for it in range(6 if ctx.quick() else 60):
        vd = Date(rng.choice([28, 29, 30, 31, 15, 1]), rng.choice([1, 3, 5, 7, 8, 10, 12]), rng.randint(2015, 2030))
        pill = vd.add_months(sorted(rng.sample(range(3, 200), 5)))
        dfs = np.cumprod([rng.uniform(0.93, 0.999) for _ in range(5)])
        zr = [rng.uniform(0.005, 0.06) for _ in range(5)]
        fq, dc = rng.choice(freqs), rng.choice(dcs)
        curves = []
        for ity in InterpTypes:
            curves.append((f'DiscountCurve[{ity.name}]', DiscountCurve(vd, pill, np.array(dfs), ity), ity))
            curves.append((f'DiscountCurveZeros[{ity.name},{fq.name},{dc.name}]', DiscountCurveZeros(vd, pill, np.array(zr), fq, dc, ity), ity))
        curves += [(f'DiscountCurveFlat[{fq.name},{dc.name}]', DiscountCurveFlat(vd, rng.uniform(-0.01, 0.08), fq, dc), None),
                   (f'DiscountCurvePWF[{fq.name},{dc.name}]', DiscountCurvePWF(vd, pill, zr, fq, dc), None),
                   (f'DiscountCurvePWL[{fq.name},{dc.name}]', DiscountCurvePWL(vd, pill, zr, fq, dc), None),
                   (f'DiscountCurveNS[{fq.name},{dc.name}]', DiscountCurveNS(vd, 0.03, -0.01, 0.012, rng.uniform(0.5, 4), fq, dc), None),
                   (f'DiscountCurveNSS[{fq.name},{dc.name}]', DiscountCurveNSS(vd, 0.03, -0.01, 0.012, 0.004, rng.uniform(0.5, 3), rng.uniform(3, 8), fq, dc), None),
                   (f'DiscountCurvePoly[{fq.name},{dc.name}]', DiscountCurvePoly(vd, [0.02, 0.002, -0.00004], fq, dc), None)]
        ds = [vd, vd.add_days(1)] + [vd.add_days(rng.randint(2, 6500)) for _ in range(rng.randint(1, 4))] + [rng.choice(pill)]
        rng.shuffle(ds)
        lists = [ds, [ds[0]], ds[:2]]
        for name, c, ity in curves:
            meths = [('df', lambda x, c=c: c.df(x)), ('zero_rate', lambda x, c=c: c.zero_rate(x, fq, dc)), ('cc_rate', lambda x, c=c: c.cc_rate(x)),
                     ('fwd', lambda x, c=c: c.fwd(x)), ('fwd_rate', lambda x, c=c: c.fwd_rate(x, '3M')),
                     ('swap_rate', lambda x, c=c: c.swap_rate(vd, x)), ('survival_prob', lambda x, c=c: c.survival_prob(x))]
            for mname, f in meths:
                for lst in lists:
                    if mname == 'swap_rate':
                        lst = [x for x in lst if x > vd] or [vd.add_days(400)]
                    if mname == 'survival_prob' and len(lst) > 1 and not isinstance(c, DiscountCurve):
                        continue
                    vec = bits(lambda: f(list(lst)))
                    sca = [bits(lambda: f(x)) for x in lst]
                    n += len(lst)
                    if isinstance(vec, str):
                        if vec in sca:
                            continue            # the first failing element fails alone with the same error
                        sflat = None
                        if vec == 'E:ValueError' and mname == 'swap_rate' and type(c).__name__ in ('DiscountCurvePWF', 'DiscountCurvePWL', 'DiscountCurvePoly') \
                                and any(x == [(0.0).hex()] for x in sca) and any(isinstance(x, list) and x != [(0.0).hex()] for x in sca):
                            ctx.violation(f'{name}.swap_rate(list) raises ValueError where every scalar call returns',
                                          {'curve': name, 'value_dt': fm(vd), 'dates': [fm(x) for x in lst], 'scalar_calls': sca},
                                          finding='C18/swap-rate-list-mixed-shapes', clause='vector')
                            continue
                    else:
                        sflat = [s[0] if isinstance(s, list) and len(s) == 1 else s for s in sca]
                    if sflat is not None and vec == sflat:
                        continue
                    # narrow classifier of the known finding: spline of log(df), the ONLY differing elements are the value date
                    # (t = 0), where the scalar call returns exactly 1.0
                    known = None
                    if sflat is not None and ity in spline_log and len(vec) == len(sflat) and mname in ('df', 'survival_prob', 'zero_rate', 'cc_rate', 'fwd', 'fwd_rate'):
                        diff = [i for i in range(len(lst)) if vec[i] != sflat[i]]
                        at0 = [i for i in diff if lst[i] == vd or (mname == 'fwd_rate' and False)]
                        if diff and diff == at0 and (mname not in ('df', 'survival_prob') or all(sflat[i] == (1.0).hex() for i in diff)):
                            known = 'C18/interpolator-zero-time-shortcut'
                            nfind += 1
                    ctx.violation(f'{name}.{mname}(list of dates): an element differs bit-for-bit from the same quantity requested alone',
                                  {'curve': name, 'value_dt': fm(vd), 'method': mname, 'dates': [fm(x) for x in lst],
                                   'list_call': vec, 'scalar_calls': sca}, finding=known, clause='vector')
        # the time-level entry points: interpolate / Interpolator.interpolate / df_t on ndarrays incl. 0.0, a pillar, beyond the last pillar
        c0 = curves[0][1]
        tt = np.array([0.0, 1.0 / 365.0] + [rng.uniform(0.0, 25.0) for _ in range(4)] + [float(c0._times[2]), float(c0._times[-1]), 30.0])
        for name, c, ity in curves:
            if ity is None:
                continue
            for fname, f in (('df_t', lambda x, c=c: c.df_t(x)), ('_interpolator.interpolate', lambda x, c=c: c._interpolator.interpolate(x)),
                             ('interpolate', lambda x, c=c: interpolate(x, c._times, c._dfs, c._interp_type.value))):
                if fname == 'interpolate' and ity.value not in (1, 2, 4):
                    continue
                for arr in (tt, tt[:1], tt[3:4]):
                    vec = bits(lambda: f(arr))
                    sca = [bits(lambda: f(float(x))) for x in arr]
                    n += len(arr)
                    sflat = [s[0] if isinstance(s, list) and len(s) == 1 else s for s in sca]
                    if vec == sflat or (isinstance(vec, str) and vec in sca):
                        continue
                    known = None
                    if not isinstance(vec, str) and (ity in spline_log or fname == '_interpolator.interpolate'):
                        diff = [i for i in range(len(arr)) if vec[i] != sflat[i]]
                        if diff and all(abs(arr[i]) < 1e-10 and sflat[i] == (1.0).hex() for i in diff):
                            known = 'C18/interpolator-zero-time-shortcut'
                            nfind += 1
                    ctx.violation(f'{name}.{fname}(ndarray of times): an element differs bit-for-bit from the scalar call',
                                  {'curve': name, 'times': [float(x) for x in arr], 'array_call': vec, 'scalar_calls': sca},
                                  finding=known, clause='vector')
        for dcx in [None] + dcs:
            vec = bits(lambda: times_from_dates(list(ds), vd, dcx))
            sca = [bits(lambda: times_from_dates(x, vd, dcx))[0] for x in ds]
            n += len(ds)
            if vec != sca:
                ctx.violation('times_from_dates(list) differs from the scalar conversions', {'value_dt': fm(vd), 'day_count': str(dcx),
                              'dates': [fm(x) for x in ds], 'list_call': vec, 'scalar_calls': sca}, clause='vector')
    # the empty list: the generated model says IndexError (Props/C18e.times_from_dates_empty)
    try:
        times_from_dates([], Date(1, 1, 2020), None)
        ctx.broke('correspondence: times_from_dates([]) returns, Gen/VecShape (times_from_dates_empty) says it raises')
    except IndexError:
        pass
    except Exception as e:  # noqa: BLE001
        ctx.broke(f'correspondence: times_from_dates([]) raises {type(e).__name__}, Gen/VecShape says IndexError')
    ctx.count('vector vs scalar BIT-FOR-BIT: curve class x interpolation type x entry point (lists incl. value date; ndarrays of times incl. 0)',
              n, n, sample={'known_finding_hits': nfind})
    if nfind == 0:
        print('NOTE C18: the value-date / spline-of-log-df discrepancy (C18/interpolator-zero-time-shortcut) did not reproduce')


# --------------------------------------------------------------------------------------------- growth round: model ties
def module_state_snapshot():
    """digest of every module-level value and every class-level container of the loaded financepy modules"""
    import hashlib
    import pickle
    import types
    snap = {}

    def dig(v):
        try:
            return hashlib.sha1(pickle.dumps(v, protocol=4)).hexdigest()
        except Exception:  # noqa: BLE001
            return None
    for name, mod in list(sys.modules.items()):
        if not (name == 'financepy' or name.startswith('financepy.')) or mod is None:
            continue
        rel = name.replace('.', '/') + '.py'
        for k, v in list(vars(mod).items()):
            if k.startswith('__'):
                continue
            if isinstance(v, type):
                if getattr(v, '__module__', None) == name:
                    for a, av in list(vars(v).items()):
                        if isinstance(av, (list, dict, set)):
                            d = dig(av) or repr((len(av), sorted(map(repr, av))))
                            snap[(rel, f'{v.__name__}.{a}')] = d
                continue
            if isinstance(v, (types.ModuleType, types.FunctionType, types.BuiltinFunctionType)) or callable(v):
                continue
            d = dig(v)
            if d is not None:
                snap[(rel, k)] = d
    return snap


def module_state_check(ctx, eff, before):
    """runtime side of `module_globals_written_are_exactly`: after everything this process has done (vector checks, date
    lists, curves, the exotic `theta` calls) plus a table extension and a format change, the module-level values that
    changed must be among the generated `module_state` names, and the date table / format MUST be seen to change"""
    from financepy.utils.date import Date, set_date_format, DateFormatTypes
    import financepy.utils.date as fdate
    old = fdate.g_date_type_format
    try:
        set_date_format(DateFormatTypes.US_LONGEST if old != DateFormatTypes.US_LONGEST else DateFormatTypes.UK_LONG)
        Date(1, 1, fdate.g_end_year + 3)
        after = module_state_snapshot()
    finally:
        set_date_format(old)
    allowed = {(r[0], r[3]) for r in eff.get('module_state', [])}
    changed = sorted(k for k in before if k in after and before[k] != after[k])
    ctx.count('module-level state: values digested before / after the in-process calls', len(before), len(changed),
              sample={'changed': [list(k) for k in changed]})
    bad = [k for k in changed if k not in allowed]
    if bad:
        ctx.violation('a module-level value changed during API calls and is not in the generated list of module state',
                      {'changed': [list(k) for k in bad], 'allowed': sorted(map(list, allowed))}, clause='process-state')
        ctx.broke('correspondence: module_state (tools/effects/extract.py) misses a module-level write that was observed')
    for want in (('financepy/utils/date.py', 'g_end_year'), ('financepy/utils/date.py', 'g_dt_counter_list'),
                 ('financepy/utils/date.py', 'g_date_type_format')):
        if want not in changed:
            ctx.broke(f'module-state observer is blind: {want[1]} was changed on purpose and not seen')


def interclass_cases():
    """(label, object, method name, positional arguments, {parameter name: argument object}) — representative valuation calls that
    receive curves / models / other instruments"""
    from financepy.utils.date import Date
    from financepy.utils.frequency import FrequencyTypes
    from financepy.utils.day_count import DayCountTypes
    from financepy.utils.global_types import SwapTypes, OptionTypes, FinCapFloorTypes
    from financepy.market.curves.discount_curve_flat import DiscountCurveFlat
    from financepy.market.curves.discount_curve import DiscountCurve
    from financepy.products.rates.ibor_swap import IborSwap
    from financepy.products.rates.ibor_cap_floor import IborCapFloor
    from financepy.products.rates.ibor_deposit import IborDeposit
    from financepy.products.rates.ibor_single_curve import IborSingleCurve
    from financepy.products.bonds.bond import Bond
    from financepy.products.equity.equity_vanilla_option import EquityVanillaOption
    from financepy.products.equity.equity_digital_option import EquityDigitalOption, FinDigitalOptionTypes
    from financepy.products.fx.fx_vanilla_option import FXVanillaOption
    from financepy.products.credit.cds import CDS
    from financepy.products.credit.cds_curve import CDSCurve
    from financepy.models.black_scholes import BlackScholes
    from financepy.models.black import Black
    vd = Date(15, 1, 2026)
    flat = lambda r: DiscountCurveFlat(vd, r)                                                   # noqa: E731
    dts = [vd.add_years(i) for i in range(0, 8)]
    import numpy as np
    pillars = lambda: DiscountCurve(vd, dts, np.array([0.97 ** i for i in range(0, 8)]))                  # noqa: E731
    cases = []
    sw = IborSwap(vd, '5Y', SwapTypes.PAY, 0.03, FrequencyTypes.SEMI_ANNUAL, DayCountTypes.ACT_365F)
    c1, c2 = flat(0.03), pillars()
    cases.append(('IborSwap.value', sw, 'value', (vd, c1, c2), {'discount_curve': c1, 'index_curve': c2}))
    c1 = pillars()
    cases.append(('IborSwap.pv01', sw, 'pv01', (vd, c1), {'discount_curve': c1}))
    c1 = flat(0.025)
    cases.append(('IborSwap.swap_rate', sw, 'swap_rate', (vd, c1), {'discount_curve': c1}))
    bond = Bond(Date(15, 1, 2020), Date(15, 1, 2032), 0.04, FrequencyTypes.SEMI_ANNUAL, DayCountTypes.ACT_ACT_ICMA)
    c1 = pillars()
    cases.append(('Bond.dirty_price_from_discount_curve', bond, 'dirty_price_from_discount_curve', (vd, c1), {'discount_curve': c1}))
    c1 = flat(0.04)
    cases.append(('Bond.clean_price_from_discount_curve', bond, 'clean_price_from_discount_curve', (vd, c1), {'discount_curve': c1}))
    opt = EquityVanillaOption(vd.add_years(1), 100.0, OptionTypes.EUROPEAN_CALL)
    for meth in ('value', 'delta', 'vega', 'theta'):
        c1, c2, m = flat(0.03), flat(0.01), BlackScholes(0.2)
        cases.append(('EquityVanillaOption.' + meth, opt, meth, (vd, 100.0, c1, c2, m),
                      {'discount_curve': c1, 'dividend_curve': c2, 'model': m}))
    dig = EquityDigitalOption(vd.add_years(1), 100.0, OptionTypes.EUROPEAN_CALL, FinDigitalOptionTypes.CASH_OR_NOTHING)
    c1, c2, m = flat(0.03), flat(0.01), BlackScholes(0.2)
    cases.append(('EquityDigitalOption.theta', dig, 'theta', (vd, 100.0, c1, c2, m),
                  {'discount_curve': c1, 'dividend_curve': c2, 'model': m}))
    fx = FXVanillaOption(vd.add_years(1), 1.3, 'EURUSD', OptionTypes.EUROPEAN_CALL, 1000000.0, 'USD')
    c1, c2, m = flat(0.03), flat(0.01), BlackScholes(0.1)
    cases.append(('FXVanillaOption.value', fx, 'value', (vd, 1.25, c1, c2, m), {'domestic_curve': c1, 'foreign_curve': c2, 'model': m}))
    cap = IborCapFloor(vd, '3Y', FinCapFloorTypes.CAP, 0.03)
    c1, m = pillars(), Black(0.25)
    cases.append(('IborCapFloor.value', cap, 'value', (vd, c1, m), {'libor_curve': c1, 'model': m}))
    libor = IborSingleCurve(vd, [IborDeposit(vd, '6M', 0.03, DayCountTypes.ACT_360)], [],
                            [IborSwap(vd, f'{k}Y', SwapTypes.PAY, 0.03 + 0.001 * k, FrequencyTypes.SEMI_ANNUAL, DayCountTypes.ACT_365F)
                             for k in (1, 2, 3, 5, 7)])
    cases.append(('IborSwap.value (bootstrapped curve)', sw, 'value', (vd, libor, libor), {'discount_curve': libor, 'index_curve': libor}))
    cds_list = [CDS(vd, f'{k}Y', 0.01 + 0.001 * k) for k in (1, 3, 5)]
    issuer = CDSCurve(vd, cds_list, libor, 0.4)
    cds = CDS(vd, '4Y', 0.015)
    cases.append(('CDS.value', cds, 'value', (vd, issuer, 0.4), {'issuer_curve': issuer}))
    cases.append(('CDS.risky_pv01', cds, 'risky_pv01', (vd, issuer), {'issuer_curve': issuer}))
    return cases


def interclass_effects_check(ctx, eff):
    """runtime side of Props/C18f: on representative valuation calls, every attribute of every ARGUMENT object is digested before and
    after; an argument's attribute may change only if the generated call graph predicts it: it is among the `writes` of a method of the
    argument's class (or of a base class) reachable from the called method through `call_graph` edges, or among the called method's own
    parameter writes on that parameter."""
    import c18_hist
    cg = eff['call_graph']
    succ = {}
    for e in cg['edges']:
        succ.setdefault((e[0], e[1]), set()).add((e[3], e[4]))
    node_writes = {(n[0], n[1]): set(n[2]) for n in cg['nodes']}
    allc = dict(eff.get('classes', {}))
    allc.update(eff.get('extended', {}))
    allc.update(cg.get('targets', {}))
    try:
        cases = interclass_cases()
    except Exception as e:  # noqa: BLE001
        ctx.broke(f'inter-class effects check could not build its objects: {type(e).__name__}: {e}')
        return
    ncalls = nargs = nchanged = 0
    seen_edges = 0
    for label, obj, meth, args, watched in cases:
        cls = type(obj).__name__
        reach, todo = set(), [(cls, meth)]
        while todo:
            k = todo.pop()
            for t in succ.get(k, ()):
                if t not in reach:
                    reach.add(t)
                    todo.append(t)
        seen_edges += len(reach)
        own = (allc.get(cls, {}).get('methods', {}).get(meth) or {}).get('pwrites', [])
        before = {p: c18_hist.digest(o) for p, o in watched.items()}
        try:
            getattr(obj, meth)(*args)
        except Exception as e:  # noqa: BLE001
            ctx.broke(f'inter-class effects check: {label} raised {type(e).__name__}: {e}')
            continue
        ncalls += 1
        for p, o in watched.items():
            nargs += 1
            after = c18_hist.digest(o)
            changed = sorted(a for a in set(before[p]) | set(after) if before[p].get(a) != after.get(a))
            if not changed:
                continue
            nchanged += 1
            names = {k.__name__ for k in type(o).__mro__}
            predicted = set()
            for (k, m) in reach:
                if k in names:
                    predicted |= node_writes.get((k, m), set())
            for pw in own:
                q, how = pw.split(':', 1)
                if q == p and how.startswith('.'):
                    predicted.add(how[1:].split('=')[0].split('+')[0].split('.')[0].split('(')[0])
            bad = [a for a in changed if a not in predicted]
            if bad:
                ctx.broke(f'correspondence: {label} changed attribute(s) {bad} of its argument `{p}` ({type(o).__name__}); the generated '
                          f'call graph and summaries (Props/C18f) predict only {sorted(predicted)}')
    ctx.count('inter-class effects: argument objects digested before / after a valuation call (changed ones counted as nontrivial)',
              nargs, nchanged, sample={'calls': ncalls, 'reached (class, method) pairs over all calls': seen_edges})
    if ncalls < 10 or seen_edges == 0:
        ctx.broke('inter-class effects check is blind: fewer than 10 calls ran or the call graph reaches nothing from them')


def theta_bump_checks(ctx, rng, drivers_ok=True):
    """`theta` of the exotic options (EquityOption.theta / FXOption.theta) moves the value_dt of the CALLER's curves and
    sets it back: implementation vs the state machine of Model/C18x (Driver/C18 `TH`), and the property itself — the
    curves and the next `value` must be what they were.  Known finding: on the last valid valuation date the second
    valuation raises and the curves stay one day ahead."""
    from financepy.utils.date import Date
    from financepy.market.curves.discount_curve_flat import DiscountCurveFlat
    from financepy.models.black_scholes import BlackScholes
    from financepy.utils.global_types import OptionTypes, TouchOptionTypes
    from financepy.products.equity.equity_digital_option import EquityDigitalOption, FinDigitalOptionTypes
    from financepy.products.equity.equity_barrier_option import EquityBarrierOption, EquityBarrierTypes
    from financepy.products.equity.equity_one_touch_option import EquityOneTouchOption
    from financepy.products.equity.equity_chooser_option import EquityChooserOption
    from financepy.products.equity.equity_compound_option import EquityCompoundOption
    from financepy.products.fx.fx_barrier_option import FXBarrierOption, FinFXBarrierTypes
    from financepy.products.fx.fx_one_touch_option import FXOneTouchOption

    def fm(x):
        return f'{x.d}-{x.m}-{x.y}'
    model = BlackScholes(0.2)
    ops, obs, cases = [], [], []
    n = 0
    for it in range(6 if ctx.quick() else 60):
        ex = Date(rng.randint(1, 28), rng.randint(1, 12), rng.randint(2025, 2032))
        far = ex.add_months(12)
        prods = [
            ('EquityDigitalOption', EquityDigitalOption(ex, 100.0, OptionTypes.EUROPEAN_CALL, FinDigitalOptionTypes.CASH_OR_NOTHING), 100.0),
            ('EquityBarrierOption', EquityBarrierOption(ex, 100.0, EquityBarrierTypes.DOWN_AND_OUT_CALL, 60.0), 100.0),
            ('EquityOneTouchOption', EquityOneTouchOption(ex, TouchOptionTypes.UP_AND_IN_CASH_AT_EXPIRY, 160.0, 10.0), 100.0),
            ('EquityChooserOption', EquityChooserOption(ex, far, far, 100.0, 100.0), 100.0),
            ('EquityCompoundOption', EquityCompoundOption(ex, OptionTypes.EUROPEAN_CALL, 5.0, far, OptionTypes.EUROPEAN_CALL, 100.0), 100.0),
            ('FXBarrierOption', FXBarrierOption(ex, 1.1, 'EURUSD', FinFXBarrierTypes.UP_AND_OUT_CALL, 1.45, 252, 1e6, 'USD'), 1.1),
            ('FXOneTouchOption', FXOneTouchOption(ex, TouchOptionTypes.UP_AND_IN_CASH_AT_EXPIRY, 1.4, 1e6), 1.1),
        ]
        for cname, prod, spot in prods:
            def val(vd):
                a, b = DiscountCurveFlat(vd, 0.03), DiscountCurveFlat(vd, 0.01)
                try:
                    return C18_canon(prod.value(vd, spot, a, b, model))
                except Exception as e:  # noqa: BLE001
                    return 'raise:' + type(e).__name__
            # the last date on which value() returns (the model's `expiry`): the expiry date, or the day before where the
            # formula divides by the time to expiry
            last_ok = ex if not str(val(ex)).startswith('raise') else ex.add_days(-1)
            if str(val(last_ok)).startswith('raise') or not str(val(last_ok.add_days(1))).startswith('raise'):
                ctx.broke(f'theta model: cannot locate the last valid valuation date of {cname} (expiry {fm(ex)})')
                continue
            for back, off1, off2 in ((0, 0, 0), (1, 0, 0), (rng.randint(2, 400), 0, 0), (rng.randint(2, 400), rng.choice([-1, 1, 30]), 0),
                                     (rng.randint(2, 400), 0, rng.choice([-1, 2])), (-1, 0, 0)):
                vd = last_ok.add_days(-back)
                c1, c2 = DiscountCurveFlat(vd.add_days(off1), 0.03), DiscountCurveFlat(vd.add_days(off2), 0.01)
                b1, b2 = c1.value_dt, c2.value_dt
                before = None
                try:
                    before = C18_canon(prod.value(vd, spot, c1, c2, model))
                except Exception as e:  # noqa: BLE001
                    before = 'raise:' + type(e).__name__
                try:
                    prod.theta(vd, spot, c1, c2, model)
                    out = 'ret'
                except Exception as e:  # noqa: BLE001
                    out = 'raise'
                a1, a2 = c1.value_dt, c2.value_dt
                try:
                    after = C18_canon(prod.value(vd, spot, c1, c2, model))
                except Exception as e:  # noqa: BLE001
                    after = 'raise:' + type(e).__name__
                n += 1
                ops.append(f'TH {int(last_ok.excel_dt)} {int(vd.excel_dt)} {int(b1.excel_dt)} {int(b2.excel_dt)}')
                obs.append(f'{out} {int(a1.excel_dt)} {int(a2.excel_dt)}')
                case = {'class': cname, 'expiry': fm(ex), 'history': [
                    f'c1 = DiscountCurveFlat({fm(b1)}, 0.03); c2 = DiscountCurveFlat({fm(b2)}, 0.01)',
                    f'{cname}.value({fm(vd)}, {spot}, c1, c2, BlackScholes(0.2)) -> {before}',
                    f'{cname}.theta({fm(vd)}, {spot}, c1, c2, BlackScholes(0.2)) -> {out}',
                    f'c1.value_dt = {fm(a1)}, c2.value_dt = {fm(a2)}',
                    f'{cname}.value({fm(vd)}, {spot}, c1, c2, BlackScholes(0.2)) -> {after}']}
                cases.append(case)
                if (a1, a2) != (b1, b2) or after != before:
                    # classifier: the call raised, on the last valid valuation date, with both curves anchored on it
                    fid = 'C18/theta-exception-leaves-curve-date' if (out == 'raise' and back == 0 and off1 == 0 and off2 == 0 and
                                                                      not str(before).startswith('raise')) else None
                    ctx.violation('theta leaves the caller\'s curves on another valuation date: the same value() call differs afterwards',
                                  case, finding=fid, clause='inputs-usable')
    ctx.count('theta bump-and-restore of the caller\'s curves (7 exotic classes): value / theta / value', n, n,
              sample=cases[0] if cases else None)
    if drivers_ok and ops:
        got = C.run_driver('C18', ops)
        bad = [(o, a, b, c) for o, a, b, c in zip(ops, obs, got, cases) if a != b]
        ctx.count('implementation vs model: exoticTheta state machine (Driver/C18 TH)', len(ops), len(ops))
        if bad:
            ctx.broke(f'correspondence: exoticTheta (Model/C18x) disagrees with the implementation on {len(bad)} cases, e.g. '
                      f'{bad[0][0]}: implementation {bad[0][1]!r}, model {bad[0][2]!r}, {bad[0][3]["class"]}')


def C18_canon(v):
    import numpy as np
    if isinstance(v, dict):
        v = v.get('value', v.get('v', sorted(v.items())[0][1] if v else None))
    try:
        return float(np.asarray(v, dtype=float).ravel()[0]).hex()
    except Exception:  # noqa: BLE001
        return repr(v)


def date_list_model_checks(ctx, rng, drivers_ok=True):
    """the list branch of add_months / add_years (whole years) / add_tenor: implementation vs the loop model of
    Model/C18x Part 6 run by Driver/C18 (about which Props/C18d proves list = map of the scalar model)"""
    if not drivers_ok:
        return
    from financepy.utils.date import Date

    def fmt(f):
        try:
            return ','.join(f'{x.d} {x.m} {x.y}' for x in f())
        except Exception as e:  # noqa: BLE001
            return 'E:' + type(e).__name__
    ops, impl = [], []
    units = {'D': 1, 'W': 2, 'M': 3, 'Y': 4}
    for it in range(120 if ctx.quick() else 3000):
        y = rng.randint(1902, 2150)
        m = rng.randint(1, 12)
        last = (datetime.date(y + (m == 12), (m % 12) + 1, 1) - datetime.timedelta(days=1)).day
        d = rng.choice([last, last, min(29, last), min(30, last), 28, rng.randint(1, last)])
        dt = Date(d, m, y)
        ml = rng.choice([[1, 2, 3], [-1, 1, 13], [3, 2, 1], [1, 12, 13, 25], [0, 1], [11, 1],
                         [rng.randint(-30, 60) for _ in range(rng.randint(1, 6))]])
        ops.append(f'AML {d} {m} {y} ' + ' '.join(map(str, ml)))
        impl.append(fmt(lambda: dt.add_months(list(ml))))
        k = rng.randint(-30, 60)
        ops.append(f'AMS {d} {m} {y} {k}')
        impl.append(fmt(lambda: [dt.add_months(k)]))
        yl = [rng.randint(-2, 12) for _ in range(rng.randint(1, 5))]
        ops.append(f'AYL {d} {m} {y} ' + ' '.join(map(str, yl)))
        impl.append(fmt(lambda: dt.add_years(list(yl))))
        tl = [(rng.choice([1, 2, 3, 6, 12, 13, 18, -1, -6, 4]), rng.choice('DWMMYY')) for _ in range(rng.randint(1, 5))]
        tl = [(max(-8, min(8, n_)) if u == 'Y' else n_, u) for n_, u in tl]
        ops.append(f'ATL {d} {m} {y} ' + ' '.join(f'{n_} {units[u]}' for n_, u in tl))
        impl.append(fmt(lambda: dt.add_tenor([f'{n_}{u}' for n_, u in tl])))
    got = C.run_driver('C18', ops)
    bad = [(o, a, b) for o, a, b in zip(ops, impl, got) if a != (b if not b.startswith('E:') else 'E:' + a[2:] if a.startswith('E:') else b)]
    ctx.count('implementation vs model: Date.add_months / add_years / add_tenor on LISTS (Driver/C18)', len(ops), len(ops),
              sample={'op': ops[0], 'implementation': impl[0], 'model': got[0]})
    if bad:
        ctx.broke(f'correspondence: list-valued date arithmetic (Model/C18x) disagrees with the implementation on {len(bad)} cases, '
                  f'e.g. {bad[0][0]}: implementation {bad[0][1]!r}, model {bad[0][2]!r}')


# --------------------------------------------------------------------------------------------- main
def explore(ctx, hists, eff, label):
    """run histories shared / fresh, compare results and effects"""
    from financepy.utils.calendar import Calendar, CalendarTypes, BusDayAdjustTypes
    from financepy.utils.date import Date
    for h in hists:
        s = h['facts']['sched']
        try:
            t = Date(*s['term'])
            h['facts']['sched_term_moves'] = bool(Calendar(CalendarTypes[s['cal']]).adjust(t, BusDayAdjustTypes[s['conv']]) != t)
        except Exception:  # noqa: BLE001
            h['facts']['sched_term_moves'] = False
    with ThreadPoolExecutor(max_workers=2) as ex:
        fa = ex.submit(run_parallel, 'shared', hists, True, max(1, NPROC // 2))
        fb = ex.submit(run_parallel, 'fresh', hists, False, max(1, NPROC // 2))
        A, B = fa.result(), fb.result()
    fresh_dead = [(hi, i) for hi, i in B.get('crashed', {}).items() if i['kind'] != 'skipped']
    if fresh_dead:
        hi, i = fresh_dead[0]
        op = hists[hi]['ops'][i['op']] if i['op'] is not None else None
        raise RuntimeError(f'the FRESH evaluation worker {i["kind"]} (rc={i["rc"]}) on {show(op) if op else "?"}: not a history '
                           'dependence\n' + i['stderr'][-800:])
    report_crashes(ctx, hists, A)
    import c18_hist
    pred = Predictor(eff, c18_hist.CLS)
    nops = nontriv = ndiff = 0
    per_tag = {}
    suspicious = []
    for hi, h in enumerate(hists):
        ra, rb, ea = A['results'][hi], B['results'][hi], A['effects'][hi]
        if ra is None or rb is None:
            continue            # the worker died on this history (reported by report_crashes) or it was skipped
        seen = set()
        glob = False
        for i, op in enumerate(h['ops']):
            nops += 1
            t = set(touched(h['pool'], op))
            if (t & seen) or glob:
                nontriv += 1
            seen |= t
            glob = glob or op['tag'] == 'global'
            pt = per_tag.setdefault(op['tag'], [0, 0])
            pt[0] += 1
            if ra[i] != rb[i]:
                ndiff += 1
                pt[1] += 1
                fnd = classify(h, i, ra[i], rb[i])
                suspicious.append((hi, i, fnd))
            if op['tag'] == 'print':
                sm = pred.method(op.get('cls'), op.get('meth'))
                if sm is not None and not sm.get('text') and not any('builds text' in m for m in ctx.broken):
                    ctx.broke(f'correspondence: {op.get("cls")}.{op.get("meth")} builds text from dates but the generated summary does not say so')
            # effects against the generated write sets
            if ea and ea[i]:
                allowed = pred.allowed(h['pool'], op)
                for name, attrs in ea[i].items():
                    pc = pool_class(h['pool'], name)
                    if pc in UNMODELLED:
                        continue
                    al = allowed.get(name, set())
                    extra = [x for x in attrs if x not in al and '*' not in al]
                    # constructing an object at first use is not an effect of the call
                    if extra:
                        msg = (f'correspondence effects: {op.get("cls")}.{op.get("meth")} changed {name}.{extra} '
                               f'({pc}) which the generated summaries do not predict (allowed: {sorted(al)})')
                        if not any(m.startswith(msg[:90]) for m in ctx.broken) and len(ctx.broken) < 8:
                            ctx.broke(msg)
    ctx.count(label, nops, nontriv, sample={'ops': [f"{o.get('o') or ''}.{o['m']}" for o in hists[0]['ops']][:6]} if hists else None)
    comp = ctx.cov['components'][label]
    comp['histories'] = len(hists)
    comp['results_differing_from_fresh'] = ndiff
    comp['ops_by_kind'] = {k: v[0] for k, v in sorted(per_tag.items())}
    comp['differing_by_kind'] = {k: v[1] for k, v in sorted(per_tag.items()) if v[1]}
    return A, B, suspicious


def ulp_close(a, b, n=2):
    """canonical results equal up to n units in the last place of every float (and exactly elsewhere)"""
    import math
    if isinstance(a, str) and isinstance(b, str) and a.startswith('f:') and b.startswith('f:'):
        x, y = float.fromhex(a[2:]), float.fromhex(b[2:])
        if x == y or (math.isnan(x) and math.isnan(y)):
            return True
        if math.isinf(x) or math.isinf(y) or math.isnan(x) or math.isnan(y):
            return False
        return abs(x - y) <= n * max(math.ulp(x), math.ulp(y))
    if isinstance(a, list) and isinstance(b, list):
        return len(a) == len(b) and all(ulp_close(x, y, n) for x, y in zip(a, b))
    if isinstance(a, dict) and isinstance(b, dict):
        return a.keys() == b.keys() and all(ulp_close(a[k], b[k], n) for k in a)
    return a == b


def last_results(cands):
    """[(shared result, fresh result) of the LAST op] for candidate histories, two processes in all"""
    if not cands:
        return []
    # the fresh side evaluates ONLY the last call of each candidate (in an interpreter that has not seen the history)
    lasts = [{'pool': c['pool'], 'ops': c['ops'][-1:]} for c in cands]
    with ThreadPoolExecutor(max_workers=2) as ex:
        fa = ex.submit(run_robust, 'shared', cands, False, 50)
        fb = ex.submit(run_job, 'fresh', lasts)
        A, B = fa.result()['results'], fb.result()['results']
    # a candidate that kills its worker counts as "differs from fresh"
    return [((x[-1] if x is not None else 'E:INTERPRETER-CRASH'), y[-1]) for x, y in zip(A, B)]


def minimise_all(items):
    """items = [(history, index)] -> [(ops, a, b) or (None, None, None)]: does the difference reproduce when the
    history runs alone, and a locally minimal sub-history that still shows it (greedy single deletions, all
    candidates of a round evaluated in one pair of processes)"""
    cur = []
    for h, i in items:
        cur.append({'h': h, 'ops': h['ops'][:i + 1], 'alive': True, 'a': None, 'b': None})
    res = last_results([{'pool': c['h']['pool'], 'ops': c['ops']} for c in cur])
    for c, (a, b) in zip(cur, res):
        c['alive'] = a != b
        c['a'], c['b'] = a, b
    for _ in range(7):
        cands, owner = [], []
        for ci, c in enumerate(cur):
            if c['alive'] and len(c['ops']) > 1:
                for j in range(len(c['ops']) - 1):
                    cands.append({'pool': c['h']['pool'], 'ops': c['ops'][:j] + c['ops'][j + 1:]})
                    owner.append(ci)
        if not cands:
            break
        res = last_results(cands)
        progressed = False
        done = set()
        for cd, ci, (a, b) in zip(cands, owner, res):
            if ci not in done and a != b:
                cur[ci]['ops'], cur[ci]['a'], cur[ci]['b'] = cd['ops'], a, b
                done.add(ci)
                progressed = True
        if not progressed:
            break
    return [(c['ops'], c['a'], c['b']) if c['alive'] else (None, None, None) for c in cur]


def show(op):
    def sh(x):
        if isinstance(x, list) and x and x[0] == 'ref':
            return x[1]
        if isinstance(x, list) and x and x[0] == 'D':
            return f'Date({x[1]},{x[2]},{x[3]})'
        if isinstance(x, list) and x and x[0] == 'E':
            return f'{x[1]}.{x[2]}'
        if isinstance(x, list) and x and x[0] in ('A', 'L', 'T'):
            return '[' + ', '.join(sh(v) for v in x[1]) + ']'
        return repr(x)
    args = ', '.join([sh(a) for a in op.get('a', [])] + [f'{k}={sh(v)}' for k, v in op.get('k', {}).items()])
    return f"{op['o'] + '.' if op.get('o') else ''}{op['m']}({args})"


def argwrites_check(ctx):
    """harness side of Props/C18g (in-place argument mutation table, tools/effects/argwrites.py):
    (a) coverage, independently of the extractor: the files of an os.walk of financepy/ and a plain-text count of the lines that open a
        `def` must be what Gen/ArgWrites.lean's `fileCounts` says (the theorems `every_def_scanned` / `total_textual_eq` are about that table);
    (b) runtime tie on array kernels: functions the table lists NO write for must leave their array arguments bit-identical, the one
        listed as an in-place normaliser must change its argument (a table that lists nothing would fail here)."""
    import re as _re
    import numpy as np
    sys.path.insert(0, os.path.join(C.VERIF, 'tools', 'effects'))
    import argwrites
    try:
        res = argwrites.analyse(C.REPO)
    except Exception as e:  # noqa: BLE001
        ctx.broke(f'argument-write extractor failed on the source: {type(e).__name__}: {e}')
        return
    table = {r[0]: r for r in res['files']}
    walked = {}
    pat = _re.compile(r'^\s*(?:async\s+)?def\s+\w+\s*\(')
    for dp, _, fns in os.walk(os.path.join(C.REPO, 'financepy')):
        for fn in fns:
            if fn.endswith('.py'):
                full = os.path.join(dp, fn)
                with open(full, encoding='utf-8') as f:
                    walked[os.path.relpath(full, C.REPO)] = sum(1 for ln in f if pat.match(ln))
    if set(walked) != set(table):
        ctx.broke(f'argument-write table does not cover the files under financepy/: missing {sorted(set(walked) - set(table))[:5]}, extra {sorted(set(table) - set(walked))[:5]}')
    bad = [(k, walked[k], table[k][3]) for k in walked if k in table and walked[k] != table[k][3]]
    if bad:
        ctx.broke(f'argument-write table: textual def count differs from the harness\'s own count: {bad[:5]}')
    gen = open(os.path.join(C.LEAN_DIR, 'FinVerif', 'Gen', 'ArgWrites.lean'), encoding='utf-8').read()
    m = _re.search(r'def totalTextual : Nat := (\d+)', gen)
    if not m or int(m.group(1)) != sum(walked.values()):
        ctx.broke(f'Gen/ArgWrites.lean totalTextual = {m and m.group(1)} but the tree has {sum(walked.values())} textual defs')
    listed = {(w[1], w[3]) for w in res['writes']}
    # (b) runtime tie
    from financepy.utils.math import solve_tridiagonal_matrix
    from financepy.models.gauss_copula_onefactor import homog_basket_loss_dbn
    from financepy.utils.helpers import normalise_weights
    rng = ctx.rng('argwrites')
    n_calls = 0
    for _ in range(20):
        n = rng.randint(3, 12)
        a = np.zeros((n, 3))
        for i in range(n):
            a[i, 0] = -rng.uniform(0.1, 1.0)
            a[i, 1] = rng.uniform(2.5, 4.0)
            a[i, 2] = -rng.uniform(0.1, 1.0)
        r = np.array([rng.uniform(-2.0, 2.0) for _ in range(n)])
        a0, r0 = a.copy(), r.copy()
        solve_tridiagonal_matrix(a, r)
        n_calls += 1
        for nm, x, x0 in (('a_matrix', a, a0), ('r', r, r0)):
            if x.tobytes() != x0.tobytes():
                ctx.violation(f'solve_tridiagonal_matrix changed its argument `{nm}` in place (Spec/ArgWrites excuses no write of this function)',
                              {'a_matrix': a0.tolist(), 'r': r0.tolist(), 'after': x.tolist()}, clause='inputs unchanged')
        nc = rng.randint(2, 10)
        sp = np.array([rng.uniform(0.5, 0.999) for _ in range(nc)])
        bv = np.array([rng.uniform(0.05, 0.9) for _ in range(nc)])
        sp0, bv0 = sp.copy(), bv.copy()
        homog_basket_loss_dbn(sp, np.full(nc, 0.4), bv, 20)
        n_calls += 1
        for nm, x, x0 in (('survival_probs', sp, sp0), ('beta_vector', bv, bv0)):
            if x.tobytes() != x0.tobytes():
                ctx.violation(f'homog_basket_loss_dbn changed its argument `{nm}` in place (Spec/ArgWrites excuses no write of this function)',
                              {'survival_probs': sp0.tolist(), 'beta_vector': bv0.tolist(), 'after': x.tolist()}, clause='inputs unchanged')
        w = np.array([rng.uniform(0.5, 3.0) for _ in range(nc)])
        w0 = w.copy()
        normalise_weights(w)
        n_calls += 1
        if w.tobytes() == w0.tobytes() and ('normalise_weights', 'wt_vector') in listed and abs(w0.sum() - 1.0) > 1e-9:
            ctx.broke('argument-write table lists normalise_weights(wt_vector) as in place but the argument did not change')
    ctx.count('argument-write table: files / defs / kernel calls with arguments digested', n_calls, n_calls,
              sample={'files': len(walked), 'textual_defs': sum(walked.values()), 'rows': len(res['writes'])})


def run(ctx):
    import time
    T = [time.time()]

    def lap(what):
        T.append(time.time())
        ctx.cov.setdefault('timing_s', {})[what] = round(T[-1] - T[-2], 1)
    # findings/C18.json is the source known_findings.json is generated from (tools/mkfindings.py, run by the coordinator):
    # an OPEN entry there is known even before the shared file has been regenerated
    try:
        with open(os.path.join(C.VERIF, 'findings', 'C18.json')) as f:
            ctx.known_ids |= {k['id'] for k in json.load(f) if k.get('status', 'open') == 'open'}
    except Exception:  # noqa: BLE001
        pass
    drivers_ok = C.lean_stage(ctx, GEN, PROPS, DRIVERS)
    lap('lean')
    C.import_financepy()
    # compile everything the workers need once, into the source-hash-keyed Numba cache
    import c18_hist
    cdir = os.environ.get('NUMBA_CACHE_DIR', '')
    ncached = sum(len([f for f in fs if f.endswith('.nbi')]) for _, _, fs in os.walk(cdir)) if cdir else 0
    if ncached < 60:       # cold cache (first run on this source text): compile once here, not in every worker
        wh = [make_history(C.Rng(0, f'warm{j}')) for j in range(60)]
        c18_hist.run_shared({'mode': 'shared', 'histories': [{'pool': h['pool'], 'ops': h['ops']} for h in wh]})
    lap('import+warm')
    mod_before = module_state_snapshot()
    eff = None
    try:
        eff = load_effects()
    except Exception as e:  # noqa: BLE001
        ctx.broke(f'effect extractor failed on the source: {type(e).__name__}: {e}')
        eff = {'classes': {}}
    rng = ctx.rng('histories')
    nh = 2000 if ctx.quick() else 100000
    batch = 2000 if ctx.quick() else 12500
    done = 0
    first = True
    while done < nh:
        hists = [make_history(rng) for _ in range(min(batch, nh - done))]
        done += len(hists)
        ws = all_witnesses() if first else []
        allh = hists + [w[1] for w in ws]
        lap('extract+generate')
        A, B, susp = explore(ctx, allh, eff, 'call histories vs fresh objects')
        lap('explore')
        report(ctx, allh, A, B, [x for x in susp if x[0] < len(hists)])
        if first:
            witnesses(ctx, ws, A, B, len(hists))
            lap('report')
            fresh_interpreter_sample(ctx, ctx.rng('sample'), hists, A, B)
            lap('fresh interpreters')
        first = False
        if len(ctx.violations) >= 20:
            break
    vector_checks(ctx, ctx.rng('vector'))
    curve_vector_checks(ctx, ctx.rng('curve-vector'))
    lap('vector')
    date_list_model_checks(ctx, ctx.rng('datelist-model'), drivers_ok)
    theta_bump_checks(ctx, ctx.rng('theta'), drivers_ok)
    if eff is not None and 'module_state' in eff:
        module_state_check(ctx, eff, mod_before)
    if eff is not None and 'call_graph' in eff:
        interclass_effects_check(ctx, eff)
    argwrites_check(ctx)
    lap('model ties')
    ctx.assumptions += [
        'the per-method effect summaries are intra-class; calls made on OTHER objects (parameters, attribute-held objects) are followed by the generated call graph (Props/C18f) where the class of the object can be resolved (annotation / default / isinstance / naming convention) - the 5 unresolved call sites are listed exactly - and otherwise covered by the history exploration',
        'in-place writes through PARAMETERS (NumPy arrays, lists, objects; @njit kernels included) are tabulated for every def under financepy/ (Props/C18g, syntactic: direct writes and local aliases / views; not followed into callees - each callee has its own row); other aliasing (attributes of self holding a caller array) is found only by the history exploration',
        'the two-phase tree-model API (build_tree then a query) is exercised as products use it (build and query in one call); a bare query after somebody else\'s build_tree is by design the last tree',
        'printing methods (__repr__, print_*) report the last valuation by design and are not treated as results, except str(Date) whose dependence on the global format is checked with the format as an explicit argument',
    ]
    return C.finish(ctx, 'proof', 'lake build FinVerif.Props.C18a FinVerif.Props.C18b FinVerif.Props.C18c FinVerif.Props.C18d FinVerif.Props.C18e FinVerif.Props.C18f FinVerif.Props.C18g && lake env lean .cache/audit/Audit_C18.lean',
                    C.TRUSTED_BASE_COMMON + ['tools/effects/extract.py: the read-before-write / write sets it emits over-approximate what the methods do (checked against observed attribute changes on every explored call)'],
                    RULE)


def report(ctx, hists, A, B, susp):
    """listed exceptions are counted (their witnesses are replayed separately on every run); every other differing
    result is re-run alone in fresh interpreters, minimised and reported with its concrete history"""
    unlisted = []
    for hi, i, fnd in susp:
        if fnd and fnd in ctx.known_ids:
            ctx.violation('', {}, finding=fnd, clause='result')
        else:
            unlisted.append((hi, i, fnd))
    # one representative per (class, method, classifier)
    reps = {}
    for hi, i, fnd in unlisted:
        op = hists[hi]['ops'][i]
        reps.setdefault((op.get('cls'), op.get('meth'), fnd), [])
        if len(reps[(op.get('cls'), op.get('meth'), fnd)]) < 3:
            reps[(op.get('cls'), op.get('meth'), fnd)].append((hi, i, fnd))
    todo = [x for v in reps.values() for x in v][:16]
    mins = minimise_all([(hists[hi], i) for hi, i, _ in todo])
    # histories that reproduce alone first (they carry the minimal concrete history)
    order = sorted(range(len(todo)), key=lambda j: mins[j][0] is None)
    seen_alone = set()
    for j in order:
        (hi, i, fnd), (ops, a, b) = todo[j], mins[j]
        keyj = (hists[hi]['ops'][i].get('cls'), hists[hi]['ops'][i].get('meth'))
        if ops is None and keyj in seen_alone:
            continue        # the same method already has a self-contained history
        if ops is not None:
            seen_alone.add(keyj)
        h = hists[hi]
        if ops is None and ulp_close(A['results'][hi][i], B['results'][hi][i]):
            # last-bit difference between two interpreter processes that does not reproduce when the history runs
            # alone: floating-point noise of the platform (observed once in ~1e5 calls), not state of the library
            ctx.cov['ulp_noise'] = ctx.cov.get('ulp_noise', 0) + 1
            ctx.notes.append(f'last-bit difference between interpreter processes, not reproducible alone: {show(h["ops"][i])}')
            continue
        if ops is None:
            # not reproducible alone: depends on what earlier histories did to the process (date table, …)
            ctx.violation('result differs from fresh objects only after OTHER histories ran in the same interpreter',
                          {'history': [show(o) for o in h['ops'][:i + 1]], 'shared': A['results'][hi][i],
                           'fresh': B['results'][hi][i], 'pool_facts': h['facts']}, clause='process-state')
            ctx.broke('history dependence through process-wide state that no generated summary predicts')
            continue
        op = ops[-1]
        fnd2 = classify({'ops': ops, 'facts': h['facts'], 'pool': h['pool']}, len(ops) - 1, a, b)
        names = []
        for o in ops:
            for x in touched(h['pool'], o):
                if x not in names:
                    names.append(x)
        case = {'history': [show(o) for o in ops], 'call': show(op), 'class': op.get('cls'), 'method': op.get('meth'),
                'result_after_history': a, 'result_on_fresh_objects': b,
                'objects': {n: h['pool'][n] for n in names},
                'replay': {'pool': h['pool'], 'ops': ops, 'facts': h['facts']}}
        ctx.violation(f'{op.get("cls")}.{op.get("meth")}: the result depends on the calls made before '
                      f'({len(ops) - 1} earlier call(s) on shared objects)', case, finding=fnd2, clause='result')
        if fnd2 is None and len(ctx.broken) < 8:
            ctx.broke(f'correspondence: history dependence of {op.get("cls")}.{op.get("meth")} is not in the exception list of '
                      'FinVerif/Props/C18b.lean (the generated summaries + exceptions do not predict it)')


def fresh_interpreter_sample(ctx, rng, hists, A, B):
    """a sample of the explored calls, each evaluated in its OWN interpreter process on fresh objects, against the
    batched fresh evaluation and against the result after the shared history"""
    k = 12 if ctx.quick() else 48
    picks = []
    for _ in range(4 * k):
        hi = rng.randrange(len(hists))
        i = rng.randrange(len(hists[hi]['ops']))
        if A['results'][hi] is not None and B['results'][hi] is not None and len(picks) < k:
            picks.append((hi, i))
    singles = [{'pool': hists[hi]['pool'], 'ops': [hists[hi]['ops'][i]]} for hi, i in picks]
    with ThreadPoolExecutor(max_workers=NPROC) as ex:
        alone = list(ex.map(lambda s_: run_job('fresh', [s_])['results'][0][0], singles))
    for (hi, i), one in zip(picks, alone):
        h = hists[hi]
        if one != B['results'][hi][i] and ulp_close(one, B['results'][hi][i]) and B['results'][hi][i] == A['results'][hi][i]:
            # a new interpreter and a used one differ in the last bit of a float while shared and fresh objects agree
            # bit for bit in the used ones: floating-point noise of the platform, not state of the library
            ctx.cov['ulp_noise'] = ctx.cov.get('ulp_noise', 0) + 1
            ctx.notes.append(f'last-bit difference between a new and a used interpreter on fresh objects: {show(h["ops"][i])}')
            continue
        if one != B['results'][hi][i]:
            ctx.violation('the same call on fresh objects gives different results in a new interpreter and in an interpreter '
                          'that evaluated other calls before',
                          {'call': show(h['ops'][i]), 'new_interpreter': one, 'used_interpreter': B['results'][hi][i],
                           'replay': {'pool': h['pool'], 'ops': [h['ops'][i]], 'facts': h['facts']}}, clause='process-state')
            ctx.broke('history dependence through process-wide state that no generated summary predicts')
        if one != A['results'][hi][i] and B['results'][hi][i] == A['results'][hi][i]:
            ctx.violation('result after a history differs from the same call in a truly fresh interpreter',
                          {'history': [show(o) for o in h['ops'][:i + 1]], 'result_after_history': A['results'][hi][i],
                           'fresh_interpreter': one}, clause='result')
    ctx.count('calls re-evaluated in their own fresh interpreter', len(picks))


def all_witnesses():
    """[(finding id, history, index of the call whose result depends on the history)]"""
    out = []

    def hist(ops, **over):
        pool, facts = make_pool(C.Rng(0, 'witness'))
        pool.update(over.get('pool', {}))
        facts.update(over.get('facts', {}))
        for o in ops:
            o.setdefault('meth', o['m'])
        return {'pool': pool, 'ops': ops, 'facts': facts}
    bsv = lambda ot: OP('bsD', 'value', [100.0, 1.0, 100.0, 0.03, 0.01, E('OptionTypes', ot)], cls='BlackScholes', tag='bs', fam=ot[0])  # noqa: E731
    out.append(('C18/bs-default-resolved-in-place', hist([bsv('EUROPEAN_CALL'), bsv('AMERICAN_PUT')]), 1))
    out.append(('C18/bs-default-resolved-in-place', hist([bsv('AMERICAN_PUT'), bsv('EUROPEAN_PUT')]), 1))
    sch = new('Schedule', D((6, 1, 2020)), D((6, 6, 2020)), E('FrequencyTypes', 'MONTHLY'), E('CalendarTypes', 'WEEKEND'),
              E('BusDayAdjustTypes', 'FOLLOWING'), E('DateGenRuleTypes', 'BACKWARD'), True)
    sf = {'eff': (6, 1, 2020), 'term': (6, 6, 2020), 'cal': 'WEEKEND', 'conv': 'FOLLOWING', 'rule': 'BACKWARD', 'adjust': True}
    out.append(('C18/schedule-regenerate-reanchors',
                hist([OP('sched', 'generate', [], cls='Schedule', tag='sched'),
                      OP(None, 'attr', [R('sched'), 'adjusted_dts'], cls='Schedule', meth='<attr>', tag='sched')],
                     pool={'sched': sch}, facts={'sched': sf, 'sched_term_moves': True}), 1))
    bnd = new('Bond', D((15, 6, 2015)), D((15, 6, 2025)), 0.05, E('FrequencyTypes', 'SEMI_ANNUAL'), E('DayCountTypes', 'ACT_ACT_ICMA'))
    out.append(('C18/bond-stale-coupon-dates-at-maturity',
                hist([OP('bond', 'accrued_interest', [D((15, 3, 2021))], cls='Bond', tag='bond'),
                      OP('bond', 'accrued_interest', [D((15, 6, 2025))], cls='Bond', tag='bond')],
                     pool={'bond': bnd}, facts={'mat': (15, 6, 2025)}), 1))
    krd = lambda: OP('bond', 'key_rate_durations', [D((15, 3, 2021)), 0.03], {'key_rate_tenors': R('ktenors'), 'rates': R('krates')},  # noqa: E731
                     cls='Bond', tag='bond-krd')
    out.append(('C18/key-rate-durations-mutates-rates', hist([krd(), krd()], pool={'bond': bnd}, facts={'mat': (15, 6, 2025)}), 1))
    out.append(('C18/calendar-holiday-direct-call',
                hist([OP('calUS', 'is_holiday', [D((13, 1, 2020))], cls='Calendar', tag='cal'),
                      OP('calUS', 'holiday_united_states', [D((21, 1, 2020))], cls='Calendar', tag='cal-direct')]), 1))
    out.append(('C18/caplet-direct-needs-prior-value',
                hist([OP('cap', 'value', [R('vd'), R('cfA'), R('blk')], cls='IborCapFloor', tag='cap'),
                      OP('cap', 'value_caplet_floor_let', [R('vd'), D((15, 12, 2021)), D((15, 3, 2022)), R('cfA'), R('blk')],
                         cls='IborCapFloor', tag='caplet-direct')],
                     pool={'vd': D((15, 6, 2021)), 'cfA': new('DiscountCurveFlat', R('vd'), 0.03)}, facts={'vd': (15, 6, 2021)}), 1))
    dep = ['L', [new('IborDeposit', D((17, 6, 2021)), '3M', 0.02, E('DayCountTypes', 'ACT_360')),
                 new('IborDeposit', D((17, 6, 2021)), '6M', 0.022, E('DayCountTypes', 'ACT_360'))]]
    swp = ['L', [new('IborSwap', D((17, 6, 2021)), tn, E('SwapTypes', 'PAY'), rr, E('FrequencyTypes', 'SEMI_ANNUAL'),
                     E('DayCountTypes', 'THIRTY_E_360')) for tn, rr in (('2Y', 0.025), ('3Y', 0.027))]]
    out.append(('C18/deposits-list-mutated',
                hist([OP(None, 'ibor_curve', [R('vd'), R('depos'), R('fras'), R('swaps'), E('InterpTypes', 'FLAT_FWD_RATES'), R('qdates')],
                         cls='IborSingleCurve', meth='__init__', tag='curve-build'),
                      OP(None, 'len', [R('depos')], cls='<list>', meth='len', tag='inputs')],
                     pool={'vd': D((15, 6, 2021)), 'depos': dep, 'swaps': swp,
                           'qdates': ['L', [D((15, 6, 2022)), D((15, 6, 2023))]]}, facts={'vd': (15, 6, 2021), 'lag': 2}), 1))
    return out


def witnesses(ctx, ws, A, B, base):
    """the witness history of every finding, open or repaired, is replayed on the implementation on every run: an open
    one must still show its history dependence (else the entry is stale), a repaired one must not (else VIOLATION)"""
    for k, (fid, h, i) in enumerate(ws):
        if A['results'][base + k] is None or B['results'][base + k] is None:
            continue        # the worker died on it: reported as history-crash
        a, b = A['results'][base + k][i], B['results'][base + k][i]
        if a != b:
            fnd = classify(h, i, a, b)
            ctx.violation(f'witness history of {fid}: the last result depends on the earlier call',
                          {'history': [show(o) for o in h['ops'][:i + 1]], 'result_after_history': a, 'result_on_fresh_objects': b,
                           'replay': {'pool': h['pool'], 'ops': h['ops'][:i + 1], 'facts': h['facts']}},
                          finding=fnd if fnd == fid else None, clause='result')
        elif fid in ctx.known_ids:
            ctx.notes.append(f'witness history of {fid} no longer shows a history dependence (stale entry: the defect was repaired?)')
    ctx.count('witness histories of the listed exceptions', len(ws))


def replay(ctx, path):
    rp = json.load(open(path))
    v = rp.get('violation') or {}
    case = v.get('case', {})
    if 'replay' not in case:
        print('replay: this file carries no history:', rp.get('broken'), v.get('what'))
        return 1
    h = case['replay']
    for op in h['ops']:
        op.setdefault('meth', op['m'])
    print('replay history:')
    for o in h['ops']:
        print('   ', show(o))
    done, info = run_worker('shared', [h], False, 600)
    b = run_job('fresh', [{'pool': h['pool'], 'ops': h['ops'][-1:]}])['results'][0][-1]
    if info is not None:
        print(f'the shared-objects interpreter {info["kind"]} (rc={info["rc"]}) at call {info["op"]}; '
              f'the last call on fresh objects in a fresh interpreter: {json.dumps(b)[:300]}')
        print(f'VIOLATION property=C18 replay={path}')
        return 1
    a = done[0][0][-1]
    print(f'result after history : {json.dumps(a)[:300]}\nresult on fresh objects: {json.dumps(b)[:300]}')
    if a != b:
        print(f'VIOLATION property=C18 replay={path}')
        return 1
    return 0
