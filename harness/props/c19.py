"""C19 — Monte-Carlo pricers are reproducible and unbiased for the payoff they document.

Theorems (FinVerif/Props/C19a,b,c,d,e.lean) about the hand model FinVerif/Model/C19.lean: purity / history independence of
seeded routines, the exact GBM step (shape, flow, terminal value for every n, antithetic pair product), antithetic
symmetry estimate(z) = estimate(-z), pairing identities of the Vasicek / CIR / Heston steps, the default-time map as the
inverse of the survival curve, and (Mathlib gaussianReal) the one-step martingale property and conditional means.
Tie: MEASURED each run — Numba's np.random.seed + standard_normal/normal/uniform inside @njit reproduce NumPy's legacy
global stream bit-for-bit — so the harness regenerates the very draws each compiled routine consumes, feeds them to the
compiled Lean model (c19driver) and compares paths and value_mc aggregates to ~1e-11 relative.
Direct oracles on the implementation: same seed twice / after other calls / in subprocesses with other thread settings
=> identical bits; different seeds => different numbers; estimates within Student-t / normal bounds of closed forms or of
an independent reference simulation of the documented payoff; martingale, zero-price, survival-curve tests.
Statistical unbiasedness of the implementation is VALIDATED, not proved (level claimed: proof for the algebraic / purity
core, partial overall)."""
import io
import json
import math
import os
import subprocess
import sys
import tokenize

import numpy as np

sys.path.insert(0, os.path.dirname(os.path.dirname(os.path.abspath(__file__))))
import common as C  # noqa: E402
import exedriver    # noqa: E402
from floatcmp import f2b, b2f  # noqa: E402

GEN = ['ShortRateR', 'Effects', 'McLoopR', 'VasLoopR']    # McLoopR / VasLoopR: loops of get_gbm_paths / get_vasicek_paths cut from the source (registry/mcloops.py, vasloops.py; Props/C19j, C19k); meanr / variancer / zero_price of vasicek_mc.py, cir_montecarlo.py (Props/C19g); effect summaries (Props/C19h)
PROPS = ['FinVerif.Props.C19a', 'FinVerif.Props.C19b', 'FinVerif.Props.C19c', 'FinVerif.Props.C19d', 'FinVerif.Props.C19e',
         'FinVerif.Props.C19f', 'FinVerif.Props.C19g', 'FinVerif.Props.C19h', 'FinVerif.Props.C19i', 'FinVerif.Props.C19j', 'FinVerif.Props.C19k']
DRIVERS = ['FinVerif.Driver.C19']

RULE = ('correspondence: for each modelled kernel, cases (parameters, seed, path/step counts) drawn from VERIF_SEED; the '
        'draws are regenerated with NumPy from the same seed in the order the kernel consumes them and the compiled '
        'kernel output (every path point / the value_mc aggregate) is compared with the Lean model; non-trivial = at '
        'least 2 steps or 2 paths and sigma > 0. Oracles: one evaluation = one (routine, parameters, seed) run of the '
        'implementation; statistical tests use M independent seeds per case (Student-t bound at two-sided level 1e-9 per '
        'test) or the run\'s own per-pair standard error (6.5 standard errors); all distinct by construction.')

TOL_MODEL = 1e-11        # model vs compiled kernel, relative (measured worst 6e-15: fastmath re-association / libm)
ALPHA = 1e-9             # two-sided level of each multi-seed Student-t test (Bonferroni: < 400 tests => < 4e-7 per run)
KSE = 6.5                # own-standard-error tests on >= 4000 pairs: P(|Z| > 6.5) = 8e-11 per test
F_PREFIX = 'C19/'

_tcache = {}


def tcrit(dof):
    if dof not in _tcache:
        from scipy.stats import t as student
        _tcache[dof] = float(student.ppf(1.0 - ALPHA / 2.0, dof))
    return _tcache[dof]


def fl(a):
    return ' '.join(f2b(float(x)) for x in np.asarray(a, dtype=float).ravel())


def parse(o):
    return np.array([b2f(x) for x in o.split()]) if not o.startswith('bad') else None


def relerr(a, b):
    a = np.asarray(a, float).ravel()
    b = np.asarray(b, float).ravel()
    if a.shape != b.shape:
        return float('inf')
    if a.size == 0:
        return 0.0
    if not (np.all(np.isfinite(a)) and np.all(np.isfinite(b))):
        return 0.0 if np.array_equal(np.isnan(a), np.isnan(b)) and np.array_equal(a[np.isfinite(a)], b[np.isfinite(b)]) else float('inf')
    return float(np.max(np.abs(a - b) / np.maximum(1e-300, np.maximum(np.abs(a), np.abs(b)))))


def bits(x):
    return np.asarray(x, dtype=np.float64).tobytes().hex()


def lmm_live(F):
    """the entries fwd[path, j, k] with k >= j: the simulators allocate with np.empty and never write the dead forwards
    k < j (uninitialised memory, not read by any pricer), so only the live triangle is a function of the seed"""
    n = F.shape[1]
    return np.concatenate([F[:, j, j:].ravel() for j in range(n)])


# ------------------------------------------------------------------------------------------------ source grep
def grep_parallel():
    """code tokens (comments and strings stripped) `prange` or `parallel=True` anywhere in the package"""
    hits = []
    root = os.path.join(C.REPO, 'financepy')
    for dp, dn, fn in os.walk(root):
        for f in fn:
            if not f.endswith('.py'):
                continue
            p = os.path.join(dp, f)
            try:
                src = open(p, 'rb').read().decode('utf-8', 'replace')
                toks = [t for t in tokenize.generate_tokens(io.StringIO(src).readline)
                        if t.type not in (tokenize.COMMENT, tokenize.STRING, tokenize.NL, tokenize.NEWLINE)]
            except (tokenize.TokenError, IndentationError, SyntaxError):
                continue
            for i, t in enumerate(toks):
                if t.type == tokenize.NAME and t.string == 'prange':
                    hits.append(f'{os.path.relpath(p, C.REPO)}:{t.start[0]}: prange')
                if (t.type == tokenize.NAME and t.string == 'parallel' and i + 2 < len(toks)
                        and toks[i + 1].string == '=' and toks[i + 2].string == 'True'):
                    hits.append(f'{os.path.relpath(p, C.REPO)}:{t.start[0]}: parallel=True')
    return hits


# ------------------------------------------------------------------------------------------------ battery
class _Collector:
    def __init__(self, pre):
        self.items, self.pre, self.k = [], pre, 0

    def add(self, name, thunk):
        if self.pre is not None:
            self.k += 1
            self.pre(self.k)
        self.items.append((name, thunk()))


def battery(seeds, pre=None):
    """A fixed list of (name, bits) computed by the implementation for the given seeds; run in-process and in
    subprocesses with other thread settings.  Everything here must be a function of (parameters, seed) only."""
    from financepy.models import black_scholes_mc as BS, gbm_process_simulator as G, process_simulator as PS
    from financepy.models import vasicek_mc as V, cir_montecarlo as CIR, heston as H, lmm_mc as L
    out = _Collector(pre)
    s1, s2 = int(seeds[0]), int(seeds[1])
    rho3 = np.array([[1.0, 0.5, 0.2], [0.5, 1.0, -0.3], [0.2, -0.3, 1.0]])
    mus, s0, sig = np.array([0.03, 0.01, 0.05]), np.array([100.0, 50.0, 20.0]), np.array([0.2, 0.3, 0.4])
    for sd in (s1, s2):
        for nm, f in (('numba_only', BS._value_mc_numba_only), ('numpy_numba', BS._value_mc_numpy_numba),
                      ('numba_parallel', BS._value_mc_numba_parallel), ('numpy_only', BS._value_mc_numpy_only)):
            out.add(f'bs.{nm}.{sd}', lambda: bits(f(100.0, 0.7, 105.0, 1, 0.05, 0.02, 0.25, 4000, sd, 0)))
        out.add(f'bs.sobol.{sd}', lambda: bits(BS._value_mc_numba_only(100.0, 0.7, 105.0, 2, 0.05, 0.02, 0.25, 2000, sd, 1)))
        out.add(f'gbm.paths_times.{sd}', lambda: bits(G.get_paths_times(40, 6, 1.3, 0.04, 100.0, 0.3, sd)[1]))
        out.add(f'gbm.assets_paths_times.{sd}', lambda: bits(G.get_assets_paths_times(3, 40, 4, 0.8, mus, s0, sig, rho3, sd)[1]))
        out.add(f'gbm.assets_paths.{sd}', lambda: bits(G.get_assets_paths(3, 40, 0.8, mus, s0, sig, rho3, sd)[1]))
        out.add(f'ps.gbm.{sd}', lambda: bits(PS.get_gbm_paths(20, 12, 0.5, 0.04, 100.0, 0.3, 2, sd)))
        out.add(f'ps.vasicek.{sd}', lambda: bits(PS.get_vasicek_paths(20, 12, 1.0, 0.03, 0.6, 0.05, 0.01, 2, sd)))
        for sc in (1, 2, 3, 4):
            out.add(f'ps.cir.{sc}.{sd}', lambda: bits(PS.get_cir_paths(20, 20, 1.0, 0.04, 0.5, 0.05, 0.15, sc, sd)))
            out.add(f'cir.zero.{sc}.{sd}', lambda: bits(CIR.zero_price_mc(0.04, 0.5, 0.05, 0.15, 1.0, 0.02, 200, sd, sc)))
        out.add(f'cir.zero.5.{sd}', lambda: bits(CIR.zero_price_mc(0.04, 0.5, 0.05, 0.15, 1.0, 0.05, 100, sd, 5)))
        out.add(f'vas.zero.{sd}', lambda: bits(V.zero_price_mc(0.03, 0.6, 0.05, 0.01, 1.5, 0.02, 200, sd)))
        for sc in (1, 2, 3):
            out.add(f'heston.paths.{sc}.{sd}', lambda: bits(H.get_paths(100.0, 0.05, 0.01, 0.04, 1.5, 0.05, 0.4, -0.6, 1.0, 0.05, 30, sd, sc)))
            out.add(f'ps.heston.{sc}.{sd}', lambda: bits(PS.get_heston_paths(30, 20, 1.0, 0.04, 100.0, 0.04, 1.5, 0.05, 0.4, -0.6, sc, sd)))
        n = 6
        fwd0 = np.full(n, 0.05) + np.arange(n) * 0.002
        taus = np.full(n, 0.25)
        gam = np.array([0.0, 0.2, 0.22, 0.21, 0.19, 0.18])
        out.add(f'lmm.1f.{sd}', lambda: bits(lmm_live(L.lmm_simulate_fwds_1f(n, 40, 0, fwd0, gam, taus, 0, sd))))
        out.add(f'lmm.1f.sobol.{sd}', lambda: bits(lmm_live(L.lmm_simulate_fwds_1f(n, 40, 0, fwd0, gam, taus, 1, sd))))
        lam = np.array([gam, gam * 0.3])
        out.add(f'lmm.mf.{sd}', lambda: bits(lmm_live(L.lmm_simulate_fwds_mf(n, 2, 40, 0, fwd0, lam, taus, 0, sd))))
        corr = np.array([[math.exp(-0.3 * abs(i - j)) for j in range(n)] for i in range(n)])
        out.add(f'lmm.nf.{sd}', lambda: bits(lmm_live(L.lmm_simulate_fwds_nf(n, 40, fwd0, gam, corr, taus, sd))))
    return out.items


def battery_schemes(seeds, reverse=False):
    """Every path-generating entry point that takes a scheme enum, for EVERY scheme enum, with all other arguments and the
    seed identical within a family; the calls are made in list order or in REVERSED order (`reverse`), one after the
    other in the same interpreter.  A result that depends on which scheme was simulated before (paths kept from an
    earlier call under a key that omits the scheme) differs between the two orders."""
    from financepy.models.process_simulator import FinProcessSimulator, ProcessTypes, FinGBMNumericalScheme, FinHestonNumericalScheme, \
        FinVasicekNumericalScheme, CIRNumericalScheme
    from financepy.products.equity.equity_barrier_option import EquityBarrierOption, EquityBarrierTypes
    from financepy.products.fx.fx_barrier_option import FXBarrierOption, FinFXBarrierTypes
    from financepy.utils.date import Date
    vd = Date(20, 3, 2024)
    ed = vd.add_days(365)
    jobs = []
    for sd in (int(seeds[0]), int(seeds[1])):
        fams = [(ProcessTypes.GBM, (100.0, 0.03, 0.25), list(FinGBMNumericalScheme)),
                (ProcessTypes.HESTON, (100.0, 0.03, 0.04, 1.5, 0.05, 0.4, -0.6), list(FinHestonNumericalScheme)),
                (ProcessTypes.VASICEK, (0.03, 0.6, 0.05, 0.01), list(FinVasicekNumericalScheme)),
                (ProcessTypes.CIR, (0.04, 0.5, 0.05, 0.15), [x for x in CIRNumericalScheme if x.name != 'EXACT'])]
        for pt, pars, schemes in fams:
            for sch in schemes:
                jobs.append((f'get_process.{pt.name}.{sch.name}.{sd}',
                             lambda pt=pt, pars=pars, sch=sch, sd=sd: bits(FinProcessSimulator().get_process(pt, 1.0, pars + (sch,), 12, 40, sd))))
        for sch in FinGBMNumericalScheme:
            jobs.append((f'EquityBarrierOption.value_mc.{sch.name}.{sd}',
                         lambda sch=sch, sd=sd: bits(EquityBarrierOption(ed, 100.0, EquityBarrierTypes.DOWN_AND_OUT_CALL, 85.0, 12).value_mc(
                             1.0, 100.0, EquityBarrierTypes.DOWN_AND_OUT_CALL.value, 85.0, 1.0, 100.0, 0.03, ProcessTypes.GBM, (100.0, 0.02, 0.25, sch), 12, 200, sd))))
            jobs.append((f'FXBarrierOption.value_mc.{sch.name}.{sd}',
                         lambda sch=sch, sd=sd: bits(FXBarrierOption(ed, 1.1, 'EURUSD', FinFXBarrierTypes.DOWN_AND_OUT_CALL, 0.95, 12, 1.0, 'USD').value_mc(
                             vd, 1.1, 0.03, ProcessTypes.GBM, (1.1, 0.01, 0.12, sch), 12, 200, sd))))
        # wave 5: the remaining entry points with a scheme enum / Sobol flag (fresh object or module function per call)
        from financepy.models.heston import Heston, HestonNumericalScheme
        from financepy.models import cir_montecarlo as CIRM, lmm_mc as LM
        from financepy.models.black_scholes import BlackScholes
        from financepy.products.equity.equity_vanilla_option import EquityVanillaOption
        from financepy.utils.global_types import OptionTypes
        from financepy.market.curves.discount_curve_flat import DiscountCurveFlat
        from financepy.utils.frequency import FrequencyTypes
        for sch in HestonNumericalScheme:
            jobs.append((f'Heston.value_mc.{sch.name}.{sd}',
                         lambda sch=sch, sd=sd: bits(Heston(0.05, 2.0, 0.05, 0.75, -0.9).value_mc(
                             vd, EquityVanillaOption(vd.add_days(182), 105.0, OptionTypes.EUROPEAN_CALL), 100.0, 0.05, 0.01, 300, 50, sd, sch))))
        for sc in (1, 2, 3, 4, 5):
            jobs.append((f'cir_montecarlo.zero_price_mc.{sc}.{sd}', lambda sc=sc, sd=sd: bits(CIRM.zero_price_mc(0.04, 0.5, 0.05, 0.15, 1.0, 0.05, 60, sd, sc))))
            jobs.append((f'cir_montecarlo.rate_path_mc.{sc}.{sd}', lambda sc=sc, sd=sd: bits(CIRM.rate_path_mc(0.04, 0.5, 0.05, 0.15, 1.0, 0.05, sd, sc))))
        for sob, nm in ((0, 'pseudo'), (1, 'sobol')):
            jobs.append((f'EquityVanillaOption.value_mc_numba_only.{nm}.{sd}',
                         lambda sob=sob, sd=sd: bits(EquityVanillaOption(ed, 105.0, OptionTypes.EUROPEAN_CALL).value_mc_numba_only(
                             vd, 100.0, DiscountCurveFlat(vd, 0.05, FrequencyTypes.CONTINUOUS), DiscountCurveFlat(vd, 0.01, FrequencyTypes.CONTINUOUS),
                             BlackScholes(0.25), 500, sd, sob))))
            n6 = 6
            f0, tau6, gam6 = np.full(n6, 0.05) + np.arange(n6) * 0.002, np.full(n6, 0.25), np.array([0.0, 0.2, 0.22, 0.21, 0.19, 0.18])
            jobs.append((f'lmm_simulate_fwds_1f.{nm}.{sd}', lambda sob=sob, sd=sd: bits(lmm_live(LM.lmm_simulate_fwds_1f(n6, 30, 0, f0, gam6, tau6, sob, sd)))))
    res = {}
    for name, th in (reversed(jobs) if reverse else jobs):
        res[name] = th()
    return [(name, res[name]) for name, _ in jobs]


def sub_main():
    seeds = [int(x) for x in sys.argv[1:3]]
    rev = len(sys.argv) > 3 and sys.argv[3] == 'reverse'
    C.import_financepy()
    print('BATTERY ' + json.dumps(battery(seeds) + battery_schemes(seeds, reverse=rev)))


def start_subprocesses(seeds):
    """the same battery in fresh interpreters: one thread everywhere / runtime defaults with many BLAS threads"""
    envs = {
        'single-thread': {'NUMBA_NUM_THREADS': '1', 'OMP_NUM_THREADS': '1', 'OPENBLAS_NUM_THREADS': '1', 'MKL_NUM_THREADS': '1'},
        'many-threads': {'OMP_NUM_THREADS': '8', 'OPENBLAS_NUM_THREADS': '8', 'MKL_NUM_THREADS': '8', 'NUMBA_THREADING_LAYER': 'workqueue'},
    }
    procs = {}
    code = 'import sys; sys.path.insert(0, %r); import props.c19 as m; m.sub_main()' % os.path.dirname(os.path.dirname(os.path.abspath(__file__)))
    for name, e in envs.items():
        env = dict(os.environ)
        for k in ('NUMBA_NUM_THREADS', 'OMP_NUM_THREADS', 'OPENBLAS_NUM_THREADS', 'MKL_NUM_THREADS'):
            env.pop(k, None)
        env.update(e)
        env['FINVERIF_REPO'] = C.REPO
        procs[name] = subprocess.Popen([sys.executable, '-c', code, str(seeds[0]), str(seeds[1]), 'reverse' if name == 'many-threads' else 'forward'], env=env,
                                       stdout=subprocess.PIPE, stderr=subprocess.PIPE, text=True)
    return procs


# ------------------------------------------------------------------------------------------------ statistics helpers
class Stats:
    def __init__(self, ctx):
        self.ctx = ctx
        self.n_tests = 0
        self.worst = {}

    def see(self, key, z):
        if z == z:
            self.worst[key] = max(self.worst.get(key, 0.0), float(z))

    def ttest(self, key, what, vals, ref, case, bias=0.0, clause='unbiased', finding=None, ref_se=0.0, rare_if_mostly_zero=False):
        """mean over independent seeds vs a reference (closed form, or a reference estimate with its own s.e.)"""
        vals = np.asarray(vals, float)
        if rare_if_mostly_zero and int(np.count_nonzero(vals)) * 2 < len(vals):
            self.rare = getattr(self, 'rare', 0) + 1      # deep out-of-the-money: most seeds saw no pay-off at all, no usable standard error
            if float(vals.min()) < 0.0:
                self.ctx.violation(what + ' (negative value)', dict(case, minimum=float(vals.min())), finding=finding, clause=clause)
            return True
        m = float(vals.mean())
        se = float(vals.std(ddof=1)) / math.sqrt(len(vals))
        k = tcrit(len(vals) - 1)
        tol = k * se + KSE * ref_se + bias
        self.n_tests += 1
        z = abs(m - ref) / max(tol, 1e-300)
        self.see(key, z)
        if not abs(m - ref) <= tol:
            self.ctx.violation(what, dict(case, mean_over_seeds=m, std_error=se, reference=ref, reference_std_error=ref_se,
                                          bound=tol, t_critical=k, bias_allowance=bias, values=[float(v) for v in vals[:8]]),
                               finding=finding, clause=clause)
            return False
        return True

    def ztest(self, key, what, samples, ref, case, bias=0.0, clause='unbiased', finding=None, min_nonzero=0):
        """mean of iid samples (pair averages) vs a closed form, with the run's own standard error.  `min_nonzero`: for
        option-type payoffs the normal approximation (and the sample standard error itself) is meaningless when almost no
        sample is in the money; with fewer non-zero samples than this the two-sided test is NOT applied (counted as
        rare-event), only 0 <= mean is required."""
        samples = np.asarray(samples, float)
        if min_nonzero and int(np.count_nonzero(samples)) < min_nonzero:
            self.rare = getattr(self, 'rare', 0) + 1
            if float(samples.min()) < 0.0:
                self.ctx.violation(what + ' (negative payoff sample)', dict(case, minimum=float(samples.min())), finding=finding, clause=clause)
            return True
        m = float(samples.mean())
        se = float(samples.std(ddof=1)) / math.sqrt(len(samples))
        tol = KSE * se + bias
        self.n_tests += 1
        self.see(key, abs(m - ref) / max(tol, 1e-300))
        if not abs(m - ref) <= tol:
            self.ctx.violation(what, dict(case, sample_mean=m, std_error=se, reference=ref, bound=tol, n=len(samples),
                                          bias_allowance=bias), finding=finding, clause=clause)
            return False
        return True


def bs_closed(s, t, k, r, q, v, call):
    from scipy.stats import norm
    d1 = (math.log(s / k) + (r - q + v * v / 2) * t) / (v * math.sqrt(t))
    d2 = d1 - v * math.sqrt(t)
    if call:
        return s * math.exp(-q * t) * norm.cdf(d1) - k * math.exp(-r * t) * norm.cdf(d2)
    return k * math.exp(-r * t) * norm.cdf(-d2) - s * math.exp(-q * t) * norm.cdf(-d1)


def adopt_local_findings(ctx):
    """findings/C19.json is the source known_findings.json is generated from (tools/mkfindings.py, never run by a check); an
    open entry that is already written there but not yet merged into known_findings.json is honoured as well"""
    p = os.path.join(C.VERIF, 'findings', 'C19.json')
    if os.path.exists(p):
        for k in json.load(open(p)):
            if k.get('property') == 'C19' and k.get('status', 'open') == 'open' and k['id'] not in ctx.known_ids:
                ctx.known.append(k)
                ctx.known_ids.add(k['id'])


def run(ctx):
    adopt_local_findings(ctx)
    drivers_ok = C.lean_stage(ctx, GEN, PROPS, DRIVERS, extra_files=['FinVerif/Lemmas/C19.lean', 'FinVerif/Spec/C19.lean', 'FinVerif/Lemmas/C20Loop.lean'])
    C.import_financepy()
    rng0 = ctx.rng('battery')
    bseeds = [rng0.randint(1, 2 ** 31 - 1), rng0.randint(1, 2 ** 31 - 1)]
    procs = start_subprocesses(bseeds)
    try:
        return _run(ctx, drivers_ok, bseeds, procs)
    finally:
        for p in procs.values():
            if p.poll() is None:
                p.kill()


def _run(ctx, drivers_ok, bseeds, procs):
    from props import c19_parts as P
    from props import c19_wave5 as W5
    quick = ctx.quick()
    st = Stats(ctx)
    par_hits = grep_parallel()
    ctx.cov['parallel_grep'] = par_hits or 'no `parallel=True` / `prange` token in financepy/**/*.py (comments and strings excluded)'
    if par_hits:
        ctx.notes.append('the package now contains parallel constructs: ' + '; '.join(par_hits[:4])
                         + ' — thread-count independence is then only covered by the subprocess comparison')

    parity = P.rng_parity()
    ctx.cov['rng_stream_parity'] = parity
    if not parity['ok']:
        ctx.broke('correspondence prerequisite: Numba and NumPy legacy streams differ for the same seed: ' + json.dumps(parity))

    P.correspondence(ctx, drivers_ok and parity['ok'], quick)
    P.reproducibility(ctx, bseeds, procs, quick)
    P.structure_oracles(ctx, quick)
    P.moment_structure_oracles(ctx, quick)
    P.vanilla_stats(ctx, st, quick)
    P.path_stats(ctx, st, quick)
    P.product_stats(ctx, st, quick)
    P.rates_stats(ctx, st, quick)
    P.heston_stats(ctx, st, quick)
    P.heston_path_stats(ctx, st, quick)
    P.reuse_oracles(ctx, quick)
    W5.scheme_reuse_oracles(ctx, quick)
    W5.horizon_oracles(ctx, st, quick)
    P.lmm_stats(ctx, st, quick)
    P.default_time_stats(ctx, st, quick)

    ctx.cov['statistical_tests'] = st.n_tests
    ctx.cov['rare_event_tests_not_applied'] = getattr(st, 'rare', 0)
    ctx.cov['worst_ratio_to_bound'] = {k: float(f'{v:.3f}') for k, v in sorted(st.worst.items())}
    ctx.assumptions += [
        'theorems are over the reals and about the hand model; IEEE rounding, fastmath and libm differences are covered only '
        f'by the correspondence tolerance ({TOL_MODEL:g} relative)',
        'RNG stream identity between NumPy and Numba (same seed => same draws) is a runtime fact, re-measured on every run; '
        'the RNG itself (MT19937 + legacy polar Gaussian) is not modelled',
        'statistical unbiasedness of the implementation is validated (multi-seed Student-t / own-standard-error tests), not '
        'proved; Euler-type schemes are biased by design and carry an explicit bias allowance; Heston QUADEXP is modelled given '
        'norminvcdf(u) from the implementation (the inverse normal cdf itself is a parameter); CIR EXACT, '
        'Student-t copula (uniform / chi-square / Poisson draws), LMM multi-factor and N-factor simulators are not in the '
        'Lean model and are validated by oracles only',
        'multi-asset martingale property given L L^T = rho needs a multivariate Gaussian integral and is validated only',
        f'each statistical test has false-alarm probability <= {ALPHA:g} (Student-t) or 8e-11 (6.5 s.e.) under its assumptions; '
        'sample sizes are chosen so the normal approximation of pair means is adequate',
    ]
    return C.finish(ctx, 'proof',
                    'lake build ' + ' '.join(PROPS) + ' && lake env lean .cache/audit/Audit_C19.lean',
                    C.TRUSTED_BASE_COMMON + ['hand-written model FinVerif/Model/C19.lean + C19F.lean, tied to the compiled kernels by '
                                             'the draw-for-draw correspondence of this run (NumPy regenerates the draws)',
                                             'Spec/C19.lean: exact GBM transition, Euler conditional mean, flat-hazard survival '
                                             'interpolation; Mathlib gaussianReal as the law of one draw',
                                             'SciPy (norm.cdf, Student-t quantiles, quad) for closed forms and bounds'],
                    RULE)


def replay(ctx, path):
    rp = json.load(open(path))
    v = rp.get('violation')
    if not v:
        print('replay: no concrete input in this file:', rp.get('broken'))
        return 1
    print('replay case (deterministic given the recorded seeds; re-run `VERIF_SEED=%s ./check C19` to reproduce):' % rp.get('seed'))
    print(json.dumps(v, default=str)[:3000])
    C.import_financepy()
    from props import c19_parts as P
    return P.replay_case(v)
