"""C19 — the sections of the check (see c19.py for the overview)."""
import json
import math
import os
import sys

import numpy as np

sys.path.insert(0, os.path.dirname(os.path.dirname(os.path.abspath(__file__))))
import common as C  # noqa: E402
import exedriver    # noqa: E402
from props.c19 import fl, parse, relerr, bits, TOL_MODEL, KSE, bs_closed, battery, battery_schemes, tcrit  # noqa: E402


def fp():
    from financepy.models import black_scholes_mc as BS, gbm_process_simulator as G, process_simulator as PS
    from financepy.models import vasicek_mc as V, cir_montecarlo as CIR, heston as H, lmm_mc as L
    return BS, G, PS, V, CIR, H, L


# ================================================================================================ RNG parity
def rng_parity():
    """MEASURED FACT the correspondence relies on: same seed => Numba's generator delivers NumPy's legacy stream."""
    from numba import njit

    @njit
    def f(seed, n):
        np.random.seed(seed)
        a = np.random.standard_normal(n)
        b = np.empty(n)
        for i in range(n):
            b[i] = np.random.normal(0.0, 1.0)
        c = np.random.normal(0.0, 1.0, size=n)
        d = np.empty(n)
        for i in range(n):
            d[i] = np.random.uniform(0.0, 1.0)
        e = np.random.standard_normal((3, 4, 2))
        g = np.empty(n)
        for i in range(n):
            g[i] = np.random.normal()
        return a, b, c, d, e, g
    res = {}
    ok = True
    for seed in (1234, 7, 2 ** 31 - 5):
        a, b, c, d, e, g = f(seed, 9)
        np.random.seed(seed)
        a2 = np.random.standard_normal(9)
        b2 = np.array([np.random.normal(0.0, 1.0) for _ in range(9)])
        c2 = np.random.normal(0.0, 1.0, size=9)
        d2 = np.array([np.random.uniform(0.0, 1.0) for _ in range(9)])
        e2 = np.random.standard_normal((3, 4, 2))
        g2 = np.array([np.random.normal() for _ in range(9)])
        same = [bool(np.array_equal(x, y)) for x, y in ((a, a2), (b, b2), (c, c2), (d, d2), (e, e2), (g, g2))]
        ok = ok and all(same)
        res[str(seed)] = same
    return {'ok': ok, 'kinds': ['standard_normal(n)', 'scalar normal(0,1)', 'normal(size=n)', 'scalar uniform', 'standard_normal(3d)', 'scalar normal()'],
            'bit_identical': res}


# ================================================================================================ correspondence
def correspondence(ctx, enabled, quick):
    BS, G, PS, V, CIR, H, L = fp()
    from financepy.utils.helpers import uniform_to_default_time
    rng = ctx.rng('corr')
    ops, checks = [], []          # op line, (component, implementation output, case)

    def add(op, comp, impl, case):
        ops.append(op)
        checks.append((comp, np.asarray(impl, float).ravel(), case))

    def seed_():
        return rng.randint(1, 2 ** 31 - 1)

    reps = 6 if quick else 40
    for _ in range(reps):
        # ---- single-asset GBM generators
        seed = seed_()
        npaths = 2 * rng.randint(1, 4)
        nst = rng.randint(1, 8)
        t, mu, s0, sig = rng.uniform(0.1, 3.0), rng.uniform(-0.05, 0.1), rng.uniform(5, 200), rng.uniform(0.05, 0.6)
        _, S = G.get_paths_times(npaths, nst, t, mu, s0, sig, seed)
        np.random.seed(seed)
        g = np.array([np.random.standard_normal(npaths // 2) for _ in range(nst)])
        for ip in range(npaths // 2):
            add(f'GBM {fl([mu, sig, t / nst, s0])} {fl(g[:, ip])}', 'get_paths_times', np.concatenate([S[2 * ip], S[2 * ip + 1]]),
                dict(fn='get_paths_times', num_paths=npaths, num_time_steps=nst, t=t, mu=mu, stock_price=s0, volatility=sig, seed=seed, pair=ip))
        for scheme in (1, 2):
            seed = seed_()
            nas = rng.choice([4, 12, 52])
            tt = rng.uniform(0.2, 1.5)
            npth = rng.randint(1, 4)
            S = PS.get_gbm_paths(npth, nas, tt, mu, s0, sig, scheme, seed)
            dt = 1.0 / nas
            n = int(tt / dt + 0.5)
            np.random.seed(seed)
            g = np.array([np.random.standard_normal(npth) for _ in range(n)]).reshape(n, npth)
            for ip in range(npth):
                want = np.concatenate([S[ip], S[ip + npth]]) if scheme == 2 else S[ip]
                ops.append(f'GBM {fl([mu, sig, dt, s0])} {fl(g[:, ip])}')
                checks.append(('get_gbm_paths' + ('' if scheme == 2 else ':up-only'), want,
                               dict(fn='get_gbm_paths', num_paths=npth, num_annual_steps=nas, t=tt, mu=mu, stock_price=s0, sigma=sig, scheme=scheme, seed=seed, path=ip)))
        # ---- multi-asset
        seed = seed_()
        na = rng.randint(2, 4)
        A = np.array([[rng.gauss(0, 1) for _ in range(na)] for _ in range(na)])
        cov = A @ A.T + 0.5 * np.eye(na)
        d = np.sqrt(np.diag(cov))
        rho = cov / np.outer(d, d)
        np.fill_diagonal(rho, 1.0)
        mus = np.array([rng.uniform(-0.02, 0.08) for _ in range(na)])
        s0s = np.array([rng.uniform(10, 150) for _ in range(na)])
        sigs = np.array([rng.uniform(0.1, 0.5) for _ in range(na)])
        npaths, nst, t = 2 * rng.randint(1, 3), rng.randint(1, 5), rng.uniform(0.2, 2.0)
        _, S = G.get_assets_paths_times(na, npaths, nst, t, mus, s0s, sigs, rho, seed)
        np.random.seed(seed)
        g = np.random.standard_normal((npaths // 2, nst + 1, na))
        c = np.linalg.cholesky(rho)
        cs = dict(num_assets=na, num_paths=npaths, t=t, mus=mus.tolist(), stock_prices=s0s.tolist(), volatilities=sigs.tolist(),
                  corr_matrix=rho.tolist(), seed=seed)
        for ip in range(npaths // 2):
            want = np.stack([np.stack([S[:, 2 * ip, it], S[:, 2 * ip + 1, it]]) for it in range(1, nst + 1)])
            add(f'AST {na} {fl([t / nst])} {fl(mus)} {fl(sigs)} {fl(s0s)} {fl(c)} {fl(g[ip, 1:, :])}', 'get_assets_paths_times',
                np.concatenate([np.concatenate([s0s, s0s]), want.ravel()]), dict(cs, fn='get_assets_paths_times', num_time_steps=nst, pair=ip))
        _, S1 = G.get_assets_paths(na, npaths, t, mus, s0s, sigs, rho, seed)
        np.random.seed(seed)
        g = np.random.standard_normal((npaths // 2, na))
        for ip in range(npaths // 2):
            add(f'AST {na} {fl([t])} {fl(mus)} {fl(sigs)} {fl(s0s)} {fl(c)} {fl(g[ip])}', 'get_assets_paths',
                np.concatenate([s0s, s0s, S1[:, 2 * ip], S1[:, 2 * ip + 1]]), dict(cs, fn='get_assets_paths', pair=ip))
        # ---- black_scholes_mc kernels
        for kind, name, f in (('L', '_value_mc_numba_only', BS._value_mc_numba_only), ('L', '_value_mc_nonumba_nonumpy', BS._value_mc_nonumba_nonumpy),
                              ('T', '_value_mc_numba_parallel', BS._value_mc_numba_parallel), ('V', '_value_mc_numpy_only', BS._value_mc_numpy_only),
                              ('V', '_value_mc_numpy_numba', BS._value_mc_numpy_numba)):
            seed = seed_()
            ot = rng.choice([1, 2])
            s, t, r, q, v = rng.uniform(20, 200), rng.uniform(0.1, 3), rng.uniform(-0.01, 0.1), rng.uniform(0, 0.06), rng.uniform(0.05, 0.6)
            k = s * math.exp(rng.uniform(-0.3, 0.3))
            n = rng.choice([50, 1000, 5000])
            val = f(s, t, k, ot, r, q, v, n, seed, 0)
            np.random.seed(seed)
            g = np.random.standard_normal(n)
            add(f'BS {kind} {1 if ot == 1 else 0} {fl([s, t, k, r, q, v])} {fl(g)}', name, [val],
                dict(fn=name, s=s, t=t, K=k, option_type=ot, r=r, q=q, v=v, num_paths=n, seed=seed, use_sobol=0))
        # ---- Vasicek
        a, b, sg, r0 = rng.uniform(0.1, 1.5), rng.uniform(0.01, 0.08), rng.uniform(0.002, 0.03), rng.uniform(0.0, 0.08)
        for scheme in (1, 2):
            seed = seed_()
            nas, tt, npth = rng.choice([4, 12, 50]), rng.uniform(0.5, 2.0), rng.randint(1, 3)
            Pth = PS.get_vasicek_paths(npth, nas, tt, r0, a, b, sg, scheme, seed)
            dt = 1.0 / nas
            n = int(tt / dt)
            np.random.seed(seed)
            z = np.array([np.random.normal(0, 1, size=n) for _ in range(npth)])
            for ip in range(npth):
                cs = dict(fn='get_vasicek_paths', num_paths=npth, num_annual_steps=nas, t=tt, r0=r0, kappa=a, theta=b, sigma=sg, scheme=scheme, seed=seed, path=ip)
                add(f'VASP 0 {fl([a, b, sg, dt, r0])} {fl(z[ip])}', 'get_vasicek_paths', Pth[ip], cs)
                if scheme == 2:
                    add(f'VASP 1 {fl([a, b, sg, dt, r0])} {fl(z[ip])}', 'get_vasicek_paths', Pth[ip + npth], cs)
        seed = seed_()
        tt, dt = rng.uniform(0.5, 3.0), rng.choice([0.1, 0.05, 0.01])
        Pth = V.rate_path_mc(r0, a, b, sg, tt, dt, seed)
        np.random.seed(seed)
        z = np.random.normal(0, 1, size=len(Pth) - 1)
        add(f'VASP 0 {fl([a, b, sg, dt, r0])} {fl(z)}', 'vasicek.rate_path_mc', Pth,
            dict(fn='vasicek_mc.rate_path_mc', r0=r0, a=a, b=b, sigma=sg, t=tt, dt=dt, seed=seed))
        seed = seed_()
        npth = rng.choice([10, 100])
        ns = int(tt / dt)
        val = V.zero_price_mc(r0, a, b, sg, tt, dt, npth, seed)
        np.random.seed(seed)
        z = np.array([np.random.normal(0, 1, size=ns) for _ in range(npth)])
        add(f'VASZ {ns} {fl([r0, a, b, sg, dt])} {fl(z)}', 'vasicek.zero_price_mc', [val],
            dict(fn='vasicek_mc.zero_price_mc', r0=r0, a=a, b=b, sigma=sg, t=tt, dt=dt, num_paths=npth, seed=seed))
        # ---- CIR
        a, b, sg, r0 = rng.uniform(0.2, 1.5), rng.uniform(0.02, 0.08), rng.uniform(0.02, 0.2), rng.uniform(0.005, 0.08)
        for sc in (1, 2, 3, 4):
            seed = seed_()
            nas, tt, npth = rng.choice([12, 50]), rng.uniform(0.5, 2.0), rng.randint(1, 3)
            Pth = PS.get_cir_paths(npth, nas, tt, r0, a, b, sg, sc, seed)
            dt = 1.0 / nas
            n = int(tt / dt)
            np.random.seed(seed)
            z = np.array([np.random.normal(0, 1, size=n) for _ in range(npth)])
            for ip in range(npth):
                add(f'CIRPS {sc} {fl([a, b, sg, dt, r0])} {fl(z[ip])}', f'get_cir_paths.{sc}', Pth[ip],
                    dict(fn='get_cir_paths', num_paths=npth, num_annual_steps=nas, t=tt, r0=r0, kappa=a, theta=b, sigma=sg, scheme=sc, seed=seed, path=ip))
            seed = seed_()
            dt = rng.choice([0.05, 0.02])
            Pth = CIR.rate_path_mc(r0, a, b, sg, tt, dt, seed, sc)
            np.random.seed(seed)
            z = np.random.normal(0, 1, size=len(Pth) - 1)
            add(f'CIRMC {sc} {fl([a, b, sg, dt, r0])} {fl(z)}', f'cir.rate_path_mc.{sc}', Pth,
                dict(fn='cir_montecarlo.rate_path_mc', r0=r0, a=a, b=b, sigma=sg, t=tt, dt=dt, seed=seed, scheme=sc))
            seed = seed_()
            npth = rng.choice([10, 100])
            ns = int(tt / dt)
            val = CIR.zero_price_mc(r0, a, b, sg, tt, dt, npth, seed, sc)
            np.random.seed(seed)
            z = np.array([np.random.normal(0, 1, size=ns - 1) for _ in range(npth)])
            add(f'CIRZ {sc} {ns - 1} {fl([r0, a, b, sg, dt])} {fl(z)}', f'cir.zero_price_mc.{sc}', [val],
                dict(fn='cir_montecarlo.zero_price_mc', r0=r0, a=a, b=b, sigma=sg, t=tt, dt=dt, num_paths=npth, seed=seed, scheme=sc))
        # ---- Heston (EULER, EULERLOG)
        s0, r, q, v0, kap, th, sgv, rh = rng.uniform(20, 150), rng.uniform(0, 0.08), rng.uniform(0, 0.04), rng.uniform(0.01, 0.09), \
            rng.uniform(0.5, 3), rng.uniform(0.01, 0.09), rng.uniform(0.1, 0.8), rng.uniform(-0.9, 0.5)
        for sc in (1, 2):
            seed = seed_()
            tt, dt, npth = rng.uniform(0.3, 2.0), rng.choice([0.1, 0.02]), rng.randint(1, 3)
            Pth = H.get_paths(s0, r, q, v0, kap, th, sgv, rh, tt, dt, npth, seed, sc)
            ns = Pth.shape[1] - 1
            np.random.seed(seed)
            z = np.array([[np.random.normal(0, 1) for _ in range(2 * ns)] for _ in range(npth)]).reshape(npth, 2 * ns)
            for ip in range(npth):
                add(f'HES {sc} {fl([s0, v0, r - q, kap, th, sgv, rh, dt])} {fl(z[ip])}', f'heston.get_paths.{sc}', Pth[ip],
                    dict(fn='heston.get_paths', s0=s0, r=r, q=q, v0=v0, kappa=kap, theta=th, sigma=sgv, rho=rh, t=tt, dt=dt, num_paths=npth, seed=seed, scheme=sc, path=ip))
            seed = seed_()
            nas = rng.choice([10, 50])
            Pth = PS.get_heston_paths(npth, nas, tt, r - q, s0, v0, kap, th, sgv, rh, sc, seed)
            ns = Pth.shape[1] - 1
            np.random.seed(seed)
            z = np.array([[np.random.normal(0, 1) for _ in range(2 * ns)] for _ in range(npth)]).reshape(npth, 2 * ns)
            for ip in range(npth):
                add(f'HES {sc} {fl([s0, v0, r - q, kap, th, sgv, rh, 1.0 / nas])} {fl(z[ip])}', f'get_heston_paths.{sc}', Pth[ip],
                    dict(fn='get_heston_paths', num_paths=npth, num_annual_steps=nas, t=tt, drift=r - q, s0=s0, v0=v0, kappa=kap, theta=th, sigma=sgv, rho=rh, scheme=sc, seed=seed, path=ip))
        # ---- Heston QUADEXP on both sides of psi = 1.5 (norminvcdf(u) supplied from the implementation's own function)
        from financepy.utils.math import norminvcdf
        for hi_volvol in (False, True):
            kap_q, th_q = rng.uniform(0.5, 3.0), rng.uniform(0.02, 0.08)
            sg_q = math.sqrt(2 * kap_q * th_q * (rng.uniform(3.0, 14.0) if hi_volvol else rng.uniform(0.3, 1.3)))
            v0_q, rh_q = rng.uniform(0.01, 0.09), rng.uniform(-0.9, 0.3)
            for which in ('get_heston_paths', 'heston.get_paths'):
                seed = seed_()
                tt, nas, npth = rng.uniform(0.5, 2.0), rng.choice([12, 50]), rng.randint(1, 3)
                if which == 'get_heston_paths':
                    Pth = PS.get_heston_paths(npth, nas, tt, r - q, s0, v0_q, kap_q, th_q, sg_q, rh_q, 3, seed)
                else:
                    Pth = H.get_paths(s0, r, q, v0_q, kap_q, th_q, sg_q, rh_q, tt, 1.0 / nas, npth, seed, 3)
                ns = Pth.shape[1] - 1
                np.random.seed(seed)
                for ip in range(npth):
                    row = []
                    for _k in range(ns):
                        n1_, n2_, u_ = np.random.normal(0, 1), np.random.normal(0, 1), np.random.uniform(0.0, 1.0)
                        row += [n1_, n2_, u_, norminvcdf(u_)]
                    add(f'HESQ {fl([s0, v0_q, r - q, kap_q, th_q, sg_q, rh_q, 1.0 / nas])} {fl(row)}', f'{which}.3' + ('.psi>1.5' if hi_volvol else ''), Pth[ip],
                        dict(fn=which, scheme='QUADEXP', num_paths=npth, num_annual_steps=nas, t=tt, drift=r - q, r=r, q=q, s0=s0, v0=v0_q, kappa=kap_q, theta=th_q,
                             sigma=sg_q, rho=rh_q, seed=seed, path=ip, sigma2_over_2kappatheta=sg_q * sg_q / (2 * kap_q * th_q)))
        # ---- LMM one factor
        seed = seed_()
        n = rng.randint(3, 8)
        fwd0 = np.array([rng.uniform(0.01, 0.08) for _ in range(n)])
        taus = np.array([rng.choice([0.25, 0.5, 1.0]) for _ in range(n)])
        gam = np.array([0.0] + [rng.uniform(0.05, 0.4) for _ in range(n - 1)])
        npth = 2 * rng.randint(1, 3)
        F = L.lmm_simulate_fwds_1f(n, npth, 0, fwd0, gam, taus, 0, seed)
        np.random.seed(seed)
        gm = np.array([[np.random.normal() for _ in range(n)] for _ in range(npth // 2)]).reshape(npth // 2, n)
        for ip in range(npth // 2):
            for a_, sgn in enumerate((1.0, -1.0)):
                ref = np.concatenate([F[ip + (npth // 2) * a_, j, j:] for j in range(n)])
                add(f'LMM {n} {fl(gam)} {fl(fwd0)} {fl(taus)} {fl(sgn * gm[ip, :n - 1])}', 'lmm_simulate_fwds_1f', ref,
                    dict(fn='lmm_simulate_fwds_1f', num_fwds=n, num_paths=npth, fwd0=fwd0.tolist(), gammas=gam.tolist(), taus=taus.tolist(), use_sobol=0, seed=seed,
                         path=ip + (npth // 2) * a_))
        # ---- LMM multi-factor: one predictor-corrector pass per path on the regenerated draws, NON-uniform accruals
        seed_mf = seed_()
        nfac = rng.randint(1, 3)
        lam = np.array([[0.0] + [rng.uniform(-0.1, 0.3) for _ in range(n - 1)] for _ in range(nfac)])
        taus_mf = np.array([rng.choice([0.25, 0.5, 1.0]) for _ in range(n)])
        taus_mf[1], taus_mf[2] = 0.25, 1.0
        Fm = L.lmm_simulate_fwds_mf(n, nfac, npth, 0, fwd0, lam, taus_mf, 0, seed_mf)
        np.random.seed(seed_mf)
        gmf = np.array([[[np.random.normal() for _ in range(nfac)] for _ in range(n)] for _ in range(npth // 2)]).reshape(npth // 2, n, nfac)
        for ip in range(npth // 2):
            for a_, sgn in enumerate((1.0, -1.0)):
                ref = np.concatenate([Fm[ip + (npth // 2) * a_, j, j:] for j in range(n)])
                add(f'LMMF {n} {nfac} {fl(lam)} {fl(fwd0)} {fl(taus_mf)} {fl(sgn * gmf[ip, :n - 1, :])}', 'lmm_simulate_fwds_mf', ref,
                    dict(fn='lmm_simulate_fwds_mf', num_fwds=n, num_factors=nfac, num_paths=npth, fwd0=fwd0.tolist(), lambdas=lam.tolist(), taus=taus_mf.tolist(),
                         use_sobol=0, seed=seed_mf, path=ip + (npth // 2) * a_))
        # ---- lmm_cap_flr_pricer (as repaired) on these paths
        for is_cap in (1, 0):
            kk = float(fwd0.mean())
            capv = safe_cap(ctx, L, n, npth, kk, fwd0, F, taus, is_cap, f'lmm_simulate_fwds_1f(num_fwds, {npth}, 0, fwd0, {gam.tolist()}, taus, 0, {seed})')
            if capv is None:
                continue
            diag_ = np.stack([F[:, j_, j_] for j_ in range(n)], axis=1)
            add(f'CAPF {is_cap} {n} {fl([kk, fwd0[0]])} {fl(taus)} {fl(diag_)}', 'lmm_cap_flr_pricer', capv,
                dict(fn='lmm_cap_flr_pricer', num_fwds=n, num_paths=npth, K=kk, fwd0=fwd0.tolist(), taus=taus.tolist(), gammas=gam.tolist(), is_cap=is_cap,
                     fwds=f'lmm_simulate_fwds_1f(seed={seed})'))
        # ---- EquityAsianOption fast kernel (as repaired), inside and outside the averaging period
        from financepy.products.equity.equity_asian_option import _value_mc_fast_numba
        for inside in (False, True):
            seed = seed_()
            tau_ = rng.uniform(0.5, 1.5)
            t_ = rng.uniform(0.2, 0.9) * tau_ if inside else tau_ + rng.uniform(0.05, 0.5)
            t0_ = t_ - tau_
            nobs, npth_ = rng.randint(2, 14), rng.choice([2, 7, 40])
            s_, r_, q_, v_ = rng.uniform(50, 150), rng.uniform(0, 0.08), rng.uniform(0, 0.04), rng.uniform(0.1, 0.5)
            k_, acc_, ot = s_ * rng.uniform(0.9, 1.1), s_ * rng.uniform(0.9, 1.1), rng.choice([1, 2])
            val = float(_value_mc_fast_numba(t0_, t_, tau_, k_, nobs, ot, s_, r_, q_, v_, npth_, seed, acc_))
            n_adj = int(nobs * t_ / tau_ + 0.5) + 1 if t0_ < 0 else nobs
            np.random.seed(seed)
            g0 = np.array([np.random.normal() for _ in range(npth_)])
            gobs = np.array([np.random.normal(0.0, 1.0, size=npth_) for _ in range(n_adj)]).reshape(n_adj, npth_)
            draws = np.concatenate([g0[:, None], gobs.T], axis=1)
            add(f'ASN {1 if ot == 1 else 0} {nobs} {fl([t0_, t_, tau_, k_, acc_, s_, r_, q_, v_])} {fl(draws)}',
                '_value_mc_fast_numba' + ('.in-period' if inside else ''), [val],
                dict(fn='equity_asian_option._value_mc_fast_numba', t0=t0_, t=t_, tau=tau_, k=k_, n=nobs, option_type=ot, stock_price=s_, interest_rate=r_,
                     dividend_yield=q_, volatility=v_, num_paths=npth_, seed=seed, accrued_average=acc_))
        # ---- default time
        m = rng.randint(2, 7)
        ts = np.concatenate([[0.0], np.cumsum([rng.uniform(0.3, 2.0) for _ in range(m)])])
        hs = [rng.uniform(0.002, 0.2) for _ in range(m)]
        vs = np.concatenate([[1.0], np.exp(-np.cumsum(np.array(hs) * np.diff(ts)))])
        for u in [rng.random() for _ in range(6)] + [0.0, 1.0, float(vs[1]), float(vs[-1]), float(vs[-1]) * 0.5]:
            add(f'UDT {len(ts)} {fl([u])} {fl(ts)} {fl(vs)}', 'uniform_to_default_time', [uniform_to_default_time(u, ts, vs)],
                dict(fn='uniform_to_default_time', u=u, t=ts.tolist(), v=vs.tolist()))

    comps = {}
    for comp, impl, cs in checks:
        c = comps.setdefault(comp, [0, 0])
        c[0] += 1
        c[1] += 1 if impl.size > 2 or comp.startswith(('_value', 'vasicek.zero', 'cir.zero', 'uniform', 'lmm_cap')) else 0
    for comp, (n, nt) in sorted(comps.items()):
        ctx.count('model:' + comp, n, nt)
    if not enabled:
        return
    try:
        outs = exedriver.run('c19driver', 'C19', ops)
    except C.DriverError as e:
        ctx.broke(f'model driver failed: {str(e)[:300]}')
        return
    nbad, worst = {}, {}
    for o, (comp, impl, cs) in zip(outs, checks):
        m = parse(o)
        if m is None:
            ctx.broke(f'model driver rejected an op of {comp}')
            continue
        if comp.endswith(':up-only'):
            m = m[:len(impl)]
        e = relerr(m, impl)
        worst[comp] = max(worst.get(comp, 0.0), e)
        if not e <= TOL_MODEL:
            nbad[comp] = nbad.get(comp, 0) + 1
            if nbad[comp] <= 1:
                k = int(np.argmax(np.abs(m - impl))) if m.shape == impl.shape else -1
                ctx.broke(f'correspondence {comp}: the compiled routine does not follow the modelled sampling scheme on its own '
                          f'draws (max rel diff {e:.3g}; entry {k}: model {m[k] if k >= 0 else None!r} vs implementation '
                          f'{impl[k] if k >= 0 else None!r}) at ' + json.dumps(cs, default=str)[:700])
    ctx.cov['model_vs_implementation_worst_rel'] = {k: float(f'{v:.2e}') for k, v in sorted(worst.items())}
    ctx.cov['model_disagreements'] = nbad


# ================================================================================================ reproducibility
XPROC_TOL = 1e-13     # cross-process agreement: last-bit code-generation differences accumulate along cumulative products (measured <= 2e-15)
_burn = None


def perturb_global_rng(k):
    """leave both hidden generators (NumPy's and Numba's) in some other state, as an unrelated earlier call would"""
    global _burn
    if _burn is None:
        from numba import njit

        @njit
        def burn(seed, n):
            np.random.seed(seed)
            s = 0.0
            for _ in range(n):
                s += np.random.normal()
            return s
        _burn = burn
    np.random.seed(1000 + k)
    np.random.standard_normal(3 + k % 7)
    _burn(77 + k, 5 + k % 7)


def reproducibility(ctx, bseeds, procs, quick):
    sch_fwd = battery_schemes(bseeds)                   # scheme A then scheme B then ..., same seed and numbers
    sch_rev = battery_schemes(bseeds, reverse=True)      # ... B then A
    sch_again = battery_schemes(bseeds)
    d_rev_s, d_again_s = dict(sch_rev), dict(sch_again)
    for name, b in sch_fwd:
        if d_again_s[name] != b:
            ctx.violation('same scheme, same seed, same parameters, second pass over the scheme enums returns different bits',
                          {'routine': name, 'seeds': bseeds, 'battery': 'props/c19.py:battery_schemes'}, clause='same-seed-same-bits')
        elif d_rev_s[name] != b:
            ctx.violation('same seed and parameters, but the result depends on which scheme enum was simulated BEFORE it (calls made in enum order '
                          'vs reversed enum order in the same interpreter): paths of an earlier call are re-used under a key that omits the scheme',
                          {'routine': name, 'seeds': bseeds, 'order_1': [n for n, _ in sch_fwd if n.split('.')[:2] == name.split('.')[:2]][:6],
                           'battery': 'props/c19.py:battery_schemes(reverse=True)'}, clause='history-independent')
    ctx.count('reproducibility:scheme-order', 3 * len(sch_fwd), 3 * len(sch_fwd), sample={'routines': [n for n, _ in sch_fwd[:4]]})
    base = battery(bseeds)
    again = battery(bseeds, pre=perturb_global_rng)     # both hidden generators are left in another state before EVERY call
    perturb_global_rng(2)
    rev = battery(bseeds[::-1])           # other order of calls, other history
    base = base + sch_fwd
    again = again + sch_again
    rev = rev + sch_fwd
    names = [n for n, _ in base]
    d_again = dict(again)
    d_rev = dict(rev)
    n_eval = 0
    for name, b in base:
        n_eval += 1
        if d_again[name] != b:
            ctx.violation('same seed, same parameters, second call in the same process returns different bits (hidden generator '
                          'state leaks into the routine)', {'routine': name, 'seeds': bseeds, 'battery': 'props/c19.py:battery'},
                          clause='same-seed-same-bits')
        elif d_rev.get(name) != b:
            ctx.violation('same seed, same parameters, different call history returns different bits', {'routine': name, 'seeds': bseeds,
                          'history': 'battery run with the seeds in reverse order after unrelated draws'}, clause='history-independent')
    # the seed must matter (except for Sobol draws, which are deterministic by design)
    d = dict(base)
    for name in names:
        if name.endswith(f'.{bseeds[0]}'):
            stem = name[: -len(str(bseeds[0])) - 1]
            other = d.get(f'{stem}.{bseeds[1]}')
            if other is None:
                continue
            same = other == d[name]
            if 'sobol' in stem:
                if not same:
                    ctx.violation('Sobol-driven routine depends on the pseudo-random seed', {'routine': stem, 'seeds': bseeds}, clause='sobol-deterministic')
            elif same:
                ctx.violation('two different seeds give bit-identical output: the routine ignores its seed', {'routine': stem, 'seeds': bseeds},
                              clause='seed-is-used')
    ctx.count('reproducibility:in-process', 3 * n_eval, 3 * n_eval, sample={'routines': names[:6], 'seeds': bseeds})
    # subprocesses with other thread settings
    sub = {}
    for tag, p in procs.items():
        try:
            so, se = p.communicate(timeout=900)
        except Exception as e:  # noqa: BLE001
            p.kill()
            raise RuntimeError(f'battery subprocess {tag} timed out: {e}')
        line = [ln for ln in so.split('\n') if ln.startswith('BATTERY ')]
        if p.returncode != 0 or not line:
            raise RuntimeError(f'battery subprocess {tag} failed rc={p.returncode}: {se[-1500:]}')
        sub[tag] = dict(json.loads(line[0][8:]))
    tags = sorted(sub)
    ulp_tt = {}
    # (a) the two fresh processes differ ONLY in their thread settings: bit-for-bit
    nd = 0
    for name, _ in base:
        x, y = sub[tags[0]].get(name), sub[tags[1]].get(name)
        if x != y:
            a_, b_ = np.frombuffer(bytes.fromhex(x or '')), np.frombuffer(bytes.fromhex(y or ''))
            rel = float(np.max(np.abs(a_ - b_) / np.maximum(np.abs(a_), 1e-300))) if a_.size == b_.size else float('inf')
            if rel <= XPROC_TOL:      # see (b): with a cold cache one process compiles, the other may load the cached code
                ulp_tt[name] = rel
                continue
            nd += 1
            if nd <= 2:
                ctx.violation('same seed gives different results in two fresh processes that differ only in their thread settings and in the ORDER in which the scheme enums are simulated',
                              {'routine': name, 'seeds': bseeds, 'settings': tags, 'max_rel_diff': rel}, clause='thread-count-independent')
    ctx.count('reproducibility:subprocess:thread-settings', len(base), len(base))
    # (b) fresh process vs this process: identical up to JIT code generation.  MEASURED: with a cold Numba cache the
    # un-cached @njit generators (get_paths_times, get_assets_paths_times) are compiled in a different order here and in
    # the subprocess and then differ in the last bit of exp/multiply chains (<= 5e-16 relative); with a warm cache they are
    # bit-identical.  That is the compiler, not the seed: allowed up to 1e-13 relative and reported, anything larger is a violation.
    ulp = {}
    for tag in tags:
        for name, b in base:
            o = sub[tag].get(name)
            if o == b:
                continue
            a_ = np.frombuffer(bytes.fromhex(b))
            b_ = np.frombuffer(bytes.fromhex(o or ''))
            rel = float(np.max(np.abs(a_ - b_) / np.maximum(np.abs(a_), 1e-300))) if a_.size == b_.size else float('inf')
            if rel <= XPROC_TOL:
                ulp[name] = max(ulp.get(name, 0.0), rel)
            else:
                ctx.violation(f'same seed gives a different result in a fresh process ("{tag}")',
                              {'routine': name, 'seeds': bseeds, 'settings': tag, 'max_rel_diff': rel, 'entries': int(a_.size)},
                              clause='process-independent')
        ctx.count(f'reproducibility:subprocess:{tag}', len(base), len(base))
    ctx.cov['thread_settings_last_bit_differences'] = {k: float(f'{v:.2e}') for k, v in sorted(ulp_tt.items())} or 'none (bit-identical)'
    ctx.cov['cross_process_last_bit_differences'] = {k: float(f'{v:.2e}') for k, v in sorted(ulp.items())} or 'none (bit-identical)'
    if ulp:
        ctx.notes.append('fresh-process results differ from in-process results in the last bits for ' + ', '.join(sorted(ulp)[:4])
                         + ' (un-cached @njit code generated in a different order; <= %.1e relative) — different draws would differ at order 1' % max(ulp.values()))
    ctx.cov['subprocess_settings'] = {'single-thread': 'NUMBA_NUM_THREADS=OMP_NUM_THREADS=OPENBLAS_NUM_THREADS=MKL_NUM_THREADS=1',
                                      'many-threads': 'NUMBA default threads, OMP/OPENBLAS/MKL_NUM_THREADS=8, workqueue layer'}


# ================================================================================================ structure oracles
def structure_oracles(ctx, quick):
    """exact consequences of the theorems that are observable on the implementation's outputs (no statistics)"""
    BS, G, PS, V, CIR, H, L = fp()
    from financepy.utils.helpers import uniform_to_default_time
    rng = ctx.rng('structure')
    n_cases = 12 if quick else 100
    for _ in range(n_cases):
        seed = rng.randint(1, 2 ** 31 - 1)
        npaths, nst = 2 * rng.randint(2, 20), rng.randint(1, 12)
        t, mu, s0, sig = rng.uniform(0.1, 3.0), rng.uniform(-0.05, 0.1), rng.uniform(5, 200), rng.uniform(0.05, 0.6)
        _, S = G.get_paths_times(npaths, nst, t, mu, s0, sig, seed)
        cs = dict(fn='get_paths_times', num_paths=npaths, num_time_steps=nst, t=t, mu=mu, stock_price=s0, volatility=sig, seed=seed)
        want = (s0 * np.exp((mu - sig * sig / 2) * (t / nst) * np.arange(nst + 1))) ** 2
        prod = S[0::2] * S[1::2]
        e = float(np.max(np.abs(prod / want - 1)))
        if not e <= 1e-11:      # theorem gbm_antithetic_pair_product
            ctx.violation('antithetic GBM pair: product of the two paths is not (S0*exp((mu-sigma^2/2)t))^2 — the second path is not '
                          'the path of the negated draws with the documented drift', dict(cs, max_rel_dev=e), clause='antithetic-pair-product')
        S2 = PS.get_gbm_paths(npaths, 12, 0.5, mu, s0, sig, 2, seed)
        want = (s0 * np.exp((mu - sig * sig / 2) * (1 / 12) * np.arange(S2.shape[1]))) ** 2
        e = float(np.max(np.abs(S2[:npaths] * S2[npaths:] / want - 1)))
        if not e <= 1e-11:
            ctx.violation('get_gbm_paths ANTITHETIC: pair product is not deterministic',
                          dict(fn='get_gbm_paths', num_paths=npaths, num_annual_steps=12, t=0.5, mu=mu, stock_price=s0, sigma=sig, scheme=2, seed=seed, max_rel_dev=e),
                          clause='antithetic-pair-product')
        # value_mc kernels on the forward contract (strike ~ 0): the antithetic estimate is df*ss*mean(cosh(g*v*sqrt(t))) on the
        # regenerated draws (theorem antithetic_pair_forward) — the second sample must be the path of -g
        sv, tv, rv, qv, vv = rng.uniform(20, 200), rng.uniform(0.2, 2.0), rng.uniform(0.0, 0.08), rng.uniform(0.0, 0.05), rng.uniform(0.1, 0.5)
        nv = 2000
        for nm, f in (('_value_mc_numba_only', BS._value_mc_numba_only), ('_value_mc_numpy_numba', BS._value_mc_numpy_numba),
                      ('_value_mc_numba_parallel', BS._value_mc_numba_parallel), ('_value_mc_numpy_only', BS._value_mc_numpy_only),
                      ('_value_mc_nonumba_nonumpy', BS._value_mc_nonumba_nonumpy)):
            kk = 1e-9 * sv
            val = float(f(sv, tv, kk, 1, rv, qv, vv, nv, seed, 0))
            np.random.seed(seed)
            gg = np.random.standard_normal(nv)
            want = math.exp(-rv * tv) * (sv * math.exp((rv - qv - vv * vv / 2) * tv) * float(np.mean(np.cosh(gg * vv * math.sqrt(tv)))) - kk)
            if not abs(val - want) <= 1e-10 * abs(want):
                ctx.violation(f'black_scholes_mc.{nm}: the estimate of the forward contract is not the antithetic pair average of its own draws '
                              '(second sample is not the terminal price at -g, or drift/discount differ from the documented ones)',
                              dict(fn=nm, s=sv, t=tv, K=kk, option_type=1, r=rv, q=qv, v=vv, num_paths=nv, seed=seed, use_sobol=0, returned=val,
                                   antithetic_pair_average=want), clause='antithetic-forward')
        # Vasicek antithetic mean path = Euler mean recursion (theorems vas_antithetic_mean_path, euler_mean_closed_form)
        a, b, sg, r0 = rng.uniform(0.1, 1.5), rng.uniform(0.01, 0.08), rng.uniform(0.002, 0.03), rng.uniform(0.0, 0.08)
        Pth = PS.get_vasicek_paths(5, 12, 1.0, r0, a, b, sg, 2, seed)
        mean = (Pth[:5] + Pth[5:]) / 2
        want = b + (r0 - b) * (1 - a / 12) ** np.arange(Pth.shape[1])
        e = float(np.max(np.abs(mean - want[None, :])))
        if not e <= 1e-13:
            ctx.violation('get_vasicek_paths ANTITHETIC: the pair average is not the Euler mean theta+(r0-theta)(1-kappa dt)^n',
                          dict(fn='get_vasicek_paths', num_paths=5, num_annual_steps=12, t=1.0, r0=r0, kappa=a, theta=b, sigma=sg, scheme=2, seed=seed, max_abs_dev=e),
                          clause='antithetic-mean-path')
        # LMM: antithetic halves, driftless first forward
        n = rng.randint(3, 7)
        fwd0 = np.array([rng.uniform(0.01, 0.08) for _ in range(n)])
        taus = np.array([rng.choice([0.25, 0.5, 1.0]) for _ in range(n)])
        gam = np.array([0.0] + [rng.uniform(0.05, 0.4) for _ in range(n - 1)])
        F = L.lmm_simulate_fwds_1f(n, 8, 0, fwd0, gam, taus, 0, seed)
        for j in range(n - 1):       # theorem lmm_driftless_pair_product, forward k=j+... the forward with m=1? use m=0: fwd[j+1, j]
            lhs = F[:4, j + 1, j] * F[4:, j + 1, j]
            rhs = F[:4, j, j] * F[4:, j, j] * math.exp(-gam[0] ** 2 * taus[j])
            if not np.allclose(lhs, rhs, rtol=1e-11, atol=0):
                ctx.violation('lmm_simulate_fwds_1f: antithetic pair product of the driftless forward is not deterministic',
                              dict(fn='lmm_simulate_fwds_1f', num_fwds=n, fwd0=fwd0.tolist(), gammas=gam.tolist(), taus=taus.tolist(), seed=seed, step=j),
                              clause='antithetic-pair-product')
                break
        # LMM predictor-corrector step, documented formula (Hull 32.14 with the accrual tau_i of forward i in BOTH drift sums), recomputed
        # with NumPy from the routine's own previous-step forwards and the regenerated draws, NON-uniform accruals — exact, no statistics
        nfac = rng.randint(1, 3)
        lam = np.array([[0.0] + [rng.uniform(-0.1, 0.3) for _ in range(n - 1)] for _ in range(nfac)])
        taus_n = np.array([rng.choice([0.25, 0.5, 1.0]) for _ in range(n)])
        taus_n[1], taus_n[2] = 0.25, 1.0
        for simname in ('lmm_simulate_fwds_mf', 'lmm_simulate_fwds_1f'):
            if simname == 'lmm_simulate_fwds_mf':
                lam_, nf_ = lam, nfac
                Fs = L.lmm_simulate_fwds_mf(n, nf_, 4, 0, fwd0, lam_, taus_n, 0, seed)
            else:
                lam_, nf_ = gam[None, :], 1
                Fs = L.lmm_simulate_fwds_1f(n, 4, 0, fwd0, gam, taus_n, 0, seed)
            np.random.seed(seed)
            gd = np.array([[[np.random.normal() for _ in range(nf_)] for _ in range(n)] for _ in range(2)]).reshape(2, n, nf_)
            bad = None
            for ip in range(4):
                gpath = gd[ip % 2] * (1.0 if ip < 2 else -1.0)
                for j in range(n - 1):
                    for k in range(j + 1, n):
                        lk = lam_[:, k - j]
                        idx = np.arange(j + 1, k + 1)
                        zz = lam_[:, idx - j].T @ lk
                        fi = Fs[ip, j, idx]
                        mu_a = float(np.sum(fi * taus_n[idx] * zz / (1.0 + fi * taus_n[idx])))
                        ito = float(lk @ lk)
                        rnd = float(lk @ gpath[j]) * math.sqrt(taus_n[j])
                        f_b = Fs[ip, j, k] * math.exp(mu_a * taus_n[j] - 0.5 * ito * taus_n[j] + rnd)
                        mu_b = float(np.sum(f_b * taus_n[idx] * zz / (1.0 + f_b * taus_n[idx])))
                        want = Fs[ip, j, k] * math.exp(0.5 * (mu_a + mu_b) * taus_n[j] - 0.5 * ito * taus_n[j] + rnd)
                        if bad is None and not abs(Fs[ip, j + 1, k] - want) <= 1e-11 * abs(want):
                            bad = dict(path=ip, time_step=j, forward=k, returned=float(Fs[ip, j + 1, k]), documented_step=want)
            if bad:
                ctx.violation(f'{simname}: one predictor-corrector step of a forward is not the documented drift step (accrual tau_i of forward i in both drift '
                              'sums, Ito term, factor draws) applied to its own previous forwards',
                              dict(bad, fn=simname, num_fwds=n, num_paths=4, fwd0=fwd0.tolist(), taus=taus_n.tolist(),
                                   lambdas=lam_.tolist(), use_sobol=0, seed=seed), clause='lmm-drift-step')
        # default time inverse identity (theorem uniformToDefaultTime_inverse)
        m = rng.randint(2, 7)
        ts = np.concatenate([[0.0], np.cumsum([rng.uniform(0.3, 2.0) for _ in range(m)])])
        hs = np.array([rng.uniform(0.002, 0.2) for _ in range(m)])
        vs = np.concatenate([[1.0], np.exp(-np.cumsum(hs * np.diff(ts)))])
        for _k in range(10):
            u = rng.uniform(float(vs[-1]) * 1.0000001, 0.9999999)
            tau = float(uniform_to_default_time(u, ts, vs))
            i = int(np.searchsorted(ts, tau, side='right'))
            i = min(max(i, 1), m)
            q = vs[i - 1] * math.exp(-hs[i - 1] * (tau - ts[i - 1]))
            if not (abs(q - u) <= 1e-12 and ts[0] <= tau <= ts[-1]):
                ctx.violation('uniform_to_default_time: survival probability at the returned time is not the uniform (piecewise-flat hazard curve)',
                              dict(fn='uniform_to_default_time', u=u, t=ts.tolist(), v=vs.tolist(), returned=tau, survival_at_returned=q),
                              clause='inverse-survival')
    ctx.count('structure_oracles', n_cases * 14, n_cases * 14, sample={'fn': 'get_paths_times', 'clause': 'antithetic-pair-product'})


# ================================================================================================ vanilla value_mc
def moment_structure_oracles(ctx, quick):
    """deterministic consequences of the theorems of Props/C19f,g that are observable on the implementation (no statistics):
    the closed forms the MC routines are compared with (vas_zero_price_exponent, vas_meanr_semigroup, vas_variancer_compose,
    cir_meanr_eq_vas_meanr, vas_euler_mean_le_exact, vas_euler_variance_ge_exact), the full-truncation CIR Euler step below zero
    (cirEulerPS_below_zero_deterministic), the Milstein lower bound (cirMilstein_lower_bound), positivity of LMM forwards
    (lmmStep1F_pos / lmmStepMF_pos)."""
    BS, G, PS, V, CIR, H, L = fp()
    rng = ctx.rng('moment-structure')
    n_cases = 12 if quick else 100
    n_eval = 0
    for _ in range(n_cases):
        seed = rng.randint(1, 2 ** 31 - 1)
        a, b, sg, r0 = rng.uniform(0.05, 1.5), rng.uniform(0.005, 0.09), rng.uniform(0.002, 0.05), rng.uniform(-0.01, 0.10)
        t, s_ = rng.uniform(0.05, 12.0), rng.uniform(0.05, 5.0)
        cs = dict(r0=r0, a=a, b=b, sigma=sg, t=t, s=s_)
        # zero_price = exp(-M + V/2), M and V the mean and variance of the integrated OU rate (independent spelling)
        B = (1.0 - math.exp(-a * t)) / a
        M = b * t + (r0 - b) * B
        Vv = sg * sg / (a * a) * (t - 2.0 * B + (1.0 - math.exp(-2.0 * a * t)) / (2.0 * a))
        zp = float(V.zero_price(r0, a, b, sg, t))
        want = math.exp(-M + Vv / 2.0)
        if not abs(zp - want) <= 1e-12 * want:
            ctx.violation('vasicek_mc.zero_price is not E[exp(-integral of r)] of the Gaussian integrated rate, exp(-M + V/2)',
                          dict(cs, fn='vasicek_mc.zero_price', returned=zp, gaussian_expectation=want), clause='zero-price-closed-form')
        # meanr is a flow, variancer composes
        m1 = float(V.meanr(float(V.meanr(r0, a, b, s_)), a, b, t))
        m2 = float(V.meanr(r0, a, b, s_ + t))
        if not abs(m1 - m2) <= 1e-13 * max(1e-3, abs(m2)):
            ctx.violation('vasicek_mc.meanr is not a flow: meanr(meanr(r0, s), t) != meanr(r0, s + t)',
                          dict(cs, fn='vasicek_mc.meanr', composed=m1, direct=m2), clause='mean-closed-form')
        v1 = math.exp(-2.0 * a * t) * float(V.variancer(a, sg, s_)) + float(V.variancer(a, sg, t))
        v2 = float(V.variancer(a, sg, s_ + t))
        if not abs(v1 - v2) <= 1e-12 * abs(v2):
            ctx.violation('vasicek_mc.variancer does not compose: Var(s+t) != exp(-2at) Var(s) + Var(t)',
                          dict(cs, fn='vasicek_mc.variancer', composed=v1, direct=v2), clause='variance-closed-form')
        c1 = float(CIR.meanr(r0, a, b, t))
        if not abs(c1 - float(V.meanr(r0, a, b, t))) <= 1e-14 * max(1e-3, abs(c1)):
            ctx.violation('cir_montecarlo.meanr != vasicek_mc.meanr (same linear drift, same conditional mean)',
                          dict(cs, fn='cir_montecarlo.meanr', cir=c1, vasicek=float(V.meanr(r0, a, b, t))), clause='mean-closed-form')
        # Euler mean vs exact mean: sign of the bias (antithetic pair average of the implementation = Euler mean recursion)
        nst = 12
        if a / nst <= 1.0:
            Pth = PS.get_vasicek_paths(3, nst, 1.0, r0, a, b, sg, 2, seed)
            mean = (Pth[:3] + Pth[3:]) / 2
            exact = np.array([float(V.meanr(r0, a, b, k / nst)) for k in range(Pth.shape[1])])
            dev = (mean - exact[None, :]) * (1.0 if r0 >= b else -1.0)
            if not float(dev.max()) <= 1e-13:
                ctx.violation('get_vasicek_paths ANTITHETIC: the pair average (Euler mean) is on the wrong side of meanr — it must decay '
                              'towards theta at least as fast as exp(-kappa t) for 0 <= kappa dt <= 1',
                              dict(cs, fn='get_vasicek_paths', num_annual_steps=nst, scheme=2, seed=seed, worst=float(dev.max())), clause='euler-bias-sign')
        if not float(V.variancer(a, sg, 1.0 / nst)) <= sg * sg / nst * (1 + 1e-14):
            ctx.violation('vasicek_mc.variancer(dt) exceeds the Euler one-step variance sigma^2 dt', dict(cs, dt=1.0 / nst), clause='variance-closed-form')
        # CIR full truncation: from r0 <= 0 the first EULER step is r0 + kappa*theta*dt for every path
        kap, th, sig = rng.uniform(0.1, 2.0), rng.uniform(0.01, 0.09), rng.uniform(0.02, 0.5)
        rneg = -rng.uniform(0.0, 0.02)
        Pc = PS.get_cir_paths(6, 24, 0.5, rneg, kap, th, sig, 1, seed)
        want1 = rneg + kap * th / 24.0
        if not float(np.max(np.abs(Pc[:, 1] - want1))) <= 1e-15:
            ctx.violation('get_cir_paths EULER (full truncation): from r0 <= 0 the first step is not the deterministic r0 + kappa*theta*dt',
                          dict(fn='get_cir_paths', num_paths=6, num_annual_steps=24, t=0.5, r0=rneg, kappa=kap, theta=th, sigma=sig, scheme=1, seed=seed,
                               returned=Pc[:, 1].tolist(), documented=want1), clause='full-truncation')
        # CIR Milstein: from r >= 0 the next value is at least (kappa(theta - r) - sigma^2/4) dt
        Pm = PS.get_cir_paths(6, 24, 1.0, rng.uniform(0.0, 0.08), kap, th, sig, 3, seed)
        prev, nxt = Pm[:, :-1], Pm[:, 1:]
        lb = (kap * (th - prev) - sig * sig / 4.0) / 24.0
        ok = (prev < 0.0) | (nxt >= lb - 1e-14)
        if not bool(np.all(ok)):
            i, j = [int(x) for x in np.argwhere(~ok)[0]]
            ctx.violation('get_cir_paths MILSTEIN: a step from r >= 0 is below (kappa(theta-r) - sigma^2/4) dt — the step is not the square '
                          '(sqrt(r) + sigma sqrt(dt) z/2)^2 plus that drift', dict(fn='get_cir_paths', num_annual_steps=24, t=1.0, kappa=kap, theta=th,
                          sigma=sig, scheme=3, seed=seed, path=i, step=j, r=float(prev[i, j]), r_next=float(nxt[i, j]), lower_bound=float(lb[i, j])),
                          clause='milstein-square-form')
        # LMM forwards stay positive (live triangle only)
        n = rng.randint(3, 7)
        fwd0 = np.array([rng.uniform(0.005, 0.08) for _ in range(n)])
        taus = np.array([rng.choice([0.25, 0.5, 1.0]) for _ in range(n)])
        gam = np.array([0.0] + [rng.uniform(0.05, 0.6) for _ in range(n - 1)])
        lam = np.array([[0.0] + [rng.uniform(-0.2, 0.4) for _ in range(n - 1)] for _ in range(2)])
        for nm, F in (('lmm_simulate_fwds_1f', L.lmm_simulate_fwds_1f(n, 8, 0, fwd0, gam, taus, 0, seed)),
                      ('lmm_simulate_fwds_mf', L.lmm_simulate_fwds_mf(n, 2, 8, 0, fwd0, lam, taus, 0, seed))):
            live = np.array([F[:, j, k] for j in range(n) for k in range(j, n)])
            if not bool(np.all(live > 0.0)):
                ctx.violation(f'{nm}: a forward that starts positive is not positive on the live triangle (the step multiplies by an exponential)',
                              dict(fn=nm, num_fwds=n, fwd0=fwd0.tolist(), taus=taus.tolist(), seed=seed, minimum=float(live.min())), clause='lmm-positivity')
        n_eval += 11
    ctx.count('moment_structure_oracles', n_eval, n_eval, sample={'fn': 'vasicek_mc.zero_price', 'clause': 'zero-price-closed-form'})


def mkdates():
    from financepy.utils.date import Date
    return Date(20, 3, 2024)


def flat(value_dt, r):
    from financepy.market.curves.discount_curve_flat import DiscountCurveFlat
    from financepy.utils.frequency import FrequencyTypes
    return DiscountCurveFlat(value_dt, r, FrequencyTypes.CONTINUOUS)


def cc(curve, value_dt, dt):
    t = (dt - value_dt) / 365.0
    return -math.log(curve.df(dt)) / t


def seeds_of(rng, m):
    return [rng.randint(1, 2 ** 31 - 1) for _ in range(m)]


def vanilla_stats(ctx, st, quick):
    from financepy.products.equity.equity_vanilla_option import EquityVanillaOption
    from financepy.products.fx.fx_vanilla_option import FXVanillaOption
    from financepy.utils.global_types import OptionTypes
    from financepy.models.black_scholes import BlackScholes
    rng = ctx.rng('vanilla')
    vd = mkdates()
    M = 24 if quick else 64
    npaths = 10000
    n_eval = 0
    methods = ['value_mc', 'value_mc_numpy_only', 'value_mc_numba_only', 'value_mc_numba_parallel', 'value_mc_numpy_numba', 'value_mc_nonumba_nonumpy']
    for case_i in range(2 if quick else 8):
        s = rng.uniform(50, 150)
        r, q, v = rng.uniform(0.0, 0.08), rng.uniform(0.01, 0.06), rng.uniform(0.15, 0.5)
        days = rng.choice([180, 365, 730])
        ed = vd.add_days(days)
        t = days / 365.0
        k = s * math.exp(rng.uniform(-0.15, 0.15))
        dc, qc = flat(vd, r), flat(vd, q)
        rr, qq = cc(dc, vd, ed), cc(qc, vd, ed)
        model = BlackScholes(v)
        for ot in (OptionTypes.EUROPEAN_CALL, OptionTypes.EUROPEAN_PUT):
            opt = EquityVanillaOption(ed, k, ot)
            ref = bs_closed(s, t, k, rr, qq, v, ot == OptionTypes.EUROPEAN_CALL)
            exact = float(opt.value(vd, s, dc, qc, model))
            for meth in methods:
                npth = 2000 if meth == 'value_mc_nonumba_nonumpy' else npaths
                sds = seeds_of(rng, M)
                vals = [float(getattr(opt, meth)(vd, s, dc, qc, model, npth, sd, 0)) for sd in sds]
                n_eval += M
                cs = dict(fn=f'EquityVanillaOption.{meth}', value_dt='20-MAR-2024', expiry_days=days, stock_price=s, strike=k, option_type=ot.name,
                          r=rr, q=qq, volatility=v, num_paths=npth, use_sobol=0, seeds=sds[:4], closed_form=ref, library_value=exact)
                st.ttest(f'vanilla.{meth}', f'EquityVanillaOption.{meth}: mean over seeds is not within the Student-t bound of the Black-Scholes value',
                         vals, ref, cs, bias=2e-7 * s)
            # Sobol: deterministic in the seed, quasi-MC error far below the pseudo-random standard error
            for meth in ('value_mc', 'value_mc_numpy_numba'):
                vs_ = float(getattr(opt, meth)(vd, s, dc, qc, model, 8192, 11, 1))
                vs2 = float(getattr(opt, meth)(vd, s, dc, qc, model, 8192, 12, 1))
                n_eval += 2
                sd_pay = v * math.sqrt(t) * s            # scale of the payoff s.d.
                cs = dict(fn=f'EquityVanillaOption.{meth}', stock_price=s, strike=k, option_type=ot.name, r=rr, q=qq, volatility=v, expiry_days=days,
                          num_paths=8192, use_sobol=1, value=vs_, closed_form=ref)
                st.see('vanilla.sobol', abs(vs_ - ref) / (4.0 * sd_pay / math.sqrt(8192)))
                if vs_ != vs2:
                    ctx.violation('Sobol value_mc depends on the pseudo-random seed', dict(cs, other_seed_value=vs2), clause='sobol-deterministic')
                if not abs(vs_ - ref) <= 4.0 * sd_pay / math.sqrt(8192):
                    ctx.violation('Sobol value_mc is further from the closed form than 4 pseudo-random standard errors', cs, clause='unbiased')
        # FX vanilla
        from financepy.products.fx.fx_vanilla_option import FXVanillaOption as FXV
        fx = rng.uniform(0.8, 1.6)
        kf = fx * math.exp(rng.uniform(-0.1, 0.1))
        rd, rf, vfx = rng.uniform(0.0, 0.06), rng.uniform(0.0, 0.06), rng.uniform(0.05, 0.25)
        dcd, dcf = flat(vd, rd), flat(vd, rf)
        for ot in (OptionTypes.EUROPEAN_CALL, OptionTypes.EUROPEAN_PUT):
            fo = FXV(ed, kf, 'EURUSD', ot, 1.0, 'USD', 2)
            sds = seeds_of(rng, M)
            vals = [float(fo.value_mc(vd, fx, dcd, dcf, BlackScholes(vfx), npaths, sd)) for sd in sds]
            n_eval += M
            rdd, rff = cc(dcd, vd, ed), cc(dcf, vd, ed)
            ref = bs_closed(fx, t, kf, rdd, rff, vfx, ot == OptionTypes.EUROPEAN_CALL)
            cs = dict(fn='FXVanillaOption.value_mc', spot_fx_rate=fx, strike=kf, option_type=ot.name, r_dom=rdd, r_for=rff, volatility=vfx, expiry_days=days,
                      num_paths=npaths, seeds=sds[:4], closed_form=ref)
            st.ttest('fxvanilla.value_mc', 'FXVanillaOption.value_mc: mean over seeds is not within the Student-t bound of the Garman-Kohlhagen value '
                     '(expiry-date time axis, as the routine documents)', vals, ref, cs, bias=2e-7 * fx)
    ctx.count('value_mc:vanilla', n_eval, n_eval, sample={'fn': 'EquityVanillaOption.value_mc', 'num_paths': npaths, 'seeds_per_case': M})


# ================================================================================================ path generators
def path_stats(ctx, st, quick):
    BS, G, PS, V, CIR, H, L = fp()
    rng = ctx.rng('paths')
    n_eval = 0
    for _ in range(2 if quick else 8):
        seed = rng.randint(1, 2 ** 31 - 1)
        npaths = 20000
        nst = rng.choice([4, 12])
        t, mu, s0, sig = rng.uniform(0.5, 2.0), rng.uniform(-0.03, 0.08), rng.uniform(20, 150), rng.uniform(0.1, 0.45)
        _, S = G.get_paths_times(npaths, nst, t, mu, s0, sig, seed)
        n_eval += 1
        tt = np.linspace(0, t, nst + 1)
        disc = S * np.exp(-mu * tt)[None, :]
        pair = 0.5 * (disc[0::2] + disc[1::2])
        cs = dict(fn='get_paths_times', num_paths=npaths, num_time_steps=nst, t=t, mu=mu, stock_price=s0, volatility=sig, seed=seed)
        for it in (1, nst // 2, nst):
            if it >= 1:
                st.ztest('gbm.martingale.get_paths_times', 'get_paths_times: discounted price exp(-mu t) S_t is not a martingale (sample mean vs S0)',
                         pair[:, it], s0, dict(cs, time_index=it), clause='martingale')
        # log-return variance: sigma^2 t
        lr = np.log(S[:, -1] / s0)
        var_s = lr[0::2] ** 2 * 0 + (lr[0::2] - (mu - sig * sig / 2) * t) ** 2    # antithetic partner has the same square
        st.ztest('gbm.variance.get_paths_times', 'get_paths_times: variance of the log-return is not sigma^2 t', var_s, sig * sig * t, cs, clause='variance')
        for scheme in (1, 2):
            seed = rng.randint(1, 2 ** 31 - 1)
            nas = 12
            S = PS.get_gbm_paths(npaths // 2, nas, t, mu, s0, sig, scheme, seed)
            n_eval += 1
            nT = S.shape[1] - 1
            Tend = nT / nas
            d = S[:, -1] * math.exp(-mu * Tend)
            smp = 0.5 * (d[:npaths // 2] + d[npaths // 2:]) if scheme == 2 else d
            st.ztest(f'gbm.martingale.get_gbm_paths.{scheme}', 'get_gbm_paths: discounted terminal price is not a martingale', smp, s0,
                     dict(fn='get_gbm_paths', num_paths=npaths // 2, num_annual_steps=nas, t=t, mu=mu, stock_price=s0, sigma=sig, scheme=scheme, seed=seed), clause='martingale')
        # multi-asset: martingale per asset and correlation of the log-returns
        seed = rng.randint(1, 2 ** 31 - 1)
        na = 3
        A = np.array([[rng.gauss(0, 1) for _ in range(na)] for _ in range(na)])
        cov = A @ A.T + 0.3 * np.eye(na)
        dd = np.sqrt(np.diag(cov))
        rho = cov / np.outer(dd, dd)
        np.fill_diagonal(rho, 1.0)
        mus = np.array([rng.uniform(-0.02, 0.08) for _ in range(na)])
        s0s = np.array([rng.uniform(10, 150) for _ in range(na)])
        sigs = np.array([rng.uniform(0.1, 0.45) for _ in range(na)])
        for which in ('get_assets_paths', 'get_assets_paths_times'):
            if which == 'get_assets_paths':
                _, S = G.get_assets_paths(na, npaths, t, mus, s0s, sigs, rho, seed)
                ST = S
            else:
                _, S = G.get_assets_paths_times(na, npaths, 3, t, mus, s0s, sigs, rho, seed)
                ST = S[:, :, -1]
            n_eval += 1
            cs = dict(fn=which, num_assets=na, num_paths=npaths, t=t, mus=mus.tolist(), stock_prices=s0s.tolist(), volatilities=sigs.tolist(),
                      corr_matrix=rho.tolist(), seed=seed)
            z = (np.log(ST / s0s[:, None]) - ((mus - sigs ** 2 / 2) * t)[:, None]) / (sigs * math.sqrt(t))[:, None]
            for ia in range(na):
                d = ST[ia] * math.exp(-mus[ia] * t)
                st.ztest(f'gbm.martingale.{which}', f'{which}: discounted terminal price of an asset is not a martingale',
                         0.5 * (d[0::2] + d[1::2]), s0s[ia], dict(cs, asset=ia), clause='martingale')
                for ib in range(ia, na):
                    st.ztest(f'gbm.correlation.{which}', f'{which}: correlation of the standardised log-returns is not the input correlation matrix '
                             '(Cholesky factor applied to the draws)', z[ia, 0::2] * z[ib, 0::2], rho[ia, ib], dict(cs, assets=[ia, ib]), clause='correlation')
    ctx.count('paths:gbm', n_eval, n_eval, sample={'fn': 'get_paths_times', 'num_paths': 20000})




# ================================================================================================ reference simulation (spec)
def harness_gen(rng):
    return np.random.Generator(np.random.PCG64(rng.randint(1, 2 ** 62)))


def ref_gbm(gen, npairs, times, mu, s0, sig):
    """exact GBM at the given times (times[0] = 0), antithetic pairs: returns (up, dn) arrays npairs x len(times)"""
    dts = np.diff(times)
    g = gen.standard_normal((npairs, len(dts)))
    drift = (mu - sig * sig / 2) * dts
    vol = sig * np.sqrt(dts)
    up = s0 * np.exp(np.concatenate([np.zeros((npairs, 1)), np.cumsum(drift + vol * g, axis=1)], axis=1))
    dn = s0 * np.exp(np.concatenate([np.zeros((npairs, 1)), np.cumsum(drift - vol * g, axis=1)], axis=1))
    return up, dn


def ref_estimate(payoff, up, dn, df):
    pa = 0.5 * (payoff(up) + payoff(dn)) * df
    return float(pa.mean()), float(pa.std(ddof=1)) / math.sqrt(len(pa))


def product_stats(ctx, st, quick):
    from financepy.utils.global_types import OptionTypes
    from financepy.models.black_scholes import BlackScholes
    from financepy.models.process_simulator import ProcessTypes, FinGBMNumericalScheme
    from financepy.products.equity.equity_barrier_option import EquityBarrierOption, EquityBarrierTypes
    from financepy.products.equity.equity_asian_option import EquityAsianOption
    from financepy.products.equity.equity_basket_option import EquityBasketOption
    from financepy.products.equity.equity_rainbow_option import EquityRainbowOption, EquityRainbowOptionTypes
    from financepy.products.equity.equity_fixed_lookback_option import EquityFixedLookbackOption
    from financepy.products.equity.equity_float_lookback_option import EquityFloatLookbackOption
    rng = ctx.rng('products')
    gen = harness_gen(rng)
    vd = mkdates()
    M = 24 if quick else 48
    NREF = 200000 if quick else 800000
    n_eval = 0
    CALL, PUT = OptionTypes.EUROPEAN_CALL, OptionTypes.EUROPEAN_PUT

    # ---------------------------------------------------------------- barrier (discrete monitoring, t = 1 year)
    s, r, q, v = rng.uniform(80, 120), rng.uniform(0.01, 0.06), rng.uniform(0.0, 0.03), rng.uniform(0.15, 0.3)
    nobs = 24
    t = 1.0
    ed = vd.add_days(365)
    k = s * rng.uniform(0.95, 1.05)
    up_, dn_ = ref_gbm(gen, NREF // 2, np.linspace(0, t, nobs + 1), r - q, s, v)
    df = math.exp(-r * t)
    for bt in EquityBarrierTypes:
        down = 'DOWN' in bt.name
        b = s * (rng.uniform(0.85, 0.93) if down else rng.uniform(1.08, 1.2))
        call = bt.name.endswith('CALL')
        knock_in = '_IN_' in bt.name

        def pay(S, b=b, down=down, call=call, knock_in=knock_in):
            hit = (S <= b).any(axis=1) if down else (S >= b).any(axis=1)
            van = np.maximum(S[:, -1] - k, 0.0) if call else np.maximum(k - S[:, -1], 0.0)
            return van * (hit if knock_in else ~hit)
        ref, ref_se = ref_estimate(pay, up_, dn_, df)
        opt = EquityBarrierOption(ed, k, bt, b, nobs)
        for scheme in (FinGBMNumericalScheme.ANTITHETIC, FinGBMNumericalScheme.NORMAL):
            sds = seeds_of(rng, M)
            npth = 1500
            vals = [float(opt.value_mc(t, k, bt.value, b, 1.0, s, r, ProcessTypes.GBM, (s, r - q, v, scheme), nobs, npth, sd)) for sd in sds]
            n_eval += M
            cs = dict(fn='EquityBarrierOption.value_mc', t=t, k=k, opt_type=bt.name, b=b, notional=1.0, s=s, r=r, drift=r - q, volatility=v, scheme=scheme.name,
                      num_ann_obs=nobs, num_paths=npth, seeds=sds[:4], reference='independent simulation of the documented payoff (barrier observed at t_i = i/num_ann_obs, i=0..)')
            st.ttest(f'barrier.{scheme.name}', 'EquityBarrierOption.value_mc: mean over seeds differs from an independent simulation of the documented '
                     'discretely monitored barrier payoff', vals, ref, cs, ref_se=ref_se, bias=1e-9 * s)

    # ---------------------------------------------------------------- Asian (three MC routines)
    s, r, q, v = rng.uniform(80, 120), rng.uniform(0.01, 0.06), rng.uniform(0.0, 0.03), rng.uniform(0.15, 0.35)
    model = BlackScholes(v)
    dc, qc = flat(vd, r), flat(vd, q)
    for in_period, acc_f in ((False, None), (True, rng.uniform(0.9, 1.1)), (True, rng.uniform(0.45, 0.6)), (True, rng.uniform(1.5, 1.9))):
        nobs = 12
        if in_period:
            sa, ed = vd.add_days(-146), vd.add_days(219)
            acc = s * acc_f
        else:
            sa, ed = vd.add_days(73), vd.add_days(365)
            acc = None
        t0, t, tau = (sa - vd) / 365.0, (ed - vd) / 365.0, (ed - sa) / 365.0
        k = s * rng.uniform(0.95, 1.05)
        if in_period:
            k_eff, mult, n_eff, t0_eff = (k * tau + acc * t0) / t, t / tau, int(nobs * t / tau + 0.5) + 1, 0.0
        else:
            k_eff, mult, n_eff, t0_eff = k, 1.0, nobs, t0
        times = np.concatenate([[0.0], t0_eff + (t - t0_eff) / n_eff * np.arange(0 if t0_eff > 0 else 1, n_eff + 1)])
        up_, dn_ = ref_gbm(gen, NREF // 2, times, r - q, s, v)
        first = 2 if t0_eff > 0 else 1          # observations are the n points after the start of averaging
        for ot in (CALL, PUT):
            def pay(S, ot=ot):
                A = S[:, first:].mean(axis=1)
                return mult * (np.maximum(A - k_eff, 0.0) if ot == CALL else np.maximum(k_eff - A, 0.0))
            ref, ref_se = ref_estimate(pay, up_, dn_, math.exp(-r * t))

            def pay_geo(S, ot=ot):
                Gm = np.exp(np.log(S[:, first:]).mean(axis=1))
                return mult * (np.maximum(Gm - k_eff, 0.0) if ot == CALL else np.maximum(k_eff - Gm, 0.0))
            ref_geo, ref_geo_se = ref_estimate(pay_geo, up_, dn_, math.exp(-r * t))
            opt = EquityAsianOption(sa, ed, k, ot, nobs)
            geo_exact = float(opt._value_geometric(vd, s, dc, qc, model, acc))
            for meth in ('_value_mc', '_value_mc_fast', 'value_mc'):
                sds = seeds_of(rng, M)
                npth = 4000
                vals = [float(getattr(opt, meth)(vd, s, dc, qc, model, npth, sd, acc)) for sd in sds]
                n_eval += M
                cs = dict(fn=f'EquityAsianOption.{meth}', value_dt='20-MAR-2024', start_averaging_days=(sa - vd), expiry_days=(ed - vd), strike=k,
                          option_type=ot.name, num_obs=nobs, stock_price=s, r=r, q=q, volatility=v, accrued_average=acc, num_paths=npth, seeds=sds[:4],
                          reference='independent simulation: arithmetic average of the n equally spaced observations after the start of averaging'
                                    + (' (remaining observations int(n*t/tau+0.5)+1 on (0,t], strike and notional rescaled for the accrued average)' if in_period else ''))
                if meth != 'value_mc' and min(vals) < 0.0:      # the control-variate routine is judged by its (classified) t-test only
                    ctx.violation(f'EquityAsianOption.{meth} returns a negative option value', dict(cs, value=float(min(vals))), clause='non-negative')
                fid = None
                if meth == 'value_mc':
                    # classifier of C19/asian-cv-continuous-geometric-control: the deviation is the difference between the
                    # continuous-averaging geometric closed form used as control and the discretely observed geometric payoff
                    explained = geo_exact - ref_geo
                    m_ = float(np.mean(vals))
                    se_ = float(np.std(vals, ddof=1)) / math.sqrt(len(vals))
                    if abs(m_ - ref - explained) <= tcrit(len(vals) - 1) * se_ + KSE * (ref_se + ref_geo_se) + 1e-9 * s:
                        fid = 'C19/asian-cv-continuous-geometric-control'
                    cs['control_variate'] = dict(geometric_closed_form=geo_exact, geometric_discrete_reference=ref_geo, explained_bias=explained)
                st.ttest(f'asian.{meth}' + ('.in-period' if in_period else ''), f'EquityAsianOption.{meth}: mean over seeds differs from an independent '
                         'simulation of the documented arithmetic-average payoff', vals, ref, cs, ref_se=ref_se, bias=1e-9 * s, finding=fid)

    # ---------------------------------------------------------------- basket: call - put = df*(E[mean S_T] - K) exactly in expectation
    na = 3
    A = np.array([[rng.gauss(0, 1) for _ in range(na)] for _ in range(na)])
    cov = A @ A.T + 0.5 * np.eye(na)
    dd = np.sqrt(np.diag(cov))
    rho = cov / np.outer(dd, dd)
    np.fill_diagonal(rho, 1.0)
    s0s = np.array([rng.uniform(60, 140) for _ in range(na)])
    vols = np.array([rng.uniform(0.15, 0.4) for _ in range(na)])
    qs = [rng.uniform(0.0, 0.04) for _ in range(na)]
    r = rng.uniform(0.01, 0.06)
    ed = vd.add_days(365)
    t = 1.0
    dc = flat(vd, r)
    qcs = [flat(vd, x) for x in qs]
    k = float(s0s.mean()) * rng.uniform(0.95, 1.05)
    fwd_mean = float(np.mean(s0s * np.exp((r - np.array(qs)) * t)))
    sds = seeds_of(rng, M)
    bc, bp = EquityBasketOption(ed, k, CALL, na), EquityBasketOption(ed, k, PUT, na)
    cvals = np.array([float(bc.value_mc(vd, s0s, dc, qcs, vols, rho, 10000, sd)) for sd in sds])
    pvals = np.array([float(bp.value_mc(vd, s0s, dc, qcs, vols, rho, 10000, sd)) for sd in sds])
    n_eval += 2 * M
    cs = dict(fn='EquityBasketOption.value_mc', stock_prices=s0s.tolist(), volatilities=vols.tolist(), dividend_yields=qs, r=r, corr_matrix=rho.tolist(), strike=k,
              expiry_days=365, num_paths=10000, seeds=sds[:4])
    st.ttest('basket.parity', 'EquityBasketOption.value_mc: call - put (same seeds) is not df*(mean forward - K): the simulated basket is not a martingale',
             cvals - pvals, math.exp(-r * t) * (fwd_mean - k), cs, bias=1e-9 * k, clause='martingale')
    # and against an independent simulation of the basket payoff
    g = gen.standard_normal((NREF // 2, na)) @ np.linalg.cholesky(rho).T
    drift = (r - np.array(qs) - vols ** 2 / 2) * t
    for ot, vals in ((CALL, cvals), (PUT, pvals)):
        bu = (s0s * np.exp(drift + vols * math.sqrt(t) * g)).mean(axis=1)
        bd = (s0s * np.exp(drift - vols * math.sqrt(t) * g)).mean(axis=1)
        f = (lambda x: np.maximum(x - k, 0.0)) if ot == CALL else (lambda x: np.maximum(k - x, 0.0))
        pa = 0.5 * (f(bu) + f(bd)) * math.exp(-r * t)
        st.ttest('basket.value', 'EquityBasketOption.value_mc: mean over seeds differs from an independent simulation of the basket payoff',
                 vals, float(pa.mean()), dict(cs, option_type=ot.name), ref_se=float(pa.std(ddof=1)) / math.sqrt(len(pa)), bias=1e-9 * k)

    # ---------------------------------------------------------------- rainbow, two assets, closed form (Stulz)
    s2 = np.array([rng.uniform(80, 120), rng.uniform(80, 120)])
    v2 = np.array([rng.uniform(0.15, 0.35), rng.uniform(0.15, 0.35)])
    q2 = [rng.uniform(0, 0.03), rng.uniform(0, 0.03)]
    rh = rng.uniform(-0.5, 0.8)
    cm = np.array([[1.0, rh], [rh, 1.0]])
    qc2 = [flat(vd, x) for x in q2]
    k = float(s2.mean()) * rng.uniform(0.95, 1.05)
    for pt in (EquityRainbowOptionTypes.CALL_ON_MAXIMUM, EquityRainbowOptionTypes.PUT_ON_MAXIMUM, EquityRainbowOptionTypes.CALL_ON_MINIMUM,
               EquityRainbowOptionTypes.PUT_ON_MINIMUM):
        opt = EquityRainbowOption(ed, pt, [k], 2)
        ref = float(opt.value(vd, s2, dc, qc2, v2, cm))
        sds = seeds_of(rng, M)
        vals = [float(opt.value_mc(vd, s2, dc, qc2, v2, cm, 10000, sd)) for sd in sds]
        n_eval += M
        st.ttest('rainbow', 'EquityRainbowOption.value_mc: mean over seeds is not within the Student-t bound of the two-asset closed form', vals, ref,
                 dict(fn='EquityRainbowOption.value_mc', payoff_type=pt.name, strike=k, stock_prices=s2.tolist(), volatilities=v2.tolist(), dividend_yields=q2, r=r,
                      rho=rh, expiry_days=365, num_paths=10000, seeds=sds[:4], closed_form=ref), bias=2e-5 * k)

    # ---------------------------------------------------------------- lookbacks (discrete monitoring)
    # strikes on BOTH sides of the running extreme (call K <= Smax and K > Smax, put K >= Smin and K < Smin: beyond it the
    # max(.,0) floor binds), running extremes near and far from spot; value >= 0; payoff tied to the Lean functional
    from financepy.models.gbm_process_simulator import get_paths_times
    s, r, q, v = rng.uniform(80, 120), rng.uniform(0.01, 0.06), rng.uniform(0.0, 0.03), rng.uniform(0.15, 0.3)
    dc, qc = flat(vd, r), flat(vd, q)
    nspy = 24
    up_, dn_ = ref_gbm(gen, NREF // 2, np.linspace(0, 1.0, nspy + 1), r - q, s, v)
    lb_ops, lb_checks = [], []
    for ot in (CALL, PUT):
        fixed_cases = []
        for side in ('inside', 'beyond', 'far-beyond'):
            hist = s * (rng.uniform(1.03, 1.15) if ot == CALL else rng.uniform(0.85, 0.97))
            if side == 'inside':
                k = hist * (rng.uniform(0.85, 0.99) if ot == CALL else rng.uniform(1.01, 1.15))
            elif side == 'beyond':
                k = hist * (rng.uniform(1.03, 1.2) if ot == CALL else rng.uniform(0.8, 0.97))
            else:
                k = hist * (rng.uniform(1.5, 1.9) if ot == CALL else rng.uniform(0.45, 0.6))
            fixed_cases.append((side, k, hist))
        float_cases = [(side, None, s * (f if ot == CALL else 2.0 - f)) for side, f in (('at-spot', 1.0), ('near', rng.uniform(0.9, 0.98)), ('far', rng.uniform(0.6, 0.75)))]
        for nm, cases in (('EquityFixedLookbackOption', fixed_cases), ('EquityFloatLookbackOption', float_cases)):
            for side, k, hist in cases:
                if nm == 'EquityFixedLookbackOption':
                    opt = EquityFixedLookbackOption(ed, ot, k)

                    def pay(S, ot=ot, k=k, m=hist):
                        if ot == CALL:
                            return np.maximum(np.maximum(S.max(axis=1), m) - k, 0.0)
                        return np.maximum(k - np.minimum(S.min(axis=1), m), 0.0)
                else:
                    opt = EquityFloatLookbackOption(ed, ot)

                    def pay(S, ot=ot, m=hist):
                        if ot == CALL:
                            return np.maximum(S[:, -1] - np.minimum(S.min(axis=1), m), 0.0)
                        return np.maximum(np.maximum(S.max(axis=1), m) - S[:, -1], 0.0)
                ref, ref_se = ref_estimate(pay, up_, dn_, math.exp(-r * 1.0))
                sds = seeds_of(rng, M)
                vals = [float(opt.value_mc(vd, s, dc, qc, v, hist, 6000, nspy, sd)) for sd in sds]
                n_eval += M
                cs = dict(fn=f'{nm}.value_mc', option_type=ot.name, strike=k, stock_price=s, r=r, q=q, volatility=v, stock_min_max=hist, num_paths=6000,
                          num_steps_per_year=nspy, expiry_days=365, seeds=sds[:4], strike_vs_running_extreme=side)
                if min(vals) < 0.0:
                    ctx.violation(f'{nm}.value_mc returns a negative option value', dict(cs, seed=sds[int(np.argmin(vals))], value=float(min(vals))), clause='non-negative')
                st.ttest(f'lookback.{nm}.{side}', f'{nm}.value_mc: mean over seeds differs from an independent simulation of the documented lookback payoff '
                         '(extremum over the monitoring dates and the running extremum, floored at zero)', vals, ref, cs, ref_se=ref_se, bias=1e-9 * s)
                # tie to the Lean payoff functional on the very paths the routine simulates (same seed => same paths)
                sd0 = sds[0]
                nts = int(1.0 * nspy)
                _, S_ = get_paths_times(200, nts, 1.0, float(dc.cc_rate(ed) - qc.cc_rate(ed)), s, v, sd0)
                v200 = float(opt.value_mc(vd, s, dc, qc, v, hist, 200, nspy, sd0))
                kind = 'FIX' if nm == 'EquityFixedLookbackOption' else 'FLT'
                lb_ops.append(f'LBK {kind} {1 if ot == CALL else 0} {nts + 1} {fl([k if k is not None else 0.0, hist, dc.df(ed)])} {fl(S_)}')
                lb_checks.append((v200, dict(cs, num_paths=200, seed=sd0)))
    try:
        outs = exedriver.run('c19driver', 'C19', lb_ops, par=False) if ctx.model_ok else None
    except C.DriverError as e:
        outs = None
        ctx.broke(f'model driver failed on the lookback payoff ops: {str(e)[:200]}')
    if outs is not None:
        worst = 0.0
        for o, (v200, cs) in zip(outs, lb_checks):
            m_ = parse(o)
            e_ = relerr(m_, [v200]) if m_ is not None and abs(v200) > 1e-300 else (0.0 if m_ is not None and abs(m_[0] - v200) <= 1e-12 else float('inf'))
            worst = max(worst, e_)
            if not e_ <= TOL_MODEL:
                ctx.violation(f'{cs["fn"]}: the returned value is not df * mean of the documented payoff functional (Lean model, theorems '
                              'fixedLookbackPayoff_documented / _nonneg) on the paths it simulates', dict(cs, returned=v200, model=None if m_ is None else float(m_[0])),
                              clause='payoff-functional')
        ctx.cov['lookback_payoff_model_worst_rel'] = float(f'{worst:.2e}')
        ctx.count('model:lookback_payoff', len(lb_checks), len(lb_checks))

    # ---------------------------------------------------------------- barrier already touched at inception (in = vanilla, out = 0)
    sB, rB, qB, vB = rng.uniform(80, 120), rng.uniform(0.01, 0.06), rng.uniform(0.0, 0.03), rng.uniform(0.15, 0.3)
    kB = sB * rng.uniform(0.95, 1.05)
    for bt in EquityBarrierTypes:
        down = 'DOWN' in bt.name
        bB = sB * (rng.uniform(1.0, 1.1) if down else rng.uniform(0.9, 1.0))       # spot already beyond the barrier
        opt = EquityBarrierOption(ed, kB, bt, bB, 24)
        call = bt.name.endswith('CALL')
        ref = bs_closed(sB, 1.0, kB, rB, qB, vB, call) if '_IN_' in bt.name else 0.0
        sds = seeds_of(rng, M)
        vals = [float(opt.value_mc(1.0, kB, bt.value, bB, 1.0, sB, rB, ProcessTypes.GBM, (sB, rB - qB, vB, FinGBMNumericalScheme.ANTITHETIC), 24, 4000, sd)) for sd in sds]
        n_eval += M
        cs = dict(fn='EquityBarrierOption.value_mc', t=1.0, k=kB, opt_type=bt.name, b=bB, s=sB, r=rB, drift=rB - qB, volatility=vB, num_ann_obs=24, num_paths=4000,
                  seeds=sds[:4], region='spot already beyond the barrier')
        if min(vals) < 0.0:
            ctx.violation('EquityBarrierOption.value_mc returns a negative option value', dict(cs, value=float(min(vals))), clause='non-negative')
        if '_IN_' in bt.name:
            st.ttest('barrier.already-knocked-in', 'EquityBarrierOption.value_mc: knock-in option with the barrier already touched is not the vanilla option', vals, ref, cs,
                     bias=2e-7 * sB)
        elif max(abs(x) for x in vals) != 0.0:
            ctx.violation('EquityBarrierOption.value_mc: knock-out option with the barrier already touched is not worthless', dict(cs, value=vals[0]), clause='unbiased')
    ctx.count('value_mc:exotics', n_eval, n_eval, sample={'fn': 'EquityBarrierOption.value_mc', 'seeds_per_case': M, 'reference_paths': NREF})


CORPUS_CIR_KJ = dict(a=0.8635, b=0.05587, sigma=0.5327, r0=0.06107, dt=0.01, t=2.0, num_paths=2000,
                     seeds=[1922468025, 1710110584, 1196583836, 1027259137] + [1, 2, 3, 4, 5, 6, 7, 8, 9, 11, 12, 14, 15, 16, 17, 18, 19, 20, 22, 25],
                     exploding_seeds=[21, 23, 26])     # typical seeds: ~0.880 each (analytic 0.8958); exploding: 5.87, 8.76, 1.22


def kj_floor_classifier(CIR, scheme, d, r0, a, b, sg, t, dt, case):
    """classifier of C19/cir-kahl-jackel-floor-amplification: scheme KAHLJACKEL, d = 4ab/sigma^2 < 1 (b_hat = b - sigma^2/(4a) < 0), AND the
    mechanism is observed on the real code for these very parameters: single KAHLJACKEL paths (rate_path_mc) leave the CIR state space by
    more than the noise the diffusion itself could ever produce (r < -1e-3; the exact process is >= 0), with the per-draw noise at the floor
    predicted by theorem cirKJ_floor_amplification, kappa*|b_hat|*sigma*dt^1.5/(4e-4), at least 1e-3.  Anything else stays a VIOLATION."""
    if scheme != 4 or not d < 1.0:
        return None
    bhat = b - sg * sg / 4.0 / a
    predicted = a * abs(bhat) * sg * dt ** 1.5 / 4e-4
    worst = 0.0
    for sd in range(1, 21):
        pth = CIR.rate_path_mc(r0, a, b, sg, t, dt, sd, 4)
        worst = min(worst, float(np.nanmin(pth)))
    case['kj_floor'] = dict(b_hat=bhat, predicted_noise_per_draw_at_floor=predicted, most_negative_rate_in_20_paths=worst)
    return 'C19/cir-kahl-jackel-floor-amplification' if (predicted >= 1e-3 and worst < -1e-3) else None


_cir_sampler = None


def cir_draw_sampler(CIR):
    global _cir_sampler
    if _cir_sampler is None:
        from numba import njit
        draw = CIR.draw

        @njit
        def sample(rt, a, b, sg, dt, n, seed):
            np.random.seed(seed)
            out = np.empty(n)
            for i in range(n):
                out[i] = draw(rt, a, b, sg, dt)
            return out
        _cir_sampler = sample
    return _cir_sampler


# ================================================================================================ short rates
def rates_stats(ctx, st, quick):
    BS, G, PS, V, CIR, H, L = fp()
    rng = ctx.rng('rates')
    M = 24 if quick else 48
    n_eval = 0
    for _ in range(1 if quick else 4):
        # ---- Vasicek
        a, b, sg, r0 = rng.uniform(0.2, 1.0), rng.uniform(0.02, 0.07), rng.uniform(0.005, 0.02), rng.uniform(0.01, 0.07)
        t, dt = rng.choice([1.0, 3.0]), 0.01
        ref = float(V.zero_price(r0, a, b, sg, t))
        sds = seeds_of(rng, M)
        vals = [float(V.zero_price_mc(r0, a, b, sg, t, dt, 2000, sd)) for sd in sds]
        n_eval += M
        st.ttest('vasicek.zero_price_mc', 'vasicek_mc.zero_price_mc: mean over seeds is not within bound of the analytic zero price',
                 vals, ref, dict(fn='vasicek_mc.zero_price_mc', r0=r0, a=a, b=b, sigma=sg, t=t, dt=dt, num_paths=2000, seeds=sds[:4], analytic=ref),
                 bias=dt * max(r0, b) * ref, clause='zero-price')
        for scheme in (1, 2):
            seed = rng.randint(1, 2 ** 31 - 1)
            npth, nas = 10000, 100
            Pth = PS.get_vasicek_paths(npth, nas, t, r0, a, b, sg, scheme, seed)
            n_eval += 1
            T = (Pth.shape[1] - 1) / nas
            rT = Pth[:, -1]
            mref, vref = float(V.meanr(r0, a, b, T)), float(V.variancer(a, sg, T))
            cs = dict(fn='get_vasicek_paths', num_paths=npth, num_annual_steps=nas, t=t, r0=r0, kappa=a, theta=b, sigma=sg, scheme=scheme, seed=seed)
            smp = 0.5 * (rT[:npth] + rT[npth:]) if scheme == 2 else rT
            st.ztest(f'vasicek.paths.mean.{scheme}', 'get_vasicek_paths: terminal mean differs from the analytic mean', smp, mref, cs,
                     bias=abs(r0 - b) * a * a * T / nas + 1e-12, clause='first-moment')
            sq = (rT[:npth] - mref) ** 2
            st.ztest(f'vasicek.paths.var.{scheme}', 'get_vasicek_paths: terminal variance differs from the analytic variance', sq, vref, cs,
                     bias=3.0 * a / nas * vref, clause='variance')
        # ---- corpus: witness of C19/cir-kahl-jackel-floor-amplification (found by the sweep at VERIF_SEED=8), run on every run
        if _ == 0:
            w = CORPUS_CIR_KJ
            ns_ = int(w['t'] / w['dt'])
            ref_w = float(CIR.zero_price(w['r0'], w['a'], w['b'], w['sigma'], (ns_ - 1) * w['dt'])) * math.exp(-0.5 * w['r0'] * w['dt'])
            vals_w = [float(CIR.zero_price_mc(w['r0'], w['a'], w['b'], w['sigma'], w['t'], w['dt'], w['num_paths'], sd, 4)) for sd in w['seeds']]
            n_eval += len(vals_w)
            dw = 4 * w['a'] * w['b'] / w['sigma'] ** 2
            cs_w = dict(w, fn='cir_montecarlo.zero_price_mc', scheme=4, d=dw, corpus=True, analytic_for_integrated_horizon=ref_w)
            fid_w = kj_floor_classifier(CIR, 4, dw, w['r0'], w['a'], w['b'], w['sigma'], w['t'], w['dt'], cs_w)
            for sd in w['exploding_seeds']:
                vx = float(CIR.zero_price_mc(w['r0'], w['a'], w['b'], w['sigma'], w['t'], w['dt'], w['num_paths'], sd, 4))
                n_eval += 1
                if not (math.isfinite(vx) and vx <= 1.0):
                    ctx.violation('cir_montecarlo.zero_price_mc returns a zero-coupon price above 1 (or non-finite) in a model with non-negative rates',
                                  dict(cs_w, seed=sd, returned=vx), finding=fid_w, clause='zero-price')
            st.ttest('cir.zero_price_mc.4.corpus', 'cir_montecarlo.zero_price_mc: mean over seeds is not within bound of the analytic zero price', vals_w, ref_w, cs_w,
                     bias=(0.3 * w['dt'] * max(w['r0'], w['b']) + 6e-3) * ref_w, clause='zero-price',
                     finding=fid_w)
        # ---- CIR zero price: every scheme enum x parameter sets on both sides of d = 4ab/sigma^2 = 1 (and d = 1 exactly: the
        # EXACT scheme switches between normal+chi-square(d-1) and the Poisson mixture there).  Reference = analytic zero price of
        # the horizon the routine integrates (it starts rsum at r0 and adds n-1 trapezoids: (n-1)*dt plus half a step at r0).
        for regime in ('d>1', 'd=1', 'd<1'):
            a, b, r0 = rng.uniform(0.3, 1.0), rng.uniform(0.03, 0.07), rng.uniform(0.02, 0.07)
            if regime == 'd>1':
                sg = math.sqrt(4 * a * b / rng.uniform(2.0, 12.0))
            elif regime == 'd=1':
                a, b, sg = 0.2, 0.05, 0.2
            else:
                sg = math.sqrt(4 * a * b / rng.uniform(0.4, 0.8))
            dpar = 4 * a * b / (sg * sg)
            t = 2.0
            for sc in (1, 2, 3, 4, 5):
                dt = 0.01 if sc != 5 else 0.05
                npth = 2000 if sc != 5 else 1000
                ns = int(t / dt)
                ref = float(CIR.zero_price(r0, a, b, sg, (ns - 1) * dt)) * math.exp(-0.5 * r0 * dt)
                sds = seeds_of(rng, M)
                vals = [float(CIR.zero_price_mc(r0, a, b, sg, t, dt, npth, sd, sc)) for sd in sds]
                n_eval += M
                # documented discretisation bias: trapezoid O(dt) remainder 0.3*dt*max(r0,b); the moment-truncating schemes lose accuracy
                # when the origin is accessible (d <= 1): Euler/lognormal/Milstein 1e-3, Kahl-Jaeckel (1e-8 floor) 6e-3, relative
                bias = 0.3 * dt * max(r0, b) * ref
                if dpar <= 1.0 + 1e-12 and sc != 5:
                    bias += (6e-3 if sc == 4 else 1e-3) * ref
                cs_ = dict(fn='cir_montecarlo.zero_price_mc', r0=r0, a=a, b=b, sigma=sg, t=t, dt=dt, num_paths=npth, scheme=sc, seeds=sds[:4], d=dpar,
                           analytic_zero_price_t=float(CIR.zero_price(r0, a, b, sg, t)), analytic_for_integrated_horizon=ref)
                fid = kj_floor_classifier(CIR, sc, dpar, r0, a, b, sg, t, dt, cs_)
                badv = [(sd_, x_) for sd_, x_ in zip(sds, vals) if not (math.isfinite(x_) and x_ <= 1.0)]
                if badv:
                    ctx.violation('cir_montecarlo.zero_price_mc returns a zero-coupon price above 1 (or non-finite) in a model with non-negative rates',
                                  dict(cs_, seed=badv[0][0], returned=badv[0][1], count=len(badv)), finding=fid, clause='zero-price')
                st.ttest(f'cir.zero_price_mc.{sc}.{regime}' + ('.kj-floor' if fid else ''),
                         'cir_montecarlo.zero_price_mc: mean over seeds is not within bound of the analytic zero price', vals, ref, cs_, bias=bias,
                         clause='zero-price', finding=fid)
        # ---- CIR exact transition `draw`: conditional mean and variance are exact for every dt (both branches, d = 1 exactly)
        sampler = cir_draw_sampler(CIR)
        for regime in ('d>1', 'd=1', 'd<1', 'd>1 (a=0.5,b=0.05,sigma=0.1)'):
            a, b = rng.uniform(0.3, 1.0), rng.uniform(0.03, 0.07)
            if regime == 'd>1':
                sg = math.sqrt(4 * a * b / rng.uniform(1.2, 12.0))
            elif regime == 'd=1':
                a, b, sg = 0.2, 0.05, 0.2
            elif regime == 'd<1':
                sg = math.sqrt(4 * a * b / rng.uniform(0.3, 0.9))
            else:
                a, b, sg = 0.5, 0.05, 0.10
            for rt, dt in ((rng.uniform(0.02, 0.08), rng.choice([0.02, 0.1])), (rng.uniform(0.0005, 0.005), 0.25), (rng.uniform(0.03, 0.1), 1.0)):
                seed = rng.randint(1, 2 ** 31 - 1)
                x = sampler(rt, a, b, sg, dt, 200000, seed)
                n_eval += 1
                e = math.exp(-a * dt)
                mref = rt * e + b * (1 - e)
                vref = rt * sg * sg / a * (e - e * e) + b * sg * sg / (2 * a) * (1 - e) ** 2
                cs = dict(fn='cir_montecarlo.draw', rt=rt, a=a, b=b, sigma=sg, dt=dt, d=4 * a * b / (sg * sg), num_draws=200000, seed=seed,
                          how='np.random.seed(seed) then 200000 successive draw(rt, a, b, sigma, dt) inside one @njit loop')
                st.ztest(f'cir.draw.mean.{regime[:3]}', 'cir_montecarlo.draw: sample mean of r(t+dt) | r(t) differs from the exact CIR conditional mean '
                         'r e^{-a dt} + b (1 - e^{-a dt}) (theorem cir_exact_mean)', x, mref, cs, clause='first-moment')
                st.ztest(f'cir.draw.var.{regime[:3]}', 'cir_montecarlo.draw: sample variance of r(t+dt) | r(t) differs from the exact CIR conditional variance',
                         (x - mref) ** 2, vref, cs, clause='variance')
                if float(x.min()) < 0.0:
                    ctx.violation('cir_montecarlo.draw returns a negative rate', dict(cs, minimum=float(x.min())), clause='non-negative')
        a, b, sg, r0 = rng.uniform(0.3, 1.0), rng.uniform(0.03, 0.07), rng.uniform(0.03, 0.10), rng.uniform(0.02, 0.07)
        t = rng.choice([1.0, 2.0])
        for sc in (1, 2, 3, 4):
            seed = rng.randint(1, 2 ** 31 - 1)
            npth, nas = 20000, 100
            Pth = PS.get_cir_paths(npth, nas, t, r0, a, b, sg, sc, seed)
            n_eval += 1
            T = (Pth.shape[1] - 1) / nas
            rT = Pth[:, -1]
            mref, vref = float(CIR.meanr(r0, a, b, T)), float(CIR.variancer(r0, a, b, sg, T))
            cs = dict(fn='get_cir_paths', num_paths=npth, num_annual_steps=nas, t=t, r0=r0, kappa=a, theta=b, sigma=sg, scheme=sc, seed=seed)
            st.ztest(f'cir.paths.mean.{sc}', 'get_cir_paths: terminal mean differs from the analytic CIR mean', rT, mref, cs,
                     bias=(abs(r0 - b) * a * a * T + sg * sg * a * T) / nas + 1e-12, clause='first-moment')
            st.ztest(f'cir.paths.var.{sc}', 'get_cir_paths: terminal variance differs from the analytic CIR variance', (rT - mref) ** 2, vref, cs,
                     bias=4.0 * a / nas * vref, clause='variance')
    ctx.count('rates:vasicek+cir', n_eval, n_eval, sample={'fn': 'cir_montecarlo.zero_price_mc', 'schemes': [1, 2, 3, 4, 5]})


# ================================================================================================ Heston
def heston_stats(ctx, st, quick):
    from financepy.models.heston import Heston, HestonNumericalScheme
    from financepy.products.equity.equity_vanilla_option import EquityVanillaOption
    from financepy.utils.global_types import OptionTypes
    rng = ctx.rng('heston')
    vd = mkdates()
    ed = vd.add_days(365)
    M = 24 if quick else 48
    n_eval = 0
    for _ in range(1 if quick else 3):
        s, r, q = rng.uniform(80, 120), rng.uniform(0.01, 0.05), rng.uniform(0.0, 0.03)
        v0, kap, th, sg, rho = rng.uniform(0.03, 0.08), rng.uniform(1.0, 3.0), rng.uniform(0.03, 0.08), rng.uniform(0.2, 0.5), rng.uniform(-0.8, -0.2)
        hm = Heston(v0, kap, th, sg, rho)
        for ot in (OptionTypes.EUROPEAN_CALL, OptionTypes.EUROPEAN_PUT):
            k = s * rng.uniform(0.95, 1.05)
            opt = EquityVanillaOption(ed, k, ot)
            call = EquityVanillaOption(ed, k, OptionTypes.EUROPEAN_CALL)
            refc = float(hm.value_weber(vd, call, s, r, q))
            ref = refc if ot == OptionTypes.EUROPEAN_CALL else refc - s * math.exp(-q) + k * math.exp(-r)
            for sch in HestonNumericalScheme:
                nspy = 100
                sds = seeds_of(rng, M)
                vals = [float(hm.value_mc(vd, opt, s, r, q, 4000, nspy, sd, sch)) for sd in sds]
                n_eval += M
                st.ttest(f'heston.value_mc.{sch.name}', 'Heston.value_mc: mean over seeds is not within (loose) bound of the semi-analytic value',
                         vals, ref, dict(fn='Heston.value_mc', scheme=sch.name, stock_price=s, strike=k, option_type=ot.name, r=r, q=q, v0=v0, kappa=kap, theta=th,
                                         sigma=sg, rho=rho, expiry_days=365, num_paths=4000, num_steps_per_year=nspy, seeds=sds[:4], semi_analytic=ref),
                         bias=0.02 * ref + 0.001 * s)
    ctx.count('value_mc:heston', n_eval, n_eval, sample={'fn': 'Heston.value_mc', 'schemes': ['EULER', 'EULERLOG', 'QUADEXP']})


def heston_path_stats(ctx, st, quick):
    """discounted asset of BOTH Heston path generators is a martingale, every scheme enum, parameter sets on both sides of
    the QUADEXP switch psi = 1.5 (sigma^2 small / large against kappa*theta), several times along the path"""
    BS, G, PS, V, CIR, H, L = fp()
    rng = ctx.rng('heston-paths')
    n_eval = 0
    s0 = 100.0
    npth = 40000 if quick else 160000
    base = [(0.03, 0.04, 2.0, 0.04, 0.30, -0.7), (0.03, 0.04, 1.5, 0.04, 0.40, -0.5),       # sigma^2/(2 kappa theta) = 0.56, 1.33
            (0.03, 0.04, 1.0, 0.04, 1.00, -0.7), (0.03, 0.09, 0.5, 0.05, 0.80, -0.3), (0.0, 0.01, 3.0, 0.02, 0.60, -0.9)]   # 12.5, 12.8, 3.0
    for which in ('get_heston_paths', 'heston.get_paths'):
        for sc, scn in ((1, 'EULER'), (2, 'EULERLOG'), (3, 'QUADEXP')):
            for (mu, v0, kap, th, sg, rho) in base:
                kap, th, sg = kap * rng.uniform(0.9, 1.1), th * rng.uniform(0.9, 1.1), sg * rng.uniform(0.95, 1.05)
                nas = rng.choice([12, 50])
                t = rng.choice([1.0, 2.0])
                seed = rng.randint(1, 2 ** 31 - 1)
                if which == 'get_heston_paths':
                    Pth = PS.get_heston_paths(npth, nas, t, mu, s0, v0, kap, th, sg, rho, sc, seed)
                else:
                    q_ = 0.01
                    Pth = H.get_paths(s0, mu + q_, q_, v0, kap, th, sg, rho, t, 1.0 / nas, npth, seed, sc)
                n_eval += 1
                ncol = Pth.shape[1]
                cs = dict(fn=which, scheme=scn, num_paths=npth, num_annual_steps=nas, t=t, drift=mu, s0=s0, v0=v0, kappa=kap, theta=th, sigma=sg, rho=rho, seed=seed,
                          sigma2_over_2kappatheta=sg * sg / (2 * kap * th))
                for frac in (0.25, 0.5, 1.0):
                    i = max(1, int(round(frac * (ncol - 1))))
                    ti = i / nas
                    x = Pth[:, i] * math.exp(-mu * ti)
                    # EULER compounds (1+mu dt)^n instead of exp(mu t): second-order term allowed, plus 5e-4*S0 for the truncation schemes
                    bias = s0 * (mu * mu * ti / nas) + (5e-4 * s0 if sc != 3 else 1e-9)
                    st.ztest(f'heston.martingale.{which}.{scn}' + ('.psi>1.5' if sg * sg / (2 * kap * th) > 1.5 else ''),
                             f'{which} ({scn}): discounted asset price exp(-mu t) S_t is not a martingale (sample mean vs S0)', x, s0,
                             dict(cs, time=ti, column=i), bias=bias, clause='martingale')
    ctx.count('paths:heston', n_eval, n_eval, sample={'fn': 'get_heston_paths', 'schemes': ['EULER', 'EULERLOG', 'QUADEXP'], 'num_paths': npth})


# ================================================================================================ object re-use
def reuse_oracles(ctx, quick):
    """history independence of the stateful entry points: ONE object valued on a ladder of spots / rates / strikes must
    return, rung by rung, the very bits of a freshly built object called once with the same arguments and seed"""
    from financepy.utils.global_types import OptionTypes
    from financepy.models.black_scholes import BlackScholes
    from financepy.models.heston import Heston, HestonNumericalScheme
    from financepy.models.process_simulator import FinProcessSimulator, ProcessTypes, FinGBMNumericalScheme, FinHestonNumericalScheme, \
        FinVasicekNumericalScheme, CIRNumericalScheme
    from financepy.models.student_t_copula import StudentTCopula
    from financepy.products.equity.equity_vanilla_option import EquityVanillaOption
    from financepy.products.equity.equity_barrier_option import EquityBarrierOption, EquityBarrierTypes
    from financepy.products.equity.equity_asian_option import EquityAsianOption
    from financepy.products.equity.equity_basket_option import EquityBasketOption
    from financepy.products.equity.equity_rainbow_option import EquityRainbowOption, EquityRainbowOptionTypes
    from financepy.products.equity.equity_fixed_lookback_option import EquityFixedLookbackOption
    from financepy.products.equity.equity_float_lookback_option import EquityFloatLookbackOption
    from financepy.products.fx.fx_vanilla_option import FXVanillaOption
    rng = ctx.rng('reuse')
    vd = mkdates()
    ed = vd.add_days(365)
    seed = rng.randint(1, 2 ** 31 - 1)
    s0 = rng.uniform(80, 120)
    ladder = [(s0, 0.03, 0.01), (s0 * 1.01, 0.03, 0.01), (s0 * 0.9, 0.03, 0.01), (s0, 0.035, 0.01), (s0, 0.03, 0.02), (s0 * 1.2, 0.05, 0.0), (s0, 0.03, 0.01)]
    k = s0
    n_eval = [0]

    def compare(name, make, call, rungs=None):
        """make() builds the object; call(obj, rung) values it"""
        rungs = ladder if rungs is None else rungs
        shared = make()
        for i, rg in enumerate(rungs):
            try:
                a = call(shared, rg)
                b = call(make(), rg)
            except Exception as e:  # noqa: BLE001
                ctx.violation(f'{name} raises {type(e).__name__} ({e}) on the re-use ladder', dict(fn=name, rung=i, arguments=list(rg), seed=seed), clause='callable')
                return
            n_eval[0] += 2
            if bits(a) != bits(b):
                ctx.violation(f'{name}: a re-used object returns a different result than a freshly built object for the same arguments and seed '
                              '(state kept from an earlier call)', dict(fn=name, rung=i, arguments=[float(x) if isinstance(x, (int, float)) else str(x) for x in rg],
                                                                      earlier_rungs=[list(map(float, r[:3])) for r in rungs[:i]], seed=seed,
                                                                      reused=np.asarray(a, float).ravel()[:4].tolist(), fresh=np.asarray(b, float).ravel()[:4].tolist()),
                              clause='object-reuse')
                return

    v0, kap, th, sg, rho = rng.uniform(0.03, 0.08), rng.uniform(1.0, 3.0), rng.uniform(0.03, 0.08), rng.uniform(0.2, 0.5), rng.uniform(-0.8, -0.2)
    for sch in HestonNumericalScheme:
        for ot in (OptionTypes.EUROPEAN_CALL, OptionTypes.EUROPEAN_PUT):
            opt = EquityVanillaOption(ed, k, ot)
            compare(f'Heston.value_mc[{sch.name},{ot.name}]', lambda: Heston(v0, kap, th, sg, rho),
                    lambda m, rg, opt=opt, sch=sch: m.value_mc(vd, opt, rg[0], rg[1], rg[2], 400, 20, seed, sch))
    # one Heston model, strikes and expiries changing too
    opts = [EquityVanillaOption(vd.add_days(d_), k * f_, OptionTypes.EUROPEAN_CALL) for d_, f_ in ((365, 1.0), (365, 1.1), (180, 1.0), (365, 1.0))]
    compare('Heston.value_mc[strike/expiry ladder]', lambda: Heston(v0, kap, th, sg, rho),
            lambda m, rg: m.value_mc(vd, rg[0], s0, 0.03, 0.01, 400, 20, seed, HestonNumericalScheme.EULERLOG), rungs=[(o_,) for o_ in opts])
    model = BlackScholes(0.25)
    for meth in ('value_mc', 'value_mc_numpy_only', 'value_mc_numba_only', 'value_mc_numba_parallel', 'value_mc_numpy_numba', 'value_mc_nonumba_nonumpy'):
        compare(f'EquityVanillaOption.{meth}', lambda: EquityVanillaOption(ed, k, OptionTypes.EUROPEAN_CALL),
                lambda o_, rg, meth=meth: getattr(o_, meth)(vd, rg[0], flat(vd, rg[1]), flat(vd, rg[2]), model, 500, seed, 0))
    compare('FXVanillaOption.value_mc', lambda: FXVanillaOption(ed, 1.1, 'EURUSD', OptionTypes.EUROPEAN_PUT, 1.0, 'USD', 2),
            lambda o_, rg: o_.value_mc(vd, rg[0] / 100.0, flat(vd, rg[1]), flat(vd, rg[2]), BlackScholes(0.1), 500, seed))
    compare('EquityBarrierOption.value_mc', lambda: EquityBarrierOption(ed, k, EquityBarrierTypes.DOWN_AND_OUT_CALL, 0.8 * s0, 12),
            lambda o_, rg: o_.value_mc(1.0, k, EquityBarrierTypes.DOWN_AND_OUT_CALL.value, 0.8 * s0, 1.0, rg[0], rg[1], ProcessTypes.GBM,
                                       (rg[0], rg[1] - rg[2], 0.25, FinGBMNumericalScheme.ANTITHETIC), 12, 300, seed))
    for meth in ('_value_mc', '_value_mc_fast', 'value_mc'):
        compare(f'EquityAsianOption.{meth}', lambda: EquityAsianOption(vd.add_days(73), ed, k, OptionTypes.EUROPEAN_CALL, 12),
                lambda o_, rg, meth=meth: getattr(o_, meth)(vd, rg[0], flat(vd, rg[1]), flat(vd, rg[2]), model, 300, seed, None))
    cm = np.array([[1.0, 0.4], [0.4, 1.0]])
    vols2 = np.array([0.2, 0.3])
    compare('EquityBasketOption.value_mc', lambda: EquityBasketOption(ed, k, OptionTypes.EUROPEAN_CALL, 2),
            lambda o_, rg: o_.value_mc(vd, np.array([rg[0], 0.9 * rg[0]]), flat(vd, rg[1]), [flat(vd, rg[2]), flat(vd, 0.0)], vols2, cm, 500, seed))
    compare('EquityRainbowOption.value_mc', lambda: EquityRainbowOption(ed, EquityRainbowOptionTypes.CALL_ON_MAXIMUM, [k], 2),
            lambda o_, rg: o_.value_mc(vd, np.array([rg[0], 0.9 * rg[0]]), flat(vd, rg[1]), [flat(vd, rg[2]), flat(vd, 0.0)], vols2, cm, 500, seed))
    compare('EquityFixedLookbackOption.value_mc', lambda: EquityFixedLookbackOption(ed, OptionTypes.EUROPEAN_CALL, k),
            lambda o_, rg: o_.value_mc(vd, rg[0], flat(vd, rg[1]), flat(vd, rg[2]), 0.25, 1.3 * s0, 300, 12, seed))
    compare('EquityFloatLookbackOption.value_mc', lambda: EquityFloatLookbackOption(ed, OptionTypes.EUROPEAN_PUT),
            lambda o_, rg: o_.value_mc(vd, rg[0], flat(vd, rg[1]), flat(vd, rg[2]), 0.25, 1.3 * s0, 300, 12, seed))
    # process simulator object re-used across processes and parameters
    sims = [(ProcessTypes.GBM, (s0, 0.03, 0.2, FinGBMNumericalScheme.ANTITHETIC)), (ProcessTypes.GBM, (s0 * 1.1, 0.03, 0.2, FinGBMNumericalScheme.ANTITHETIC)),
            (ProcessTypes.HESTON, (s0, 0.03, v0, kap, th, sg, rho, FinHestonNumericalScheme.QUADEXP)), (ProcessTypes.HESTON, (s0 * 0.9, 0.03, v0, kap, th, sg, rho, FinHestonNumericalScheme.QUADEXP)),
            (ProcessTypes.HESTON, (s0, 0.02, v0, kap, th, sg, rho, FinHestonNumericalScheme.EULERLOG)),
            (ProcessTypes.VASICEK, (0.03, 0.5, 0.05, 0.01, FinVasicekNumericalScheme.ANTITHETIC)), (ProcessTypes.VASICEK, (0.04, 0.5, 0.05, 0.01, FinVasicekNumericalScheme.ANTITHETIC)),
            (ProcessTypes.CIR, (0.03, 0.5, 0.05, 0.1, CIRNumericalScheme.MILSTEIN)), (ProcessTypes.CIR, (0.04, 0.5, 0.05, 0.1, CIRNumericalScheme.MILSTEIN)),
            (ProcessTypes.GBM, (s0, 0.03, 0.2, FinGBMNumericalScheme.ANTITHETIC))]
    compare('FinProcessSimulator.get_process', FinProcessSimulator, lambda o_, rg: o_.get_process(rg[0], 1.0, rg[1], 12, 50, seed), rungs=sims)
    curves = [CurveStub([0.0, 1.0, 3.0, 5.0], [1.0, 0.97, 0.9, 0.8]), CurveStub([0.0, 2.0, 5.0], [1.0, 0.95, 0.85])]
    compare('StudentTCopula.default_times', StudentTCopula, lambda o_, rg: o_.default_times(curves, np.array([[1.0, rg[0]], [rg[0], 1.0]]), rg[1], 50, seed),
            rungs=[(0.3, 4), (0.5, 4), (0.3, 7), (0.3, 4)])
    ctx.count('reproducibility:object-reuse', n_eval[0], n_eval[0], sample={'fn': 'Heston.value_mc', 'ladder': [list(r) for r in ladder[:3]], 'seed': seed})


# ================================================================================================ LMM
def safe_cap(ctx, L, n, npth, K, fwd0, F, taus, is_cap, note=''):
    """lmm_cap_flr_pricer, with any exception of the implementation reported as a failing input"""
    try:
        return L.lmm_cap_flr_pricer(n, npth, K, fwd0, F, taus, is_cap)
    except Exception as e:  # noqa: BLE001
        ctx.violation(f'lmm_cap_flr_pricer raises {type(e).__name__} ({e})',
                      dict(fn='lmm_cap_flr_pricer', num_fwds=n, num_paths=npth, K=K, fwd0=np.asarray(fwd0).tolist(), taus=np.asarray(taus).tolist(), is_cap=is_cap,
                           fwds=note), clause='callable')
        return None


def black_caplet(f, k, var, tau, df):
    from scipy.stats import norm
    sd = math.sqrt(var)
    d1 = (math.log(f / k) + var / 2) / sd
    return df * tau * (f * norm.cdf(d1) - k * norm.cdf(d1 - sd))


def lmm_stats(ctx, st, quick):
    BS, G, PS, V, CIR, H, L = fp()
    rng = ctx.rng('lmm')
    n_eval = 0
    n = 6
    fwd0 = np.array([rng.uniform(0.03, 0.06) for _ in range(n)])
    taus = np.array([rng.choice([0.25, 0.5, 1.0]) for _ in range(n)])     # mixed 3M/6M/1Y accruals: taus[i] != taus[k] matters in the drift sums
    if len(set(taus.tolist())) == 1:
        taus[rng.randrange(1, n)] = 0.25 if taus[0] != 0.25 else 1.0
    gam = np.array([0.0] + [rng.uniform(0.12, 0.25) for _ in range(n - 1)])
    P0 = np.cumprod(1.0 / (1.0 + fwd0 * taus))           # P(0, T_{k+1})
    K = float(fwd0.mean())
    npth = 20000
    half = npth // 2
    corr = np.array([[math.exp(-0.2 * abs(i - j)) for j in range(n)] for i in range(n)])
    lam3 = np.array([gam * 0.8, gam * 0.5 * np.cos(np.arange(n)), gam * 0.33 * np.sin(np.arange(n))])
    sims = [('lmm_simulate_fwds_1f', 0, lambda sd: L.lmm_simulate_fwds_1f(n, npth, 0, fwd0, gam, taus, 0, sd),
             lambda k_, j: gam[k_ - j] ** 2),
            ('lmm_simulate_fwds_1f(sobol)', 1, lambda sd: L.lmm_simulate_fwds_1f(n, npth, 0, fwd0, gam, taus, 1, sd), lambda k_, j: gam[k_ - j] ** 2),
            ('lmm_simulate_fwds_mf', 0, lambda sd: L.lmm_simulate_fwds_mf(n, 3, npth, 0, fwd0, lam3, taus, 0, sd), lambda k_, j: float((lam3[:, k_ - j] ** 2).sum())),
            ('lmm_simulate_fwds_nf', 0, lambda sd: L.lmm_simulate_fwds_nf(n, npth, fwd0, gam, corr, taus, sd), None)]
    for name, sobol, sim, varfn in sims:
        seed = rng.randint(1, 2 ** 31 - 1)
        F = sim(seed)
        n_eval += 1
        cs = dict(fn=name, num_fwds=n, num_paths=npth, fwd0=fwd0.tolist(), taus=taus.tolist(), gammas=gam.tolist(), seed=seed)
        # numeraire B(T_{j+1}) = prod_{k<=j} (1 + tau_k f_k(T_k))
        diag = np.stack([F[:, k_, k_] for k_ in range(n)], axis=1)
        if name.endswith('_nf'):
            pass
        B = np.cumprod(1.0 + diag * taus[None, :], axis=1)
        for j in range(1, n):
            x = 1.0 / B[:, j]
            smp = 0.5 * (x[:half] + x[half:])
            st.ztest(f'lmm.zero_bond.{name}', f'{name}: numeraire-rebased zero bond E[1/B(T)] does not reproduce the initial discount factor', smp, float(P0[j]),
                     dict(cs, maturity_index=j + 1), bias=2e-4 * float(P0[j]), clause='martingale')
            if varfn is not None:
                # caplet on forward j: payoff tau (f_j(T_j)-K)+ paid at T_{j+1}
                x = taus[j] * np.maximum(diag[:, j] - K, 0.0) / B[:, j]
                smp = 0.5 * (x[:half] + x[half:])
                var = sum(varfn(j, i) * taus[i] for i in range(j))
                ref = black_caplet(float(fwd0[j]), K, var, float(taus[j]), float(P0[j]))
                st.ztest(f'lmm.caplet.{name}', f'{name}: caplet priced on the simulated forwards differs from Black (loose)', smp, ref,
                         dict(cs, caplet_index=j, strike=K, black=ref), bias=0.02 * ref, clause='caplet-vs-black', min_nonzero=200)
        # the library's own pricers on these paths
        if not sobol and varfn is not None:
            for a_ in (1, 3):
                pay = float(L.lmm_swaption_pricer(K, a_, a_ + 1, npth, fwd0, F, taus, 1))
                rec = float(L.lmm_swaption_pricer(K, a_, a_ + 1, npth, fwd0, F, taus, 0))
                x = taus[a_] * np.maximum(diag[:, a_] - K, 0.0) / B[:, a_]
                mine = float(x.mean())
                if not abs(pay - mine) <= 1e-9 * max(abs(mine), 1e-6) + 2e-10:
                    ctx.violation('lmm_swaption_pricer on a one-period swap differs from the caplet computed from the same paths',
                                  dict(cs, a=a_, b=a_ + 1, strike=K, payer=pay, caplet_from_paths=mine), clause='swaption-pricer')
                x = (1.0 - 1.0 / (1.0 + taus[a_] * diag[:, a_]) - K * taus[a_] / (1.0 + taus[a_] * diag[:, a_])) / (B[:, a_ - 1])
                if not abs((pay - rec) - float(x.mean())) <= 1e-9:
                    ctx.violation('lmm_swaption_pricer: payer - receiver is not the forward swap value on the same paths',
                                  dict(cs, a=a_, b=a_ + 1, strike=K, payer=pay, receiver=rec, swap_from_paths=float(x.mean())), clause='swaption-parity')
            b_ = n - 1
            pay = float(L.lmm_swaption_pricer(K, 1, b_, npth, fwd0, F, taus, 1))
            rec = float(L.lmm_swaption_pricer(K, 1, b_, npth, fwd0, F, taus, 0))
            want = float(P0[0] - P0[b_ - 1] - K * sum(taus[k_] * P0[k_] for k_ in range(1, b_)))
            # payer - receiver = E[(1 - P(T_a,T_b) - K pv01)/B(T_a)] = P(0,T_a) - P(0,T_b) - K sum tau P(0,T_{k+1})
            sw = None
            dfp = np.ones(npth)
            pv01 = np.zeros(npth)
            for k_ in range(1, b_):
                dfp = dfp / (1.0 + taus[k_] * F[:, 1, k_])
                pv01 += taus[k_] * dfp
            sw = (1.0 - dfp - K * pv01) / B[:, 0]
            st.ztest(f'lmm.swaption_parity.{name}', 'lmm_swaption_pricer: payer - receiver differs from the closed-form forward swap value', 0.5 * (sw[:half] + sw[half:]),
                     want, dict(cs, a=1, b=b_, strike=K, payer=pay, receiver=rec), bias=3e-4 * abs(want) + 2e-5, clause='swaption-parity')
            if not abs((pay - rec) - float(sw.mean())) <= 1e-9:
                ctx.violation('lmm_swaption_pricer: payer - receiver is not the forward swap value on the same paths',
                              dict(cs, a=1, b=b_, strike=K, payer=pay, receiver=rec, swap_from_paths=float(sw.mean())), clause='swaption-parity')
            # cap/floor pricer on these paths = the caplets recomputed from the same paths (any exception is a violation)
            for is_cap in (1, 0):
                capv = safe_cap(ctx, L, n, npth, K, fwd0, F, taus, is_cap, f'{name}, seed {seed}')
                if capv is None:
                    break
                for j in range(0, n):
                    pay_ = np.maximum(diag[:, j] - K, 0.0) if is_cap else np.maximum(K - diag[:, j], 0.0)
                    mine = float((taus[j] * pay_ / B[:, j]).mean())
                    if not (len(capv) == n and abs(float(capv[j]) - mine) <= 1e-9 * max(abs(mine), 1e-6) + 1e-12):
                        ctx.violation('lmm_cap_flr_pricer: cap/floorlet differs from the one computed from the same paths with the spot numeraire',
                                      dict(cs, fn='lmm_cap_flr_pricer', caplet_index=j, K=K, is_cap=is_cap, returned=[float(x) for x in capv], from_paths=mine),
                                      clause='caplet-vs-black')
                        break
    # ---- lmm_cap_flr_pricer vs Black over independent seeds (caplets and, by the same formula, floorlets)
    from scipy.stats import norm
    M = 24 if quick else 48
    sds = seeds_of(rng, M)
    caps, flrs = [], []
    for sd in sds:
        F = L.lmm_simulate_fwds_1f(n, 4000, 0, fwd0, gam, taus, 0, sd)
        c_, f_ = safe_cap(ctx, L, n, 4000, K, fwd0, F, taus, 1, f'lmm_simulate_fwds_1f seed {sd}'), None
        if c_ is not None:
            f_ = safe_cap(ctx, L, n, 4000, K, fwd0, F, taus, 0, f'lmm_simulate_fwds_1f seed {sd}')
        if c_ is None or f_ is None:
            caps = None
            break
        caps.append(c_)
        flrs.append(f_)
        n_eval += 3
    if caps is not None:
        caps, flrs = np.array(caps), np.array(flrs)
    for j in (range(0, n) if caps is not None else []):
        cs = dict(fn='lmm_cap_flr_pricer', num_fwds=n, num_paths=4000, K=K, fwd0=fwd0.tolist(), taus=taus.tolist(), gammas=gam.tolist(), caplet_index=j,
                  fwds='lmm_simulate_fwds_1f(num_fwds, 4000, 0, fwd0, gammas, taus, 0, seed)', seeds=sds[:4])
        if j == 0:
            refc = float(taus[0] * max(fwd0[0] - K, 0.0) * P0[0])
            reff = float(taus[0] * max(K - fwd0[0], 0.0) * P0[0])
            bias_c = bias_f = 1e-12
        else:
            var = sum(gam[j - i] ** 2 * taus[i] for i in range(j))
            refc = black_caplet(float(fwd0[j]), K, var, float(taus[j]), float(P0[j]))
            reff = refc - float(P0[j] * taus[j] * (fwd0[j] - K))
            bias_c, bias_f = 0.02 * refc, 0.02 * reff
        st.ttest('lmm.cap_flr_pricer.cap', 'lmm_cap_flr_pricer: caplet mean over seeds is not within bound of Black', caps[:, j], refc, dict(cs, is_cap=1, black=refc),
                 bias=bias_c, clause='caplet-vs-black', rare_if_mostly_zero=(j > 0))
        st.ttest('lmm.cap_flr_pricer.floor', 'lmm_cap_flr_pricer: floorlet mean over seeds is not within bound of Black', flrs[:, j], reff, dict(cs, is_cap=0, black=reff),
                 bias=bias_f, clause='caplet-vs-black', rare_if_mostly_zero=(j > 0))
    # ---- IborLMMProducts: its own simulators, and value_cap_floor on paths installed by hand
    lmm_product(ctx, rng, L)
    ctx.count('lmm', n_eval, n_eval, sample={'fn': 'lmm_simulate_fwds_1f', 'num_fwds': n, 'num_paths': npth})


def lmm_product(ctx, rng, L):
    from financepy.utils.date import Date
    from financepy.utils.frequency import FrequencyTypes
    from financepy.utils.day_count import DayCountTypes
    from financepy.utils.error import FinError
    from financepy.utils.global_types import FinCapFloorTypes
    from financepy.market.volatility.ibor_cap_vol_curve import IborCapVolCurve
    from financepy.products.rates.ibor_lmm_products import IborLMMProducts
    vd = mkdates()
    md = vd.add_tenor('3Y')
    dc = flat(vd, rng.uniform(0.02, 0.06))
    sig = rng.uniform(0.15, 0.25)
    vc = IborCapVolCurve(vd, [vd] + [vd.add_tenor(f'{i}Y') for i in (1, 2, 3, 4)], np.array([0.0, sig, sig, sig, sig]), DayCountTypes.ACT_365F)
    prod = IborLMMProducts(vd, md, FrequencyTypes.SEMI_ANNUAL)
    seed = rng.randint(1, 2 ** 31 - 1)
    cs = dict(fn='IborLMMProducts.simulate_1f', settle='20-MAR-2024', maturity='3Y', float_freq='SEMI_ANNUAL', flat_rate_cc=float(-math.log(dc.df(md)) / ((md - vd) / 365.0)),
              caplet_vol=sig, num_paths=2000, use_sobol=False, seed=seed)
    try:
        prod.simulate_1f(dc, vc, 2000, 0, False, seed)
        simulated = True
    except FinError as e:
        simulated = False
        mism = 'length of fwd0' in str(getattr(e, '_message', e)) or 'length of fwd0' in str(e)
        ctx.violation(f'IborLMMProducts.simulate_1f raises FinError ({getattr(e, "_message", e)}): it passes num_fwds = number of grid dates but a forward curve '
                      'with one entry fewer, so the product can never simulate', cs,
                      finding='C19/lmm-products-dates-vs-forwards-off-by-one' if mism else None, clause='callable')
    if not simulated:
        # install paths by hand (what simulate_1f documents: forwards between consecutive grid dates, caplet vols as gammas)
        nf = len(prod.accrual_factors)
        fwd_curve = np.array([dc.fwd_rate(prod.grid_dts[i - 1], prod.grid_dts[i], prod.float_dc_type) for i in range(1, nf + 1)], dtype=float).ravel()
        gam = np.array([0.0] + [sig] * (nf - 1))
        prod.num_fwds, prod.num_paths, prod.fwd_curve = nf, 2000, fwd_curve
        prod.fwds = L.lmm_simulate_fwds_1f(nf, 2000, 0, fwd_curve, gam, prod.accrual_factors, 0, seed)
    FID = 'C19/lmm-products-dates-vs-forwards-off-by-one'
    K = float(np.mean(prod.fwd_curve))
    nfc = len(prod.fwds[0])
    for cap_md, label, ndates in ((md, 'product maturity', len(prod.grid_dts)), (prod.grid_dts[-2], 'one period before the product maturity', len(prod.grid_dts) - 1)):
        for typ, ic in ((FinCapFloorTypes.CAP, 1), (FinCapFloorTypes.FLOOR, 0)):
            c2 = dict(cs, fn='IborLMMProducts.value_cap_floor', cap_floor_type=typ.name, strike=K, cap_maturity=str(cap_md), which=label, notional=1000.0)
            try:
                v = float(prod.value_cap_floor(vd, cap_md, typ, K, FrequencyTypes.SEMI_ANNUAL, DayCountTypes.THIRTY_E_360, 1000.0))
            except FinError as e:
                msg = str(getattr(e, '_message', e))
                ctx.violation(f'IborLMMProducts.value_cap_floor raises FinError ({msg}) for a cap/floor to the {label}: it passes the number of cap DATES as '
                              'the number of forwards', c2, finding=FID if ('num_fwds > max_fwds' in msg and ndates > nfc) else None, clause='callable')
                continue
            except Exception as e:  # noqa: BLE001
                ctx.violation(f'IborLMMProducts.value_cap_floor raises {type(e).__name__} ({e})', c2, clause='callable')
                continue
            lets = safe_cap(ctx, L, nfc, prod.num_paths, K, prod.fwd_curve, prod.fwds, prod.accrual_factors, ic, 'IborLMMProducts paths')
            if lets is None:
                continue
            want = 1000.0 * float(np.sum(lets[:ndates - 1]))          # a cap over ndates dates has ndates-1 caplets
            with_extra = 1000.0 * float(np.sum(lets[:ndates]))
            if not abs(v - want) <= 1e-9 * max(abs(want), 1e-9):
                ctx.violation('IborLMMProducts.value_cap_floor is not notional times the sum of the cap/floorlets up to the cap maturity (each validated '
                              'against Black): it prices one cap/floorlet beyond the maturity', dict(c2, returned=v, expected=want, with_one_extra_caplet=with_extra),
                              finding=FID if abs(v - with_extra) <= 1e-9 * max(abs(with_extra), 1e-9) else None, clause='cap-vs-black')
    ctx.count('lmm:IborLMMProducts', 5, 5)


# ================================================================================================ default times
class CurveStub:
    def __init__(self, t, v):
        self._times, self._values = np.asarray(t, float), np.asarray(v, float)

    def times(self):
        return self._times

    def values(self):
        return self._values


def default_time_stats(ctx, st, quick):
    from financepy.models.gauss_copula import default_times_gc
    from financepy.models.student_t_copula import StudentTCopula
    rng = ctx.rng('default-times')
    n_eval = 0
    nc = 3
    curves, hz = [], []
    for _ in range(nc):
        m = rng.randint(3, 6)
        ts = np.concatenate([[0.0], np.cumsum([rng.uniform(0.5, 2.0) for _ in range(m)])])
        hs = np.array([rng.uniform(0.01, 0.12) for _ in range(m)])
        vs = np.concatenate([[1.0], np.exp(-np.cumsum(hs * np.diff(ts)))])
        curves.append(CurveStub(ts, vs))
        hz.append(hs)
    rho = rng.uniform(0.1, 0.6)
    cm = np.full((nc, nc), rho)
    np.fill_diagonal(cm, 1.0)
    ntr = 20000 if quick else 100000
    for name, call in (('default_times_gc', lambda sd: default_times_gc(curves, cm, ntr, sd)),
                       ('StudentTCopula.default_times', lambda sd: StudentTCopula().default_times(curves, cm, 5, ntr if quick else ntr // 4, sd))):
        seed = rng.randint(1, 2 ** 31 - 1)
        tau = call(seed)
        n_eval += 1
        nt = tau.shape[1] // 2
        for ic, c in enumerate(curves):
            grid = list(c._times[1:]) + [0.5 * (c._times[i] + c._times[i + 1]) for i in range(len(c._times) - 1)]
            for tq in grid:
                i = min(max(int(np.searchsorted(c._times, tq, side='right')), 1), len(c._times) - 1)
                qref = float(c._values[i - 1] * math.exp(-hz[ic][i - 1] * (tq - c._times[i - 1])))
                ind = (tau[ic] > tq).astype(float)
                smp = 0.5 * (ind[:nt] + ind[nt:])
                st.ztest(f'default_times.{name}', f'{name}: empirical survival frequency of the simulated default times differs from the input survival curve',
                         smp, qref, dict(fn=name, credit=ic, t=float(tq), times=c._times.tolist(), survival=c._values.tolist(), correlation=rho, num_trials=nt, seed=seed),
                         bias=3e-7, clause='survival-curve')
    # ---- C17's oracles for the Monte-Carlo default times (this property's anchors name student_t_copula.py / gauss_copula.py): the
    # deterministic CDF tie (latents replayed from the seed, u read back from tau, compared with the law of g: Student-t with the GIVEN
    # degrees of freedom on both sides of 30, or normal) and the exact binomial marginal test on bootstrapped CDS curves
    from props import c17_samplers as S17
    rng2 = ctx.rng('default-times-c17')
    for kind, dof in [('t', d_) for d_ in S17.DOFS] + [('g', None)]:
        n_names = rng2.choice([1, 2, 3])
        spreads, recovery, crv = S17.sample_curves(rng2, n_names)
        rho2 = rng2.choice(S17.RHOS) if n_names > 1 else 0.0
        trials = 4000 if quick else 20000
        cs = S17.make_case(kind, spreads, recovery, rho2, dof, trials, rng2.randint(1, 2 ** 31 - 1))
        taus_ = S17.try_sampler(ctx, np, cs, crv)
        n_eval += 1
        if taus_ is None:
            continue
        tie = S17.cdf_tie(np, cs, curves=crv, taus=taus_)
        if tie['status'] == 'mismatch':
            ctx.violation(f'{cs["fn"]}: the uniform behind a simulated default time is not the distribution function of its latent variable '
                          '(Student-t with the given degrees of freedom / normal): the marginal default probability at that horizon is wrong',
                          dict(cs, worst_abs_diff=tie['worst'], witness=tie.get('witness')), clause='survival-curve')
        elif tie['status'] != 'ok':
            ctx.broke(f'correspondence {cs["fn"]}: latent variables could not be replayed from the seed ({tie["status"]}) at ' + json.dumps(cs, default=str)[:400])
        fails, worst_z, ncmp = S17.marginals(np, cs, curves=crv, taus=taus_)
        st.n_tests += ncmp
        st.see('default_times.c17-marginals.' + kind, worst_z / 5.7)
        if fails:
            ctx.violation(f'{cs["fn"]}: number of simulated defaults before a horizon is outside the exact binomial law of the input survival curve',
                          dict(cs, failures=fails[:3]), clause='survival-curve')
    ctx.count('default_times', n_eval, n_eval, sample={'fn': 'default_times_gc', 'num_credits': nc, 'num_trials': ntr})


# ================================================================================================ replay
def replay_case(v):
    """re-evaluate the recorded case where that is a single deterministic call; otherwise point to the seed"""
    cs = v.get('case', {})
    fn = cs.get('fn', '')
    BS, G, PS, V, CIR, H, L = fp()
    if fn == 'get_paths_times' and v.get('clause') == 'antithetic-pair-product':
        _, S = G.get_paths_times(cs['num_paths'], cs['num_time_steps'], cs['t'], cs['mu'], cs['stock_price'], cs['volatility'], cs['seed'])
        nst = cs['num_time_steps']
        want = (cs['stock_price'] * np.exp((cs['mu'] - cs['volatility'] ** 2 / 2) * (cs['t'] / nst) * np.arange(nst + 1))) ** 2
        e = float(np.max(np.abs(S[0::2] * S[1::2] / want - 1)))
        print('replay: max relative deviation of the pair product', e)
        if e > 1e-11:
            print('VIOLATION property=C19 (replayed)')
            return 1
        return 0
    if fn.startswith('EquityVanillaOption.') and 'seeds' in cs:
        print('replay: statistical case — re-run ./check C19 with the recorded VERIF_SEED; first seeds', cs['seeds'])
        return 1
    print('replay: re-run ./check C19 with the recorded VERIF_SEED to reproduce')
    return 1
