"""C19 — wave-5 sections of the check (see c19.py for the overview).

horizon_oracles      the terminal column of every path generator is the state AT the requested horizon: for a horizon
                     t = k/n that is a whole number k of steps of length 1/n the array has k steps after the initial
                     column (time grids end at t), the ANTITHETIC GBM pair product at the last column is
                     (S0 exp((mu - sigma^2/2) t))^2 for the REQUESTED t (exact, theorem gbm_antithetic_pair_product), and
                     exp(-mu t) E[S(last column)] = S0 within 6.5 own standard errors.  Horizons are drawn on the k/n
                     lattice, deliberately including the k whose float product (k/n)*n lands below k.
scheme_reuse_oracles every MC entry point that takes a scheme enum / Sobol flag, on ONE object: for every ordered pair
                     (A, B) of flag values the calls A, B, A with all other arguments and the seed identical must return,
                     call by call, the very bits a freshly built object returns; distinct flag values must not return
                     bit-identical output (the flag is used)."""
import math

import numpy as np

from props.c19 import bits
from props.c19_parts import fp, mkdates, flat

STEPS_PER_YEAR = (4, 12, 24, 50, 52, 100, 252, 365)     # quarterly ... daily; 50/100 are the "decimal years" grids
KMAX = 130                                               # longest lattice horizon in steps (keeps the statistical cases cheap)

F_FLOOR = 'C19/process-simulator-horizon-floor-rounding'
F_SHORT = 'C19/path-array-ends-one-step-before-horizon'


def lattice_classes(n, kmax=KMAX):
    """k/n for k = 3..kmax, by where the two float spellings of 'number of steps' land against k: `down` = the product
    (k/n)*n is below k (what a fastmath kernel evaluates for t / (1.0/n) — measured), `downq` = only the true quotient
    (k/n) / (1.0/n) is below k, `up` = above, `exact` = both equal k"""
    cls = {'down': [], 'downq': [], 'exact': [], 'up': []}
    dt = 1.0 / n
    for k in range(3, min(kmax, 3 * n) + 1):      # >= 3 steps: the short-by-one generators must still have an initial column to write
        t = k / n
        p, q = t * n, t / dt
        cls['down' if p < k else ('downq' if q < k else ('up' if max(p, q) > k else 'exact'))].append(k)
    return cls


def draw_lattice(rng, want):
    """(n, k, class): a steps-per-year n and a whole number k of steps whose horizon k/n is of the wanted class (if any n has one)"""
    ns = list(STEPS_PER_YEAR)
    rng.shuffle(ns)
    for n in ns:
        ks = lattice_classes(n)[want]
        if ks:
            return n, rng.choice(ks), want
    n = ns[0]
    return n, rng.randint(3, min(KMAX, 3 * n)), 'any'


def floor_counts(t, n):
    """the step counts a floor rule can produce from the float quotient, spelled both ways"""
    return {int(t * n), int(t / (1.0 / n))}


# ================================================================================================ horizon
def horizon_oracles(ctx, st, quick):
    BS, G, PS, V, CIR, H, L = fp()
    from financepy.models.process_simulator import FinProcessSimulator, ProcessTypes, FinGBMNumericalScheme, FinHestonNumericalScheme, \
        FinVasicekNumericalScheme, CIRNumericalScheme
    rng = ctx.rng('horizon')
    sim = FinProcessSimulator()
    n_eval = 0
    classes_seen = {'down': 0, 'downq': 0, 'exact': 0, 'up': 0, 'any': 0}

    def gens(s0, mu, sig, v0, kap, th, sgv, rho, r0, a, b, sgr, seed, npth):
        """(label, family, rows-per-path-argument, call(n, t) -> 2-d array with the initial column first)"""
        out = []
        for sc in FinGBMNumericalScheme:
            out.append((f'get_gbm_paths[{sc.name}]', 'gbm', lambda n, t, sc=sc: PS.get_gbm_paths(npth, n, t, mu, s0, sig, sc.value, seed)))
            out.append((f'FinProcessSimulator.get_process[GBM,{sc.name}]', 'gbm',
                        lambda n, t, sc=sc: sim.get_process(ProcessTypes.GBM, t, (s0, mu, sig, sc), n, npth, seed)))
        for sc in FinHestonNumericalScheme:
            out.append((f'get_heston_paths[{sc.name}]', 'floor', lambda n, t, sc=sc: PS.get_heston_paths(npth, n, t, mu, s0, v0, kap, th, sgv, rho, sc.value, seed)))
        out.append(('FinProcessSimulator.get_process[HESTON,QUADEXP]', 'floor',
                    lambda n, t: sim.get_process(ProcessTypes.HESTON, t, (s0, mu, v0, kap, th, sgv, rho, FinHestonNumericalScheme.QUADEXP), n, npth, seed)))
        for sc in FinVasicekNumericalScheme:
            out.append((f'get_vasicek_paths[{sc.name}]', 'floor', lambda n, t, sc=sc: PS.get_vasicek_paths(npth, n, t, r0, a, b, sgr, sc.value, seed)))
        for sc in CIRNumericalScheme:
            if sc.name != 'EXACT':
                out.append((f'get_cir_paths[{sc.name}]', 'floor', lambda n, t, sc=sc: PS.get_cir_paths(npth, n, t, r0, a, b, 5 * sgr, sc.value, seed)))
        out.append(('FinProcessSimulator.get_process[CIR,MILSTEIN]', 'floor',
                    lambda n, t: sim.get_process(ProcessTypes.CIR, t, (r0, a, b, 5 * sgr, CIRNumericalScheme.MILSTEIN), n, npth, seed)))
        for sc in (1, 2, 3):
            out.append((f'heston.get_paths[{sc}]', 'short', lambda n, t, sc=sc: H.get_paths(s0, mu + 0.01, 0.01, v0, kap, th, sgv, rho, t, 1.0 / n, npth, seed, sc)))
        out.append(('vasicek_mc.rate_path_mc', 'short', lambda n, t: V.rate_path_mc(r0, a, b, sgr, t, 1.0 / n, seed)[None, :]))
        for sc in (1, 2, 3, 4, 5):
            out.append((f'cir_montecarlo.rate_path_mc[{sc}]', 'short', lambda n, t, sc=sc: CIR.rate_path_mc(r0, a, b, 5 * sgr, t, 1.0 / n, seed, sc)[None, :]))
        return out

    # ---- (1) number of steps / end of the time grid: deterministic, every generator, every scheme enum
    n_rounds = 2 if quick else 8
    for rd in range(n_rounds):
        seed = rng.randint(1, 2 ** 31 - 1)
        s0, mu, sig = rng.uniform(20, 150), rng.uniform(0.03, 0.12) * rng.choice([-1, 1]), rng.uniform(0.1, 0.4)
        v0, kap, th, sgv, rho = rng.uniform(0.03, 0.08), rng.uniform(1.0, 3.0), rng.uniform(0.03, 0.08), rng.uniform(0.2, 0.5), rng.uniform(-0.8, -0.2)
        r0, a, b, sgr = rng.uniform(0.01, 0.08), rng.uniform(0.2, 1.5), rng.uniform(0.02, 0.08), rng.uniform(0.005, 0.02)
        for label, fam, call in gens(s0, mu, sig, v0, kap, th, sgv, rho, r0, a, b, sgr, seed, 3):
            for want in (('down', 'downq', 'exact', 'up') if rd == 0 else ('down', rng.choice(['down', 'downq', 'exact', 'up']))):
                n, k, got_cls = draw_lattice(rng, want)
                classes_seen[got_cls] += 1
                t = k / n
                cs = dict(fn=label, num_steps_per_year=n, dt=1.0 / n, t=t, whole_steps_k=k, lattice_class=got_cls, float_product_t_times_n=t * n,
                          float_quotient_t_over_dt=t / (1.0 / n), seed=seed, num_paths=3)
                try:
                    P = np.asarray(call(n, t))
                except Exception as e:  # noqa: BLE001
                    ctx.violation(f'{label} raises {type(e).__name__} ({e}) for a horizon that is a whole number of steps', cs, clause='callable')
                    continue
                n_eval += 1
                steps = P.shape[1] - 1
                if steps == k:
                    continue
                finding = None
                if fam == 'floor' and steps == k - 1 and (k - 1) in floor_counts(t, n):
                    finding = F_FLOOR          # int(t/dt) where the float quotient is one ulp below k (unchanged tree; NOT get_gbm_paths)
                elif fam == 'short' and (steps + 1) in floor_counts(t, n):
                    finding = F_SHORT          # int(t/dt) ENTRIES including the initial one
                ctx.violation(f'{label}: the path array for the horizon t = {k}/{n} (a whole number k = {k} of steps of 1/{n}) has {steps} steps after the '
                              f'initial column, so its last column is the state at t {"-" if steps < k else "+"} {abs(k - steps)}·dt, not at the requested horizon '
                              '(every consumer reads the terminal value from the last column)',
                              dict(cs, steps_returned=steps, columns=int(P.shape[1]), last_column_time=steps / n), finding=finding, clause='horizon')
    # time grids of the generators that take the NUMBER of steps: end at t, uniform, start at 0
    for _ in range(4 if quick else 16):
        seed = rng.randint(1, 2 ** 31 - 1)
        n, k, got_cls = draw_lattice(rng, rng.choice(['down', 'downq', 'exact', 'up']))
        t = k / n
        for label, call in (('get_paths_times', lambda: G.get_paths_times(4, k, t, 0.03, 100.0, 0.2, seed)),
                            ('get_assets_paths_times', lambda: G.get_assets_paths_times(2, 4, k, t, np.array([0.03, 0.01]), np.array([100.0, 50.0]), np.array([0.2, 0.3]),
                                                                                      np.array([[1.0, 0.3], [0.3, 1.0]]), seed))):
            tt, S = call()
            n_eval += 1
            tt = np.asarray(tt, float)
            # grid entries carry a few ulp of t (<= 1e-15 t); one step off is t/k >= t/130
            ok = (len(tt) == k + 1 and S.shape[-1] == k + 1 and tt[0] == 0.0 and abs(tt[-1] - t) <= 1e-13 * t
                  and float(np.max(np.abs(np.diff(tt) - t / k))) <= 1e-13 * t)
            if not ok:
                ctx.violation(f'{label}: the time grid returned for {k} steps to t does not run uniformly from 0 to t with one column per time',
                              dict(fn=label, num_time_steps=k, t=t, seed=seed, grid_len=len(tt), columns=int(S.shape[-1]), first=float(tt[0]), last=float(tt[-1])),
                              clause='horizon')

    # ---- (2) GBM: the last column is the price at the REQUESTED t — exact pair product (ANTITHETIC) and first moment (both schemes)
    npairs = 20000
    for rd in range(2 if quick else 6):
        for via in ('get_gbm_paths', 'FinProcessSimulator.get_process'):
            for sc in FinGBMNumericalScheme:
                want = 'down' if rd % 2 == 0 else rng.choice(['downq', 'exact', 'up', 'down'])
                n, k, got_cls = draw_lattice(rng, want)
                classes_seen[got_cls] += 1
                t = k / n
                seed = rng.randint(1, 2 ** 31 - 1)
                s0, sig = rng.uniform(20, 150), rng.uniform(0.1, 0.25)
                mu = rng.uniform(0.06, 0.15) * rng.choice([-1, 1])          # |mu - sig^2/2| >= 0.028: the pair product moves with the horizon
                label = f'{via}[GBM,{sc.name}]' if via != 'get_gbm_paths' else f'get_gbm_paths[{sc.name}]'
                npth = npairs if sc.name == 'ANTITHETIC' else 2 * npairs
                if via == 'get_gbm_paths':
                    S = PS.get_gbm_paths(npth, n, t, mu, s0, sig, sc.value, seed)
                else:
                    S = sim.get_process(ProcessTypes.GBM, t, (s0, mu, sig, sc), n, npth, seed)
                n_eval += 1
                cs = dict(fn=label, num_paths=npth, num_annual_steps=n, t=t, whole_steps_k=k, lattice_class=got_cls, mu=mu, stock_price=s0, sigma=sig,
                          scheme=sc.name, seed=seed, columns=int(S.shape[1]))
                if S.shape[1] - 1 != k:
                    ctx.violation(f'{label}: the path array for the horizon t = {k}/{n} has {S.shape[1] - 1} steps after the initial column, not {k}: '
                                  'its last column is not the price at the requested horizon', dict(cs, steps_returned=int(S.shape[1] - 1)), clause='horizon')
                x = S[:, -1] * math.exp(-mu * t)
                if sc.name == 'ANTITHETIC':
                    want_prod = (s0 * math.exp((mu - sig * sig / 2.0) * t)) ** 2
                    e = float(np.max(np.abs(S[:npth, -1] * S[npth:, -1] / want_prod - 1.0)))
                    # k <= 130 multiplications by m*w and m/w: rounding <= ~4k ulp = 1.2e-13; one step off moves the product by 2|mu - sig^2/2|/n >= 1.5e-4
                    if not e <= 1e-11:
                        ctx.violation(f'{label}: the product of the two paths of an antithetic pair at the LAST column is not (S0·exp((mu − sigma²/2)·t))² '
                                      'for the requested horizon t — the last column is not the price at t',
                                      dict(cs, max_rel_dev=e, implied_horizon=float(math.log(float(S[0, -1] * S[npth, -1]) / s0 ** 2) / (2 * (mu - sig * sig / 2.0)))),
                                      clause='horizon')
                    x = 0.5 * (x[:npth] + x[npth:])
                st.ztest(f'gbm.horizon-martingale.{sc.name}', f'{label}: exp(−mu·t)·mean(last column) is not S0 for the requested horizon t = {k}/{n} '
                         '(the discounted price at the horizon is a martingale)', x, s0, cs, bias=1e-12 * s0, clause='martingale')
    ctx.cov['horizon_lattice_classes_drawn'] = classes_seen
    ctx.count('paths:horizon', n_eval, n_eval, sample={'fn': 'get_gbm_paths', 'lattice': 'k/n, n in ' + str(list(STEPS_PER_YEAR)), 'classes': classes_seen})


# ================================================================================================ one object, scheme / flag order
def scheme_reuse_oracles(ctx, quick):
    from financepy.utils.global_types import OptionTypes
    from financepy.models.black_scholes import BlackScholes
    from financepy.models.heston import Heston, HestonNumericalScheme
    from financepy.models.process_simulator import FinProcessSimulator, ProcessTypes, FinGBMNumericalScheme, FinHestonNumericalScheme, \
        FinVasicekNumericalScheme, CIRNumericalScheme
    from financepy.products.equity.equity_vanilla_option import EquityVanillaOption
    from financepy.products.equity.equity_barrier_option import EquityBarrierOption, EquityBarrierTypes
    from financepy.products.fx.fx_barrier_option import FXBarrierOption, FinFXBarrierTypes
    rng = ctx.rng('scheme-reuse')
    vd = mkdates()
    n_eval = [0]

    def fname(f):
        return getattr(f, 'name', str(f))

    def aba(name, make, call, flags, args):
        """ONE object: for every ordered pair (A, B) of flag values the calls A, B, A; each result against a freshly built object"""
        flags = list(flags)
        try:
            ref = {f: bits(call(make(), f)) for f in flags}
        except Exception as e:  # noqa: BLE001
            ctx.violation(f'{name} raises {type(e).__name__} ({e})', dict(fn=name, arguments=args), clause='callable')
            return
        n_eval[0] += len(flags)
        for i, fa in enumerate(flags):
            for fb in flags[i + 1:]:
                if ref[fa] == ref[fb]:
                    ctx.violation(f'{name}: two different values of the scheme / flag argument return bit-identical results from freshly built objects — '
                                  'the argument is ignored (or results are kept somewhere under a key that omits it)',
                                  dict(fn=name, flags=[fname(fa), fname(fb)], arguments=args), clause='scheme-is-used')
        pairs = [(fa, fb) for ia, fa in enumerate(flags) for ib, fb in enumerate(flags) if ia != ib]
        rng.shuffle(pairs)
        shared = make()
        hist = []
        for fa, fb in pairs:
            for f in (fa, fb, fa):
                try:
                    got = call(shared, f)
                    fresh = call(make(), f)
                except Exception as e:  # noqa: BLE001
                    ctx.violation(f'{name} raises {type(e).__name__} ({e}) on a re-used object', dict(fn=name, flag=fname(f), earlier_calls=hist[-6:], arguments=args), clause='callable')
                    return
                n_eval[0] += 2
                if bits(got) != bits(fresh) or bits(got) != ref[f]:
                    ctx.violation(f'{name}: with identical arguments and seed, the object that was called before with '
                                  f'{"another value of the scheme / flag argument" if hist and hist[-1] != fname(f) else "the same arguments"} returns a different '
                                  'result than a freshly built object — the result depends on the call history, not on the arguments and the seed',
                                  dict(fn=name, flag=fname(f), earlier_calls_on_this_object=hist[-6:], arguments=args,
                                       reused=np.asarray(got, float).ravel()[:4].tolist(), fresh=np.asarray(fresh, float).ravel()[:4].tolist(),
                                       fresh_object_differs_from_first_reference=bool(bits(fresh) != ref[f])), clause='object-reuse')
                    return
                hist.append(fname(f))

    for _ in range(1 if quick else 3):
        seed = rng.randint(1, 2 ** 31 - 1)
        s0 = rng.uniform(80, 120)
        r, q = rng.uniform(0.01, 0.05), rng.uniform(0.0, 0.03)
        days = rng.choice([91, 182, 365, 500])
        ed = vd.add_days(days)
        v0, kap, th, sg, rho = rng.uniform(0.03, 0.08), rng.uniform(1.0, 3.0), rng.uniform(0.03, 0.08), rng.uniform(0.2, 0.9), rng.uniform(-0.9, -0.2)
        npth, nspy = rng.choice([300, 500, 1000]), rng.choice([12, 20, 50, 100])
        hargs = dict(value_dt=str(vd), expiry_days=days, stock_price=s0, r=r, q=q, v0=v0, kappa=kap, theta=th, sigma=sg, rho=rho, num_paths=npth,
                     num_steps_per_year=nspy, seed=seed)
        for ot in (OptionTypes.EUROPEAN_CALL, OptionTypes.EUROPEAN_PUT):
            k = s0 * rng.uniform(0.9, 1.1)
            opt = EquityVanillaOption(ed, k, ot)
            aba(f'Heston.value_mc[{ot.name}]', lambda: Heston(v0, kap, th, sg, rho),
                lambda m, sch, opt=opt: m.value_mc(vd, opt, s0, r, q, npth, nspy, seed, sch), HestonNumericalScheme, dict(hargs, strike=k))
        # one Heston object, option type AND scheme changing between calls (strike ladder of one smile)
        opts = {(ot, sch): EquityVanillaOption(ed, s0 * f_, ot) for ot, f_ in ((OptionTypes.EUROPEAN_CALL, 1.05), (OptionTypes.EUROPEAN_PUT, 0.95)) for sch in HestonNumericalScheme}
        aba('Heston.value_mc[call 1.05·S / put 0.95·S × scheme]', lambda: Heston(v0, kap, th, sg, rho),
            lambda m, fl_: m.value_mc(vd, opts[fl_], s0, r, q, npth, nspy, seed, fl_[1]), list(opts),
            dict(hargs, flags='(option type, scheme)'))
        t = rng.choice([0.5, 1.0, 0.58, 1.25])
        nas = rng.choice([12, 50])
        a, b, sgr, r0 = rng.uniform(0.2, 1.5), rng.uniform(0.02, 0.08), rng.uniform(0.005, 0.02), rng.uniform(0.01, 0.08)
        pargs = dict(t=t, num_annual_steps=nas, num_paths=40, seed=seed)
        fams = [(ProcessTypes.GBM, (s0, r, sg / 2), list(FinGBMNumericalScheme)),
                (ProcessTypes.HESTON, (s0, r, v0, kap, th, sg, rho), list(FinHestonNumericalScheme)),
                (ProcessTypes.VASICEK, (r0, a, b, sgr), list(FinVasicekNumericalScheme)),
                (ProcessTypes.CIR, (r0, a, b, 5 * sgr), [x for x in CIRNumericalScheme if x.name != 'EXACT'])]
        for pt, pars, schemes in fams:
            aba(f'FinProcessSimulator.get_process[{pt.name}]', FinProcessSimulator,
                lambda o_, sch, pt=pt, pars=pars: o_.get_process(pt, t, pars + (sch,), nas, 40, seed), schemes, dict(pargs, model_params=list(pars)))
        # one simulator object across ALL families and schemes
        allf = [(pt, pars, sch) for pt, pars, schemes in fams for sch in schemes]
        aba('FinProcessSimulator.get_process[all processes × schemes]', FinProcessSimulator,
            lambda o_, fl_: o_.get_process(fl_[0], t, fl_[1] + (fl_[2],), nas, 40, seed), rng.sample(allf, 5), dict(pargs, flags='(process, params, scheme)'))
        bar = 0.85 * s0
        aba('EquityBarrierOption.value_mc', lambda: EquityBarrierOption(vd.add_days(365), s0, EquityBarrierTypes.DOWN_AND_OUT_CALL, bar, 12),
            lambda o_, sch: o_.value_mc(1.0, s0, EquityBarrierTypes.DOWN_AND_OUT_CALL.value, bar, 1.0, s0, r, ProcessTypes.GBM, (s0, r - q, 0.25, sch), 12, 300, seed),
            FinGBMNumericalScheme, dict(stock_price=s0, r=r, q=q, barrier=bar, num_ann_obs=12, num_paths=300, seed=seed))
        aba('FXBarrierOption.value_mc', lambda: FXBarrierOption(vd.add_days(365), 1.1, 'EURUSD', FinFXBarrierTypes.DOWN_AND_OUT_CALL, 0.95, 12, 1.0, 'USD'),
            lambda o_, sch: o_.value_mc(vd, 1.1, r, ProcessTypes.GBM, (1.1, r - q, 0.12, sch), 12, 300, seed),
            FinGBMNumericalScheme, dict(spot=1.1, r=r, q=q, barrier=0.95, num_ann_steps=12, num_paths=300, seed=seed))
        model = BlackScholes(0.25)
        kv = s0 * rng.uniform(0.9, 1.1)
        for meth in ('value_mc', 'value_mc_numpy_only', 'value_mc_numba_only', 'value_mc_numba_parallel', 'value_mc_numpy_numba', 'value_mc_nonumba_nonumpy'):
            aba(f'EquityVanillaOption.{meth}[use_sobol]', lambda: EquityVanillaOption(ed, kv, OptionTypes.EUROPEAN_CALL),
                lambda o_, sob, meth=meth: getattr(o_, meth)(vd, s0, flat(vd, r), flat(vd, q), model, 500, seed, sob), (0, 1),
                dict(stock_price=s0, strike=kv, r=r, q=q, volatility=0.25, num_paths=500, seed=seed, expiry_days=days))
    ctx.count('reproducibility:scheme-order-one-object', n_eval[0], n_eval[0],
              sample={'fn': 'Heston.value_mc', 'sequence': 'for every ordered pair (A, B) of scheme enums: A, B, A on one object, each vs a fresh object'})
