"""C20 — numerical kernels meet their stated accuracy; compiled code matches its Python source.

Theorems : FinVerif/Props/C20a.lean (bisection / newton / secant postconditions for arbitrary f),
           C20b.lean (Thomas solve, band multiplication, npv, pair_gcd), C20c.lean (generated N, norminvcdf).
Tie      : Gen/KernF|KernR are regenerated from utils/math.py on every run; for every translated kernel and
           every hand-modelled kernel three streams are compared on the same inputs: COMPILED dispatcher,
           interpreter `py_func`, Lean model (Float instantiation).
Oracles  : accuracy against SciPy (ndtr, ndtri, multivariate_normal), root-finder postconditions, L L^T = rho,
           tridiagonal residual, Sobol stratification, polynomial / tension-spline knot reproduction.
Support  : jit-vs-py_func differential over every Numba dispatcher found by introspection (props/c20_diff.py,
           in a subprocess; reported as a supporting search, never as proof).

PARTIAL: approximation-error bounds, minimiser quality, Sobol uniformity and the compiler are validated only."""
import contextlib
import io
import json
import math
import os
import subprocess
import sys
import warnings

sys.path.insert(0, os.path.dirname(os.path.dirname(os.path.abspath(__file__))))
import common as C  # noqa: E402
from floatcmp import f2b, b2f  # noqa: E402
from parallel import driver_parallel  # noqa: E402

GEN = ['KernF', 'KernR', 'KernLoopR']
PROPS = ['FinVerif.Props.C20a', 'FinVerif.Props.C20b', 'FinVerif.Props.C20c', 'FinVerif.Props.C20d', 'FinVerif.Props.C20e',
         'FinVerif.Props.C20f', 'FinVerif.Props.C20g', 'FinVerif.Props.C20h', 'FinVerif.Props.C20i', 'FinVerif.Props.C20j', 'FinVerif.Props.C20k', 'FinVerif.Props.C20l', 'FinVerif.Props.C20m', 'FinVerif.Props.C20n', 'FinVerif.Props.C20o', 'FinVerif.Props.C20p']
DRIVERS = ['FinVerif.Driver.C20']

RULE = ('scalar kernels: dense grid on [-38,38] (step 0.025) + seeded uniform/normal samples + boundary values '
        '(0, -0, denormals, +-35, +-38, branch points of norminvcdf and their neighbours), each compared '
        'compiled / py_func / Lean model and against SciPy; phi2: (h,k) grid x 25 correlations incl. +-0.7, '
        '+-0.999999, +-1 and |h|>35, plus |rho| -> 1 geometrically (1-10^-k, 1-5*10^-k, k<=15, the doubles next to 1, +-1) x h2 = +-h1 '
        'and h2 within a few sqrt(1-rho^2) of +-h1, against an Owen-T reference; solvers: seeded cubic and exponential families x brackets / starts / '
        'tolerances / iteration budgets; linear algebra: seeded systems n<=40. Non-trivial = result is a number '
        '(not an error) and the case is distinct by construction (grids) or by sampling from a continuous law.')

# tolerances (measured on the clean tree, see notes/C20.md) -----------------------------------------------
TOL_MODEL = dict(rtol=1e-12, atol=1e-290)       # compiled / py_func / model of straight-line kernels
TOL_PHI2_MODEL = dict(rtol=1e-9, atol=1e-13)    # fastmath re-association inside cancelling sums
HULL_ABS = 1e-6                                 # docstring of N: "accurate to 6 decimal places" (measured 7.5e-8)
ACKLAM_REL = 2e-9                               # Acklam: relative error 1.15e-9 (measured on the p-grid)
SLOW_ABS = 1e-14                                # normcdf_slow docstring: 1e-15 (measured 1.2e-15 + rounding)
INTEGRATE_ABS = 2e-8                            # normcdf_integrate: trapezium from -6, 10^4 steps (measured 1e-9)
PHI2_ABS = 5e-7                                 # Drezner-Wesolowsky 5-point + Hull N (measured 1.6e-7)
PHI3_ABS = 5e-4                                 # phi3: integration dx=1e-3 from -7 with Hull N and phi2 inside (measured 1.3e-4 over 300 samples)


class Meas:
    """maximum observed deviation per component (goes into the evidence file)."""

    def __init__(self):
        self.m = {}

    def add(self, key, v):
        if v == v and v > self.m.get(key, -1.0):
            self.m[key] = v


def canon(v):
    """Python result -> canonical tuple."""
    import numpy as np
    if v is None:
        return ('n',)
    if isinstance(v, str):
        return ('e', v)
    if isinstance(v, (list, tuple, np.ndarray)):
        return ('l', [float(x) for x in np.asarray(v, dtype=float).ravel()])
    return ('f', float(v))


_SINK = io.StringIO()


ARG_CHANGES = []     # (kernel name, argument index, values before, values after): filled by call(), reported by run()


def _kernel_name(fn):
    return getattr(fn, '__name__', None) or getattr(getattr(fn, 'py_func', None), '__name__', None) or repr(fn)[:60]


def call(fn, *a):
    """Canonical result of fn(*a).  Array arguments are snapshotted: a numerical kernel returns its answer, it does not
    overwrite the data it was given (seed C20-10: the tridiagonal solve wrote its solution into the caller's right-hand
    side, so `A u = r` can no longer be checked against r and solving twice with the same r gives another answer)."""
    from financepy.utils.error import FinError
    import numpy as _np
    snap = [(i, x.copy()) for i, x in enumerate(a) if isinstance(x, _np.ndarray)]
    try:
        with warnings.catch_warnings(), contextlib.redirect_stdout(_SINK):
            warnings.simplefilter('ignore')
            _SINK.seek(0)
            _SINK.truncate()
            return canon(fn(*a))
    except FinError:
        return ('e', 'FinError')
    except Exception as e:  # noqa: BLE001
        return ('e', type(e).__name__)
    finally:
        for i, before in snap:
            if before.tobytes() != a[i].tobytes() and len(ARG_CHANGES) < 50:
                ARG_CHANGES.append((_kernel_name(fn), i, before.tolist(), a[i].tolist()))


def parse_model(s):
    if s == 'None':
        return ('n',)
    if s.startswith('E:'):
        return ('e', s[2:])
    p = s.split()
    if p and p[0] in ('root', 'step', 'noconv'):
        return ('f', b2f(p[1]), p[0])
    if len(p) == 1:
        return ('f', b2f(p[0]))
    return ('l', [b2f(x) for x in p])


def norm1(a, b):
    """a scalar and a one-element list are the same observation (n = 1 systems)."""
    if a[0] == 'f' and b[0] == 'l' and len(b[1]) == 1:
        return ('l', [a[1]]), b
    if b[0] == 'f' and a[0] == 'l' and len(a[1]) == 1:
        return a, ('l', [b[1]])
    return a, b


def dev(a, b):
    """relative-ish deviation of two canonical values; inf if kinds differ."""
    a, b = norm1(a, b)
    if a[0] != b[0]:
        return math.inf
    if a[0] == 'n':
        return 0.0
    if a[0] == 'e':
        return 0.0 if a[1] == b[1] else math.inf
    xs, ys = ([a[1]], [b[1]]) if a[0] == 'f' else (a[1], b[1])
    if len(xs) != len(ys):
        return math.inf
    d = 0.0
    for x, y in zip(xs, ys):
        if math.isnan(x) or math.isnan(y):
            if not (math.isnan(x) and math.isnan(y)):
                return math.inf
            continue
        if math.isinf(x) or math.isinf(y):
            if x != y:
                return math.inf
            continue
        d = max(d, abs(x - y) / max(abs(x), abs(y), 1e-300))
    return d


def same(a, b, rtol, atol):
    a, b = norm1(a, b)
    if a[0] != b[0]:
        return False
    if a[0] == 'n':
        return True
    if a[0] == 'e':
        return a[1] == b[1]
    xs, ys = ([a[1]], [b[1]]) if a[0] == 'f' else (a[1], b[1])
    if len(xs) != len(ys):
        return False
    for x, y in zip(xs, ys):
        if math.isnan(x) or math.isnan(y):
            if not (math.isnan(x) and math.isnan(y)):
                return False
        elif math.isinf(x) or math.isinf(y):
            if x != y:
                return False
        elif abs(x - y) > atol + rtol * max(abs(x), abs(y)):
            return False
    return True


def show(v):
    if v is None:
        return None
    if v[0] == 'f':
        return repr(v[1])
    if v[0] == 'l':
        return [repr(x) for x in v[1][:8]]
    return v[0] + (':' + v[1] if len(v) > 1 else '')


def three_streams(ctx, meas, comp, ops, inputs, compiled, pyf, drivers_ok, rtol, atol, scale=None, classify=None, equiv=None):
    """compiled vs py_func (the property's 'compiled = source' clause: VIOLATION) and py_func vs the Lean model
    (the tie: broken correspondence)."""
    model = None
    if drivers_ok:
        try:
            model = [parse_model(s) for s in driver_parallel('C20', ops)]
        except C.DriverError as e:
            ctx.broke(f'model driver failed on component {comp}: {str(e)[:300]}')
    nb1 = nb2 = nontriv = 0
    for i, op in enumerate(ops):
        a, b = compiled[i], pyf[i]
        sc = scale[i] if scale is not None else 0.0
        if a[0] in ('f', 'l'):
            nontriv += 1
        meas.add(comp + ':compiled-vs-py', dev(a, b) if sc == 0 else min(dev(a, b), absdev(a, b) / sc))
        if not same(a, b, rtol, atol + rtol * sc) and not (equiv and equiv(inputs[i], a, b)):
            nb1 += 1
            if nb1 <= 3 or classify:
                ctx.violation(f'{comp}: compiled result differs from the interpreted Python source',
                              {'kernel': comp, 'input': inputs[i], 'compiled': show(a), 'py_func': show(b),
                               'model': show(model[i]) if model else None},
                              finding=classify(inputs[i], a, b) if classify else None, clause='compiled-eq-source')
        if model is not None:
            m = model[i]
            meas.add(comp + ':py-vs-model', dev(b, m) if sc == 0 else min(dev(b, m), absdev(b, m) / sc))
            if not same(b, m, rtol, atol + rtol * sc) and not (equiv and equiv(inputs[i], b, m)):
                nb2 += 1
                if same(a, b, rtol, atol + rtol * sc) and nb2 <= 3:
                    ctx.broke(f'correspondence {comp}: Lean model != implementation on {inputs[i]} '
                              f'(model {show(m)}, impl {show(a)})')
    ctx.count(comp, len(ops), nontriv, sample={'input': inputs[len(ops) // 2], 'compiled': show(compiled[len(ops) // 2])})
    ctx.cov['components'][comp]['disagree_compiled_py'] = nb1
    ctx.cov['components'][comp]['disagree_model'] = nb2
    return model


def absdev(a, b):
    a, b = norm1(a, b)
    if a[0] != b[0] or a[0] not in ('f', 'l'):
        return 0.0 if a == b else math.inf
    xs, ys = ([a[1]], [b[1]]) if a[0] == 'f' else (a[1], b[1])
    if len(xs) != len(ys):
        return math.inf
    return max([abs(x - y) for x, y in zip(xs, ys) if not (math.isnan(x) or math.isinf(x) or math.isinf(y))] + [0.0])


def pyfunc_of(ob):
    f = getattr(ob, 'py_func', None)
    if f is None and hasattr(ob, '_dispatcher'):
        f = ob._dispatcher.py_func
    return f


# ============================================================================================ sections
def x_grid(ctx, np):
    rng = ctx.rng('xgrid')
    xs = list(np.linspace(-38.0, 38.0, 3041))
    xs += [rng.uniform(-38, 38) for _ in range(1500)] + [rng.gauss(0, 3) for _ in range(1500)]
    sp = [0.0, 1e-300, 5e-324, 1e-16, 1e-8, 0.5, 1.0, 5.0, 8.2, 8.3, 8.5, 12.0, 26.0, 27.0, 35.0, 35.0000001,
          37.5, 37.99, 38.0]
    xs += sp + [-x for x in sp]
    return [float(x) for x in xs]


def scalar_kernels(ctx, meas, drivers_ok):
    import numpy as np
    from scipy.special import ndtr, ndtri
    import financepy.utils.math as fm
    xs = x_grid(ctx, np)
    xarr = np.array(xs)
    exact = ndtr(xarr)
    pdf = np.exp(-0.5 * xarr * xarr) / math.sqrt(2 * math.pi)
    for name in ['N', 'nprime', 'normpdf', 'heaviside', 'n_vect', 'n_prime_vect']:
        fn = getattr(fm, name)
        pf = pyfunc_of(fn)
        comp = [call(fn, x) for x in xs]
        pyv = [call(pf, x) for x in xs]
        ops = [f'{name} {f2b(x)}' for x in xs]
        three_streams(ctx, meas, name, ops, [{'x': x} for x in xs], comp, pyv, drivers_ok, **TOL_MODEL)
        # accuracy oracle on the COMPILED function
        ref = exact if name in ('N', 'n_vect') else pdf if name != 'heaviside' else (xarr >= 0).astype(float)
        tol = HULL_ABS if name in ('N', 'n_vect') else 1e-15
        prev = None
        for x, v, r in zip(xs, comp, ref):
            if v[0] != 'f':
                ctx.violation(f'{name}: no value on its domain', {'kernel': name, 'x': x, 'got': show(v)}, clause='accuracy')
                continue
            e = abs(v[1] - r)
            meas.add(name + ':abs-err-vs-scipy', e)
            if not e <= tol + 1e-13 * abs(r):
                ctx.violation(f'{name}: error {e:.3e} against the exact value exceeds the stated {tol:g}',
                              {'kernel': name, 'x': x, 'got': v[1], 'exact': float(r)}, clause='accuracy')
            if name in ('N', 'n_vect') and not (-1e-300 <= v[1] <= 1.0):
                ctx.violation(f'{name} outside [0,1]', {'kernel': name, 'x': x, 'got': v[1]}, clause='range')
        if name == 'N':
            # symmetry proved over the reals (N_symmetry) transfers up to rounding
            for x in xs[:3041:7]:
                if x != 0.0:
                    s = fn(x) + fn(-x)
                    meas.add('N:symmetry', abs(s - 1.0))
                    if abs(s - 1.0) > 4e-16:
                        ctx.violation('N(x)+N(-x) != 1', {'kernel': 'N', 'x': x, 'sum': s}, clause='symmetry')
    # normcdf_slow / normcdf_integrate: accuracy only (not translated: loops)
    for name, tol, lo in [('normcdf_slow', SLOW_ABS, -38.0), ('normcdf_integrate', INTEGRATE_ABS, -6.0)]:
        fn = getattr(fm, name)
        pf = pyfunc_of(fn)
        sub = [x for x in xs[::5] if x >= lo and (name == 'normcdf_slow' or x <= 8.0)]
        sub_py = sub[::40] if name == 'normcdf_integrate' else sub
        n1 = 0
        for x in sub:
            v = call(fn, x)
            r = float(ndtr(x))
            if v[0] != 'f':
                ctx.violation(f'{name}: no value', {'kernel': name, 'x': x, 'got': show(v)}, clause='accuracy')
                continue
            e = abs(v[1] - r)
            meas.add(name + ':abs-err-vs-scipy', e)
            if not e <= tol:
                n1 += 1
                if n1 <= 2:
                    ctx.violation(f'{name}: error {e:.3e} exceeds {tol:g}', {'kernel': name, 'x': x, 'got': v[1], 'exact': r},
                                  clause='accuracy')
        for x in sub_py:
            a, b = call(fn, x), call(pf, x)
            meas.add(name + ':compiled-vs-py', dev(a, b))
            if not same(a, b, 1e-9, 1e-15):
                ctx.violation(f'{name}: compiled result differs from the interpreted Python source',
                              {'kernel': name, 'input': {'x': x}, 'compiled': show(a), 'py_func': show(b)},
                              clause='compiled-eq-source')
        ctx.count(name, len(sub) + len(sub_py))

    # ---- norminvcdf
    rng = ctx.rng('pgrid')
    plow = 0.02425
    phigh = 1.0 - plow
    ps = list(np.linspace(0.0, 1.0, 2001)) + [10.0 ** (-k / 4.0) for k in range(4, 1200, 3)]
    ps += [1.0 - 10.0 ** (-k / 4.0) for k in range(4, 64)]
    ps += [rng.random() for _ in range(1500)] + [rng.random() * 0.03 for _ in range(300)] + [1 - rng.random() * 0.03 for _ in range(300)]
    for b in (plow, phigh, 0.5, 0.0, 1.0):
        ps += [b, float(np.nextafter(b, 2.0)), float(np.nextafter(b, -1.0))]
    ps += [-0.5, 1.5, -1e-18, 1.0000000000000002, 5e-324, 1e-10, 1 - 1e-10]
    ps = [float(p) for p in ps]
    fn = fm.norminvcdf
    pf = pyfunc_of(fn)
    comp = [call(fn, p) for p in ps]
    pyv = [call(pf, p) for p in ps]
    ops = [f'norminvcdf {f2b(p)}' for p in ps]
    three_streams(ctx, meas, 'norminvcdf', ops, [{'p': p} for p in ps], comp, pyv, drivers_ok, rtol=1e-11, atol=1e-13)
    nbad = 0
    for p, v in zip(ps, comp):
        if p < 0.0 or p > 1.0:
            if v != ('e', 'FinError'):
                ctx.violation('norminvcdf accepted p outside [0,1]', {'kernel': 'norminvcdf', 'p': p, 'got': show(v)},
                              clause='domain-error')
            continue
        if v[0] != 'f':
            ctx.violation('norminvcdf: no value on [0,1]', {'kernel': 'norminvcdf', 'p': p, 'got': show(v)}, clause='accuracy')
            continue
        if p in (0.0, 1.0):
            continue    # documented clamp to 1e-10 / 1-1e-10 (finite value instead of +-inf)
        x = v[1]
        # round trip through the exact CDF: relative error of the tail probability
        back = float(ndtr(x)) if p <= 0.5 else float(ndtr(-x))
        q = p if p <= 0.5 else 1.0 - p
        if q <= 0.0 or q < 1e-300:
            continue
        rel = abs(back - q) / q
        # the probability error is |x-x*|*phi(x)/q ~ relerr(x)*x^2 in the tail: bound the error of x itself
        xs_ = float(ndtri(p))
        relx = abs(x - xs_) / max(abs(xs_), 1e-3)
        if p > 0.5 and 1.0 - p < 1e-9:
            continue    # 1-p is not representable accurately; the lower tail carries the claim
        meas.add('norminvcdf:rel-err-x-vs-ndtri', relx)
        meas.add('norminvcdf:rel-err-prob', rel)
        if not relx <= ACKLAM_REL:
            nbad += 1
            if nbad <= 3:
                ctx.violation(f'norminvcdf: relative error {relx:.3e} exceeds {ACKLAM_REL:g}',
                              {'kernel': 'norminvcdf', 'p': p, 'got': x, 'exact': xs_}, clause='accuracy')
    # symmetry of the branches (theorem norminvcdf_branch_symmetry), on exactly representable pairs
    for k in range(1, 400):
        p = k / 1024.0
        a, b = fn(p), fn(1.0 - p)
        meas.add('norminvcdf:symmetry', abs(a + b))
        if abs(a + b) > 1e-12 * max(1.0, abs(a)):
            ctx.violation('norminvcdf(p) != -norminvcdf(1-p)', {'kernel': 'norminvcdf', 'p': p, 'at_p': a, 'at_1mp': b},
                          clause='symmetry')


def phi2_section(ctx, meas, drivers_ok):
    import numpy as np
    from scipy.stats import multivariate_normal as mvn
    import financepy.utils.math as fm
    rng = ctx.rng('phi2')
    rs = [0.0, 0.1, -0.1, 0.3, -0.3, 0.5, -0.5, 0.69, -0.69, 0.6999999, -0.6999999, 0.7, -0.7, 0.7000001, -0.7000001,
          0.9, -0.9, 0.99, -0.99, 0.9999, -0.9999, 0.999999, -0.999999, 1.0, -1.0]
    hk = [-8.0, -5.0, -3.0, -2.0, -1.0, -0.5, 0.0, 0.3, 1.0, 2.0, 3.5, 6.0]
    cases = [(h, k, r) for h in hk for k in hk for r in rs]
    cases += [(rng.uniform(-6, 6), rng.uniform(-6, 6), rng.uniform(-1, 1)) for _ in range(1500)]
    cases += [(rng.uniform(-3, 3), rng.uniform(-3, 3), rng.choice([-1, 1]) * (1 - 10 ** rng.uniform(-9, -1))) for _ in range(500)]
    cases += [(h, k, r) for h in (35.5, -35.5, 36.0) for k in (0.0, 1.0, -36.0) for r in (0.0, 0.5, -0.9, 0.95)]
    # far tails: beyond |h| = 35 the series branch is the only one that stays finite; every sign pattern and every correlation
    # branch (|r| < 0.7, >= 0.7, exactly +-1) must return the limit value there (seed C20-12: NaN for |r| >= 0.7 in the far tails)
    ft = (35.5, 36.0, 37.0, 37.9, 38.0, 40.0, 100.0)
    cases += [(sa * a, sb * b, sr * r) for a in ft for b in ft for sa in (1, -1) for sb in (1, -1)
              for r in (0.0, 0.5, 0.7, 0.8, 0.9, 0.95, 0.999, 1.0) for sr in (1, -1)]
    cases = [(float(a), float(b), float(c)) for a, b, c in cases]
    for name in ('phi2', 'M'):
        fn = getattr(fm, name)
        pf = pyfunc_of(fn)
        sub = cases if name == 'phi2' else cases[::5]
        comp = [call(fn, *c) for c in sub]
        pyv = [call(pf, *c) for c in sub]
        ops = [f'phi2 {f2b(c[0])} {f2b(c[1])} {f2b(c[2])}' for c in sub]
        model = three_streams(ctx, meas, name, ops, [{'h': c[0], 'k': c[1], 'r': c[2]} for c in sub], comp, pyv, drivers_ok,
                              **TOL_PHI2_MODEL)
        if name != 'phi2':
            continue
        if drivers_ok:
            # the generic model `phi2G` (Model/C20Phi2G.lean; the subject of the theorems of Props/C20h.lean) at Float: must be
            # the implementation within the same tolerance, and bit for bit the older Float-only model
            try:
                mg = [parse_model(t) for t in driver_parallel('C20', ['phi2g' + o[4:] for o in ops])]
                nb = 0
                for i, c in enumerate(sub):
                    okm = model is None or same(mg[i], model[i], 0.0, 0.0)
                    if not (same(pyv[i], mg[i], **TOL_PHI2_MODEL) and okm):
                        nb += 1
                        if nb <= 3:
                            ctx.broke(f'correspondence phi2 (generic model phi2G): model {show(mg[i])} != implementation '
                                      f'{show(pyv[i])} / Float model {show(model[i]) if model else None} on {c}')
                ctx.count('phi2 (generic model phi2G)', len(sub), len(sub))
            except C.DriverError as e:
                ctx.broke(f'model driver failed on phi2g: {str(e)[:300]}')
        nbad = 0
        step = 1 if not ctx.quick() else 3
        for c, v in [cv for i, cv in enumerate(zip(sub, comp)) if i % step == 0 or abs(cv[0][0]) > 30 or abs(cv[0][1]) > 30]:
            h, k, r = c
            if abs(h) > 30 or abs(k) > 30:
                ref = 0.0 if min(h, k) < -30 else float(ndtr1(min(h, k)))
            elif abs(r) >= 1.0:
                ref = float(ndtr1(min(h, k))) if r > 0 else max(0.0, float(ndtr1(h) + ndtr1(k) - 1.0))
            else:
                ref = float(mvn.cdf([h, k], mean=[0, 0], cov=[[1, r], [r, 1]]))
            if v[0] != 'f' or math.isnan(v[1]):
                ctx.violation('phi2: no value', {'kernel': 'phi2', 'h': h, 'k': k, 'r': r, 'got': show(v)}, clause='accuracy')
                continue
            e = abs(v[1] - ref)
            meas.add('phi2:abs-err-vs-scipy', e)
            if not e <= PHI2_ABS:
                nbad += 1
                if nbad <= 3:
                    ctx.violation(f'phi2: error {e:.3e} against the exact bivariate normal CDF exceeds {PHI2_ABS:g}',
                                  {'kernel': 'phi2', 'h': h, 'k': k, 'r': r, 'got': v[1], 'exact': ref}, clause='accuracy')
    phi2_near_one(ctx, meas, drivers_ok, fm, rng)
    # phi3 against SciPy's trivariate CDF (modest tolerance), compiled and py_func on a few points
    n3 = 12 if ctx.quick() else 60
    for i in range(n3):
        b = [rng.uniform(-2, 2) for _ in range(3)]
        r12, r13, r23 = rng.uniform(-0.6, 0.6), rng.uniform(-0.6, 0.6), rng.uniform(-0.5, 0.5)
        cov = np.array([[1, r12, r13], [r12, 1, r23], [r13, r23, 1]])
        if np.linalg.eigvalsh(cov).min() < 0.05:
            continue
        v = call(fm.phi3, b[0], b[1], b[2], r12, r13, r23)
        ref = float(mvn.cdf(b, mean=[0, 0, 0], cov=cov, abseps=1e-8, releps=1e-8))
        case = {'kernel': 'phi3', 'b': b, 'r12': r12, 'r13': r13, 'r23': r23}
        if v[0] != 'f':
            ctx.violation('phi3: no value', dict(case, got=show(v)), clause='accuracy')
            continue
        e = abs(v[1] - ref)
        meas.add('phi3:abs-err-vs-scipy', e)
        if not e <= PHI3_ABS:
            ctx.violation(f'phi3: error {e:.3e} exceeds {PHI3_ABS:g}', dict(case, got=v[1], exact=ref), clause='accuracy')
        if i < 2:
            w = call(pyfunc_of(fm.phi3), b[0], b[1], b[2], r12, r13, r23)
            meas.add('phi3:compiled-vs-py', dev(v, w))
            if not same(v, w, 1e-9, 1e-12):
                ctx.violation('phi3: compiled result differs from the interpreted Python source',
                              dict(case, compiled=show(v), py_func=show(w)), clause='compiled-eq-source')
    ctx.count('phi3', n3)


def ndtr1(x):
    from scipy.special import ndtr
    return ndtr(x)


def bvn_ref(h, k, r):
    """Exact bivariate normal CDF through Owen's T (scipy.special.owens_t), arranged so that nothing cancels as |r| -> 1:
    1 - r (r > 0) and 1 + r (r < 0) are exact in binary floating point, k - r h is formed as (k - h) + h (1 - r).
    asin closed form at h = k = 0; the comonotonic / countermonotonic limits at r = +-1.  Agrees with
    scipy.stats.multivariate_normal to 4e-16 for |r| <= 0.99 (checked on every run by bvn_ref_selfcheck)."""
    from scipy.special import owens_t, ndtr
    if r >= 1.0:
        return float(ndtr(min(h, k)))
    if r <= -1.0:
        return max(0.0, float(ndtr(h) + ndtr(k) - 1.0))
    if h == 0.0 and k == 0.0:
        return 0.25 + math.asin(r) / (2.0 * math.pi)
    s_ = math.sqrt((1.0 - r) * (1.0 + r))

    def num(a, b):      # b - r*a
        return (b - a) + a * (1.0 - r) if r > 0 else (b + a) - a * (1.0 + r)

    def t_(x, n):       # T(x, n / (x s))
        if x == 0.0:
            return 0.25 if n > 0 else (-0.25 if n < 0 else 0.0)
        return float(owens_t(x, n / (x * s_)))
    beta = 0.0 if (h * k > 0 or (h * k == 0 and h + k >= 0)) else 0.5
    return 0.5 * float(ndtr(h)) + 0.5 * float(ndtr(k)) - t_(h, num(h, k)) - t_(k, num(k, h)) - beta


def bvn_ref_selfcheck(rng):
    from scipy.stats import multivariate_normal as mvn
    worst = 0.0
    for i in range(60):
        h, k, r = rng.uniform(-4, 4), rng.uniform(-4, 4), rng.uniform(-0.99, 0.99)
        if i % 5 == 0:
            k = h
        if i % 7 == 0:
            h = 0.0
        if i % 11 == 0:
            k = 0.0
        worst = max(worst, abs(bvn_ref(h, k, r) - float(mvn.cdf([h, k], mean=[0, 0], cov=[[1, r], [r, 1]]))))
    if worst > 1e-9:
        raise RuntimeError(f'harness: the Owen-T reference for the bivariate normal disagrees with scipy mvn by {worst:.2e}')
    return worst


PHI2_NEAR_ONE_R = ([1.0 - 10.0 ** -k for k in range(1, 16)] + [1.0 - 5.0 * 10.0 ** -k for k in range(2, 16)]
                   + [1.0 - 2.0 ** -52, 1.0 - 2.0 ** -53, 1.0])
PHI2_NEAR_ONE_H = [-8.0, -5.0, -3.0, -2.0, -1.0, -0.5, 0.0, 0.3, 1.0, 2.0, 3.5, 6.0, 36.0, -36.0]


def phi2_near_one(ctx, meas, drivers_ok, fm, rng0):
    """|rho| -> 1 all the way (1 - 10^-k, 1 - 5 10^-k, k <= 15, the two doubles next to 1, exactly +-1; both signs) x (h1, h2)
    with h2 = +-h1, h2 within a few sqrt(1 - rho^2) of +-h1 (where the high-correlation correction term of
    Drezner-Wesolowsky carries the value) and unrelated h2, incl. tails.  phi2, M (compiled / py_func / Lean model, whose
    `r2 != 0` guard is a branch of the model) against the Owen-T reference with the existing tolerance PHI2_ABS; phi3 with
    x1 independent of (x2, x3) -- where it is M(b2, b3, rho) (N(b1) - N(-7)) by telescoping -- with PHI2_ABS + HULL_ABS."""
    rng = ctx.rng('phi2-near-one')
    meas.add('phi2:owen-ref-vs-scipy-mvn', bvn_ref_selfcheck(ctx.rng('phi2-ref-selfcheck')))
    cases = []
    for r in PHI2_NEAR_ONE_R:
        for sg in (1.0, -1.0):
            for h in PHI2_NEAR_ONE_H:
                for k in (h, -h, h + 1e-3, h - 1e-4, -h + 1e-5, h * (1 + 1e-7) + 1e-9, 0.0, 1.0):
                    cases.append((h, k, sg * r))
    for i in range(600 if ctx.quick() else 6000):
        r = 1.0 - 10.0 ** rng.uniform(-16, -1)
        sg = rng.choice([1.0, -1.0])
        h = rng.choice([rng.uniform(-4, 4), rng.uniform(-4, 4), 0.0, rng.uniform(-9, 9)])
        s_ = math.sqrt(max(0.0, (1.0 - r) * (1.0 + r)))
        k = sg * h + rng.choice([0.0, rng.uniform(-3, 3) * s_, rng.uniform(-3, 3) * s_, rng.uniform(-40, 40) * s_, rng.gauss(0, 1e-3)])
        cases.append((h, k, sg * r))
    cases = [(float(a), float(b), float(c)) for a, b, c in cases]
    for name in ('phi2', 'M'):
        fn = getattr(fm, name)
        pf = pyfunc_of(fn)
        sub = cases if name == 'phi2' else cases[::2]
        comp = [call(fn, *c) for c in sub]
        pyv = [call(pf, *c) for c in sub]
        ops = [f'phi2 {f2b(c[0])} {f2b(c[1])} {f2b(c[2])}' for c in sub]
        three_streams(ctx, meas, name + ' (|rho|->1)', ops, [{'h': c[0], 'k': c[1], 'r': c[2]} for c in sub], comp, pyv,
                      drivers_ok, **TOL_PHI2_MODEL)
        nbad = 0
        for c, v in zip(sub, comp):
            h, k, r = c
            if abs(h) > 30 or abs(k) > 30:
                ref = 0.0 if min(h, k) < -30 else float(ndtr1(min(h, k)))
            else:
                ref = bvn_ref(h, k, r)
            if v[0] != 'f' or math.isnan(v[1]):
                ctx.violation(f'{name}: no value', {'kernel': name, 'h': h, 'k': k, 'r': r, 'got': show(v)}, clause='accuracy')
                continue
            e = abs(v[1] - ref)
            meas.add(f'{name}:abs-err-near-|rho|=1', e)
            if not e <= PHI2_ABS:
                nbad += 1
                if nbad <= 3:
                    ctx.violation(f'{name}: error {e:.3e} against the exact bivariate normal CDF exceeds {PHI2_ABS:g} '
                                  f'(1 - |rho| = {1.0 - abs(r):.3g})',
                                  {'kernel': name, 'h': h, 'k': k, 'r': r, 'got': v[1], 'exact': ref,
                                   'one_minus_abs_rho': 1.0 - abs(r)}, clause='accuracy')
    # phi3 with r12 = r13 = 0: the sum telescopes to M(b2, b3, r23) (N(b1) - N(-7)); exact value Phi(b1) Phi2(b2, b3; r23)
    tol3 = PHI2_ABS + HULL_ABS
    rs3 = PHI2_NEAR_ONE_R[::2] if ctx.quick() else PHI2_NEAR_ONE_R
    nbad = n3 = 0
    for r in rs3:
        for sg in (1.0, -1.0):
            for b1, b2, b3 in ((2.0, 0.0, 0.0), (0.5, 0.7, sg * 0.7), (-1.0, 1.0, sg * 1.0 + 1e-4)):
                v = call(fm.phi3, b1, b2, b3, 0.0, 0.0, sg * r)
                ref = float(ndtr1(b1)) * bvn_ref(b2, b3, sg * r)
                case = {'kernel': 'phi3', 'b': [b1, b2, b3], 'r12': 0.0, 'r13': 0.0, 'r23': sg * r}
                n3 += 1
                if v[0] != 'f' or math.isnan(v[1]):
                    ctx.violation('phi3: no value', dict(case, got=show(v)), clause='accuracy')
                    continue
                e = abs(v[1] - ref)
                meas.add('phi3:abs-err-independent-x1-near-|rho|=1', e)
                if not e <= tol3:
                    nbad += 1
                    if nbad <= 2:
                        ctx.violation(f'phi3 with x1 independent of (x2, x3): error {e:.3e} against Phi(b1) Phi2(b2, b3; r23) exceeds '
                                      f'{tol3:g}', dict(case, got=v[1], exact=ref), clause='accuracy')
    ctx.count('phi3 (|rho|->1, independent x1)', n3, n3)


# ------------------------------------------------------------------------------------------- root finders
def fam_f(x, a):
    """objective families (same operation order as famF in Driver/C20.lean): 0 cubic, 1 exponential + linear;
    locally flat ones: 2 option payoff minus premium max(s(x-K),0)-prem, 3 clipped min(max(x,lo),hi)-target,
    4 step (x < a ? l : r)."""
    import numpy as np
    fam, c0, c1, c2, c3 = a
    if fam == 0:
        return ((c3 * x + c2) * x + c1) * x + c0
    if fam == 1:
        return c0 + c1 * float(np.exp(c2 * x)) + c3 * x
    if fam == 2:
        y = c2 * (x - c0)
        return (y if y > 0.0 else 0.0) - c1
    if fam == 3:
        y = c0 if x < c0 else (c1 if x > c1 else x)
        return y - c2
    return c1 if x < c0 else c2


def fam_d(x, a):
    import numpy as np
    fam, c0, c1, c2, c3 = a
    if fam == 0:
        return (3.0 * c3 * x + 2.0 * c2) * x + c1
    if fam == 1:
        return c1 * c2 * float(np.exp(c2 * x)) + c3
    if fam == 2:
        return c2 if c2 * (x - c0) > 0.0 else 0.0
    if fam == 3:
        return 0.0 if x < c0 else (0.0 if x > c1 else 1.0)
    return 0.0


def fam_d2(x, a):
    import numpy as np
    fam, c0, c1, c2, c3 = a
    if fam == 0:
        return 6.0 * c3 * x + 2.0 * c2
    if fam == 1:
        return c1 * c2 * c2 * float(np.exp(c2 * x))
    return 0.0


def fam_kinks(a):
    """abscissae where a locally flat family changes regime."""
    return {2: [a[1]], 3: [a[1], a[2]], 4: [a[1]]}.get(a[0], [])


_NB = {}


def fam_nb():
    if 'f' not in _NB:
        from numba import njit
        import numpy as np

        @njit
        def f(x, fam, c0, c1, c2, c3):
            if fam == 0:
                return ((c3 * x + c2) * x + c1) * x + c0
            if fam == 1:
                return c0 + c1 * np.exp(c2 * x) + c3 * x
            if fam == 2:
                y = c2 * (x - c0)
                if y > 0.0:
                    return y - c1
                return 0.0 - c1
            if fam == 3:
                y = x
                if x < c0:
                    y = c0
                elif x > c1:
                    y = c1
                return y - c2
            if x < c0:
                return c1
            return c2
        _NB['f'] = f
    return _NB['f']


def solver_cases(ctx, n):
    rng = ctx.rng('solvers')
    out = []
    for i in range(n):
        fam = 0 if rng.random() < 0.6 else 1
        if fam == 0:
            kind = rng.random()
            if kind < 0.5:      # cubic with three real roots in [-4, 4]
                r1, r2, r3 = sorted(rng.uniform(-4, 4) for _ in range(3))
                s = rng.choice([-1.0, 1.0]) * rng.uniform(0.2, 3)
                c = (-s * r1 * r2 * r3, s * (r1 * r2 + r1 * r3 + r2 * r3), -s * (r1 + r2 + r3), s)
            elif kind < 0.8:    # monotone cubic
                c = (rng.uniform(-5, 5), rng.uniform(0.1, 3), 0.0, rng.uniform(0.05, 2))
            else:               # no real root: x^2 + a  (c3 = 0)
                c = (rng.uniform(0.1, 3), 0.0, rng.uniform(0.2, 2), 0.0)
        else:
            c = (rng.uniform(-6, -0.2), rng.uniform(0.2, 3), rng.uniform(0.2, 1.2) * rng.choice([-1, 1]), rng.uniform(-0.3, 0.3))
        out.append((fam,) + tuple(float(x) for x in c))
    return out


def flat_cases(ctx, n):
    """locally flat objectives (families 2-4): the secant through two points of a flat stretch has no zero, Newton's
    derivative vanishes there; whether a root exists at all varies (target outside the clip range, step without sign change)."""
    rng = ctx.rng('solvers-flat')
    out = []
    for i in range(n):
        k = (2, 3, 4)[i % 3]
        if k == 2:
            c = (rng.choice([rng.uniform(-3, 3), float(rng.randrange(-3, 4)), 100.0]), rng.choice([rng.uniform(0.05, 2), 7.5, 0.0]),
                 rng.choice([-1.0, 1.0]), 0.0)
        elif k == 3:
            lo = rng.choice([rng.uniform(-3, 2), 0.0])
            hi = lo + rng.choice([rng.uniform(0.2, 3), 1.0])
            t = rng.choice([rng.uniform(lo, hi), rng.uniform(lo, hi), 0.5 * (lo + hi), lo, hi, lo - 1.0, hi + 0.5])
            c = (lo, hi, t, 0.0)
        else:
            same_sign = rng.random() < 0.3
            l_ = rng.uniform(0.1, 2) * rng.choice([-1, 1])
            r_ = rng.uniform(0.1, 2) * (1 if (l_ > 0) == same_sign else -1)
            c = (rng.choice([rng.uniform(-3, 3), 0.0]), l_, r_, 0.0)
        out.append((k,) + tuple(float(x) for x in c))
    return out


def flat_start(rng, a):
    """a start on either side of a kink, on it, within the solver's own 1e-4 perturbation of it, at 0 and far away."""
    kk = rng.choice(fam_kinks(a))
    return float(rng.choice([kk + rng.uniform(-4, 4), kk + rng.uniform(-4, 4), kk - rng.uniform(0.01, 30), kk + rng.uniform(0.01, 30), kk,
                             kk * (1 + rng.uniform(-1e-4, 1e-4)) + rng.uniform(-1e-4, 1e-4), 0.0, kk + rng.choice([-50.0, 50.0])]))


def solvers_section(ctx, meas, drivers_ok):
    import numpy as np
    from financepy.utils import solver_1d as S
    rng = ctx.rng('solver-args')
    rngf = ctx.rng('solver-args-flat')
    n = 700 if ctx.quick() else 6000
    fams = solver_cases(ctx, n)
    flats = flat_cases(ctx, 240 if ctx.quick() else 2400)

    # ---------------- bisection (plain Python in the package: compiled stream == py stream)
    ops, inputs, impl = [], [], []
    for a in fams + flats:
        if a[0] < 2:
            x1 = rng.uniform(-6, 2)
            x2 = x1 + rng.choice([rng.uniform(0.5, 9), rng.uniform(0.5, 9), 5e-11, -1.0])
            xtol = rng.choice([1e-6, 1e-9, 1e-3, 1e-12])
            mi = rng.choice([100, 100, 100, 60, 10, 3, 0])
        else:
            kk = rngf.choice(fam_kinks(a))
            x1 = kk + rngf.choice([-rngf.uniform(0.1, 5), -rngf.uniform(0.1, 5), rngf.uniform(0.1, 3), 0.0, -40.0])
            x2 = x1 + rngf.choice([rngf.uniform(0.5, 9), rngf.uniform(0.5, 9), 60.0, 5e-11, -1.0])
            xtol = rngf.choice([1e-6, 1e-9, 1e-3, 1e-12])
            mi = rngf.choice([100, 100, 100, 60, 10, 3, 0])
        v = call(S.bisection, fam_f, x1, x2, a, xtol, mi)
        ops.append(f'bisect {a[0]} ' + ' '.join(f2b(c) for c in a[1:]) + f' {f2b(x1)} {f2b(x2)} {f2b(xtol)} {mi}')
        case = {'solver': 'bisection', 'fam': a[0], 'coef': a[1:], 'x1': x1, 'x2': x2, 'xtol': xtol, 'maxiter': mi}
        inputs.append(case)
        impl.append(v)
        # direct oracles: the postcondition proved for the model (bisection_returns_root_or_error)
        if v[0] == 'f':
            r = v[1]
            fr = fam_f(r, a)
            if not (abs(fr) < xtol and x1 <= r <= x2):
                ctx.violation('bisection returned a point that is not a root to tolerance inside the bracket',
                              dict(case, root=r, f_at_root=fr), clause='root-or-error')
        elif v[0] == 'n' and x2 - x1 > 1e-3 and mi >= 60 and xtol >= 1e-9 and a[0] != 4:
            # (family 4 is a step: a bracketed sign change without a root; None is the correct report there)
            f1, f2 = fam_f(x1, a), fam_f(x2, a)
            if f1 * f2 < 0:
                ctx.violation('bisection reported failure although a sign change of a smooth function was bracketed '
                              'and the budget allows 2^-60 of the bracket', dict(case, f1=f1, f2=f2), clause='finds-bracketed-root')
    three_streams(ctx, meas, 'bisection', ops, inputs, impl, impl, drivers_ok, rtol=1e-9, atol=1e-12)

    # ---------------- newton (plain Python)
    ops, inputs, impl = [], [], []
    for a in fams + flats:
        if a[0] < 2:
            x0 = rng.uniform(-5, 5)
            tol = rng.choice([1.48e-8, 1e-10, 1e-6, 0.0])
            mi = rng.choice([50, 50, 50, 20, 5, 1, 0])
        else:
            x0 = flat_start(rngf, a)
            tol = rngf.choice([1.48e-8, 1e-10, 1e-6, 0.0])
            mi = rngf.choice([50, 50, 50, 20, 5, 1, 0])
        cnt = [0]

        def f(x, args, cnt=cnt):
            cnt[0] += 1
            return fam_f(x, args)
        v = call(S.newton, f, x0, fam_d, a, tol, mi)
        ops.append(f'newton {a[0]} ' + ' '.join(f2b(c) for c in a[1:]) + f' {f2b(x0)} {f2b(tol)} {mi}')
        case = {'solver': 'newton', 'fam': a[0], 'coef': a[1:], 'x0': x0, 'tol': tol, 'maxiter': mi}
        inputs.append(case)
        impl.append(v)
        if v[0] == 'f':
            r = v[1]
            fr = fam_f(r, a)
            fd = fam_d(r, a)
            # a genuine result: exact zero, or within a few Newton steps' worth of the tolerance
            ok = fr == 0.0 or abs(fr) <= 10.0 * (tol + 1e-12) * max(abs(fd), 1.0) * 10.0
            if not ok and not math.isnan(fr):
                exhausted = cnt[0] >= mi
                ctx.violation('newton returned a number that is not a root and did not report failure',
                              dict(case, returned=r, f_at_returned=fr, f_evals=cnt[0]),
                              finding='C20/newton-silent-nonconvergence' if exhausted else None, clause='failure-reported')
    def newton_equiv(inp, x, y):
        # a Newton run that exhausts its budget is chaotic (1-ulp differences of exp are amplified): two different
        # numbers are the same observation when neither is a root (the non-convergence itself is the known finding)
        if x[0] != 'f' or y[0] != 'f':
            return False
        a = (inp['fam'],) + tuple(inp['coef'])

        def root(r):
            return abs(fam_f(r, a)) <= 1e-5 * max(abs(fam_d(r, a)), 1.0)
        return root(x[1]) == root(y[1])
    model = three_streams(ctx, meas, 'newton', ops, inputs, impl, impl, drivers_ok, rtol=1e-7, atol=1e-9, equiv=newton_equiv)

    # ---------------- newton_secant (jitted; func must be jitted)
    fnb = fam_nb()
    ops, inputs, comp, pyv, pending = [], [], [], [], []
    sub = fams[: (250 if ctx.quick() else 2000)] + flats
    for a in sub:
        if a[0] < 2:
            x0 = rng.uniform(-5, 5)
            tol = rng.choice([1.48e-8, 1e-7, 1e-10])
            mi = rng.choice([50, 50, 20, 5, 2])
            disp = rng.random() < 0.8
        else:
            x0 = flat_start(rngf, a)
            tol = rngf.choice([1.48e-8, 1e-7, 1e-10, 1e-6])
            mi = rngf.choice([50, 50, 20, 5, 2, 1])
            disp = rngf.random() < 0.8
        args = (int(a[0]),) + a[1:]
        v = call(S.newton_secant, fnb, x0, args, tol, mi, disp)
        w = call(S.newton_secant.py_func, fnb, x0, args, tol, mi, disp)
        ops.append(f'secant {a[0]} ' + ' '.join(f2b(c) for c in a[1:]) + f' {f2b(x0)} {f2b(tol)} {mi} {1 if disp else 0}')
        case = {'solver': 'newton_secant', 'fam': a[0], 'coef': a[1:], 'x0': x0, 'tol': tol, 'maxiter': mi, 'disp': disp}
        inputs.append(case)
        comp.append(v)
        pyv.append(w)
        pending.append((case, a, v, w, disp))

    def is_root(a, r, tol=None):
        """the property's clause: |f| below tolerance (scaled by the slope), or -- for the piecewise families -- a sign
        change of f bracketed within the tolerance around the returned point."""
        fr, fd = fam_f(r, a), fam_d(r, a)
        if abs(fr) <= 1e-5 * max(abs(fd), 1.0):
            return True
        if a[0] >= 2 and tol is not None:
            h = 10.0 * tol * max(1.0, abs(r))
            return fam_f(r - h, a) * fam_f(r + h, a) <= 0.0
        return False

    def secant_equiv(inp, x, y):
        # the secant iteration is chaotic when it does not converge (1-ulp differences from fastmath are amplified):
        # two different numbers are the same observation when both are roots, or both are non-roots of a run that
        # is allowed to return garbage (disp=False) -- the property clause is checked separately below
        if x[0] != 'f' or y[0] != 'f':
            return False
        a = (inp['fam'],) + tuple(inp['coef'])
        rx, ry = is_root(a, x[1], inp['tol']), is_root(a, y[1], inp['tol'])
        return (rx and ry) or (not rx and not ry and not inp['disp'])
    model = three_streams(ctx, meas, 'newton_secant', ops, inputs, comp, pyv, drivers_ok, rtol=1e-6, atol=1e-8, equiv=secant_equiv)
    nflat = nflat_reported = nsilent = nnonroot = 0
    for i, (case, a, v, w, disp) in enumerate(pending):
        # flat start: the two starting abscissae have equal ordinates -> theorem newton_secant_flat_start_reports_failure
        # says the source raises; the implementation (compiled and interpreted) must do so too, whatever disp
        p0 = 1.0 * case['x0']
        p1 = case['x0'] * (1.0 + 1e-4)
        p1 = p1 + 1e-4 if p1 > 0.0 else p1 - 1e-4
        if fam_f(p0, a) == fam_f(p1, a) and p0 != p1:
            nflat += 1
            for stream, res in (('compiled', v), ('py_func', w)):
                if res == ('e', 'FinError'):
                    nflat_reported += 1
                    continue
                nsilent += 1
                if nsilent <= 6:
                    ctx.violation(f'newton_secant ({stream}): the objective takes the same value at the two distinct starting '
                                  'abscissae (no secant step exists) but no failure was reported',
                                  dict(case, p0=p0, p1=p1, f_at_both=fam_f(p0, a), returned=show(res),
                                       f_at_returned=fam_f(res[1], a) if res[0] == 'f' else None,
                                       model=show(model[i]) if model else None), clause='failure-reported')
        for stream, res in (('compiled', v), ('py_func', w)):
            if res[0] == 'f' and disp:
                r = res[1]
                fr = fam_f(r, a)
                if not is_root(a, r, case['tol']) and not math.isnan(fr):
                    # narrow classifier: the Lean model of the source (which provably returns only under the step-size
                    # criterion with DIFFERENT ordinates or at coinciding abscissae, theorem secant_returns_post)
                    # returns the same number
                    agrees = model is not None and same(res, model[i], 1e-6, 1e-8)
                    if stream == 'py_func' and same(v, w, 1e-6, 1e-8):
                        continue    # same observation as the compiled stream, already reported
                    if not agrees:
                        nnonroot += 1
                        if nnonroot > 6:
                            continue
                    ctx.violation(f'newton_secant ({stream}, disp=True) returned a number that is not near a root',
                                  dict(case, returned=r, f_at_returned=fr, model=show(model[i]) if model else None),
                                  finding='C20/secant-step-criterion-nonroot' if agrees else None, clause='root-or-error')
    ctx.cov['components']['newton_secant']['flat_starts'] = nflat
    ctx.cov['components']['newton_secant']['flat_starts_reported_both_streams'] = nflat_reported // 2
    ctx.cov['components']['newton_secant']['flat_starts_not_reported'] = nsilent
    ctx.cov['components']['newton_secant']['unexplained_nonroots'] = nnonroot

    halley_and_secant_branch(ctx, meas, S, fams, flats, drivers_ok)


def halley_and_secant_branch(ctx, meas, S, fams, flats, drivers_ok=False):
    """the two remaining root-finding paths of solver_1d.newton (no Lean model: oracles only): Halley (fprime2 given) and
    the plain-Python secant branch (fprime=None).  Clause: a returned number is a root to tolerance, otherwise the
    failure is reported (None / FinError)."""
    rng = ctx.rng('solver-args-newton2')
    nq = 150 if ctx.quick() else 1500
    cases = fams[:nq] + flats[: nq // 2]

    def root_ok(a, r, tol):
        fr, fd = fam_f(r, a), fam_d(r, a)
        if fr == 0.0 or abs(fr) <= 10.0 * (tol + 1e-12) * max(abs(fd), 1.0) * 10.0 or math.isnan(fr):
            return True
        if a[0] >= 2:
            h = 10.0 * tol * max(1.0, abs(r))
            return fam_f(r - h, a) * fam_f(r + h, a) <= 0.0
        return False

    # ---- Halley
    nnt = 0
    hops, hinputs, himpl = [], [], []
    for a in cases:
        x0 = rng.uniform(-5, 5) if a[0] < 2 else flat_start(rng, a)
        tol = rng.choice([1.48e-8, 1e-10, 1e-6])
        mi = rng.choice([50, 50, 50, 20, 5, 1])
        cnt = [0]

        def f(x, args, cnt=cnt):
            cnt[0] += 1
            return fam_f(x, args)
        v = call(S.newton, f, x0, fam_d, a, tol, mi, fam_d2)
        case = {'solver': 'newton', 'method': 'halley', 'fam': a[0], 'coef': a[1:], 'x0': x0, 'tol': tol, 'maxiter': mi}
        hops.append(f'halley {a[0]} ' + ' '.join(f2b(c) for c in a[1:]) + f' {f2b(x0)} {f2b(tol)} {mi}')
        hinputs.append(case)
        himpl.append(v)
        if v[0] == 'f':
            nnt += 1
            if not root_ok(a, v[1], tol):
                ctx.violation('newton (Halley) returned a number that is not a root and did not report failure',
                              dict(case, returned=v[1], f_at_returned=fam_f(v[1], a), f_evals=cnt[0]),
                              finding='C20/newton-silent-nonconvergence' if cnt[0] >= mi else None, clause='failure-reported')
        elif v[0] == 'e':
            ctx.violation('newton (Halley) raised on valid arguments', dict(case, got=show(v)), clause='failure-reported')
    ctx.count('newton-halley', len(cases), nnt)

    # correspondence of the Halley path with its Lean model (Model/C20Halley.lean: halleyLoop / newtonHalley; theorems in
    # Props/C20f.lean).  Plain Python in the package: the compiled stream is the interpreted one.
    def halley_equiv(inp, x, y):
        # same convention as for the Newton path: a run that wanders (budget exhausted) is chaotic
        if x[0] != 'f' or y[0] != 'f':
            return False
        a = (inp['fam'],) + tuple(inp['coef'])

        def root(r):
            return abs(fam_f(r, a)) <= 1e-5 * max(abs(fam_d(r, a)), 1.0)
        return root(x[1]) == root(y[1])
    three_streams(ctx, meas, 'newton-halley (model)', hops, hinputs, himpl, himpl, drivers_ok, rtol=1e-7, atol=1e-9,
                  equiv=halley_equiv)

    # start-point perturbation of the two secant variants (theorems secantStart_ne / secantStart_dist /
    # secantStartNewton_ne / secantStart_eq_secantStartNewton_iff): the second abscissa the code evaluates, observed through
    # a recording objective, is compared bit for bit with the model expression; and p1 != p0 is checked on the code itself.
    xs0 = [0.0, -0.0, 1.0, -1.0, 1e-4, -1e-4, 1e-300, -1e-300, 1e8, -1e8, 5e-324, -5e-324, 1e-4 / (1 + 1e-4), -1e-4 / (1 + 1e-4)]
    xs0 += [rng.uniform(-5, 5) for _ in range(40)] + [rng.choice([-1, 1]) * 10 ** rng.uniform(-12, 6) for _ in range(40)]
    sops, sgot, sin_ = [], [], []
    for x0 in xs0:
        for variant in ('newton_secant', 'newton'):
            evals = []

            def rec(x, *aa, evals=evals):
                evals.append(x)
                return 1.0 + 0.5 * x     # affine: no flat secant, returns after the first update
            if variant == 'newton_secant':
                call(S.newton_secant.py_func, rec, x0, (), 1e-8, 1, False)
                sops.append(f'sstart {f2b(x0)}')
            else:
                call(S.newton, rec, x0, None, (), 1e-8, 1)
                sops.append(f'sstart2 {f2b(x0)}')
            case = {'solver': variant, 'clause': 'start points', 'x0': x0, 'evaluated': evals[:2]}
            sin_.append(case)
            if len(evals) < 2:
                ctx.violation(f'{variant}: fewer than two starting evaluations', case, clause='solves-or-reports')
                sgot.append(('n',))
                continue
            sgot.append(('f', float(evals[1])))
            if not (evals[0] == x0 and evals[1] != evals[0]):
                ctx.violation(f'{variant}: the two starting abscissae coincide (p1 == p0) or p0 != x0', case, clause='failure-reported')
    if drivers_ok:
        try:
            sm = [parse_model(t) for t in driver_parallel('C20', sops)]
            nb = 0
            for case, g, m in zip(sin_, sgot, sm):
                if g[0] == 'f' and not same(g, m, 0.0, 0.0):
                    nb += 1
                    if nb <= 3:
                        ctx.broke(f'correspondence secant start point: Lean model {show(m)} != implementation {show(g)} on {case}')
        except C.DriverError as e:
            ctx.broke(f'model driver failed on secant start points: {str(e)[:300]}')
    ctx.count('secant-start-points', len(sops), len(sops))

    # ---- secant branch of newton (fprime=None)
    nnt = 0
    nops, ninputs, nimpl = [], [], []
    for a in cases:
        x0 = rng.uniform(-5, 5) if a[0] < 2 else flat_start(rng, a)
        tol = rng.choice([1.48e-8, 1e-10, 1e-6])
        mi = rng.choice([50, 50, 50, 20, 5, 1])
        case = {'solver': 'newton', 'method': 'secant-branch (fprime=None)', 'fam': a[0], 'coef': a[1:], 'x0': x0, 'tol': tol,
                'maxiter': mi}
        evals = []

        def g(x, *aa, evals=evals):
            # accepts both conventions: the branch evaluates func(p, args) twice and func(p, *args) afterwards
            if len(aa) == 1:
                aa = aa[0]
            y = fam_f(x, aa)
            evals.append((x, y))
            return y
        v = call(S.newton, g, x0, None, a, tol, mi)
        nops.append(f'nsecant {a[0]} ' + ' '.join(f2b(c) for c in a[1:]) + f' {f2b(x0)} {f2b(tol)} {mi}')
        ninputs.append(case)
        nimpl.append(v)
        # the objective with the signature every other path of the module uses: f(x, args)
        u = call(S.newton, fam_f, x0, None, a, tol, mi)
        if u == ('e', 'TypeError') and v != u:
            ctx.violation('newton (secant branch, fprime=None) raises TypeError for an objective f(x, args): the first two '
                          'evaluations pass args, the later ones unpack *args', dict(case, with_tolerant_objective=show(v)),
                          finding='C20/newton-secant-branch-unpacks-args', clause='solves-or-reports')
        elif u != v and not (u[0] == 'f' and v[0] == 'f' and same(u, v, 1e-9, 1e-12)):
            ctx.violation('newton (secant branch): result depends on the calling convention of the objective',
                          dict(case, f_x_args=show(u), tolerant=show(v)), clause='solves-or-reports')
        if v[0] == 'f':
            nnt += 1
            r = v[1]
            if not root_ok(a, r, tol):
                exhausted = len(evals) >= mi + 2
                last = evals[-1][0] if evals else None
                # stopped by the step-size test np.isclose(p, p1, atol=tol): the returned update lies within tol of one of
                # the two current abscissae (a midpoint of two distinct abscissae, 1e-4 or more apart, does not)
                stepstop = (not exhausted) and any(abs(r - e[0]) <= tol for e in evals[-2:])
                fid = ('C20/newton-silent-nonconvergence' if exhausted else
                       'C20/newton-secant-branch-step-criterion-nonroot' if stepstop else None)
                ctx.violation('newton (secant branch) returned a number that is not a root and did not report failure',
                              dict(case, returned=r, f_at_returned=fam_f(r, a), f_evals=len(evals), last_evaluated=last),
                              finding=fid, clause='failure-reported')
        elif v[0] == 'e':
            ctx.violation('newton (secant branch) raised on valid arguments', dict(case, got=show(v)), clause='failure-reported')
    ctx.count('newton-secant-branch', len(cases), nnt)
    # correspondence of the secant path with its Lean model (Model/C20Halley.lean: newtonSecLoop / newtonSec; theorems in
    # Props/C20o.lean), observed with the objective that accepts both calling conventions (finding newton-secant-branch-unpacks-args)
    three_streams(ctx, meas, 'newton-secant-branch (model)', nops, ninputs, nimpl, nimpl, drivers_ok, rtol=1e-7, atol=1e-9,
                  equiv=halley_equiv)


# ------------------------------------------------------------------------------------------- linear algebra
def linalg_section(ctx, meas, drivers_ok):
    import numpy as np
    import financepy.utils.math as fm
    rng = ctx.rng('linalg')
    nprng = np.random.default_rng(rng.getrandbits(32))
    ncase = 250 if ctx.quick() else 3000

    # ---- solve_tridiagonal_matrix
    ops, inputs, comp, pyv, scale = [], [], [], [], []
    for i in range(ncase):
        n = rng.choice([1, 2, 3, 4, 5, 8, 13, 25, 40])
        a = nprng.uniform(-1, 1, n)
        c = nprng.uniform(-1, 1, n)
        b = nprng.uniform(1.5, 4, n) * nprng.choice([-1, 1], n) if rng.random() < 0.8 else nprng.uniform(-2, 2, n)
        r = nprng.uniform(-5, 5, n)
        if rng.random() < 0.05:
            b[0] = 0.0
        if n >= 2 and rng.random() < 0.04:   # exact zero pivot at row 1
            b[0], c[0], a[1], b[1] = 2.0, 1.0, 4.0, 2.0
        am = np.column_stack([a, b, c])
        v = call(fm.solve_tridiagonal_matrix, am.copy(), r.copy())
        w = call(pyfunc_of(fm.solve_tridiagonal_matrix), am.copy(), r.copy())
        ops.append(f'thomas {n} ' + ' '.join(f2b(x) for x in list(a) + list(b) + list(c) + list(r)))
        case = {'kernel': 'solve_tridiagonal_matrix', 'n': n, 'a': a.tolist(), 'b': b.tolist(), 'c': c.tolist(), 'r': r.tolist()}
        inputs.append(case)
        comp.append(v)
        pyv.append(w)
        sc = 0.0
        if v[0] == 'l':
            x = np.array(v[1])
            A = np.diag(b) + np.diag(a[1:], -1) + np.diag(c[:-1], 1)
            res = np.abs(A @ x - r).max()
            cond = np.linalg.cond(A)
            sc = float(np.abs(x).max()) * min(cond, 1e8)
            meas.add('thomas:residual/(cond*eps*|x|)', res / max(1e-300, cond * 2.2e-16 * max(1.0, np.abs(x).max()) * max(1.0, np.abs(A).max())))
            if not res <= 1e-13 * cond * max(1.0, np.abs(x).max()) * max(1.0, np.abs(A).max()) * n + 1e-12:
                ctx.violation('solve_tridiagonal_matrix: A x != r', dict(case, x=v[1], residual=float(res)), clause='solves-system')
        elif v[0] == 'e' and b[0] != 0.0:
            # an error is only legitimate when a pivot vanishes
            A = np.diag(b) + np.diag(a[1:], -1) + np.diag(c[:-1], 1)
            piv_ok = all(abs(np.linalg.det(A[:k, :k])) > 1e-9 for k in range(1, n + 1))
            if piv_ok:
                ctx.violation('solve_tridiagonal_matrix raised although all leading minors are non-zero',
                              dict(case, got=show(v)), clause='solves-system')
        scale.append(sc)
    three_streams(ctx, meas, 'solve_tridiagonal_matrix', ops, inputs, comp, pyv, drivers_ok, rtol=1e-13, atol=1e-14, scale=scale)

    # ---- band_matrix_multiplication
    ops, inputs, comp, pyv, scale = [], [], [], [], []
    for i in range(ncase):
        n = rng.choice([1, 2, 3, 5, 8, 12, 20])
        m1, m2 = rng.randrange(0, 4), rng.randrange(0, 4)
        w_ = m1 + m2 + 1
        a = nprng.uniform(-3, 3, (n, w_))
        b = nprng.uniform(-3, 3, n)
        v = call(fm.band_matrix_multiplication, a.copy(), m1, m2, b.copy())
        w = call(pyfunc_of(fm.band_matrix_multiplication), a.copy(), m1, m2, b.copy())
        ops.append(f'band {n} {m1} {m2} ' + ' '.join(f2b(x) for x in list(a.ravel()) + list(b)))
        case = {'kernel': 'band_matrix_multiplication', 'n': n, 'm1': m1, 'm2': m2, 'a': a.tolist(), 'b': b.tolist()}
        inputs.append(case)
        comp.append(v)
        pyv.append(w)
        dense = np.zeros((n, n))
        for ii in range(n):
            for jj in range(n):
                if ii - m1 <= jj <= ii + m2:
                    dense[ii, jj] = a[ii, jj - ii + m1]
        ref = dense @ b
        sc = float(np.abs(dense).sum(axis=1).max() * np.abs(b).max())
        scale.append(sc)
        if v[0] != 'l' or len(v[1]) != n or np.abs(np.array(v[1]) - ref).max() > 1e-13 * max(sc, 1.0):
            ctx.violation('band_matrix_multiplication != dense matrix product', dict(case, got=show(v), dense=ref.tolist()),
                          clause='band-eq-dense')
    three_streams(ctx, meas, 'band_matrix_multiplication', ops, inputs, comp, pyv, drivers_ok, rtol=1e-14, atol=1e-15, scale=scale)

    # ---- cholesky
    ops, inputs, comp, pyv, scale = [], [], [], [], []
    for i in range(ncase // 2):
        n = rng.choice([1, 2, 3, 4, 6, 8])
        if rng.random() < 0.3:
            rho = np.full((n, n), rng.uniform(-0.9 / max(1, n - 1), 0.95))
            np.fill_diagonal(rho, 1.0)
        else:
            g = nprng.normal(size=(n, n + 2))
            s = g @ g.T
            d = np.sqrt(np.diag(s))
            rho = s / np.outer(d, d)
            np.fill_diagonal(rho, 1.0)
        v = call(fm.cholesky, rho.copy())
        w = call(pyfunc_of(fm.cholesky), rho.copy())
        ops.append(f'chol {n} ' + ' '.join(f2b(x) for x in rho.ravel()))
        case = {'kernel': 'cholesky', 'n': n, 'rho': rho.tolist()}
        inputs.append(case)
        cond = float(np.linalg.cond(rho))
        if v[0] == 'l':
            L = np.array(v[1]).reshape(n, n)
            e = np.abs(L @ L.T - rho).max()
            meas.add('cholesky:|LLt-rho|', e)
            if e > 1e-13 * n or np.abs(np.triu(L, 1)).max() != 0.0:
                ctx.violation('cholesky: L L^T != rho or L not lower-triangular', dict(case, L=L.tolist(), err=float(e)),
                              clause='LLt-eq-rho')
            low = [L[a_, b_] for a_ in range(n) for b_ in range(a_ + 1)]
            comp.append(('l', [float(x) for x in low]))
            L2 = np.array(w[1]).reshape(n, n) if w[0] == 'l' else None
            pyv.append(('l', [float(L2[a_, b_]) for a_ in range(n) for b_ in range(a_ + 1)]) if L2 is not None else w)
        else:
            comp.append(v)
            pyv.append(w)
            ctx.violation('cholesky failed on a positive-definite correlation matrix', dict(case, got=show(v)), clause='LLt-eq-rho')
        scale.append(min(cond, 1e6))
    three_streams(ctx, meas, 'cholesky', ops, inputs, comp, pyv, drivers_ok, rtol=1e-14, atol=1e-15, scale=scale)

    # ---- npv
    ops, inputs, comp, pyv, scale = [], [], [], [], []
    for i in range(ncase):
        n = rng.choice([1, 2, 3, 5, 10, 30])
        irr = rng.choice([rng.uniform(-0.5, 1.0), rng.uniform(-0.05, 0.15), 0.0])
        tcs = [(float(rng.uniform(0, 30)), float(rng.uniform(-100, 100))) for _ in range(n)]
        tcs[0] = (0.0, tcs[0][1])
        v = call(fm.npv, irr, list(tcs))
        w = call(pyfunc_of(fm.npv), irr, list(tcs))
        ops.append(f'npv {f2b(irr)} ' + ' '.join(f'{f2b(t)} {f2b(c)}' for t, c in tcs))
        case = {'kernel': 'npv', 'irr': irr, 'times_cfs': tcs}
        inputs.append(case)
        comp.append(v)
        pyv.append(w)
        ref = math.fsum(c * (1.0 + irr) ** (-t) for t, c in tcs)
        sc = sum(abs(c) * (1.0 + irr) ** (-t) for t, c in tcs)
        scale.append(sc)
        if v[0] != 'f' or abs(v[1] - ref) > 1e-12 * max(sc, 1e-300):
            ctx.violation('npv != sum of cf (1+irr)^-t', dict(case, got=show(v), expected=ref), clause='npv-eq-sum')
    three_streams(ctx, meas, 'npv', ops, inputs, comp, pyv, drivers_ok, rtol=1e-13, atol=1e-15, scale=scale)

    # ---- accrued_interpolator
    ops, inputs, comp, pyv = [], [], [], []
    for i in range(ncase):
        n = rng.choice([1, 2, 3, 5, 9])
        times = np.cumsum(nprng.uniform(0.1, 1.0, n)) - rng.uniform(0, 1)
        amts = nprng.uniform(0, 5, n)
        t = rng.choice([rng.uniform(times[0] - 0.5, times[-1] + 0.5), float(times[rng.randrange(n)])])
        v = call(fm.accrued_interpolator, t, times.copy(), amts.copy())
        w = call(pyfunc_of(fm.accrued_interpolator), t, times.copy(), amts.copy())
        ops.append(f'accrued {f2b(t)} {n} ' + ' '.join(f2b(x) for x in list(times) + list(amts)))
        inputs.append({'kernel': 'accrued_interpolator', 't': t, 'times': times.tolist(), 'amounts': amts.tolist()})
        comp.append(v)
        pyv.append(w)
    three_streams(ctx, meas, 'accrued_interpolator', ops, inputs, comp, pyv, drivers_ok, rtol=1e-13, atol=1e-15)

    # ---- pair_gcd
    ops, inputs, comp, pyv = [], [], [], []
    for i in range(ncase):
        if rng.random() < 0.7:
            g = rng.randrange(1, 30)
            a_, b_ = g * rng.randrange(1, 40), g * rng.randrange(1, 40)
        else:
            a_, b_ = rng.randrange(0, 5), rng.randrange(0, 50)
        v = call(fm.pair_gcd, float(a_), float(b_))
        w = call(pyfunc_of(fm.pair_gcd), float(a_), float(b_))
        ops.append(f'gcd {f2b(a_)} {f2b(b_)}')
        case = {'kernel': 'pair_gcd', 'v1': a_, 'v2': b_}
        inputs.append(case)
        comp.append(v)
        pyv.append(w)
        want = 0 if (a_ == 0 or b_ == 0) else math.gcd(a_, b_)
        if v[0] != 'f' or v[1] != float(want):
            narrow = a_ > 0 and b_ > 0 and a_ % b_ != 0
            ctx.violation("pair_gcd does not return the greatest common divisor (docstring: Euclid's algorithm)",
                          dict(case, got=show(v), gcd=want),
                          finding='C20/pair-gcd-not-gcd' if narrow else None, clause='equals-gcd')
    def fastmath_gcd(inp, a, b):
        # compiled (fastmath) folds v1 - (v1/v2)*v2 to 0 and returns |v2| (the exact-arithmetic value of theorem
        # pair_gcd_real); the interpreter keeps the rounding residual of the division and returns it
        if a[0] == 'f' and b[0] == 'f' and a[1] == abs(float(inp['v2'])) and 0.0 < abs(b[1]) < 1e-9 * abs(a[1]):
            return 'C20/pair-gcd-fastmath-differs'
        return None
    three_streams(ctx, meas, 'pair_gcd', ops, inputs, comp, pyv, drivers_ok, rtol=1e-9, atol=1e-12, classify=fastmath_gcd)


# ------------------------------------------------------------------------------------------- sobol / fits
def sobol_fit_section(ctx, meas):
    import numpy as np
    from financepy.models.sobol import get_uniform_sobol, get_gaussian_sobol
    from financepy.utils.polyfit import fit_poly, eval_polynomial
    from financepy.utils.tension_spline import TensionSpline
    rng = ctx.rng('sobol')
    nprng = np.random.default_rng(rng.getrandbits(32))
    dims = [1, 2, 3, 5, 8, 16, 40] if ctx.quick() else [1, 2, 3, 5, 8, 16, 40, 100, 400]
    for d in dims:
        for k in (4, 7, 10):
            npts = 2 ** k - 1          # the generator starts after the origin: 2^k - 1 points + origin fill 2^k cells
            u = get_uniform_sobol(npts, d)
            case = {'generator': 'get_uniform_sobol', 'num_points': npts, 'dimension': d}
            if u.shape != (npts, d) or not ((u > 0).all() and (u < 1).all()):
                ctx.violation('Sobol points not in (0,1)^d', case, clause='sobol-range')
                continue
            # (0,k,1)-net property of every 1-D projection: the 2^k - 1 points + the origin hit each dyadic cell once
            cells = np.floor(u * 2 ** k).astype(int)
            for j in range(d):
                cnt = np.bincount(cells[:, j], minlength=2 ** k)
                if not (cnt[0] == 0 and (cnt[1:] == 1).all()):
                    ctx.violation('Sobol projection is not stratified: a dyadic cell of width 2^-k is empty or hit twice',
                                  dict(case, coordinate=j, worst_cell_count=int(cnt.max())), clause='sobol-stratified')
                    break
            meas.add('sobol:|mean-0.5|*N', float(np.abs(u.mean(axis=0) - 0.5).max() * npts))
            if d >= 2 and k == 10:
                cc = np.corrcoef(u.T)
                off = np.abs(cc - np.eye(d)).max()
                meas.add('sobol:max|corr|', float(off))
                # The absolute bound 0.08 is only meaningful in low dimension: with 1023 points the classical (Joe–Kuo) Sobol
                # sequence itself has 2-D projections with |corr| ≈ 0.19 (d = 100) and 0.23 (d = 400) — SciPy's unscrambled
                # generator gives exactly the same numbers — so for d > 40 the oracle is the reference sequence (below).
                if d <= 40 and off > 0.08:
                    ctx.violation('Sobol coordinates are correlated', dict(case, max_abs_corr=float(off)), clause='sobol-independent')
            # the generator is the classical Sobol sequence with Joe–Kuo direction numbers: point for point equal to SciPy's
            # unscrambled reference (trusted base: SciPy), in every dimension
            try:
                from scipy.stats import qmc
                ref = qmc.Sobol(d, scramble=False).random(2 ** k)[1:]
            except Exception:  # noqa: BLE001  (reference unavailable: no verdict)
                ref = None
            if ref is not None and not np.array_equal(u, ref):
                bad = np.argwhere(u != ref)
                ctx.violation('Sobol points differ from the reference (Joe–Kuo) Sobol sequence',
                              dict(case, first_diff_point=int(bad[0][0]) + 1, first_diff_coordinate=int(bad[0][1]),
                                   got=float(u[bad[0][0], bad[0][1]]), reference=float(ref[bad[0][0], bad[0][1]])),
                              clause='sobol-reference')
            u2 = get_uniform_sobol.py_func(npts, d) if (d <= 3 and k <= 7) else None
            if u2 is not None and not np.array_equal(u, u2):
                ctx.violation('get_uniform_sobol: compiled result differs from the interpreted Python source',
                              dict(case, first_diff=int(np.argmax((u != u2).ravel()))), clause='compiled-eq-source')
            ctx.count('sobol', 1)
    g = get_gaussian_sobol(1023, 3)
    m, s = np.abs(g.mean(axis=0)).max(), np.abs(g.std(axis=0) - 1).max()
    meas.add('sobol-gauss:|mean|', float(m))
    meas.add('sobol-gauss:|std-1|', float(s))
    if m > 0.02 or s > 0.03:
        ctx.violation('Gaussian Sobol sample moments off', {'generator': 'get_gaussian_sobol', 'num_points': 1023, 'dimension': 3,
                                                            'mean_err': float(m), 'std_err': float(s)}, clause='sobol-gaussian')
    # polynomial fit reproduces data that IS a polynomial of the fitted degree; interpolates n points at degree n-1
    for i in range(60 if ctx.quick() else 600):
        deg = rng.randrange(1, 6)
        n = deg + 1 + rng.choice([0, 0, 3, 10])
        x = np.sort(nprng.uniform(-2, 2, n)) + np.arange(n) * 0.05
        coef = nprng.uniform(-3, 3, deg + 1)
        y = np.polyval(coef, x)
        p = fit_poly(x, y, deg)
        p2 = fit_poly.py_func(x, y, deg)
        yy = eval_polynomial(p, x)
        yy2 = eval_polynomial.py_func(p, x)
        e = float(np.abs(yy - y).max())
        sc = float(np.abs(np.vander(x, deg + 1)).sum(axis=1).max() * np.abs(coef).max())
        cond = float(np.linalg.cond(np.vander(x, deg + 1)))
        meas.add('polyfit:knot-err/(cond*eps*scale)', e / (cond * 2.2e-16 * sc))
        case = {'kernel': 'fit_poly', 'x': x.tolist(), 'y': y.tolist(), 'deg': deg}
        if e > 1e-13 * cond * sc + 1e-12:
            ctx.violation('fit_poly does not reproduce polynomial data at the knots', dict(case, max_err=e), clause='fit-reproduces-knots')
        if np.abs(p - p2).max() > 1e-9 * cond * max(1.0, np.abs(coef).max()) or np.abs(yy - yy2).max() > 1e-12 * sc:
            ctx.violation('fit_poly / eval_polynomial: compiled result differs from the interpreted Python source',
                          dict(case, compiled=p.tolist(), py_func=p2.tolist()), clause='compiled-eq-source')
        ctx.count('polyfit', 1)
    for i in range(60 if ctx.quick() else 600):
        n = rng.randrange(2, 12)
        x = np.cumsum(nprng.uniform(0.1, 2.0, n))
        y = nprng.uniform(-3, 3, n)
        sig = rng.choice([0.01, 0.5, 2.0, 10.0])
        ts = TensionSpline(x, y, sig)
        e = float(np.abs(ts(x) - y).max())
        meas.add('tension-spline:knot-err', e)
        if e > 1e-10:
            ctx.violation('TensionSpline does not pass through its knots', {'x': x.tolist(), 'y': y.tolist(), 'sigma': sig, 'max_err': e},
                          clause='fit-reproduces-knots')
        ctx.count('tension_spline', 1)


# ------------------------------------------------------------------------------------------- sobol: every count
SOBOL_COUNTS = [1, 2, 3, 4, 5, 7, 8, 9, 15, 16, 17, 31, 32, 33, 63, 64, 65, 127, 128, 129, 255, 256, 257, 1000, 1023, 1024, 1025,
                4095, 4096, 4097]


def sobol_ll_source():
    """The `ll = ...` ("number of bits needed") expression of the CURRENT source of get_uniform_sobol, as a function of
    num_points (extracted from the AST of py_func; evaluated by the interpreter)."""
    import ast
    import inspect
    import textwrap
    import numpy as np
    from financepy.models.sobol import get_uniform_sobol
    try:
        tree = ast.parse(textwrap.dedent(inspect.getsource(get_uniform_sobol.py_func)))
    except (OSError, TypeError, SyntaxError):
        return None
    for node in ast.walk(tree):
        if (isinstance(node, ast.Assign) and len(node.targets) == 1 and isinstance(node.targets[0], ast.Name)
                and node.targets[0].id == 'll'):
            code = compile(ast.Expression(node.value), '<sobol ll>', 'eval')
            fn = lambda n: int(eval(code, {'np': np, 'math': math, 'int': int, 'num_points': n}))   # noqa: S307,E731
            fn.text = ast.unparse(node.value)
            # the expression theorem sobolLLReal_spec (Props/C20e.lean) reads over the reals
            fn.as_proved = ast.dump(node.value) == ast.dump(ast.parse(SOBOL_LL_PROVED, mode='eval').body)
            return fn
    return None


SOBOL_LL_PROVED = 'int(np.ceil(np.log(num_points+1)/np.log(2.0)))'


def sobol_point_checks(np, u, npts, d, ref):
    """Direct oracles on one result of get_uniform_sobol(npts, d); returns a list of (clause, message, extra)."""
    out = []
    if u.shape != (npts, d):
        return [('sobol-range', f'shape {u.shape} instead of {(npts, d)}', {})]
    if not ((u > 0).all() and (u < 1).all()):
        i, j = np.argwhere(~((u > 0) & (u < 1)))[0]
        out.append(('sobol-range', 'Sobol point outside (0,1)', {'row': int(i), 'coordinate': int(j), 'value': float(u[i, j])}))
    # the sequence is extensible: the first N points do not depend on how many points (or dimensions) are requested
    if ref is not None and not np.array_equal(u, ref[:npts, :d]):
        i, j = np.argwhere(u != ref[:npts, :d])[0]
        out.append(('sobol-sequence-prefix', 'the points differ from the same points of a longer run of the same sequence',
                    {'row': int(i), 'coordinate': int(j), 'value': float(u[i, j]), 'in_longer_run': float(ref[i, j]),
                     'longer_run': list(ref.shape)}))
    idx = np.arange(1, npts + 1)
    lvl = np.frexp(idx.astype(float))[1]                        # bit length of i: 2^(lvl-1) <= i < 2^lvl (exact)
    for j in range(d):
        col = u[:, j]
        if len(np.unique(col)) != npts:
            vals, cnt = np.unique(col, return_counts=True)
            rows = np.nonzero(col == vals[cnt > 1][0])[0]
            out.append(('sobol-distinct', 'a coordinate value is repeated (two points of the sequence coincide in a 1-D projection)',
                        {'coordinate': j, 'value': float(vals[cnt > 1][0]), 'rows': [int(r) for r in rows[:4]]}))
            break
        # point i (1-based, the origin is skipped) is an ODD multiple of 2^-(m+1), 2^m <= i < 2^(m+1)
        y = col * np.exp2(lvl)
        bad = ~((y == np.floor(y)) & (np.floor(y) % 2 == 1))
        if bad.any():
            i = int(np.argmax(bad))
            out.append(('sobol-dyadic-level', 'point i is not an odd multiple of 2^-(floor(log2 i)+1)',
                        {'coordinate': j, 'row': i, 'value': float(col[i]), 'level': int(lvl[i])}))
            break
        # van der Corput / (0,k,1)-net: the origin and the first 2^k - 1 points are the set {j/2^k}, each once
        k = 1
        while 2 ** k - 1 <= npts:
            first = np.sort(np.concatenate(([0.0], col[: 2 ** k - 1]))) * 2 ** k
            if not np.array_equal(first, np.arange(2 ** k, dtype=float)):
                out.append(('sobol-stratified', 'the origin and the first 2^k - 1 points are not the set {j/2^k}',
                            {'coordinate': j, 'k': k}))
                break
            k += 1
        else:
            continue
        break
    return out


def sobol_counts_section(ctx, meas, drivers_ok):
    """get_uniform_sobol over point counts on both sides of every power of two (and the powers themselves), not only 2^k - 1."""
    import numpy as np
    import financepy.utils.math as fm
    from financepy.models.sobol import get_uniform_sobol, get_gaussian_sobol
    rng = ctx.rng('sobol-counts')
    quick = ctx.quick()
    counts = list(SOBOL_COUNTS) + [rng.randrange(1, 5000) for _ in range(6)] + [2 ** rng.randrange(1, 13), 2 ** rng.randrange(1, 13) + rng.choice([-1, 1])]
    counts += [2 ** 13] if quick else [2 ** 13, 2 ** 16, 2 ** 16 + 1, 2 ** 17 - 1]
    dims_pool = [1, 2, 3, 4, 5, 8, 16, 40] if quick else [1, 2, 3, 4, 5, 8, 16, 40, 100, 400]
    nref = 3 * max(counts) // 2 + 1          # not a power of two, not 2^k - 1
    ref = get_uniform_sobol(nref, max(dims_pool))
    ll_src = sobol_ll_source()
    nviol = ndiff = 0
    ops, expect = [], []
    for npts in counts:
        ds = [1, rng.choice(dims_pool), rng.choice(dims_pool)] if npts > 64 else [1, 2, 3, rng.choice(dims_pool)]
        for d in sorted(set(ds)):
            case = {'generator': 'get_uniform_sobol', 'num_points': npts, 'dimension': d}
            u = call_raw(get_uniform_sobol, npts, d)
            if isinstance(u, tuple):
                ctx.violation('get_uniform_sobol raised on a valid point count', dict(case, got=show(u)), clause='sobol-range')
                continue
            for clause, msg, extra in sobol_point_checks(np, u, npts, d, ref):
                nviol += 1
                if nviol <= 6:
                    ctx.violation('Sobol: ' + msg, dict(case, **extra), clause=clause)
            if npts * d <= 70000:
                u2 = call_raw(get_uniform_sobol.py_func, npts, d)
                if isinstance(u2, tuple):
                    ndiff += 1
                    if ndiff <= 4:
                        ctx.violation('get_uniform_sobol: the interpreted Python source raises where the compiled function '
                                      'returns an array', dict(case, py_func=show(u2), compiled_last_row=[float(x) for x in u[-1, :4]]),
                                      clause='compiled-eq-source')
                elif not np.array_equal(u, u2):
                    ndiff += 1
                    i, j = np.argwhere(u != u2)[0]
                    if ndiff <= 4:
                        ctx.violation('get_uniform_sobol: compiled result differs from the interpreted Python source',
                                  dict(case, row=int(i), coordinate=int(j), compiled=float(u[i, j]), py_func=float(u2[i, j])),
                                  clause='compiled-eq-source')
                if d == 1 and npts <= 4097 and ll_src is not None:
                    ops.append(f'sobol1 {ll_src(npts)} {npts}')
                    expect.append((case, u, u2))
            ctx.count('sobol-counts', 1, 1, sample=case)
    # Gaussian variant at the same kind of counts: elementwise norminvcdf of the uniform points
    for npts in (7, 8, 64, 1000, 1024):
        g = call_raw(get_gaussian_sobol, npts, 3)
        u = call_raw(get_uniform_sobol, npts, 3)
        case = {'generator': 'get_gaussian_sobol', 'num_points': npts, 'dimension': 3}
        if isinstance(g, tuple) or isinstance(u, tuple):
            ctx.violation('get_gaussian_sobol raised on a valid point count', dict(case, got=show(g) if isinstance(g, tuple) else show(u)),
                          clause='sobol-gaussian')
            continue
        want = np.array([[fm.norminvcdf(x) for x in row] for row in u])
        if g.shape != want.shape or not np.allclose(g, want, rtol=1e-12, atol=1e-13):
            ctx.violation('get_gaussian_sobol is not norminvcdf of the uniform Sobol points', case, clause='sobol-gaussian')
        if len(np.unique(g[:, 0])) != npts:
            ctx.violation('get_gaussian_sobol repeats a draw', case, clause='sobol-distinct')
        ctx.count('sobol-counts', 1, 1)

    # ---- tie of the Lean model (Model/C20Sobol.lean, theorems Props/C20d.lean) to the current source
    if ll_src is None:
        ctx.broke('correspondence sobol: the assignment `ll = ...` was not found in the source of get_uniform_sobol')
        return
    if not ll_src.as_proved:
        ctx.broke(f'proof: the source now computes the number of bits as `ll = {ll_src.text}`; theorem sobolLLReal_spec '
                  f'(N < 2^ll for every N) is about `{SOBOL_LL_PROVED}` and no longer covers the source')
    probes = sorted(set(counts + [2 ** k + e for k in range(0, 41) for e in (-1, 0, 1) if 2 ** k + e >= 1]))
    bad_hyp = [n for n in probes if not n < 2 ** ll_src(n)]
    ctx.cov['components'].setdefault('sobol-counts', {})['ll_probes'] = len(probes)
    if bad_hyp:
        ctx.broke(f'proof hypothesis: the source sizes the direction-number table with ll = {ll_src(bad_hyp[0])} at num_points = '
                  f'{bad_hyp[0]}, which violates N < 2^ll (hypothesis of sobolDim1_ok / firstZeroIdx_le_of_lt_pow); '
                  f'failing N among the probes: {bad_hyp[:8]}')
    if drivers_ok:
        try:
            exact = [n for n in probes if n <= 2 ** 28 + 1]
            mll = C.run_driver('C20', [f'sobolll {n}' for n in exact] + ops)
            for n, m in zip(exact, mll):
                if int(m) != ll_src(n):
                    ctx.broke(f'correspondence sobol: source ll({n}) = {ll_src(n)} but the model\'s exact bit count is {m}')
                    break
            for (case, u, u2), ans in zip(expect, mll[len(exact):]):
                impl_py = ('e', u2[1]) if isinstance(u2, tuple) else ('l', [int(x) for x in (u2[:, 0] * 2.0 ** 32)])
                mod = ('e', ans[2:]) if ans.startswith('E:') else ('l', [int(x) for x in ans.split()])
                if mod != impl_py:
                    ctx.broke(f'correspondence sobol: Lean model of the first coordinate != interpreted source on {case} '
                              f'(model {str(mod)[:80]}, py_func {str(impl_py)[:80]})')
                    break
            ctx.count('sobol-model', len(exact) + len(ops), len(ops))
            ctx.cov['components']['sobol-counts']['compiled_py_disagreements'] = ndiff
        except C.DriverError as e:
            ctx.broke(f'model driver failed on component sobol: {str(e)[:300]}')


def call_raw(fn, *a):
    """result of fn, or ('e', ExceptionName) -- without canonicalisation (arrays stay arrays)."""
    try:
        with warnings.catch_warnings(), contextlib.redirect_stdout(_SINK):
            warnings.simplefilter('ignore')
            _SINK.seek(0)
            _SINK.truncate()
            return fn(*a)
    except Exception as e:  # noqa: BLE001
        return ('e', type(e).__name__)


# ------------------------------------------------------------------------------------------- differential
def differential_section(ctx, meas):
    """Supporting search: jit vs py_func over every dispatcher found by introspection (subprocess, crash-safe)."""
    worker = os.path.join(os.path.dirname(os.path.abspath(__file__)), 'c20_diff.py')
    budget = 80 if ctx.quick() else 900
    done, skip = {}, []
    stats = {'found': 0, 'exercised': 0, 'agree': 0, 'skipped_uncallable': 0, 'crashed': 0, 'timeouts': 0}
    import time
    t0 = time.time()
    for attempt in range(6):
        left = budget - (time.time() - t0)
        if left < 5:
            break
        env = dict(os.environ, FINVERIF_REPO=C.REPO)
        p = subprocess.Popen([sys.executable, worker, str(ctx.seed), json.dumps(sorted(done)), str(left)], env=env,
                             stdout=subprocess.PIPE, stderr=subprocess.DEVNULL, text=True)
        current = None
        finished = False
        for line in p.stdout:
            if not line.startswith('D '):
                continue
            rec = json.loads(line[2:])
            if rec['ev'] == 'found':
                stats['found'] = rec['n']
            elif rec['ev'] == 'start':
                current = rec['fn']
            elif rec['ev'] == 'result':
                done[rec['fn']] = rec
                current = None
            elif rec['ev'] == 'end':
                finished = True
        p.wait()
        if finished:
            break
        if current is not None:       # the worker died inside this function (segfault on synthesised arguments)
            done[current] = {'fn': current, 'status': 'crashed'}
    for fn, rec in sorted(done.items()):
        st = rec['status']
        if st == 'agree':
            stats['exercised'] += 1
            stats['agree'] += 1
        elif st == 'differ':
            stats['exercised'] += 1
            fid = None
            if fn.endswith('.pair_gcd') and rec.get('args') and rec.get('jit') and rec.get('py'):
                if rec['jit'][0] == abs(rec['args'][1]) and 0 < abs(rec['py'][0]) < 1e-9 * abs(rec['jit'][0]):
                    fid = 'C20/pair-gcd-fastmath-differs'
            ctx.violation(f'{fn}: compiled result differs from the interpreted Python source (differential search)',
                          {'function': fn, 'args': rec.get('args'), 'compiled': rec.get('jit'), 'py_func': rec.get('py'),
                           'max_dev': rec.get('dev')}, finding=fid, clause='compiled-eq-source')
        elif st == 'crashed':
            stats['crashed'] += 1
            stats.setdefault('crashed_functions', []).append(fn)
        elif st == 'timeout':
            stats['timeouts'] += 1
        else:
            stats['skipped_uncallable'] += 1
    stats['not_reached_in_budget'] = max(0, stats['found'] - len(done))
    ctx.cov['differential'] = stats
    ctx.count('jit-vs-py_func differential (supporting search)', stats['exercised'], stats['exercised'],
              sample={'dispatchers_found': stats['found'], 'exercised': stats['exercised']})
    ctx.notes.append(f"differential (supporting search only): {stats['found']} dispatchers found, {stats['exercised']} exercised "
                     f"with synthesised arguments, {stats['agree']} agree, {stats['skipped_uncallable']} not callable with "
                     f"synthesised scalars/arrays, {stats['crashed']} crashed the worker, {stats['timeouts']} timed out, "
                     f"{stats['not_reached_in_budget']} not reached in the time budget")


# ============================================================================================ entry points
def run(ctx):
    drivers_ok = C.lean_stage(ctx, GEN, PROPS, DRIVERS, extra_files=['FinVerif/Lemmas/C20Loop.lean'])
    C.import_financepy()
    meas = Meas()
    with warnings.catch_warnings():
        warnings.simplefilter('ignore')
        scalar_kernels(ctx, meas, drivers_ok)
        phi2_section(ctx, meas, drivers_ok)
        solvers_section(ctx, meas, drivers_ok)
        linalg_section(ctx, meas, drivers_ok)
        sobol_fit_section(ctx, meas)
        sobol_counts_section(ctx, meas, drivers_ok)
        differential_section(ctx, meas)
    seen = set()
    for name, i, before, after in ARG_CHANGES:
        if (name, i) in seen:
            continue
        seen.add((name, i))
        ctx.violation(f'{name} overwrote its array argument #{i}: a kernel must return its result and leave the caller\'s data '
                      'as it was (a second call with the same arrays, or a residual check against them, now sees other numbers)',
                      {'kernel': name, 'argument_index': i, 'argument_before': before, 'argument_after': after},
                      clause='argument-intact')
    ctx.count('array arguments left intact by the kernels', len(ARG_CHANGES) + 1, 1)
    ctx.cov['measured_max_deviation'] = {k: float(f'{v:.3e}') for k, v in sorted(meas.m.items())}
    ctx.assumptions += [
        'PARTIAL: the approximation-error bounds (|N-Phi|<=1e-6, Acklam 2e-9 relative, phi2 5e-7, phi3 5e-4, '
        'normcdf_slow 1e-14), Sobol stratification, fit knot reproduction and minimiser quality are validated on the '
        'stated grids against SciPy, not proved',
        'the compiler (Numba/LLVM, fastmath) is not modelled: compiled = source is observed on the stated inputs, with the '
        'Lean model of the source as the third stream for translated and hand-modelled kernels',
        'real-number theorems transfer to IEEE doubles only up to the stated tolerances',
        'scipy.special.ndtr / ndtri and scipy.stats.multivariate_normal are the accuracy references (mpmath is absent)',
    ]
    return C.finish(ctx, 'proof',
                    'lake build ' + ' '.join(PROPS) + ' && lake env lean .cache/audit/Audit_C20.lean',
                    C.TRUSTED_BASE_COMMON + ['SciPy special / stats as accuracy reference',
                                             'hand models Model/C20.lean, Model/C20Phi2.lean, Model/C20Sobol.lean tied by correspondence only'],
                    RULE)


def replay(ctx, path):
    rp = json.load(open(path))
    v = rp.get('violation')
    if not v:
        print('replay: no concrete input in this file:', rp.get('broken'))
        return 1
    C.import_financepy()
    import numpy as np
    import financepy.utils.math as fm
    from financepy.utils import solver_1d as S
    case = v['case']
    print('replay case:', json.dumps(case)[:600])
    k = case.get('kernel')
    bad = True
    if k in ('N', 'nprime', 'normpdf', 'heaviside', 'n_vect', 'n_prime_vect', 'normcdf_slow', 'normcdf_integrate', 'norminvcdf'):
        x = case.get('x', case.get('p', (case.get('input') or {}).get('x', (case.get('input') or {}).get('p'))))
        fn = getattr(fm, k)
        a, b = call(fn, x), call(pyfunc_of(fn), x)
        print(f'{k}({x!r}): compiled={show(a)} py_func={show(b)}')
        from scipy.special import ndtr
        if v.get('clause') == 'compiled-eq-source':
            bad = not same(a, b, 1e-11, 1e-13)
        elif k in ('N', 'n_vect'):
            bad = a[0] != 'f' or abs(a[1] - float(ndtr(x))) > HULL_ABS
            print('exact', float(ndtr(x)))
    elif k in ('phi2', 'M') and 'h' in case:
        fn = getattr(fm, k)
        a, b = call(fn, case['h'], case['k'], case['r']), call(pyfunc_of(fn), case['h'], case['k'], case['r'])
        ref = bvn_ref(case['h'], case['k'], case['r']) if abs(case['h']) <= 30 and abs(case['k']) <= 30 else case.get('exact')
        print(f"{k}({case['h']!r}, {case['k']!r}, {case['r']!r}): compiled={show(a)} py_func={show(b)} exact={ref!r}")
        bad = (not same(a, b, 1e-9, 1e-13)) if v.get('clause') == 'compiled-eq-source' else (a[0] != 'f' or abs(a[1] - ref) > PHI2_ABS)
    elif k == 'phi3' and case.get('r12') == 0.0 and case.get('r13') == 0.0:
        b = case['b']
        a = call(fm.phi3, b[0], b[1], b[2], 0.0, 0.0, case['r23'])
        ref = float(ndtr1(b[0])) * bvn_ref(b[1], b[2], case['r23'])
        print(f'phi3({b}, 0, 0, {case["r23"]!r}) = {show(a)} exact={ref!r}')
        bad = a[0] != 'f' or abs(a[1] - ref) > PHI2_ABS + HULL_ABS
    elif case.get('solver') == 'bisection':
        a = (case['fam'],) + tuple(case['coef'])
        r = call(S.bisection, fam_f, case['x1'], case['x2'], a, case['xtol'], case['maxiter'])
        print('bisection ->', show(r), 'f(root)=', fam_f(r[1], a) if r[0] == 'f' else None)
        bad = (r[0] == 'f' and not abs(fam_f(r[1], a)) < case['xtol']) or (r[0] == 'n' and v.get('clause') == 'finds-bracketed-root')
    elif case.get('solver') == 'newton':
        a = (case['fam'],) + tuple(case['coef'])
        r = call(S.newton, fam_f, case['x0'], fam_d, a, case['tol'], case['maxiter'])
        print('newton ->', show(r), 'f(returned)=', fam_f(r[1], a) if r[0] == 'f' else None)
        bad = r[0] == 'f' and abs(fam_f(r[1], a)) > 100.0 * (case['tol'] + 1e-12) * max(abs(fam_d(r[1], a)), 1.0)
    elif case.get('solver') == 'newton_secant':
        a = (case['fam'],) + tuple(case['coef'])
        args = (int(a[0]),) + a[1:]
        fnb = fam_nb()
        bad = False
        for nm, fn in (('compiled', S.newton_secant), ('py_func', S.newton_secant.py_func)):
            r = call(fn, fnb, case['x0'], args, case['tol'], case['maxiter'], case['disp'])
            print(f'newton_secant [{nm}] ->', show(r), 'f(returned)=', fam_f(r[1], a) if r[0] == 'f' else None)
            if v.get('clause') == 'failure-reported':
                bad = bad or r != ('e', 'FinError')
            elif r[0] == 'f' and case['disp']:
                fr = fam_f(r[1], a)
                h = 10.0 * case['tol'] * max(1.0, abs(r[1]))
                near = abs(fr) <= 1e-5 * max(abs(fam_d(r[1], a)), 1.0) or (a[0] >= 2 and fam_f(r[1] - h, a) * fam_f(r[1] + h, a) <= 0.0)
                bad = bad or not near
    elif case.get('generator') == 'get_uniform_sobol':
        from financepy.models.sobol import get_uniform_sobol
        npts, d = case['num_points'], case['dimension']
        u = call_raw(get_uniform_sobol, npts, d)
        u2 = call_raw(get_uniform_sobol.py_func, npts, d) if npts * d <= 70000 else None
        ref = get_uniform_sobol(3 * npts // 2 + 5, d)
        probs = [('sobol-range', 'compiled function raised', {})] if isinstance(u, tuple) else sobol_point_checks(np, u, npts, d, ref)
        if isinstance(u2, tuple):
            probs.append(('compiled-eq-source', 'py_func raised ' + u2[1], {}))
        elif u2 is not None and not isinstance(u, tuple) and not np.array_equal(u, u2):
            probs.append(('compiled-eq-source', 'compiled != py_func', {}))
        for pr in probs:
            print('  ', pr)
        if not isinstance(u, tuple):
            print('last row:', u[-1, :4].tolist())
        bad = bool(probs)
    else:
        print('no dedicated replay for this component; re-run ./check C20 with VERIF_SEED=%s' % rp.get('seed'))
    if bad:
        print(f'VIOLATION property=C20 replay={path}')
        return 1
    return 0
