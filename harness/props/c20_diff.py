"""C20 supporting search (run as a subprocess by props/c20.py): for every Numba dispatcher defined in the
financepy package, synthesise scalar / array arguments, call the COMPILED function and its interpreter
`py_func` on copies of the same arguments and compare.  One JSON record per line, prefixed `D `.

argv: seed  json-list-of-functions-already-done  time-budget-seconds
A function that cannot be called with synthesised arguments (typing error, object arguments, both streams raise
different infrastructure errors) is recorded as `skip`; a crash of this process is detected by the parent from the
unterminated `start` record."""
import importlib
import inspect
import json
import math
import os
import pkgutil
import random
import signal
import sys
import time
import warnings

sys.path.insert(0, os.path.dirname(os.path.dirname(os.path.abspath(__file__))))
import common as C  # noqa: E402


def emit(rec):
    sys.stdout.write('D ' + json.dumps(rec, default=str) + '\n')
    sys.stdout.flush()


INT_NAMES = {'n', 'm', 'num_points', 'dimension', 'num_paths', 'seed', 'num_steps', 'num_time_steps', 'num_credits',
             'num_steps_per_year', 'deg', 'maxiter', 'max_iter', 'option_type', 'option_type_value', 'phi', 'scheme',
             'num_integration_steps', 'num_annual_steps', 'num_fwds', 'num_periods', 'numeraire_index', 'num_factors',
             'exercise_type_int', 'exercise_typeInt', 'exercise_type', 'payoff_type', 'pv01_method', 'prot_method',
             'y', 'd', 'idx', 'day_count', 'start', 'stop', 'step', 'is_cap', 'is_payer', 'use_sobol', 'isEven', 'a_',
             'vol_function_type_value', 'deltaTypeValue', 'delta_method_value', 'vol_type_value', 'option_type1',
             'option_type2', 'i_time', 'maxCaplets', 'N', 'nm', 'num_assets'}
ARR_HINT = ('times', 'flows', 'values', 'vector', 'probs', 'rates', 'params', 'strikes', 'gaps', 'amounts', 'losses',
            'units', 'fwd0', 'taus', 'zetas', 'x_vector', 'y_vector', 'wt_vector', 'cpn', 'prices')
SKIP_SUBSTR = ('func', 'fun', 'f_', 'args', 'fprime')


def synth_scalar(rng, name):
    lname = name.lower()
    if name in INT_NAMES or lname.startswith('num_') or lname.endswith('_type') or lname.endswith('type_value'):
        if 'seed' in lname:
            return rng.randrange(1, 1000)
        if 'type' in lname or lname in ('phi', 'scheme', 'is_cap', 'is_payer', 'use_sobol', 'iseven'):
            return rng.choice([1, 2]) if 'type' in lname else rng.choice([0, 1])
        if lname in ('y',):
            return rng.randrange(1901, 2100)
        if lname == 'm':
            return rng.randrange(1, 13)
        if lname == 'd':
            return rng.randrange(1, 29)
        return rng.randrange(2, 12)
    if lname in ('rho', 'beta', 'r12', 'r13', 'r23', 'c'):
        return rng.uniform(-0.6, 0.6)
    if lname in ('p', 'u'):
        return rng.uniform(0.01, 0.99)
    if lname in ('r', 'q', 'rd', 'rf', 'interest_rate', 'dividend_rate', 'dividend_yield', 'mu', 'drift'):
        return rng.uniform(0.0, 0.08)
    return rng.uniform(0.1, 2.0)


def from_numba_type(rng, ty, name):
    import numpy as np
    from numba import types
    if isinstance(ty, types.Array):
        if ty.ndim == 1:
            n = 6
            if isinstance(ty.dtype, types.Integer):
                return np.array([rng.randrange(1, 9) for _ in range(n)], dtype=np.int64)
            a = np.array(sorted(rng.uniform(0.1, 3.0) for _ in range(n)))
            return a
        if ty.ndim == 2:
            n = 4
            g = np.array([[rng.gauss(0, 1) for _ in range(n + 2)] for _ in range(n)])
            s = g @ g.T
            d = np.sqrt(np.diag(s))
            return s / np.outer(d, d)
        return None
    if isinstance(ty, types.Boolean):
        return rng.random() < 0.5
    if isinstance(ty, types.Integer):
        v = synth_scalar(rng, name if name in INT_NAMES else 'n')
        return int(v)
    if isinstance(ty, types.Float):
        v = synth_scalar(rng, name)
        return float(v)
    return None


def synth_args(rng, disp):
    """Returns list of argument tuples to try (may be empty)."""
    import numpy as np
    try:
        sig = inspect.signature(disp.py_func)
    except (TypeError, ValueError):
        return []
    params = list(sig.parameters.values())
    if any(p.kind in (p.VAR_POSITIONAL, p.VAR_KEYWORD) for p in params):
        return []
    names = [p.name for p in params]
    if any(any(s in n.lower() for s in SKIP_SUBSTR) and n not in ('f',) for n in names):
        return []
    out = []
    sigs = list(getattr(disp, 'nopython_signatures', []) or [])
    for trial in range(3):
        args = []
        ok = True
        if sigs:
            s0 = sigs[0]
            if len(s0.args) != len(names):
                return []
            for ty, nm in zip(s0.args, names):
                v = from_numba_type(rng, ty, nm)
                if v is None:
                    ok = False
                    break
                args.append(v)
        else:
            for p in params:
                nm = p.name
                ann = p.annotation
                ln = nm.lower()
                if ann is np.ndarray or any(h in ln for h in ARR_HINT) or ln.startswith('_df') or ln in ('x', 's') and False:
                    if 'probs' in ln or 'surv' in ln or 'recovery' in ln:
                        args.append(np.array([rng.uniform(0.05, 0.95) for _ in range(6)]))
                    else:
                        args.append(np.array(sorted(rng.uniform(0.1, 3.0) for _ in range(6))))
                elif ann is int:
                    args.append(int(synth_scalar(rng, nm if nm in INT_NAMES else 'n')))
                elif ann is list:
                    ok = False
                    break
                else:
                    args.append(synth_scalar(rng, nm))
        if ok:
            out.append(tuple(args))
    return out


def clone(args):
    import numpy as np
    return tuple(a.copy() if isinstance(a, np.ndarray) else a for a in args)


def canon(v):
    import numpy as np
    if v is None:
        return None
    if isinstance(v, (bool, np.bool_)):
        return [float(v)]
    if isinstance(v, (int, float, np.integer, np.floating)):
        return [float(v)]
    if isinstance(v, np.ndarray):
        if v.dtype.kind not in 'fiub':
            raise TypeError('non-numeric array')
        return [float(x) for x in v.astype(float).ravel()]
    if isinstance(v, (list, tuple)):
        out = []
        for x in v:
            c = canon(x)
            out += c if c is not None else [float('nan')]
        return out
    raise TypeError(f'result of type {type(v).__name__}')


def deviation(a, b):
    if a is None or b is None:
        return 0.0 if a is b else math.inf
    if len(a) != len(b):
        return math.inf
    d = 0.0
    for x, y in zip(a, b):
        if math.isnan(x) or math.isnan(y):
            if math.isnan(x) != math.isnan(y):
                return math.inf
            continue
        if math.isinf(x) or math.isinf(y):
            if x != y:
                return math.inf
            continue
        d = max(d, abs(x - y) / max(1e-9, abs(x), abs(y)))
    return d


class PoisonEmpty:
    """`np.empty` hands out uninitialised memory; entries a function never writes (e.g. the lower triangle of the LMM
    forward cube, or everything when a synthesised enum value selects no branch) are not part of its value and differ between
    any two calls.  During the INTERPRETER call np.empty / np.empty_like are replaced by NaN-filled allocations; positions
    that are still NaN afterwards are excluded from the comparison (the compiled stream cannot be poisoned)."""

    def __enter__(self):
        import numpy as np
        self.np, self.e, self.el = np, np.empty, np.empty_like

        def empty(*a, **k):
            arr = self.e(*a, **k)
            if arr.dtype.kind == 'f':
                arr.fill(np.nan)
            return arr

        def empty_like(*a, **k):
            arr = self.el(*a, **k)
            if arr.dtype.kind == 'f':
                arr.fill(np.nan)
            return arr
        np.empty, np.empty_like = empty, empty_like
        return self

    def __exit__(self, *exc):
        self.np.empty, self.np.empty_like = self.e, self.el
        return False


class Timeout(Exception):
    pass


def on_alarm(sig, frm):
    raise Timeout()


def main():
    seed = int(sys.argv[1])
    done = set(json.loads(sys.argv[2]))
    budget = float(sys.argv[3])
    t0 = time.time()
    warnings.simplefilter('ignore')
    C.import_financepy()
    import financepy
    import numpy as np
    from numba.core.dispatcher import Dispatcher
    from numba.core import errors as nerr
    found = {}
    for m in pkgutil.walk_packages(financepy.__path__, 'financepy.'):
        try:
            mod = importlib.import_module(m.name)
        except Exception:  # noqa: BLE001
            continue
        for nm, ob in vars(mod).items():
            if isinstance(ob, Dispatcher) and getattr(ob.py_func, '__module__', None) == mod.__name__:
                found[mod.__name__ + '.' + nm] = ob
    emit({'ev': 'found', 'n': len(found)})
    signal.signal(signal.SIGALRM, on_alarm)
    def prio(fn):
        for i, pre in enumerate(('financepy.utils.', 'financepy.models.', 'financepy.market.')):
            if fn.startswith(pre):
                return (i, fn)
        return (9, fn)
    for fn in sorted(found, key=prio):
        if fn in done:
            continue
        if time.time() - t0 > budget:
            return            # no 'end' record, parent sees unfinished but `current` is None -> stops on budget
        disp = found[fn]
        rng = random.Random(f'{seed}/{fn}')
        emit({'ev': 'start', 'fn': fn})
        try:
            src = inspect.getsource(disp.py_func)
        except (OSError, TypeError):
            src = ''
        if 'np.random' in src and 'seed(' not in src:
            emit({'ev': 'result', 'fn': fn, 'status': 'skip', 'why': 'unseeded RNG'})
            continue
        tries = synth_args(rng, disp)
        if not tries:
            emit({'ev': 'result', 'fn': fn, 'status': 'skip', 'why': 'needs callables/objects/varargs'})
            continue
        status, rec = 'skip', {'why': 'not callable with synthesised arguments'}
        for args in tries:
            try:
                signal.alarm(12)
                try:
                    rj = ('ok', canon(disp(*clone(args))))
                except Timeout:
                    raise
                except (nerr.TypingError, nerr.NumbaError, TypeError) as e:
                    rj = ('uncallable', type(e).__name__)
                except Exception as e:  # noqa: BLE001
                    rj = ('err', type(e).__name__)
                if rj[0] == 'uncallable':
                    signal.alarm(0)
                    continue
                try:
                    if 'np.empty' in src:
                        with PoisonEmpty():
                            rp = ('ok', canon(disp.py_func(*clone(args))))
                    else:
                        rp = ('ok', canon(disp.py_func(*clone(args))))
                except Timeout:
                    raise
                except Exception as e:  # noqa: BLE001
                    rp = ('err', type(e).__name__)
                signal.alarm(0)
            except Timeout:
                status, rec = 'timeout', {}
                break
            finally:
                signal.alarm(0)
            if rj[0] == 'err' and rp[0] == 'err':
                # both raise: same failure on both sides; keep looking for arguments that produce numbers
                if status == 'skip':
                    status, rec = 'skip', {'why': f'both raise ({rj[1]} / {rp[1]})'}
                continue
            if rj[0] != rp[0]:
                # one side raises, the other returns: for synthesised (possibly out-of-domain) arguments this is
                # typically bounds checking that exists only in the interpreter; reported as skip with the reason
                status, rec = 'skip', {'why': f'one stream raises on synthesised arguments (jit {rj}, py {rp[:2]})'[:200]}
                continue
            if 'np.empty' in src and rj[1] is not None and rp[1] is not None and len(rj[1]) == len(rp[1]):
                keep = [i for i, y in enumerate(rp[1]) if not math.isnan(y)]
                if len(keep) < len(rp[1]):
                    if not keep:
                        if status == 'skip':
                            rec = {'why': 'only uninitialised (np.empty) entries on synthesised arguments'}
                        continue
                    rj, rp = ('ok', [rj[1][i] for i in keep]), ('ok', [rp[1][i] for i in keep])
            if any(not math.isfinite(x) for x in (rj[1] or []) + (rp[1] or [])):
                # NaN/inf: the synthesised arguments are outside the function's domain (fastmath assumes no NaNs)
                if status == 'skip':
                    rec = {'why': 'non-finite result on synthesised arguments'}
                continue
            d = deviation(rj[1], rp[1])
            shown = [a.tolist() if isinstance(a, np.ndarray) else a for a in args]
            if d <= 1e-7:
                status, rec = 'agree', {'dev': d}
            else:
                status, rec = 'differ', {'dev': d, 'args': shown, 'jit': (rj[1] or [])[:6], 'py': (rp[1] or [])[:6]}
                break
        emit(dict({'ev': 'result', 'fn': fn, 'status': status}, **rec))
    emit({'ev': 'end'})


if __name__ == '__main__':
    main()
