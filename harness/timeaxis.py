"""Time axes of a discount curve (C02 / C01, growth round 6).

The classifier predicate of the findings `C02/leap-time-axis` and `C01/leap-time-axis` ("some day of the half-open
span [valuation, pillar) lies in a leap year") lives HERE, once, as a pure-Python mirror of
`FinVerif.Spec.leapDays` / `touchesLeap` (lean/FinVerif/Spec/TimeAxis.lean).  `Props/C02f.lean` proves about the
GENERATED `DayCount.year_frac`:

    days/365 - ACT/ACT ISDA  =  leapDays * (1/365 - 1/366)            (time_axis_gap)
    ACT/ACT ISDA = days/365  <=>  leapDays = 0  <=>  no leap-year day  (time_axis_agree_iff, .._noLeapDay)

`check(ctx, drivers_ok)` compares this mirror with the Lean text (driver `C02Axis`) on a few thousand seeded date
pairs on every run, so classifier and theorem cannot drift; on the same pairs it checks the implementation
(`DayCount(ACT_ACT_ISDA).year_frac`, `(d - v) / g_days_in_year`, `times_from_dates`, `DiscountCurve._times`,
`DiscountCurve.df` -> `df_t`) against the exact rationals.

The mirror does not call FinancePy: serial numbers come from `datetime.date` (proleptic Gregorian, = the calendar
serial `Spec.serial` from 1 Mar 1900 on), so a change to /repo cannot move the classifier.
"""
import calendar
import datetime
import math
from fractions import Fraction

_EPOCH = datetime.date(1899, 12, 30).toordinal()          # Excel serial 0; serial(1 Mar 1900) = 61
AXIS_STEP = Fraction(1, 365) - Fraction(1, 366)           # = 1/133590, Spec.axisStep


def serial(d, m, y):
    """calendar serial number (Spec.serial): Excel's serial for every date from 1 Mar 1900"""
    return datetime.date(y, m, d).toordinal() - _EPOCH


def J(y):
    """serial of 1 January of year y (Props.C15.J)"""
    return serial(1, 1, y)


def overlap(s1, s2, y):
    """Spec.daysInYearOverlap: days of [s1, s2) in calendar year y (signed)"""
    return min(s2, J(y + 1)) - max(s1, J(y))


def leap_days_s(s1, y1, s2, y2):
    """Spec.leapDays, term by term"""
    n = max(y2 - y1, 0)                                    # (y2 - y1).toNat
    return sum(overlap(s1, s2, y1 + i) for i in range(n + 1) if calendar.isleap(y1 + i))


def leap_days(v, d):
    """number of days of [v, d) lying in a leap year; v, d: objects with .d .m .y (FinancePy Date)"""
    return leap_days_s(serial(v.d, v.m, v.y), v.y, serial(d.d, d.m, d.y), d.y)


def touches_leap(v, d):
    """Spec.touchesLeap: True iff some day of [v, d) lies in a leap year
    <=> ACT/ACT ISDA time != (d - v)/365 over the rationals (theorem touchesLeap_iff_axes_differ)."""
    return leap_days(v, d) > 0


def isda_exact(v, d):
    """ACT/ACT ISDA of the forward span as an exact rational, through the proved identity time_axis_gap"""
    return Fraction(serial(d.d, d.m, d.y) - serial(v.d, v.m, v.y), 365) - leap_days(v, d) * AXIS_STEP


def axis_gap(v, d):
    """exact t365 - tISDA of a forward span"""
    return leap_days(v, d) * AXIS_STEP


# ----------------------------------------------------------------------------------------------------------------
def _cases(rng, n):
    """(d1, m1, y1, d2, m2, y2): forward pairs from 1 Mar 1900, 0 days .. 60 years apart, biased to year ends,
    28/29 Feb, 1 Mar, leap and century years; a tenth reversed."""
    lo, hi = serial(1, 3, 1900), serial(31, 12, 2140)
    hot = []
    for y in (1900, 1901, 1904, 1999, 2000, 2001, 2019, 2020, 2021, 2023, 2024, 2025, 2096, 2099, 2100, 2101, 2104):
        for (d, m) in ((1, 1), (2, 1), (28, 2), (1, 3), (30, 12), (31, 12), (1, 6)):
            if (y, m) >= (1900, 3):
                hot.append(serial(d, m, y))
        if calendar.isleap(y):
            hot.append(serial(29, 2, y))
    out = []
    for _ in range(n):
        r = rng.random()
        a = rng.choice(hot) if r < 0.45 else rng.randint(lo, hi)
        r2 = rng.random()
        if r2 < 0.25:
            b = rng.choice(hot)
        elif r2 < 0.55:
            b = a + rng.randint(0, 800)
        else:
            b = a + rng.randint(0, 22000)
        b = min(max(b, lo), hi)
        if a > b:
            a, b = b, a
        if rng.random() < 0.1:
            a, b = b, a
        da, db = datetime.date.fromordinal(a + _EPOCH), datetime.date.fromordinal(b + _EPOCH)
        out.append((da.day, da.month, da.year, db.day, db.month, db.year))
    return out


def check(ctx, drivers_ok, n_quick=4000, n_thorough=40000, prop='C02'):
    """mirror vs Lean driver (ctx.broke on any difference), implementation vs exact rationals (ctx.violation)."""
    import numpy as np
    from financepy.utils.date import Date
    from financepy.utils.day_count import DayCount, DayCountTypes
    from financepy.utils.helpers import times_from_dates
    from financepy.utils.global_vars import g_days_in_year
    from financepy.market.curves.discount_curve import DiscountCurve
    from financepy.market.curves.interpolator import InterpTypes
    rng = ctx.rng('timeaxis')
    n = n_quick if ctx.quick() else n_thorough
    cases = _cases(rng, n)
    Date(1, 1, 2141)                                       # extend the date table once
    ops = ['AX ' + ' '.join(str(x) for x in c) for c in cases]
    model = None
    if drivers_ok:
        try:
            from parallel import driver_parallel
            model = driver_parallel('C02Axis', ops, chunk=2000)
        except Exception as e:                             # noqa: BLE001
            ctx.broke(f'correspondence time-axis: driver C02Axis failed: {str(e)[:300]}')
    dc = DayCount(DayCountTypes.ACT_ACT_ISDA)
    nbad = nv = nleap = nfwd = 0
    for k, c in enumerate(cases):
        v, d = Date(*c[0:3]), Date(*c[3:6])
        s1, s2 = serial(*c[0:3]), serial(*c[3:6])
        fwd = s1 <= s2
        ld = leap_days(v, d)
        tl = touches_leap(v, d)
        # ---- (1) classifier mirror == Lean text of the predicate the theorems are about
        if model is not None:
            mo = model[k].split()
            if len(mo) != 5:
                ctx.broke(f'correspondence time-axis: driver answered `{model[k]}` on `{ops[k]}`')
                model = None
            else:
                m_ld, m_tl, m_isda, m_t365, m_idn = int(mo[0]), mo[1] == '1', Fraction(mo[2]), Fraction(mo[3]), mo[4] == '1'
                bad = (m_tl != tl) or (fwd and (m_ld != ld or m_t365 != Fraction(s2 - s1, 365) or m_isda != isda_exact(v, d) or not m_idn))
                if bad:
                    nbad += 1
                    if nbad <= 3:
                        ctx.broke(f'correspondence time-axis: Python classifier != Lean predicate / generated year_frac on {ops[k]}: '
                                  f'python leap_days={ld} touches={tl} isda={isda_exact(v, d) if fwd else None}; lean `{model[k]}`')
        if not fwd:
            continue
        nfwd += 1
        nleap += 1 if tl else 0
        # ---- (2) the implementation against the exact rationals (forward spans from 1 Mar 1900)
        exact_isda, exact_365 = isda_exact(v, d), Fraction(s2 - s1, 365)
        t_isda = dc.year_frac(v, d)[0]
        t_365 = (d - v) / g_days_in_year
        t_tfd0 = float(times_from_dates(d, v, None))
        t_tfd1 = float(times_from_dates(d, v, DayCountTypes.ACT_ACT_ISDA))
        # tolerances: each side is at most 2 correctly rounded divisions and 2 additions of numbers <= 300: 4 ulp of the result
        def near(x, q):
            ref = float(q)
            return abs(x - ref) <= 4 * math.ulp(max(1.0, abs(ref)))
        case = {'valuation': f'{c[0]}-{c[1]}-{c[2]}', 'date': f'{c[3]}-{c[4]}-{c[5]}', 'leap_days': ld}
        if not near(t_isda, exact_isda) or t_tfd1 != t_isda:
            nv += 1
            ctx.violation('time axis: ACT/ACT ISDA time of a date is not days/365 - leapDays*(1/365-1/366)',
                          dict(case, impl=t_isda, times_from_dates=t_tfd1, exact=str(exact_isda)), clause='time-axis-isda')
        if not near(t_365, exact_365) or t_tfd0 != t_365:
            nv += 1
            ctx.violation('time axis: (date - valuation)/g_days_in_year / times_from_dates(.., None) is not days/365',
                          dict(case, impl=t_365, times_from_dates=t_tfd0, exact=str(exact_365)), clause='time-axis-365')
        # the iff on the implementation's floats: equal rationals must give equal doubles? no - only closeness is implied;
        # but a span touching a leap year with >= 1 leap day differs by >= 1/133590 * 1 = 7.5e-6 >> 4 ulp: the sign is decidable
        if tl and not (t_isda < t_365):
            nv += 1
            ctx.violation('time axis: span touches a leap year but ACT/ACT ISDA time is not below days/365',
                          dict(case, t_isda=t_isda, t_365=t_365), clause='time-axis-sign')
    # ---- (3) which axis the curve classes use: DiscountCurve knots at days/365, df(date) == df_t(ACT/ACT ISDA time)
    ncurve = 0
    for c in cases[: (60 if ctx.quick() else 400)]:
        v, d = Date(*c[0:3]), Date(*c[3:6])
        s1, s2 = serial(*c[0:3]), serial(*c[3:6])
        if not (s1 < s2):
            continue
        try:
            curve = DiscountCurve(v, [v, d], np.array([1.0, 0.9]), InterpTypes.FLAT_FWD_RATES)
            knot = float(curve._times[1])
            q = float(curve.df(d))
            at_isda = float(curve.df_t(dc.year_frac(v, d)[0]))
            at_knot = float(curve.df_t(knot))
        except Exception as e:                             # noqa: BLE001
            ctx.violation('time axis: DiscountCurve on two dates raised', {'valuation': str(v), 'pillar': str(d), 'error': repr(e)[:200]},
                          clause='time-axis-curve')
            continue
        ncurve += 1
        case = {'valuation': f'{c[0]}-{c[1]}-{c[2]}', 'pillar': f'{c[3]}-{c[4]}-{c[5]}', 'leap_days': leap_days(v, d)}
        if knot != (s2 - s1) / 365.0:
            ctx.violation('time axis: DiscountCurve knot time is not days/365', dict(case, knot=knot), clause='time-axis-knot')
        if q != at_isda:
            ctx.violation('time axis: DiscountCurve.df(date) is not df_t(ACT/ACT ISDA time of the date)', dict(case, df=q, df_t=at_isda),
                          clause='time-axis-query')
        if abs(at_knot - 0.9) > 1e-14:
            ctx.violation('time axis: knot not reproduced at its own time', dict(case, df_t=at_knot), clause='time-axis-knot')
        # pillar_reproduced_of_noLeapDay / query_time_eq_knot_time_iff on the implementation: exact reproduction iff no leap day
        # (flat forward through (0,1),(T,0.9): |ln df(p) - ln 0.9| = |ln 0.9| * gap / T with gap >= 7.5e-6, T <= 250)
        if not touches_leap(v, d) and abs(q - 0.9) > 1e-13:
            ctx.violation('time axis: no leap-year day in [valuation, pillar) but df(pillar) does not reproduce the pillar',
                          dict(case, df=q, expected=0.9), clause='time-axis-reproduce')
        if touches_leap(v, d) and not (q > 0.9 + 1e-9):
            ctx.violation('time axis: leap-year day in [valuation, pillar) yet df(pillar) is not above the pillar df (query left of the knot)',
                          dict(case, df=q, expected='> 0.9'), clause='time-axis-reproduce')
    ctx.count('time-axis', nfwd + ncurve, nleap, sample={'op': ops[len(ops) // 2], 'lean': (model[len(ops) // 2] if model else None)})
    comp = ctx.cov['components']['time-axis']
    comp['pairs'] = len(cases)
    comp['forward'] = nfwd
    comp['touch_leap'] = nleap
    comp['classifier_vs_lean_disagree'] = nbad
    comp['curves'] = ncurve
    return model is not None and nbad == 0
