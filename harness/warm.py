"""Import FinancePy once into the source-hash-keyed Numba cache (cold import compiles ~15 s)."""
import os
import sys
sys.path.insert(0, os.path.dirname(os.path.abspath(__file__)))
import common as C
C.import_financepy()
import financepy.utils.date  # noqa
import financepy.products.rates.ibor_single_curve  # noqa
print('warm ok', os.environ.get('NUMBA_CACHE_DIR'))
