-- Root of the `FinVerif` library.  Modules are built by explicit target name
-- (`lake build FinVerif.Props.C14` …); this file only imports the Mathlib-free core.
import FinVerif.Core.Prelude
