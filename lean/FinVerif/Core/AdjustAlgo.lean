/-
  The business-day walking algorithms of `Calendar.adjust` / `add_business_days`, generic in the
  business-day predicate and in the date stepping function, so that the same definition is
  instantiated once with the GENERATED holiday functions (the model of the code) and once with the
  rule-list specification (the spec driver, independent of the source).
-/
import FinVerif.Core.Prelude

namespace FinVerif.Algo
open FinVerif

variable (bd : PyDate → Option Bool) (addDays : PyDate → Int → Except PyErr PyDate)
  (mk : Int → Int → Int → PyDate)

/-- `while self.is_business_day(dt) is False: dt = dt.add_days(dir)` with fuel. -/
def walk (dir : Int) : Nat → PyDate → Except PyErr PyDate
  | 0, _ => .error .other
  | fuel + 1, dt =>
    match bd dt with
    | none => .error .finError
    | some true => .ok dt
    | some false =>
      match addDays dt dir with
      | .error e => .error e
      | .ok dt' => walk dir fuel dt'

/-- `Calendar.adjust(dt, bd_type)` on enum values (`calNone` = the calendar is `CalendarTypes.NONE`). -/
def adjust (fuel : Nat) (calNone : Bool) (conv : Int) (dt : PyDate) : Except PyErr PyDate :=
  if conv < 1 ∨ conv > 5 then .error .finError
  else if calNone then .ok dt
  else if conv = 1 then .ok dt
  else if conv = 2 then walk bd addDays 1 fuel dt
  else if conv = 3 then
    match walk bd addDays 1 fuel dt with
    | .error e => .error e
    | .ok r => if r.m ≠ dt.m then walk bd addDays (-1) fuel (mk dt.d dt.m dt.y) else .ok r
  else if conv = 4 then walk bd addDays (-1) fuel dt
  else
    match walk bd addDays (-1) fuel dt with
    | .error e => .error e
    | .ok r => if r.m ≠ dt.m then walk bd addDays 1 fuel (mk dt.d dt.m dt.y) else .ok r

/-- The loop of `add_business_days`: `left` business days still to count. -/
def abdLoop (step : PyDate → Except PyErr PyDate) : Nat → Nat → PyDate → Except PyErr PyDate
  | _, 0, cur => .ok cur
  | 0, _ + 1, _ => .error .other
  | fuel + 1, left + 1, cur =>
    match step cur with
    | .error e => .error e
    | .ok nd =>
      match bd nd with
      | none => .error .finError
      | some true => abdLoop step fuel left nd
      | some false => abdLoop step fuel (left + 1) nd

end FinVerif.Algo
