/-
  `CDS._generate_adjusted_cds_payment_dts` (financepy/products/credit/cds.py) as a pure function,
  generic in the calendar adjustment and month arithmetic (same `Ops` as `Schedule.generate`).
  The CDS has its own roll generator: the first unadjusted date (on or before the step-in date) is the
  previous coupon date, the remaining adjusted dates are the premium payment dates.
-/
import FinVerif.Core.ScheduleAlgo

namespace FinVerif.Sched
open FinVerif

variable (o : Ops)

/-- BACKWARD: `un = [M, M−p, M−2p, …]`, stepping from the maturity date `M` by whole multiples of the
period until a date `≤ step_in` has been appended.  `acc` already ends with `next`; `k` = `flow_num`. -/
def cdsBackLoop (stepIn maturity : PyDate) (nm : Int) : Nat → Nat → PyDate → List PyDate → Except PyErr (List PyDate)
  | 0, _, _, _ => .error .other
  | fuel + 1, k, next, acc =>
    if next.serial > stepIn.serial then
      match o.addMonths maturity (-(nm * ((k + 1 : Nat) : Int))) with
      | .error e => .error e
      | .ok nd => cdsBackLoop stepIn maturity nm fuel (k + 1) nd (acc ++ [nd])
    else .ok acc

/-- FORWARD: `un = [S, S+p, S+2p, …]` while `< maturity` (the maturity date is appended afterwards). -/
def cdsFwdLoop (stepIn maturity : PyDate) (nm : Int) : Nat → Nat → PyDate → List PyDate → Except PyErr (List PyDate)
  | 0, _, _, _ => .error .other
  | fuel + 1, k, next, acc =>
    if next.serial < maturity.serial then
      match o.addMonths stepIn (nm * ((k + 1 : Nat) : Int)) with
      | .error e => .error e
      | .ok nd => cdsFwdLoop stepIn maturity nm fuel (k + 1) nd (acc ++ [next])
    else .ok acc

structure CdsDates where
  payment : List PyDate
  accrualStart : List PyDate

/-- the unadjusted dates in increasing order -/
def cdsUnadjusted (stepIn maturity : PyDate) (nm : Int) (backward : Bool) (fuel : Nat) : Except PyErr (List PyDate) :=
  if backward then
    match cdsBackLoop o stepIn maturity nm fuel 0 maturity [maturity] with
    | .error e => .error e
    | .ok un => .ok un.reverse
  else
    match cdsFwdLoop o stepIn maturity nm fuel 0 stepIn [] with
    | .error e => .error e
    | .ok un => .ok (un ++ [maturity])

/-- `CDS(step_in, maturity, …)` date generation as written (constructor check included). -/
def cdsGenerate (stepIn maturity : PyDate) (nm : Int) (backward : Bool) (fuel : Nat) : Except PyErr CdsDates :=
  if stepIn.serial > maturity.serial then .error .finError else
  if nm ≤ 0 then .error .other else
  match cdsUnadjusted o stepIn maturity nm backward fuel with
  | .error e => .error e
  | .ok un =>
    match mapE o.adjust un with
    | .error e => .error e
    | .ok adj => .ok { payment := adj.drop 1, accrualStart := adj.dropLast }

end FinVerif.Sched
