/-
  Python-semantics prelude shared by generated (`FinVerif/Gen`) and hand-written
  (`FinVerif/Model`) models.  Mathlib-free so that the line-protocol driver can be
  run with `lean --run` in well under a second.
-/
namespace FinVerif

/-- Error kinds of the implementation, canonicalised by the harness. -/
inductive PyErr where
  | finError      -- the library's own `FinError`
  | indexError    -- IndexError (list/array index out of range)
  | attrError     -- AttributeError (e.g. attribute read on None)
  | zeroDiv       -- ZeroDivisionError
  | typeError
  | other
  deriving Repr, DecidableEq, Inhabited

def PyErr.tag : PyErr → String
  | .finError => "FinError" | .indexError => "IndexError" | .attrError => "AttributeError"
  | .zeroDiv => "ZeroDivisionError" | .typeError => "TypeError" | .other => "Other"

/-- Python list indexing with negative-index wrap-around; `none` = IndexError. -/
def pyIdx? {α} (l : List α) (i : Int) : Option α :=
  let n : Int := l.length
  if 0 ≤ i ∧ i < n then l[i.toNat]?
  else if -n ≤ i ∧ i < 0 then l[(i + n).toNat]?
  else none

/-- Python list indexing, totalised with an explicit default (theorems that use it carry
the in-range hypothesis; the out-of-range behaviour of the code is `IndexError` and is
covered by `pyIdx?`). -/
def pyIdxD {α} (l : List α) (i : Int) (dflt : α) : α := (pyIdx? l i).getD dflt

/-- Python `int(x)` for a rational: truncation toward zero. -/
def pyIntRat (q : Rat) : Int := if 0 ≤ q then q.floor else -((-q).floor)

/-- Python floor division / modulo on ints (sign follows the divisor). For a positive
divisor they coincide with Lean's `/` and `%` on `Int` (Euclidean), which is what the
translator emits when the divisor is a positive literal. -/
def pyFloorDiv (a b : Int) : Int := Int.fdiv a b
def pyMod (a b : Int) : Int := Int.fmod a b

/-- Boolean membership in a literal tuple, `m in (10, 11, 12)`. -/
def pyIn (x : Int) (l : List Int) : Bool := l.contains x

end FinVerif

namespace FinVerif

/-- The observable fields of a `financepy.utils.date.Date` without intraday time. -/
structure PyDate where
  d : Int
  m : Int
  y : Int
  serial : Int      -- `excel_dt`
  wd : Int          -- `weekday` (0 = Monday)
  deriving Repr, DecidableEq, Inhabited

def pyGetDate (o : Option PyDate) : PyDate := o.getD default
def pyGetNum {α} [Inhabited α] (o : Option α) : α := o.getD default

end FinVerif

/-- `np.maximum` / `np.minimum` / `max` / `min` on doubles (NaN handling is not modelled). -/
def fmax (a b : Float) : Float := if a < b then b else a
def fmin (a b : Float) : Float := if b < a then b else a
