/-
  `Schedule.generate` (financepy/utils/schedule.py) as a pure function, generic in the calendar
  adjustment and the month arithmetic, so that it is instantiated once with the model of the code's
  `Date`/`Calendar` (Model) and once with the source-independent specification (Spec).
  Dates are compared through their serial numbers, as the code does.
-/
import FinVerif.Core.Prelude

namespace FinVerif.Sched
open FinVerif

structure Ops where
  /-- `calendar.adjust(dt, bd_type)` for the schedule's calendar and convention -/
  adjust : PyDate → Except PyErr PyDate
  /-- `dt.add_months(k)` -/
  addMonths : PyDate → Int → Except PyErr PyDate
  /-- `dt.eom()` -/
  eom : PyDate → Except PyErr PyDate

structure Params where
  effective : PyDate
  termination : PyDate
  numMonths : Int          -- `int(12 / frequency)`
  backward : Bool          -- DateGenRuleTypes.BACKWARD
  adjustTermination : Bool
  endOfMonth : Bool

variable (o : Ops)

/-- BACKWARD loop: `unadjusted = [T, T−p, T−2p, …]` until a date `≤ effective` is reached; that
date (the "previous coupon date") is appended too.  `k` = `flow_num`. -/
def backwardLoop (p : Params) : Nat → Nat → PyDate → List PyDate → Except PyErr (List PyDate)
  | 0, _, _, _ => .error .other
  | fuel + 1, k, next, acc =>
    if next.serial > p.effective.serial then
      match o.addMonths p.termination (-(p.numMonths * (1 + (k : Int)))) with
      | .error e => .error e
      | .ok nd =>
        if p.endOfMonth then
          match o.eom nd with
          | .error e => .error e
          | .ok nd' => backwardLoop p fuel (k + 1) nd' (acc ++ [next])
        else backwardLoop p fuel (k + 1) nd (acc ++ [next])
    else .ok (acc ++ [next])

/-- FORWARD loop: `unadjusted = [E, E, E+p, E+2p, …]` while `< termination`. -/
def forwardLoop (p : Params) : Nat → Nat → PyDate → List PyDate → Except PyErr (List PyDate)
  | 0, _, _, _ => .error .other
  | fuel + 1, k, next, acc =>
    if next.serial < p.termination.serial then
      match o.addMonths p.effective (p.numMonths * (k : Int)) with
      | .error e => .error e
      | .ok nd => forwardLoop p fuel (k + 1) nd (acc ++ [next])
    else .ok acc

def mapE {α β} (f : α → Except PyErr β) : List α → Except PyErr (List β)
  | [] => .ok []
  | a :: as => match f a with
    | .error e => .error e
    | .ok b => match mapE f as with
      | .error e => .error e
      | .ok bs => .ok (b :: bs)

/-- The final loop: dates must be ordered (else the library's error); dates that business-day
adjustment made coincide are merged. Returns the list starting with `prev`. -/
def dedup : PyDate → List PyDate → Except PyErr (List PyDate)
  | prev, [] => .ok [prev]
  | prev, dt :: rest =>
    if dt.serial < prev.serial then .error .finError
    else if dt.serial > prev.serial then
      match dedup dt rest with
      | .error e => .error e
      | .ok r => .ok (prev :: r)
    else dedup prev rest

/-- Result of `generate()`: the adjusted dates and the (possibly overwritten) termination date. -/
structure Result where
  dates : List PyDate
  termination : PyDate

/-- The unadjusted/adjusted date lists built by the two generation branches (before the effective date
is put first and the termination date adjusted). -/
def body (p : Params) (fuel : Nat) : Except PyErr (List PyDate) :=
  if p.backward then
    match backwardLoop o p fuel 0 p.termination [] with
    | .error e => .error e
    | .ok un =>
      -- un = [T, T−p, …, pcd]; adjusted = [pcd] ++ adjust(reverse interior) ++ [T]
      let pcd := un.getLast?.getD p.termination
      let interior := (un.drop 1).dropLast.reverse
      match mapE o.adjust interior with
      | .error e => .error e
      | .ok adj => .ok ([pcd] ++ adj ++ [p.termination])
  else
    match forwardLoop o p fuel 1 p.effective [p.effective] with
    | .error e => .error e
    | .ok un =>
      -- un = [E, E, E+p, …]; adjusted = adjust(un[1:]) ++ [T]
      match mapE o.adjust (un.drop 1) with
      | .error e => .error e
      | .ok adj => .ok (adj ++ [p.termination])

/-- The common tail of `generate()`: first date := effective date; last date := adjusted termination
date when requested; merge coinciding dates, reject disorder and fewer than two dates. -/
def post (p : Params) (ds : List PyDate) : Except PyErr Result :=
  -- the effective date is never adjusted: the first date is replaced by it
  let ds1 := p.effective :: ds.drop 1
  let tr : Except PyErr (List PyDate × PyDate) :=
    if p.adjustTermination then
      match o.adjust p.termination with
      | .error e => .error e
      | .ok t' => .ok (ds1.dropLast ++ [t'], t')
    else .ok (ds1, p.termination)
  match tr with
  | .error e => .error e
  | .ok (ds2, term) =>
    match ds2 with
    | [] => .error .finError
    | first :: rest =>
      match dedup first rest with
      | .error e => .error e
      | .ok out => if out.length < 2 then .error .finError else .ok { dates := out, termination := term }

/-- `Schedule.generate()` as written. -/
def generate (p : Params) (fuel : Nat) : Except PyErr Result :=
  if p.numMonths ≤ 0 then .error .other else
  match body o p fuel with
  | .error e => .error e
  | .ok ds => post o p ds

end FinVerif.Sched
