/-
  Code that CONSUMES roll schedules, as pure functions generic in the date operations:

  * the accrual END dates of `CDS._generate_adjusted_cds_payment_dts` (financepy/products/credit/cds.py):
    `[d.add_days(-1) for d in accrual_start_dts[1:]] + [maturity_dt]`;
  * the `for next_dt in schedule_dts[1:]` loop of `SwapFixedLeg.generate_payments` /
    `SwapFloatLeg.generate_payment_dts` (financepy/products/rates/swap_{fixed,float}_leg.py): accrual start / end
    dates chained through `prev_dt`, payment date = accrual end date when `payment_lag == 0`, else
    `calendar.add_business_days(next_dt, payment_lag)`.
-/
import FinVerif.Core.CDSAlgo

namespace FinVerif.Sched
open FinVerif

/-- CDS accrual end dates as coded: one day before the next accrual start; the last one is the (unadjusted)
maturity date. -/
def cdsAccrualEnd (addDays : PyDate → Int → Except PyErr PyDate) (accrualStart : List PyDate) (maturity : PyDate) :
    Except PyErr (List PyDate) :=
  match mapE (fun d => addDays d (-1)) (accrualStart.drop 1) with
  | .error e => .error e
  | .ok ends => .ok (ends ++ [maturity])

structure CdsDatesFull where
  payment : List PyDate
  accrualStart : List PyDate
  accrualEnd : List PyDate

/-- `CDS(step_in, maturity, …)` date generation, all three lists. -/
def cdsGenerateFull (o : Ops) (addDays : PyDate → Int → Except PyErr PyDate) (stepIn maturity : PyDate) (nm : Int)
    (backward : Bool) (fuel : Nat) : Except PyErr CdsDatesFull :=
  match cdsGenerate o stepIn maturity nm backward fuel with
  | .error e => .error e
  | .ok r =>
    match cdsAccrualEnd addDays r.accrualStart maturity with
    | .error e => .error e
    | .ok ends => .ok { payment := r.payment, accrualStart := r.accrualStart, accrualEnd := ends }

structure LegDates where
  startAccrued : List PyDate
  endAccrued : List PyDate
  payment : List PyDate

/-- the payment date of one period: `next_dt` itself when the lag is 0, else `add_business_days(next_dt, lag)` -/
def legPayment (abd : PyDate → Int → Except PyErr PyDate) (lag : Int) (nd : PyDate) : Except PyErr PyDate :=
  if lag = 0 then .ok nd else abd nd lag

/-- The loop `for next_dt in schedule_dts[1:]` with its running `prev_dt`; `acc` = the three lists so far. -/
def legLoop (abd : PyDate → Int → Except PyErr PyDate) (lag : Int) : PyDate → List PyDate → LegDates → Except PyErr LegDates
  | _, [], acc => .ok acc
  | prev, nd :: rest, acc =>
    match legPayment abd lag nd with
    | .error e => .error e
    | .ok pay =>
      legLoop abd lag nd rest
        { startAccrued := acc.startAccrued ++ [prev], endAccrued := acc.endAccrued ++ [nd],
          payment := acc.payment ++ [pay] }

/-- `generate_payments()` after the schedule has been built: fewer than two dates is the library's error. -/
def legDates (abd : PyDate → Int → Except PyErr PyDate) (lag : Int) (sched : List PyDate) : Except PyErr LegDates :=
  match sched with
  | [] => .error .finError
  | [_] => .error .finError
  | first :: rest => legLoop abd lag first rest { startAccrued := [], endAccrued := [], payment := [] }

end FinVerif.Sched
