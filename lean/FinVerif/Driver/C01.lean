/- Model driver for C01: the `Float` instantiation of `FinVerif.Model.C01` (bootstrap skeleton) with the generated closed
   forms of `Gen/RatesF` plugged in, the generated kernels themselves, and the swap objective on C06's model.
   Floats cross as IEEE bit patterns, integers as decimal text. -/
import FinVerif.Driver.C06Parse
import FinVerif.Model.C06
import FinVerif.Model.C01
import FinVerif.Model.C01Onf
import FinVerif.Gen.RatesF
open FinVerif FinVerif.Driver FinVerif.Driver.C06P FinVerif.Spec.C06 FinVerif.Model.C06 FinVerif.Model.C02
open FinVerif.Model.C01 FinVerif.Gen

def pDepo : P (Depo Float) := do
  let tS ← pFloat; let tM ← pFloat; let acc ← pFloat; let r ← pFloat
  pure { tS := tS, tM := tM, acc := acc, rate := r }

/-- FRA followed by the df the implementation's root search returned for it (used only on the solver branch). -/
def pFra : P (Fra Float × Float) := do
  let tSet ← pFloat; let tMat ← pFloat; let tSq ← pFloat; let acc ← pFloat; let r ← pFloat; let solved ← pFloat
  pure ({ tSet := tSet, tMat := tMat, tSq := tSq, acc := acc, rate := r }, solved)

def lookupF (tbl : List (Float × Float)) (t : Float) : Float :=
  match tbl.find? (fun e => e.1 == t) with
  | some e => e.2
  | none => nan

def pKnots : P (Knots Float) := do
  let n ← pNat
  let ts ← pMany n pFloat
  let ds ← pMany n pFloat
  pure (ts, ds)

def opBoot : P String := do
  let m ← pInt
  let deps ← pList pDepo
  let fras ← pList pFra
  let swaps ← pList (do let t ← pFloat; let s ← pFloat; pure (t, s))
  let solveF : Knots Float → Fra Float → Float := fun _ f => lookupF (fras.map (fun e => (e.1.tMat, e.2))) f.tMat
  let solveS : Knots Float → Float → Float := fun _ t => lookupF swaps t
  -- the branch taken for every FRA (`oldt_mat` = last knot time after the deposit loop)
  match depoLoop RatesF.deposit_maturity_df m init deps with
  | .error e => pure ("E:" ++ e.tag)
  | .ok st1 =>
    let oldT := lastTime st1
    let flags := fras.map (fun e => if fraClosedForm oldT e.1 then "1" else "0")
    match bootstrap1d RatesF.deposit_maturity_df RatesF.fra_maturity_df solveF solveS m deps (fras.map (·.1))
        (swaps.map (·.1)) with
    | .error e => pure ("E:" ++ e.tag)
    | .ok fin =>
      pure (" ".intercalate (flags ++ [toString fin.1.length]) ++ " " ++ showFloats fin.1 ++ " " ++ showFloats fin.2)

def opFobj : P String := do
  let m ← pInt
  let st ← pKnots
  let tSq ← pFloat; let tMq ← pFloat; let acc ← pFloat; let k ← pFloat; let n ← pFloat; let pay ← pBool
  pure (showExcept showFloat (fraObjective RatesF.fra_value m st tSq tMq acc k n pay))

/-- float periods: `start stop pay yf indexAlpha` -/
def pFPeriod : P (Period Float × Float) := do
  let p ← pPeriod; let ia ← pFloat
  pure (p, ia)

def opSobj : P String := do
  let fixedIsPay ← pBool; let cpn ← pFloat; let n ← pFloat; let spread ← pFloat; let vd ← pInt
  let fixedPs ← pList pPeriod
  let fps ← pList pFPeriod
  let df ← pCurve
  let dfI ← pCurve
  let s := mkSwap fixedIsPay cpn n spread fixedPs (fps.map (·.1))
  let idx : IndexCurve Float :=
    { df := dfI,
      yf := fun a b => match fps.find? (fun e => e.1.start == a && e.1.stop == b) with
        | some e => e.2 | none => nan }
  -- `_f`: swap.value(value_dt, discount, index, None) / swap.fixed_leg.notional
  pure (showFloat (swapValue df idx none s vd / s.fixed.notional))

/-- `ONFS nfits (n times dfs)* k queries`: ONE `Interpolator(LINEAR_ONFWD_RATES)` object fitted `nfits` times in a row
(a one-knot fit keeps the previous spline), then read at the queries. -/
def opOnfs : P String := do
  let fits ← pList pKnots
  let qs ← pList pFloat
  let st := fits.foldl (fun (s : OnfState Float) k => onfFitState s k.1 k.2) onfNew
  pure (" ".intercalate (qs.map (fun q => showExcept showFloat (onfInterp st q))))

/-- `ONFF n times dfs`: the fitted spline `(onf_times, onf_rates)` of a multi-knot fit. -/
def opOnff : P String := do
  let k ← pKnots
  let s := onfSplineOf k.1 k.2
  pure (toString (s.2.length + 1) ++ " " ++ showFloats ((0.0 : Float) :: s.2.map (·.1)) ++ " " ++ showFloats (s.1 :: s.2.map (·.2)))

def step (t : List String) : String :=
  let r : Option String := match t with
    | ["DK", acc, r] => (floats? [acc, r]).bind fun
      | [acc, r] => some (showFloat (RatesF.deposit_maturity_df acc r)) | _ => none
    | ["DV", vd, acc, dfS, dfM, r, n, mat] =>
      match int? vd, int? mat, floats? [acc, dfS, dfM, r, n] with
      | some vd, some mat, some [acc, dfS, dfM, r, n] =>
        some (showExcept showFloat (RatesF.deposit_value vd acc dfS dfM r n mat))
      | _, _, _ => none
    | ["FV", acc, d1, d2, dm, dv, k, n, pay] =>
      match floats? [acc, d1, d2, dm, dv, k, n], int? pay with
      | some [acc, d1, d2, dm, dv, k, n], some pay => some (showFloat (RatesF.fra_value acc d1 d2 dm dv k n (pay ≠ 0)))
      | _, _ => none
    | ["FK", d1, acc, k] => (floats? [d1, acc, k]).bind fun
      | [d1, acc, k] => some (showFloat (RatesF.fra_maturity_df d1 acc k)) | _ => none
    | ["FUT", p] => (floats? [p]).bind fun
      | [p] => some (showFloat (RatesF.futures_rate p)) | _ => none
    | ["FFR", p, c] => (floats? [p, c]).bind fun
      | [p, c] => some (showFloat (RatesF.futures_fra_rate p c)) | _ => none
    | ["FCX", t1, t2, vol, a] => (floats? [t1, t2, vol, a]).bind fun
      | [t1, t2, vol, a] => some (showFloat (RatesF.futures_convexity t1 t2 vol a)) | _ => none
    | "BOOT" :: a => run opBoot a
    | "FOBJ" :: a => run opFobj a
    | "SOBJ" :: a => run opSobj a
    | "ONFS" :: a => run opOnfs a
    | "ONFF" :: a => run opOnff a
    | _ => none
  r.getD "bad-op"

def main : IO Unit := loop step
