/- Model driver for C02: the `Float` instantiation of `FinVerif.Model.C02`.
   Floats cross as IEEE bit patterns, integers (enum values, counts, day offsets) as decimal text.
   Growth round: `GNS` / `GNSS` / `GZ2D` run the GENERATED Float kernels (`Gen/CurvesF`), `ZRV` the zero-rate view,
   `BUMP w k …` entry `k` of array `w` (0 self._times, 1 self._dfs after the call; 2 / 3 the returned curve's). -/
import FinVerif.Driver.Util
import FinVerif.Model.C02
import FinVerif.Model.C02Ext
import FinVerif.Gen.CurvesF
open FinVerif FinVerif.Driver FinVerif.Model.C02

def sf : Except PyErr Float → String := showExcept showFloat

/-- split `n` floats off the front -/
def takeF (n : Nat) (l : List String) : Option (List Float × List String) :=
  if l.length < n then none else (floats? (l.take n)).map (fun fs => (fs, l.drop n))

def natOf (s : String) : Option Nat := s.toNat?

def zcDf (method freq : Int) (ts rs : List Float) (t : Float) : Except PyErr Float :=
  match zerosKnots freq ts rs with
  | .ok (times, dfs) => uinterp method times dfs t
  | .error e => .error e

def thenZ (freq : Int) (r : Float) (t : Float) : Except PyErr Float := zeroToDf freq r t

def pairs : List Float → List (Float × Float)
  | a :: d :: rest => (a, d) :: pairs rest
  | _ => []

def step (tk : List String) : String :=
  match tk with
  | "U" :: m :: n :: rest =>
    match int? m, natOf n with
    | some m, some n =>
      match takeF n rest with
      | some (ts, r1) => match takeF n r1 with
        | some (ds, [tq]) => match float? tq with
          | some tq => sf (uinterp m ts ds tq)
          | none => "bad-op"
        | _ => "bad-op"
      | none => "bad-op"
    | _, _ => "bad-op"
  | ["Z2D", f, r, t] => match int? f, floats? [r, t] with
    | some f, some [r, t] => sf (zeroToDf f r t)
    | _, _ => "bad-op"
  | ["D2Z", f, d, t] => match int? f, floats? [d, t] with
    | some f, some [d, t] => sf (dfToZero f d t)
    | _, _ => "bad-op"
  | "DC" :: m :: onv :: n :: rest =>
    match int? m, int? onv, natOf n with
    | some m, some onv, some n =>
      if rest.length < n then "bad-op" else
      match ints? (rest.take n), takeF n (rest.drop n) with
      | some days, some (vs, [tq]) => match float? tq with
        | some tq =>
          let ts := days.map (fun d => Float.ofInt d / 365.0)
          let (times, dfs) := dcKnots (decide (onv = 1)) ts vs
          sf (uinterp m times dfs tq)
        | none => "bad-op"
      | _, _ => "bad-op"
    | _, _, _ => "bad-op"
  | "ZC" :: m :: f :: n :: rest =>
    match int? m, int? f, natOf n with
    | some m, some f, some n =>
      match takeF n rest with
      | some (ts, r1) => match takeF n r1 with
        | some (rs, [tq]) => match float? tq with
          | some tq => sf (zcDf m f ts rs tq)
          | none => "bad-op"
        | _ => "bad-op"
      | none => "bad-op"
    | _, _, _ => "bad-op"
  | ["FL", f, r, t] => match int? f, floats? [r, t] with
    | some f, some [r, t] => sf (zeroToDf f r t)
    | _, _ => "bad-op"
  | "PWF" :: f :: n :: rest =>
    match int? f, natOf n with
    | some f, some n =>
      match takeF n rest with
      | some (ts, r1) => match takeF n r1 with
        | some (rs, [tq]) => match float? tq with
          | some tq => sf (pwfDf f ts rs tq)
          | none => "bad-op"
        | _ => "bad-op"
      | none => "bad-op"
    | _, _ => "bad-op"
  | "PWL" :: f :: n :: rest =>
    match int? f, natOf n with
    | some f, some n =>
      match takeF n rest with
      | some (ts, r1) => match takeF n r1 with
        | some (rs, [tq]) => match float? tq with
          | some tq => sf (pwlDf f ts rs tq)
          | none => "bad-op"
        | _ => "bad-op"
      | none => "bad-op"
    | _, _ => "bad-op"
  | "ONF" :: n :: rest =>
    match natOf n with
    | some n =>
      match takeF n rest with
      | some (ts, r1) => match takeF n r1 with
        | some (rs, [tq]) => match float? tq with
          | some tq => showFloat (onfDf ts rs tq)
          | none => "bad-op"
        | _ => "bad-op"
      | none => "bad-op"
    | _ => "bad-op"
  | ["NS", f, b0, b1, b2, tau, t] => match int? f, floats? [b0, b1, b2, tau, t] with
    | some f, some [b0, b1, b2, tau, t] => sf (zeroToDf f (nsRate b0 b1 b2 tau t) t)
    | _, _ => "bad-op"
  | ["NSS", f, b0, b1, b2, b3, tau1, tau2, t] => match int? f, floats? [b0, b1, b2, b3, tau1, tau2, t] with
    | some f, some [b0, b1, b2, b3, tau1, tau2, t] => sf (zeroToDf f (nssRate b0 b1 b2 b3 tau1 tau2 t) t)
    | _, _ => "bad-op"
  | "POLY" :: f :: k :: rest =>
    match int? f, natOf k with
    | some f, some k => match takeF k rest with
      | some (cs, [t]) => match float? t with
        | some t => sf (zeroToDf f (polyRate cs t) t)
        | none => "bad-op"
      | _ => "bad-op"
    | _, _ => "bad-op"
  | "PROD" :: k :: rest =>
    match natOf k with
    | some k => match takeF k rest with
      | some (vs, []) => showFloat (compositeDf vs)
      | _ => "bad-op"
    | none => "bad-op"
  | ["SPL", lt, s, t] => match int? lt, floats? [s, t] with
    | some lt, some [s, t] => showFloat (splineDf (decide (lt = 1)) (fun _ => s) t)
    | _, _ => "bad-op"
  | ["FWDR", a, b, yf] => match floats? [a, b, yf] with
    | some [a, b, yf] => showFloat (fwdRate a b yf)
    | _ => "bad-op"
  | ["FWD", a, b] => match floats? [a, b] with
    | some [a, b] => showFloat (fwdInst a b)
    | _ => "bad-op"
  | "SWAP" :: s :: k :: rest =>
    match float? s, natOf k with
    | some s, some k => match takeF (2 * k) rest with
      | some (fl, []) => showFloat (swapRate s (pairs fl))
      | _ => "bad-op"
    | _, _ => "bad-op"
  | ["GNS", b0, b1, b2, tau, t] => match floats? [b0, b1, b2, tau, t] with
    | some [b0, b1, b2, tau, t] => showFloat (FinVerif.Gen.CurvesF.ns_zero_rate t b0 b1 b2 tau)
    | _ => "bad-op"
  | ["GNSS", b0, b1, b2, b3, tau1, tau2, t] => match floats? [b0, b1, b2, b3, tau1, tau2, t] with
    | some [b0, b1, b2, b3, tau1, tau2, t] => showFloat (FinVerif.Gen.CurvesF.nss_zero_rate t b0 b1 b2 b3 tau1 tau2)
    | _ => "bad-op"
  | ["GZ2D", f, r, t, fin] => match int? f, floats? [r, t, fin] with
    | some f, some [r, t, fin] => sf (FinVerif.Gen.CurvesF.zero_to_df r t f fin)
    | _, _ => "bad-op"
  | ["ZRV", fc, fa, r, tc, ta] => match int? fc, int? fa, floats? [r, tc, ta] with
    | some fc, some fa, some [r, tc, ta] => sf (zeroRateView fc fa r tc ta)
    | _, _, _ => "bad-op"
  | "BUMP" :: w :: k :: b :: onv :: n :: rest =>
    match natOf w, natOf k, float? b, int? onv, natOf n with
    | some w, some k, some b, some onv, some n =>
      match takeF n rest with
      | some (ts, r1) => match takeF n r1 with
        | some (vs, []) =>
          let r := bumpCurve b (decide (onv = 1)) ts vs
          let l := if w = 0 then r.selfTimes else if w = 1 then r.selfDfs else if w = 2 then r.newTimes else r.newDfs
          if k < l.length then showFloat (g l k) else "E:IndexError"
        | _ => "bad-op"
      | none => "bad-op"
    | _, _, _, _, _ => "bad-op"
  | _ => "bad-op"

def main : IO Unit := loop step
