/- Driver for the time-axis predicate of C02 / C01 (growth round 6): the executable `leapDays` / `touchesLeap` of
   `Spec/TimeAxis.lean` (the predicate the theorems of `Props/C02f.lean` are about) next to the GENERATED
   `DayCount.year_frac` and days/365, on dates built by the date model.  The harness compares its Python classifier
   (`harness/timeaxis.py`) with these answers on every run. -/
import FinVerif.Driver.Util
import FinVerif.Gen.DayCount
import FinVerif.Spec.TimeAxis
open FinVerif FinVerif.Model FinVerif.Driver FinVerif.Gen.DayCount FinVerif.Spec

/-- `AX d1 m1 y1 d2 m2 y2` → `leapDays touches isda t365 gap/axisStep-check`:
    leapDays (Int), touches (0/1), ACT/ACT ISDA fraction of the generated code (num/den), days/365 (num/den),
    and 1 iff `t365 − isda = leapDays · axisStep` holds exactly (the identity `time_axis_gap`, evaluated). -/
def step (t : List String) : String :=
  match t with
  | "AX" :: rest => match ints? rest with
    | some [d1, m1, y1, d2, m2, y2] =>
      let a := mkDate d1 m1 y1
      let b := mkDate d2 m2 y2
      let ld := leapDays a.serial a.y b.serial b.y
      let tl := touchesLeap a.serial a.y b.serial b.y
      match year_frac a b none 1 false 5 with
      | .ok r =>
        let tk := t365 a.serial b.serial
        let idn := decide (tk - r.1 = (ld : Rat) * axisStep)
        s!"{ld} {if tl then 1 else 0} {showRat r.1} {showRat tk} {if idn then 1 else 0}"
      | .error e => "E:" ++ e.tag
    | _ => "bad-op"
  | _ => "bad-op"

def main : IO Unit := loop step
