/- Model driver for C03: the `Float` instantiation of the hand model of the short-rate trees.

   HW  n tmat sigma a  df[0..n+1]                 -> J dt pu[] pm[] pd[] Q[(n+2)x(2J+1)] r_t[(n+1)x(2J+1)]
   BK  n tmat sigma a  df[0..n+1] alpha[0..n]     -> same (alpha = results of the root search, a parameter)
   BDT n tmat sigma    df[0..n+1] mid[0..n]       -> dt Q[(n+2)x(n+2)] r_t[(n+1)x(n+2)] (mid = median rates found)
   BOND J M  pu[] pm[] pd[]  z[(M)x(2J+1)] flow[0..M] acc[0..M] put[0..M] call[0..M] term
                                                 -> bondpure bondwithoption   (trinomial backward kernels)
   BONDC  same input as BOND                        -> the same two values from the levels as stored (bondBackC, cpBackC)
   BDTBOND M z[(M)x(M+1)] flow[0..M] acc[0..M] put[0..M] call[0..M] term -> bondpure bondwithoption (binomial kernels)
   OPT  J M  pu[] pm[] pd[]  z[(M)x(2J+1)] payoff[(M+1)x(2J+1)] ex[0..M]  -> value at the root
-/
import FinVerif.Driver.Util
import FinVerif.Model.C03
open FinVerif FinVerif.Driver FinVerif.Model.C03

def O := floatOps

def rowOut (J : Nat) (f : Int → Float) : List Float := (intRange (-(J : Int)) J).map f

/-- store a level in an array (execution only; the array is built once, before the closure) -/
def getI (J : Nat) (a : Array Float) (j : Int) : Float := if 0 ≤ j + J then a.getD (j + J).toNat 0.0 else 0.0
def tabA (J : Nat) (f : Int → Float) : Array Float := Array.ofFn (n := 2 * J + 1) (fun i => f ((i.val : Int) - J))
def tabNA (n : Nat) (f : Nat → Float) : Array Float := Array.ofFn (n := n) (fun i => f i.val)

def hwTree (n : Nat) (tmat sigma a : Float) (P : Array Float) : String := Id.run do
  let dt := treeDt O tmat n
  let dR := treeDR O sigma dt
  let J := treeJ O a dt
  if J = 0 ∨ J > 400 then return "E:jmax"
  let Pf := fun m => P.getD m 0.0
  let pr := probs O a dt J
  let mut out : List Float := [dt] ++ rowOut J (fun j => (pr j).u) ++ rowOut J (fun j => (pr j).m) ++ rowOut J (fun j => (pr j).d)
  let mut arr : Array Float := tabA J (q0 O)
  let mut qs : List Float := arr.toList
  let mut rs : List Float := []
  for m in [0:n+1] do
    let Q := getI J arr
    let nm := nmOf J m
    let al := hwAlpha O dt dR nm Q (Pf (m + 1))
    rs := rs ++ rowOut J (fun j => if -nm ≤ j ∧ j ≤ nm then hwRate O dR al j else 0.0)
    arr := tabA J (hwNext O a dt dR J Pf m Q)
    qs := qs ++ arr.toList
  out := out ++ qs ++ rs
  return s!"{J} " ++ showFloats out

def bkTree (n : Nat) (tmat sigma a : Float) (al : Array Float) : String := Id.run do
  let dt := treeDt O tmat n
  let dX := treeDR O sigma dt
  let J := treeJ O a dt
  if J = 0 ∨ J > 400 then return "E:jmax"
  let pr := probs O a dt J
  let mut out : List Float := [dt] ++ rowOut J (fun j => (pr j).u) ++ rowOut J (fun j => (pr j).m) ++ rowOut J (fun j => (pr j).d)
  let mut arr : Array Float := tabA J (q0 O)
  let mut qs : List Float := arr.toList
  let mut rs : List Float := []
  for m in [0:n+1] do
    let Q := getI J arr
    let nm := nmOf J m
    let a_m := al.getD m 0.0
    rs := rs ++ rowOut J (fun j => if -nm ≤ j ∧ j ≤ nm then bkRate O dX a_m j else 0.0)
    arr := tabA J (bkNext O a dt dX J m a_m Q)
    qs := qs ++ arr.toList
  out := out ++ qs ++ rs
  return s!"{J} " ++ showFloats out

def bdtTree (n : Nat) (tmat sigma : Float) (mids : Array Float) : String := Id.run do
  let dt := treeDt O tmat n
  let u := sigma * Float.sqrt dt
  let N := n + 2
  let mut arr : Array Float := tabNA N (bdtQ0 O)
  let mut qs : List Float := arr.toList
  let mut rs : List Float := []
  for m in [0:n+1] do
    let ra := tabNA N (fun i => if i ≤ m then bdtRate O (mids.getD m 0.0) u m i else 0.0)
    rs := rs ++ ra.toList
    let Qa := arr
    arr := tabNA N (bdtNext O (discCont O dt) m (fun k => Qa.getD k 0.0) (fun k => ra.getD k 0.0))
    qs := qs ++ arr.toList
  return showFloats ([dt] ++ qs ++ rs)

/-- split a flat list into a function of (level, node) -/
def grid (J : Nat) (xs : Array Float) (m : Nat) (j : Int) : Float :=
  xs.getD (m * (2 * J + 1) + (j + J).toNat) 0.0

def vecP (J : Nat) (pu pm pd : Array Float) (j : Int) : P3 Float :=
  ⟨pu.getD (j + J).toNat 0.0, pm.getD (j + J).toNat 0.0, pd.getD (j + J).toNat 0.0⟩

def bondOp (coded : Bool) (J M : Nat) (xs : Array Float) : String :=
  let w := 2 * J + 1
  let pu := xs.extract 0 w
  let pm := xs.extract w (2 * w)
  let pd := xs.extract (2 * w) (3 * w)
  let z := xs.extract (3 * w) (3 * w + M * w)
  let o := 3 * w + M * w
  let flow := fun m => xs.getD (o + m) 0.0
  let acc := fun m => xs.getD (o + (M + 1) + m) 0.0
  let put := fun m => xs.getD (o + 2 * (M + 1) + m) 0.0
  let call := fun m => xs.getD (o + 3 * (M + 1) + m) 0.0
  let term := xs.getD (o + 4 * (M + 1)) 0.0
  let p := vecP J pu pm pd
  let zf := grid J z
  Id.run do
    -- `coded`: the levels as the routine stores them (`bondBackC`, `cpBackC`: written on -nm … nm, 0.0 elsewhere)
    let wr := fun (m : Nat) (f : Int → Float) => if coded then onNodes O (nmOf J m) f else f
    let mut bv : Array Float := tabA J (wr M (fun _ => term))
    let mut cv : Array Float := tabA J (wr M (fun _ => cpClamp O (acc M) (put M) (call M) term))
    for d in [1:M+1] do
      let m := M - d
      let b := bv
      let c := cv
      bv := tabA J (wr m (bondLevel J p (zf m) (flow m) (getI J b)))
      cv := tabA J (wr m (cpLevel O J p (zf m) (flow m) (acc m) (put m) (call m) (getI J c)))
    return showFloats [getI J bv 0, getI J cv 0]

/-- BDT backward kernels: `bdtBondBack`, `bdtCpBack` (one level at a time, tabulated).
    xs = z[(M)x(M+1)] flow[0..M] acc[0..M] put[0..M] call[0..M] term -/
def bdtBondOp (M : Nat) (xs : Array Float) : String :=
  let w := M + 1
  let o := M * w
  let zf := fun (m : Nat) (k : Nat) => xs.getD (m * w + k) 0.0
  let flow := fun m => xs.getD (o + m) 0.0
  let acc := fun m => xs.getD (o + (M + 1) + m) 0.0
  let put := fun m => xs.getD (o + 2 * (M + 1) + m) 0.0
  let call := fun m => xs.getD (o + 3 * (M + 1) + m) 0.0
  let term := xs.getD (o + 4 * (M + 1)) 0.0
  Id.run do
    let mut bv : Array Float := tabNA (M + 2) (fun _ => term)
    let mut cv : Array Float := tabNA (M + 2) (fun _ => cpClamp O (acc M) (put M) (call M) term)
    for d in [1:M+1] do
      let m := M - d
      let b := bv
      let c := cv
      bv := tabNA (M + 2) (fun k => if k ≤ m then bdtBondLevel O (zf m) (flow m) (fun i => b.getD i 0.0) k else 0.0)
      cv := tabNA (M + 2) (fun k => if k ≤ m then bdtCpLevel O (zf m) (flow m) (acc m) (put m) (call m) (fun i => c.getD i 0.0) k else 0.0)
    return showFloats [bv.getD 0 0.0, cv.getD 0 0.0]

def optOp (J M : Nat) (xs : Array Float) : String :=
  let w := 2 * J + 1
  let pu := xs.extract 0 w
  let pm := xs.extract w (2 * w)
  let pd := xs.extract (2 * w) (3 * w)
  let z := xs.extract (3 * w) (3 * w + M * w)
  let o := 3 * w + M * w
  let pay := xs.extract o (o + (M + 1) * w)
  let o2 := o + (M + 1) * w
  let ex := fun m => xs.getD (o2 + m) 0.0 != 0.0
  let p := vecP J pu pm pd
  let zf := grid J z
  let pf := grid J pay
  Id.run do
    let mut v : Array Float := tabA J (fun j => O.max (pf M j) 0.0)
    for d in [1:M+1] do
      let m := M - d
      let c := v
      v := tabA J (optLevel O J p (zf m) (pf m) (ex m) (getI J c))
    return showFloat (getI J v 0)

def step (t : List String) : String :=
  match t with
  | "HW" :: n :: rest =>
    match n.toNat?, floats? rest with
    | some n, some (tmat :: sigma :: a :: dfs) => if dfs.length = n + 2 then hwTree n tmat sigma a dfs.toArray else "bad-op"
    | _, _ => "bad-op"
  | "BK" :: n :: rest =>
    match n.toNat?, floats? rest with
    | some n, some (tmat :: sigma :: a :: xs) =>
      if xs.length = 2 * n + 3 then bkTree n tmat sigma a (xs.drop (n + 2)).toArray else "bad-op"
    | _, _ => "bad-op"
  | "BDT" :: n :: rest =>
    match n.toNat?, floats? rest with
    | some n, some (tmat :: sigma :: xs) =>
      if xs.length = 2 * n + 3 then bdtTree n tmat sigma (xs.drop (n + 2)).toArray else "bad-op"
    | _, _ => "bad-op"
  | "BOND" :: j :: m :: rest =>
    match j.toNat?, m.toNat?, floats? rest with
    | some J, some M, some xs => bondOp false J M xs.toArray
    | _, _, _ => "bad-op"
  | "BONDC" :: j :: m :: rest =>
    match j.toNat?, m.toNat?, floats? rest with
    | some J, some M, some xs => bondOp true J M xs.toArray
    | _, _, _ => "bad-op"
  | "BDTBOND" :: m :: rest =>
    match m.toNat?, floats? rest with
    | some M, some xs => bdtBondOp M xs.toArray
    | _, _ => "bad-op"
  | "OPT" :: j :: m :: rest =>
    match j.toNat?, m.toNat?, floats? rest with
    | some J, some M, some xs => optOp J M xs.toArray
    | _, _, _ => "bad-op"
  | _ => "bad-op"

def main : IO Unit := loop step
