/- Model driver for C04: Float instantiation of the generated smile families / SABR cubic (Gen/VolF) and of the hand
model of the caplet stripping loop (Model/C04). -/
import FinVerif.Driver.Util
import FinVerif.Gen.VolF
import FinVerif.Model.C04
open FinVerif FinVerif.Driver FinVerif.Gen.VolF FinVerif.Model.C04

def okF (x : Float) : Except PyErr Float := .ok x

def step (t : List String) : String :=
  match t with
  | "vol" :: name :: rest =>
    match name, floats? rest with
    | "clark3", some [p0, p1, p2, f, k, t] => showExcept showFloat (clark3 p0 p1 p2 f k t)
    | "clark5", some [p0, p1, p2, p3, p4, f, k, t] => showExcept showFloat (clark5 p0 p1 p2 p3 p4 f k t)
    | "bbg3", some [p0, p1, p2, f, k, t] => showFloat (bbg3 p0 p1 p2 f k t)
    | "svi", some [p0, p1, p2, p3, p4, f, k, t] => showFloat (svi p0 p1 p2 p3 p4 f k t)
    | "sabr", some [p0, p1, p2, p3, f, k, t] => showExcept showFloat (sabr p0 p1 p2 p3 f k t)
    | "sabr_beta_one", some [p0, p1, p2, f, k, t] => showFloat (sabr_beta_one p0 p1 p2 f k t)
    | "sabr_beta_half", some [p0, p1, p2, f, k, t] => showExcept showFloat (sabr_beta_half p0 p1 p2 f k t)
    | "sabr_shifted", some [p0, p1, p2, p3, p4, f, k, t] => showExcept showFloat (sabr_shifted p0 p1 p2 p3 p4 f k t)
    | _, _ => "bad-op"
  | "caplet" :: n :: rest =>
    match n.toNat?, floats? rest with
    | some n, some xs =>
      if xs.length != 2 * n then "bad-op"
      else showExcept showFloats (capletVols Float.sqrt (xs.take n) (xs.drop n))
    | _, _ => "bad-op"
  | "cubic" :: rest =>
    match floats? rest with
    | some [alpha, beta, rho, nu, k, t, bv] =>
      let c := sabr_atm_cubic bv k t beta rho nu
      showFloat (((c.1 * alpha + c.2.1) * alpha + c.2.2.1) * alpha + c.2.2.2)
    | _ => "bad-op"
  | "select" :: n :: rest =>
    match n.toNat?, floats? rest with
    | some n, some xs =>
      if xs.length != 2 * n then "bad-op"
      else showExcept showFloat (selectAlpha (1e-10 : Float) (1.0 : Float) ((xs.take n).zip (xs.drop n)))
    | _, _ => "bad-op"
  | "capletvol" :: n :: rest =>      -- IborCapVolCurve.caplet_vol(t): n times, n gammas, t
    match n.toNat?, floats? rest with
    | some n, some xs =>
      if xs.length != 2 * n + 1 then "bad-op"
      else showExcept showFloat (capletVolAt (xs.take n) ((xs.drop n).take n) (xs.getD (2 * n) 0.0))
    | _, _ => "bad-op"
  | "capvol" :: n :: rest =>         -- IborCapVolCurve.cap_vol(t): n times, n cap sigmas, t
    match n.toNat?, floats? rest with
    | some n, some xs =>
      if xs.length != 2 * n + 1 then "bad-op"
      else showExcept showFloat (capVolAt (xs.take n) ((xs.drop n).take n) (xs.getD (2 * n) 0.0))
    | _, _ => "bad-op"
  | "sobj" :: which :: rest =>       -- objective of the single-strike alpha solve: black_vol, model_vol
    match which, floats? rest with
    | "sabr", some [bv, mv] => showFloat (sabr_strike_objective bv mv)
    | "shifted", some [bv, mv] => showFloat (sabr_shifted_strike_objective bv mv)
    | _, _ => "bad-op"
  | _ => "bad-op"

def main : IO Unit := loop step
