/- Model driver for the Black–Scholes kernels: the Float instantiation of the GENERATED code. -/
import FinVerif.Driver.Util
import FinVerif.Gen.BSF
open FinVerif FinVerif.Driver FinVerif.Gen.BSF

def seven (f : Float → Float → Float → Float → Float → Float → Int → Except PyErr Float)
    (args : List String) : String :=
  match args with
  | [s, t, k, r, q, v, ty] =>
    match floats? [s, t, k, r, q, v], int? ty with
    | some [s, t, k, r, q, v], some ty => showExcept showFloat (f s t k r q v ty)
    | _, _ => "bad-op"
  | _ => "bad-op"

def step (t : List String) : String :=
  match t with
  | "bs_value" :: a => seven bs_value a
  | "bs_delta" :: a => seven bs_delta a
  | "bs_gamma" :: a => seven (fun s t k r q v ty => .ok (bs_gamma s t k r q v ty)) a
  | "bs_vega" :: a => seven (fun s t k r q v ty => .ok (bs_vega s t k r q v ty)) a
  | "bs_theta" :: a => seven bs_theta a
  | "bs_rho" :: a => seven bs_rho a
  | "bs_vanna" :: a => seven (fun s t k r q v ty => .ok (bs_vanna s t k r q v ty)) a
  | ["N", x] => match float? x with | some x => showFloat (N x) | none => "bad-op"
  | _ => "bad-op"

def main : IO Unit := loop step
