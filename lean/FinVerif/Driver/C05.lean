/- Model driver for the Black–Scholes family: the Float instantiation of the GENERATED code (`Gen/BSF.lean`)
   plus the hand-modelled class glue (rate extraction from discount factors, time floor, num_options).
   One op per line: `<op> <float bits>* <int>*`. -/
import FinVerif.Driver.Util
import FinVerif.Gen.BSF
open FinVerif FinVerif.Driver FinVerif.Gen.BSF

abbrev R := Except PyErr Float

/-- split the arguments into `nf` floats (bit patterns) followed by `ni` ints -/
def parse (nf ni : Nat) (args : List String) : Option (List Float × List Int) :=
  if args.length ≠ nf + ni then none else
  match floats? (args.take nf), ints? (args.drop nf) with
  | some fs, some is => some (fs, is)
  | _, _ => none

def seven (f : Float → Float → Float → Float → Float → Float → Int → R) (args : List String) : String :=
  match parse 6 1 args with
  | some ([s, t, k, r, q, v], [ty]) => showExcept showFloat (f s t k r q v ty)
  | _ => "bad-op"

def six (f : Float → Float → Float → Float → Float → Int → R) (args : List String) : String :=
  match parse 5 1 args with
  | some ([a, b, c, d, e], [ty]) => showExcept showFloat (f a b c d e ty)
  | _ => "bad-op"

/-- `Black.value/delta/gamma/theta/vega(forward, strike, t, df, type)`: `r = -log(df)/t`, then the helper. -/
def blackGlue (f : Float → Float → Float → Float → Float → Int → R) (args : List String) : String :=
  match parse 5 1 args with
  | some ([fwd, k, t, df, v], [ty]) =>
    let r := (-(Float.log df)) / t
    showExcept showFloat (f fwd t k r v ty)
  | _ => "bad-op"

/-- `EquityVanillaOption.<greek>(value_dt, s, discount_curve, dividend_curve, model)`:
    `t = max((expiry - value)/365, 1e-10)`, `r = -log(df)/t`, `q = -log(dq)/t`, then `bs_<greek>`;
    `value` is multiplied by `num_options` (the Greeks are not, as coded). -/
def vanillaGlue (f : Float → Float → Float → Float → Float → Float → Int → R) (scaled : Bool)
    (args : List String) : String :=
  match parse 7 1 args with
  | some ([s, traw, df, dq, k, v, nopt], [ty]) =>
    let t := fmax traw 1e-10
    let r := (-(Float.log df)) / t
    let q := (-(Float.log dq)) / t
    showExcept showFloat (do
      let x ← f s t k r q v ty
      pure (if scaled then x * nopt else x))
  | _ => "bad-op"

def step (t : List String) : String :=
  match t with
  | "bs_value" :: a => seven bs_value a
  | "bs_delta" :: a => seven bs_delta a
  | "bs_gamma" :: a => seven (fun s t k r q v ty => .ok (bs_gamma s t k r q v ty)) a
  | "bs_vega" :: a => seven (fun s t k r q v ty => .ok (bs_vega s t k r q v ty)) a
  | "bs_theta" :: a => seven bs_theta a
  | "bs_rho" :: a => seven bs_rho a
  | "bs_vanna" :: a => seven (fun s t k r q v ty => .ok (bs_vanna s t k r q v ty)) a
  | "bs_intrinsic" :: a =>
    (match parse 5 1 a with
     | some ([s, t, k, r, q], [ty]) => showFloat (bs_intrinsic s t k r q ty)
     | _ => "bad-op")
  | "black_value" :: a => six black_value a
  | "black_delta" :: a => six black_delta a
  | "black_gamma" :: a => six black_gamma a
  | "black_vega" :: a => six black_vega a
  | "black_theta" :: a => six black_theta a
  | "Black.value" :: a => blackGlue black_value a
  | "Black.delta" :: a => blackGlue black_delta a
  | "Black.gamma" :: a => blackGlue black_gamma a
  | "Black.vega" :: a => blackGlue black_vega a
  | "Black.theta" :: a => blackGlue black_theta a
  | "van.value" :: a => vanillaGlue bs_value true a
  | "van.delta" :: a => vanillaGlue bs_delta false a
  | "van.gamma" :: a => vanillaGlue (fun s t k r q v ty => .ok (bs_gamma s t k r q v ty)) false a
  | "van.vega" :: a => vanillaGlue (fun s t k r q v ty => .ok (bs_vega s t k r q v ty)) false a
  | "van.theta" :: a => vanillaGlue bs_theta false a
  | "van.rho" :: a => vanillaGlue bs_rho false a
  | "van.vanna" :: a => vanillaGlue (fun s t k r q v ty => .ok (bs_vanna s t k r q v ty)) false a
  | "bshift" :: a =>
    (match parse 6 1 a with
     | some ([f, k, t, df, shift, vol], [ty]) => showExcept showFloat (black_shifted_value f k t df ty shift vol)
     | _ => "bad-op")
  | "bach" :: a =>
    (match parse 5 1 a with
     | some ([f, k, t, df, vol], [ty]) => showExcept showFloat (bachelier_value f k t df ty vol)
     | _ => "bad-op")
  | "digital" :: a =>
    (match parse 6 2 a with
     | some ([s, traw, df, dq, barrier, vol], [cp, dt]) =>
       showExcept showFloat (digital_value s traw df dq barrier vol cp dt)
     | _ => "bad-op")
  | ["N", x] => match float? x with | some x => showFloat (N x) | none => "bad-op"
  | ["ncdf", x] => match float? x with | some x => showFloat (normCdf x) | none => "bad-op"
  | ["npdf", x] => match float? x with | some x => showFloat (normPdf x) | none => "bad-op"
  | _ => "bad-op"

def main : IO Unit := loop step
