/- Model driver for C06: the Float instantiation of the hand-written model `FinVerif.Model.C06`. -/
import FinVerif.Driver.C06Common
open FinVerif FinVerif.Driver FinVerif.Driver.C06P FinVerif.Spec.C06 FinVerif.Model.C06

/-- `g_small` of utils/global_vars.py (the generated `swap_swap_rate` carries the same literal; `swapRate_is_generated`) -/
def gSmall : Float := 1e-12

def showSt (isPay : Bool) (st : LoopSt Float) : String :=
  showFloat (applySign isPay st.pv) ++ " " ++ showRows st.rows

def opGen : P String := do
  let lag ← pInt
  let sched ← pList pInt
  let yfs ← pList (do let a ← pInt; let b ← pInt; let y ← pFloat; pure (a, b, y))
  let bds ← pList (do let d ← pInt; let r ← pInt; pure (d, r))
  let yf : Int → Int → Float := fun a b =>
    match yfs.find? (fun e => e.1 == a && e.2.1 == b) with | some e => e.2.2 | none => nan
  let addBD : Int → Int → Int := fun d _ =>
    match bds.find? (fun e => e.1 == d) with | some e => e.2 | none => -1
  let ps := genPeriods yf addBD lag sched
  pure (" ".intercalate (ps.map (fun p => s!"{p.start} {p.stop} {p.pay} {showFloat p.yf}")))

def opFix : P String := do
  let isPay ← pBool; let cpn ← pFloat; let n ← pFloat; let pr ← pFloat; let vd ← pInt
  let ps ← pList pPeriod
  let df ← pCurve
  let leg := mkFixedLeg cpn n pr isPay ps
  if ps.isEmpty then pure "E:Other" else
  pure (showSt isPay (fixedState df leg vd))

def opFlt : P String := do
  let isPay ← pBool; let spread ← pFloat; let n ← pFloat; let pr ← pFloat; let vd ← pInt
  let ff ← pOptFloat
  let fps ← pList pFPeriod
  let df ← pCurve
  let dfI ← pCurve
  let leg : FloatLeg Float := { periods := fps.map (·.1), notionals := fps.map (·.2.2), notional := n,
                                spread := spread, principal := pr, isPay := isPay }
  if fps.isEmpty then pure "E:Other" else
  pure (showSt isPay (floatState df (idxOf dfI fps) ff leg vd))

def opSwp : P String := do
  let fixedIsPay ← pBool; let cpn ← pFloat; let n ← pFloat; let spread ← pFloat; let vd ← pInt
  let ff ← pOptFloat
  let fixedPs ← pList pPeriod
  let fps ← pList pFPeriod
  let df ← pCurve
  let dfI ← pCurve
  let s := mkSwap fixedIsPay cpn n spread fixedPs (fps.map (·.1))
  let idx := idxOf dfI fps
  let v := swapValue df idx ff s vd
  let vf := fixedValue df s.fixed vd
  let vl := floatValue df idx ff s.float vd
  let p01 := pv01 Float.abs df s vd
  let sr := swapRate Float.abs gSmall df idx ff s vd
  let osr := oisSwapRate Float.abs df idx ff s vd
  let atPar := match sr with
    | .ok r => showFloat (swapValue df idx ff (setFixedRate s r) vd)
    | .error e => "E:" ++ e.tag
  let atParOis := swapValue df idx ff (setFixedRate s osr) vd
  pure (showFloats [v, vf, vl, p01] ++ " " ++ showExcept showFloat sr ++ " " ++ showFloat osr ++ " "
        ++ atPar ++ " " ++ showFloat atParOis)

def opBas : P String := do
  let leg1IsPay ← pBool; let s1 ← pFloat; let s2 ← pFloat; let n ← pFloat; let vd ← pInt
  let ff1 ← pOptFloat; let ff2 ← pOptFloat
  let f1 ← pList pFPeriod
  let f2 ← pList pFPeriod
  let df ← pCurve; let dfI1 ← pCurve; let dfI2 ← pCurve
  let l1 := mkFloatLeg s1 n 0 leg1IsPay (f1.map (·.1))
  let l2 := mkFloatLeg s2 n 0 (!leg1IsPay) (f2.map (·.1))
  pure (showFloat (basisSwapValue df (idxOf dfI1 f1) (idxOf dfI2 f2) ff1 ff2 l1 l2 vd))

def opDep : P String := do
  let start ← pInt; let mat ← pInt; let yf ← pFloat; let r ← pFloat; let n ← pFloat; let vd ← pInt
  let df ← pCurve
  pure (showExcept showFloat (depositValue df start mat yf r n vd))

def opFra : P String := do
  let start ← pInt; let mat ← pInt; let yf ← pFloat; let k ← pFloat; let n ← pFloat
  let payFixed ← pBool; let vd ← pInt
  let df ← pCurve; let dfI ← pCurve
  pure (showFloat (fraValue df dfI start mat yf k n payFixed vd))

/-- `EQL isPay strike qty hasCur cur vd n (start stop pay yf ia)* df dfI dvd` → value and the rows of the cached tables -/
def opEql : P String := do
  let isPay ← pBool; let strike ← pFloat; let qty ← pFloat; let cur ← pOptFloat; let vd ← pInt
  let eps ← pList pEPeriod
  let df ← pCurve; let dfI ← pCurve; let dvd ← pCurve
  let leg : EqLeg Float := { periods := eps.map (·.1), strike := strike, qty := qty, isPay := isPay }
  let idx := idxOfTable dfI (eps.map (fun e => (e.1.start, e.1.stop, e.2)))
  let st := eqState df idx dvd cur leg vd
  pure (showFloat (applySign isPay st.pv) ++ " " ++ showEqRows st.rows)

/-- `EQS eqIsPay strike qty spread eqFreq rateFreq hasCur cur hasFf ff vd n (eq periods)* m (rate periods)* df dfI dvd`
→ `value eqLeg rateLeg k notional_array…` or the error of `_fill_rate_notional_array` -/
def opEqs : P String := do
  let eqIsPay ← pBool; let strike ← pFloat; let qty ← pFloat; let spread ← pFloat
  let eqFreq ← pNat; let rateFreq ← pNat
  let cur ← pOptFloat; let ff ← pOptFloat; let vd ← pInt
  let eps ← pList pEPeriod
  let fps ← pList pFPeriod
  let df ← pCurve; let dfI ← pCurve; let dvd ← pCurve
  let s := mkEqSwap eqIsPay strike qty spread eqFreq rateFreq (eps.map (·.1)) (fps.map (·.1))
  let idx := idxOfTable dfI (eps.map (fun e => (e.1.start, e.1.stop, e.2)) ++ fps.map (fun e => (e.1.start, e.1.stop, e.2.1)))
  let st := eqState df idx dvd cur s.eq vd
  match fillRateNotionals eqFreq rateFreq (s.eq.periods.map (·.stop)) (eqLastNotionals st) (s.rate.periods.map (·.start)) with
  | .error e => pure ("E:" ++ e.tag)
  | .ok arr =>
    if arr.length < fps.length then pure "E:IndexError" else
    let ev := applySign eqIsPay st.pv
    let rv := floatValue df idx ff { s.rate with notionals := arr } vd
    match eqSwapValue df idx dvd cur ff s vd with
    | .error e => pure ("E:" ++ e.tag)
    | .ok v => pure (showFloats ([v, ev, rv] ++ arr))

/-- `CSH n payDts… eff vd alpha r` → `IborSwap.cash_settled_pv01` -/
def opCsh : P String := do
  let pays ← pList pInt; let eff ← pInt; let vd ← pInt; let alpha ← pFloat; let r ← pFloat
  pure (showExcept showFloat (cashSettledPv01 pays eff vd alpha r))

def step (t : List String) : String :=
  let r := match t with
    | "GEN" :: a => run opGen a
    | "FIX" :: a => run opFix a
    | "FLT" :: a => run opFlt a
    | "SWP" :: a => run opSwp a
    | "BAS" :: a => run opBas a
    | "DEP" :: a => run opDep a
    | "FRA" :: a => run opFra a
    | "EQL" :: a => run opEql a
    | "EQS" :: a => run opEqs a
    | "CSH" :: a => run opCsh a
    | _ => none
  r.getD "bad-op"

def main : IO Unit := loop step
