/- Model driver for C06: the Float instantiation of the hand-written model `FinVerif.Model.C06`. -/
import FinVerif.Driver.C06Parse
import FinVerif.Model.C06
open FinVerif FinVerif.Driver FinVerif.Driver.C06P FinVerif.Spec.C06 FinVerif.Model.C06

def gSmall : Float := 1e-10

def showRows (rows : List (Row Float)) : String :=
  " ".intercalate (rows.map (fun r => showFloats [r.rate, r.amount, r.df, r.pv, r.cum]))

def showSt (isPay : Bool) (st : LoopSt Float) : String :=
  showFloat (applySign isPay st.pv) ++ " " ++ showRows st.rows

/-- float periods: `start stop pay yf indexAlpha notional` -/
def pFPeriod : P (Period Float × Float × Float) := do
  let p ← pPeriod; let ia ← pFloat; let n ← pFloat
  pure (p, ia, n)

def idxOf (dfI : Int → Float) (fps : List (Period Float × Float × Float)) : IndexCurve Float :=
  { df := dfI,
    yf := fun a b => match fps.find? (fun e => e.1.start == a && e.1.stop == b) with
      | some e => e.2.1 | none => nan }

def pOptFloat : P (Option Float) := do
  let has ← pBool; let v ← pFloat
  pure (if has then some v else none)

def opGen : P String := do
  let lag ← pInt
  let sched ← pList pInt
  let yfs ← pList (do let a ← pInt; let b ← pInt; let y ← pFloat; pure (a, b, y))
  let bds ← pList (do let d ← pInt; let r ← pInt; pure (d, r))
  let yf : Int → Int → Float := fun a b =>
    match yfs.find? (fun e => e.1 == a && e.2.1 == b) with | some e => e.2.2 | none => nan
  let addBD : Int → Int → Int := fun d _ =>
    match bds.find? (fun e => e.1 == d) with | some e => e.2 | none => -1
  let ps := genPeriods yf addBD lag sched
  pure (" ".intercalate (ps.map (fun p => s!"{p.start} {p.stop} {p.pay} {showFloat p.yf}")))

def opFix : P String := do
  let isPay ← pBool; let cpn ← pFloat; let n ← pFloat; let pr ← pFloat; let vd ← pInt
  let ps ← pList pPeriod
  let df ← pCurve
  let leg := mkFixedLeg cpn n pr isPay ps
  if ps.isEmpty then pure "E:Other" else
  pure (showSt isPay (fixedState df leg vd))

def opFlt : P String := do
  let isPay ← pBool; let spread ← pFloat; let n ← pFloat; let pr ← pFloat; let vd ← pInt
  let ff ← pOptFloat
  let fps ← pList pFPeriod
  let df ← pCurve
  let dfI ← pCurve
  let leg : FloatLeg Float := { periods := fps.map (·.1), notionals := fps.map (·.2.2), notional := n,
                                spread := spread, principal := pr, isPay := isPay }
  if fps.isEmpty then pure "E:Other" else
  pure (showSt isPay (floatState df (idxOf dfI fps) ff leg vd))

def opSwp : P String := do
  let fixedIsPay ← pBool; let cpn ← pFloat; let n ← pFloat; let spread ← pFloat; let vd ← pInt
  let ff ← pOptFloat
  let fixedPs ← pList pPeriod
  let fps ← pList pFPeriod
  let df ← pCurve
  let dfI ← pCurve
  let s := mkSwap fixedIsPay cpn n spread fixedPs (fps.map (·.1))
  let idx := idxOf dfI fps
  let v := swapValue df idx ff s vd
  let vf := fixedValue df s.fixed vd
  let vl := floatValue df idx ff s.float vd
  let p01 := pv01 Float.abs df s vd
  let sr := swapRate Float.abs gSmall df idx ff s vd
  let osr := oisSwapRate Float.abs df idx ff s vd
  let atPar := match sr with
    | .ok r => showFloat (swapValue df idx ff (setFixedRate s r) vd)
    | .error e => "E:" ++ e.tag
  let atParOis := swapValue df idx ff (setFixedRate s osr) vd
  pure (showFloats [v, vf, vl, p01] ++ " " ++ showExcept showFloat sr ++ " " ++ showFloat osr ++ " "
        ++ atPar ++ " " ++ showFloat atParOis)

def opBas : P String := do
  let leg1IsPay ← pBool; let s1 ← pFloat; let s2 ← pFloat; let n ← pFloat; let vd ← pInt
  let ff1 ← pOptFloat; let ff2 ← pOptFloat
  let f1 ← pList pFPeriod
  let f2 ← pList pFPeriod
  let df ← pCurve; let dfI1 ← pCurve; let dfI2 ← pCurve
  let l1 := mkFloatLeg s1 n 0 leg1IsPay (f1.map (·.1))
  let l2 := mkFloatLeg s2 n 0 (!leg1IsPay) (f2.map (·.1))
  pure (showFloat (basisSwapValue df (idxOf dfI1 f1) (idxOf dfI2 f2) ff1 ff2 l1 l2 vd))

def opDep : P String := do
  let start ← pInt; let mat ← pInt; let yf ← pFloat; let r ← pFloat; let n ← pFloat; let vd ← pInt
  let df ← pCurve
  pure (showExcept showFloat (depositValue df start mat yf r n vd))

def opFra : P String := do
  let start ← pInt; let mat ← pInt; let yf ← pFloat; let k ← pFloat; let n ← pFloat
  let payFixed ← pBool; let vd ← pInt
  let df ← pCurve; let dfI ← pCurve
  pure (showFloat (fraValue df dfI start mat yf k n payFixed vd))

def step (t : List String) : String :=
  let r := match t with
    | "GEN" :: a => run opGen a
    | "FIX" :: a => run opFix a
    | "FLT" :: a => run opFlt a
    | "SWP" :: a => run opSwp a
    | "BAS" :: a => run opBas a
    | "DEP" :: a => run opDep a
    | "FRA" :: a => run opFra a
    | _ => none
  r.getD "bad-op"

def main : IO Unit := loop step
