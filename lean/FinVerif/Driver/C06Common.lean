/- Helpers shared by the C06 model driver (`Driver/C06`, hand model) and the C06 generated-loop driver
(`Driver/C06Gen`, folds of the functions generated from the source). -/
import FinVerif.Driver.C06Parse
import FinVerif.Model.C06x

namespace FinVerif.Driver.C06P
open FinVerif FinVerif.Driver FinVerif.Spec.C06 FinVerif.Model.C06

def showRows (rows : List (Row Float)) : String :=
  " ".intercalate (rows.map (fun r => showFloats [r.rate, r.amount, r.df, r.pv, r.cum]))

def showEqRows (rows : List (EqRow Float)) : String :=
  " ".intercalate (rows.map (fun r => showFloats [r.fwd, r.divFwd, r.eqFwd, r.lastN, r.amount, r.df, r.pv, r.cum]))

/-- float periods: `start stop pay yf indexAlpha notional` -/
def pFPeriod : P (Period Float × Float × Float) := do
  let p ← pPeriod; let ia ← pFloat; let n ← pFloat
  pure (p, ia, n)

/-- equity periods: `start stop pay yf indexAlpha` -/
def pEPeriod : P (Period Float × Float) := do
  let p ← pPeriod; let ia ← pFloat
  pure (p, ia)

/-- index curve: discount factors + the index-basis year fraction as a table over the accrual periods supplied -/
def idxOfTable (dfI : Int → Float) (tbl : List (Int × Int × Float)) : IndexCurve Float :=
  { df := dfI,
    yf := fun a b => match tbl.find? (fun e => e.1 == a && e.2.1 == b) with
      | some e => e.2.2 | none => nan }

def idxOf (dfI : Int → Float) (fps : List (Period Float × Float × Float)) : IndexCurve Float :=
  idxOfTable dfI (fps.map (fun e => (e.1.start, e.1.stop, e.2.1)))

def pOptFloat : P (Option Float) := do
  let has ← pBool; let v ← pFloat
  pure (if has then some v else none)

end FinVerif.Driver.C06P
