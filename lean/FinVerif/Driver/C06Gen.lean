/- Generated-loop driver for C06: folds the functions that the translator generates from the source
(`Gen/SwapsF.lean`: loop bodies and after-loop blocks of SwapFixedLeg.value, SwapFloatLeg.value, EquitySwapLeg.value)
over the same inputs the hand model's ops FIX / FLT / EQL receive, and answers in the same format.
Only the fold skeleton (initial values, the order of the periods, which row is patched) is written here. -/
import FinVerif.Driver.C06Common
import FinVerif.Gen.SwapsF
open FinVerif FinVerif.Driver FinVerif.Driver.C06P FinVerif.Spec.C06 FinVerif.Model.C06
open FinVerif.Gen

def patchRow (rows : List (Row Float)) (pv cum : Float) : List (Row Float) :=
  match rows.reverse with
  | [] => []
  | r :: rs => (({ r with pv := pv, cum := cum } : Row Float) :: rs).reverse

/-- same payload as `FIX` -/
def opGfx : P String := do
  let isPay ← pBool; let cpn ← pFloat; let n ← pFloat; let pr ← pFloat; let vd ← pInt
  let ps ← pList pPeriod
  let df ← pCurve
  if ps.isEmpty then pure "E:Other" else
  let dfv := df vd
  let init : Float × Float × List (Row Float) := (0.0, 0.0, [])
  let st := ps.foldl (fun acc p =>
    let amt := p.yf * n * cpn          -- generate_payments: `payment = year_frac * self.notional * self.cpn`
    let g := SwapsF.fixed_leg_step vd dfv acc.1 acc.2.1 p.pay amt (df p.pay)
    (g.1, g.2.1, acc.2.2 ++ [(⟨0.0, amt, g.2.2.1, g.2.2.2.1, g.2.2.2.2⟩ : Row Float)])) init
  match ps.getLast?, st.2.2.getLast? with
  | some pl, some r =>
    let t := SwapsF.fixed_leg_tail vd pl.pay st.1 st.2.1 n r.pv r.cum isPay pr
    pure (showFloat t.1 ++ " " ++ showRows (patchRow st.2.2 t.2.1 t.2.2))
  | _, _ => pure "E:Other"

/-- same payload as `FLT` -/
def opGfl : P String := do
  let isPay ← pBool; let spread ← pFloat; let _n ← pFloat; let pr ← pFloat; let vd ← pInt
  let ff ← pOptFloat
  let fps ← pList pFPeriod
  let df ← pCurve
  let dfI ← pCurve
  if fps.isEmpty then pure "E:Other" else
  let dfv := df vd
  let init : Float × Float × Bool × List (Row Float) := (0.0, 0.0, false, [])
  let st := fps.foldl (fun acc e =>
    let p := e.1
    let g := SwapsF.float_leg_step vd dfv ff.isSome (ff.getD 0.0) acc.1 acc.2.1 acc.2.2.1 p.pay p.yf e.2.1
              (dfI p.start) (dfI p.stop) e.2.2 (df p.pay) spread
    (g.1, g.2.1, g.2.2.1,
     acc.2.2.2 ++ [(⟨g.2.2.2.1, g.2.2.2.2.1, g.2.2.2.2.2.1, g.2.2.2.2.2.2.1, g.2.2.2.2.2.2.2⟩ : Row Float)])) init
  match fps.getLast?, st.2.2.2.getLast? with
  | some el, some r =>
    let t := SwapsF.float_leg_tail vd el.1.pay st.1 st.2.1 el.2.2 r.pv r.cum isPay pr
    pure (showFloat t.1 ++ " " ++ showRows (patchRow st.2.2.2 t.2.1 t.2.2))
  | _, _ => pure "E:Other"

/-- same payload as `EQL` -/
def opGeq : P String := do
  let isPay ← pBool; let strike ← pFloat; let qty ← pFloat; let cur ← pOptFloat; let vd ← pInt
  let eps ← pList pEPeriod
  let df ← pCurve; let dfI ← pCurve; let dvd ← pCurve
  let dfv := df vd
  let notional := strike * qty
  let price := cur.getD strike
  let init : Float × Float × Float × Float × List (EqRow Float) := (0.0, 0.0, notional, notional, [])
  let st := eps.foldl (fun acc e =>
    let p := e.1
    let g := SwapsF.equity_leg_step vd dfv acc.1 acc.2.1 acc.2.2.1 acc.2.2.2.1 p.pay p.yf e.2
              (dfI p.start) (dfI p.stop) (dvd p.start) (dvd p.stop) (df p.pay) price qty notional
    (g.1, g.2.1, g.2.2.1, g.2.2.2.1,
     acc.2.2.2.2 ++ [(⟨g.2.2.2.2.1, g.2.2.2.2.2.1, g.2.2.2.2.2.2.1, g.2.2.2.2.2.2.2.1, g.2.2.2.2.2.2.2.2.1,
                       g.2.2.2.2.2.2.2.2.2.1, g.2.2.2.2.2.2.2.2.2.2.1, g.2.2.2.2.2.2.2.2.2.2.2⟩ : EqRow Float)])) init
  pure (showFloat (SwapsF.equity_leg_tail st.1 isPay) ++ " " ++ showEqRows st.2.2.2.2)

/-- `GSR pv cpn notional floatPv floatIsPay floatNotional` → generated `IborSwap.pv01`, `swap_rate`, `OIS.swap_rate`,
`valuation_details` market rate on the given leg values -/
def opGsr : P String := do
  let pv ← pFloat; let cpn ← pFloat; let n ← pFloat; let fl ← pFloat; let flPay ← pBool; let fn ← pFloat
  let p01 := SwapsF.swap_pv01 pv cpn n
  let sr := SwapsF.swap_swap_rate p01 fl flPay fn
  let osr := SwapsF.ois_swap_rate (SwapsF.ois_pv01 pv cpn n) fl flPay n
  let det := SwapsF.swap_details_rate pv fl flPay cpn n fn
  pure (showFloat p01 ++ " " ++ showExcept showFloat sr ++ " " ++ showFloat osr ++ " " ++ showFloat det.2)

def step (t : List String) : String :=
  let r := match t with
    | "GFX" :: a => run opGfx a
    | "GFL" :: a => run opGfl a
    | "GEQ" :: a => run opGeq a
    | "GSR" :: a => run opGsr a
    | _ => none
  r.getD "bad-op"

def main : IO Unit := loop step
