/- Token-stream parser shared by the C06 model driver and the C06 spec driver. -/
import FinVerif.Driver.Util
import FinVerif.Spec.C06

namespace FinVerif.Driver.C06P
open FinVerif FinVerif.Driver FinVerif.Spec.C06

abbrev P := StateT (List String) Option

def tok : P String := do
  match (← get) with
  | [] => failure
  | t :: ts => set ts; pure t

def pInt : P Int := do
  match (← tok).toInt? with
  | some i => pure i
  | none => failure

def pNat : P Nat := do
  let i ← pInt
  if i < 0 then failure else pure i.toNat

def pBool : P Bool := do pure ((← pInt) ≠ 0)

def pFloat : P Float := do
  match float? (← tok) with
  | some x => pure x
  | none => failure

def pMany {β} (n : Nat) (p : P β) : P (List β) :=
  match n with
  | 0 => pure []
  | n + 1 => do
    let x ← p
    let xs ← pMany n p
    pure (x :: xs)

/-- `n` then `n` items. -/
def pList {β} (p : P β) : P (List β) := do
  let n ← pNat
  pMany n p

def nan : Float := 0.0 / 0.0

/-- A curve as a function: table lookup by date; NaN where the harness supplied nothing (so a model
that reads a discount factor the implementation did not read is noticed). -/
def pCurve : P (Int → Float) := do
  let tbl ← pList (do let d ← pInt; let v ← pFloat; pure (d, v))
  pure (fun d => match tbl.find? (fun e => e.1 == d) with | some e => e.2 | none => nan)

def pPeriod : P (Period Float) := do
  let a ← pInt; let b ← pInt; let p ← pInt; let y ← pFloat
  pure { start := a, stop := b, pay := p, yf := y }

def run {β} (p : P β) (toks : List String) : Option β :=
  match p.run toks with
  | some (x, []) => some x
  | _ => none

end FinVerif.Driver.C06P
