/- Spec driver for C06: evaluates only `FinVerif.Spec.C06` (no model, nothing generated), at Float. -/
import FinVerif.Driver.C06Parse
open FinVerif FinVerif.Driver FinVerif.Driver.C06P FinVerif.Spec.C06

def pFlow : P (Flow Float) := do
  let pay ← pInt; let a ← pFloat; let r ← pFloat; let n ← pFloat
  pure ⟨pay, a, r, n⟩

/-- `PV isPay vd n (pay accrual rate notional)* k (date df)*` → signed Σ accrual·rate·notional·df(pay)/df(vd). -/
def opPv : P String := do
  let isPay ← pBool; let vd ← pInt
  let flows ← pList pFlow
  let df ← pCurve
  pure (showFloat (signed isPay (pv df vd flows)))

def step (t : List String) : String :=
  let r := match t with
    | "PV" :: a => run opPv a
    | _ => none
  r.getD "bad-op"

def main : IO Unit := loop step
