/- Spec driver for C06: evaluates only `FinVerif.Spec.C06` (no model, nothing generated), at Float. -/
import FinVerif.Driver.C06Parse
import FinVerif.Spec.C06x
open FinVerif FinVerif.Driver FinVerif.Driver.C06P FinVerif.Spec.C06

def pFlow : P (Flow Float) := do
  let pay ← pInt; let a ← pFloat; let r ← pFloat; let n ← pFloat
  pure ⟨pay, a, r, n⟩

/-- `PV isPay vd n (pay accrual rate notional)* k (date df)*` → signed Σ accrual·rate·notional·df(pay)/df(vd). -/
def opPv : P String := do
  let isPay ← pBool; let vd ← pInt
  let flows ← pList pFlow
  let df ← pCurve
  pure (showFloat (signed isPay (pv df vd flows)))

/-- `EQ isPay vd price qty L0 n (start stop pay yf ia)* df dfI dvd` → signed Σ of the equity leg's flows (`eqFlows`). -/
def opEq : P String := do
  let isPay ← pBool; let vd ← pInt; let price ← pFloat; let qty ← pFloat; let l0 ← pFloat
  let eps ← pList (do let p ← pPeriod; let ia ← pFloat; pure (p, ia))
  let df ← pCurve; let dfI ← pCurve; let dvd ← pCurve
  let iyf : Int → Int → Float := fun a b =>
    match eps.find? (fun e => e.1.start == a && e.1.stop == b) with | some e => e.2 | none => nan
  pure (showFloat (signed isPay (pv df vd (eqFlows dfI iyf dvd price qty vd 1.0 l0 (eps.map (·.1))))))

/-- `RN s n (start stop notional)*` → the notional a floating period starting on `s` accrues on (`rateNotional`: the
reset notional of the equity period with `start ≤ s < stop`), `none` outside every period. -/
def opRn : P String := do
  let s ← pInt
  let eqs ← pList (do let a ← pInt; let b ← pInt; let n ← pFloat; pure (({ start := a, stop := b, pay := b, yf := 0.0 } : Period Float), n))
  pure (match rateNotional eqs s with | some x => showFloat x | none => "none")

def step (t : List String) : String :=
  let r := match t with
    | "PV" :: a => run opPv a
    | "EQ" :: a => run opEq a
    | "RN" :: a => run opRn a
    | _ => none
  r.getD "bad-op"

def main : IO Unit := loop step
