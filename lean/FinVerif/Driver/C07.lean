/- Model driver for C07: the Float instantiation of the hand-written bond model (`Model/C07Bond.lean`).
   (The GENERATED formulas `Gen/BondF.lean` are driven by `Driver/C07Gen.lean`, so that a source edit the translator
   cannot follow does not take this driver down with it.)
   Integers are decimal, floats are IEEE bit patterns. -/
import FinVerif.Driver.Util
import FinVerif.Model.C07Bond
open FinVerif FinVerif.Driver FinVerif.Model.C07

def nat? (s : String) : Option Nat := s.toNat?

def showEF (e : Except PyErr Float) : String := showExcept showFloat e

/-- split `k` leading tokens -/
def takeInts (k : Nat) (l : List String) : Option (List Int × List String) :=
  if l.length < k then none else (ints? (l.take k)).map (fun a => (a, l.drop k))

def pairs : List Float → List (Float × Float)
  | a :: b :: rest => (a, b) :: pairs rest
  | _ => []

def nanF : Float := 0.0 / 0.0


def step (t : List String) : String :=
  match t with
  -- BOND conv nd d0..d_{nd-1} settle exdiv | c f ytm face accf alphaCf
  | "BOND" :: conv :: nd :: rest =>
    match nat? conv, nat? nd with
    | some conv, some nd =>
      match takeInts (nd + 2) rest with
      | some (is, fl) =>
        match floats? fl with
        | some [c, f, ytm, face, accf, alphaCf] =>
          let dates := is.take nd
          let settle := is.getD nd 0
          let exdivDt := is.getD (nd + 1) 0
          let exDiv := decide (settle > exdivDt)
          let idx := match ncdIndex dates settle with | some i => toString i | none => "none"
          let n := flowsAfter dates settle
          let a1 : Accr Float := accruedInterest accf f c 1.0 exDiv
          let af : Accr Float := accruedInterest accf f c face exDiv
          let dp := dirtyPriceFromYtm conv n c f ytm a1.alpha (payFirst exDiv) alphaCf
          let cp := cleanPriceFromYtm conv n c f ytm accf alphaCf exDiv
          s!"{idx} {n} {showFloat a1.alpha} {showFloat af.accrued} {showEF dp} {showEF cp}"
        | _ => "bad-op"
      | none => "bad-op"
    | _, _ => "bad-op"
  -- CURVE nd d0..d_{nd-1} settle exdiv | df0..df_{nd-1} dfSettle c f
  | "CURVE" :: nd :: rest =>
    match nat? nd with
    | some nd =>
      match takeInts (nd + 2) rest with
      | some (is, fl) =>
        match floats? fl with
        | some fs =>
          if fs.length ≠ nd + 3 then "bad-op" else
          let dates := is.take nd
          let settle := is.getD nd 0
          let exdivDt := is.getD (nd + 1) 0
          let sched := dates.zip (fs.take nd)
          showEF (dirtyPriceFromCurve sched settle (decide (settle > exdivDt)) (fs.getD nd 1.0)
            (fs.getD (nd + 1) 0.0) (fs.getD (nd + 2) 1.0))
        | none => "bad-op"
      | none => "bad-op"
    | none => "bad-op"
  -- RISK conv n | c f ytm alpha pay alphaCf  →  dollar modified macauley convexity
  | ["RISK", conv, n, c, f, ytm, alpha, pay, alphaCf] =>
    match nat? conv, int? n, floats? [c, f, ytm, alpha, pay, alphaCf] with
    | some conv, some n, some [c, f, ytm, alpha, pay, alphaCf] =>
      let P : Float → Float := fun y =>
        match dirtyPriceFromYtm conv n c f y alpha pay alphaCf with | .ok p => p | .error _ => nanF
      s!"{showFloat (dollarDuration P ytm)} {showFloat (modifiedDuration P ytm)} {showFloat (macauleyDuration P ytm f)} {showFloat (convexity P ytm)}"
    | _, _, _ => "bad-op"
  | ["ZERO", ytm, accf, le1] =>
    match floats? [ytm, accf], nat? le1 with
    | some [ytm, accf], some le1 => showFloat (zeroDirty ytm accf (le1 == 1))
    | _, _ => "bad-op"
  | ["ZACC", num, den, ip, face] =>
    match floats? [num, den, ip, face] with
    | some [num, den, ip, face] => showFloat (zeroAccrued num den ip face)
    | _ => "bad-op"
  | ["ZCURVE", dfm, dfs] =>
    match floats? [dfm, dfs] with
    | some [dfm, dfs] => showFloat (zeroDirtyFromCurve dfm dfs)
    | _ => "bad-op"
  | "ANN" :: cpn :: rest =>
    match float? cpn, floats? rest with
    | some cpn, some fs => showFloat (annuityDirty cpn (pairs fs))
    | _, _ => "bad-op"
  | "FRN" :: a0 :: a1 :: nc :: cur :: fut :: q :: dm :: rest =>
    match floats? [a0, a1, nc, cur, fut, q, dm], floats? rest with
    | some [a0, a1, nc, cur, fut, q, dm], some alphas => showFloat (frnDirty a0 a1 nc cur fut q dm alphas)
    | _, _ => "bad-op"
  | _ => "bad-op"

def main : IO Unit := loop step
