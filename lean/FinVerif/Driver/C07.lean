/- Model driver for C07: the Float instantiation of the hand-written bond model (`Model/C07Bond.lean`) and
   (ops `G…`) of the GENERATED bond formulas (`Gen/BondF.lean`, translated from bond*.py on every run).
   Integers are decimal, floats are IEEE bit patterns. -/
import FinVerif.Driver.Util
import FinVerif.Model.C07Bond
import FinVerif.Gen.BondF
open FinVerif FinVerif.Driver FinVerif.Model.C07

def nat? (s : String) : Option Nat := s.toNat?

def showEF (e : Except PyErr Float) : String := showExcept showFloat e

/-- split `k` leading tokens -/
def takeInts (k : Nat) (l : List String) : Option (List Int × List String) :=
  if l.length < k then none else (ints? (l.take k)).map (fun a => (a, l.drop k))

def pairs : List Float → List (Float × Float)
  | a :: b :: rest => (a, b) :: pairs rest
  | _ => []

def nanF : Float := 0.0 / 0.0

namespace G
export FinVerif.Gen.BondF (bond_dirty_price_from_ytm bond_accrued_interest bond_alpha bond_dollar_duration
  bond_modified_duration bond_macauley_duration bond_convexity_from_ytm bond_clean_price_from_ytm bond_principal
  bond_current_yield zero_dirty_price_from_ytm zero_accrued_interest zero_clean_price_from_ytm frn_clean_price_from_dm
  frn_principal frn_dollar_duration frn_modified_duration frn_macauley_duration frn_convexity_from_dm annuity_clean_price)
end G

def step (t : List String) : String :=
  match t with
  -- BOND conv nd d0..d_{nd-1} settle exdiv | c f ytm face accf alphaCf
  | "BOND" :: conv :: nd :: rest =>
    match nat? conv, nat? nd with
    | some conv, some nd =>
      match takeInts (nd + 2) rest with
      | some (is, fl) =>
        match floats? fl with
        | some [c, f, ytm, face, accf, alphaCf] =>
          let dates := is.take nd
          let settle := is.getD nd 0
          let exdivDt := is.getD (nd + 1) 0
          let exDiv := decide (settle > exdivDt)
          let idx := match ncdIndex dates settle with | some i => toString i | none => "none"
          let n := flowsAfter dates settle
          let a1 : Accr Float := accruedInterest accf f c 1.0 exDiv
          let af : Accr Float := accruedInterest accf f c face exDiv
          let dp := dirtyPriceFromYtm conv n c f ytm a1.alpha (payFirst exDiv) alphaCf
          let cp := cleanPriceFromYtm conv n c f ytm accf alphaCf exDiv
          s!"{idx} {n} {showFloat a1.alpha} {showFloat af.accrued} {showEF dp} {showEF cp}"
        | _ => "bad-op"
      | none => "bad-op"
    | _, _ => "bad-op"
  -- CURVE nd d0..d_{nd-1} settle exdiv | df0..df_{nd-1} dfSettle c f
  | "CURVE" :: nd :: rest =>
    match nat? nd with
    | some nd =>
      match takeInts (nd + 2) rest with
      | some (is, fl) =>
        match floats? fl with
        | some fs =>
          if fs.length ≠ nd + 3 then "bad-op" else
          let dates := is.take nd
          let settle := is.getD nd 0
          let exdivDt := is.getD (nd + 1) 0
          let sched := dates.zip (fs.take nd)
          showEF (dirtyPriceFromCurve sched settle (decide (settle > exdivDt)) (fs.getD nd 1.0)
            (fs.getD (nd + 1) 0.0) (fs.getD (nd + 2) 1.0))
        | none => "bad-op"
      | none => "bad-op"
    | none => "bad-op"
  -- RISK conv n | c f ytm alpha pay alphaCf  →  dollar modified macauley convexity
  | ["RISK", conv, n, c, f, ytm, alpha, pay, alphaCf] =>
    match nat? conv, int? n, floats? [c, f, ytm, alpha, pay, alphaCf] with
    | some conv, some n, some [c, f, ytm, alpha, pay, alphaCf] =>
      let P : Float → Float := fun y =>
        match dirtyPriceFromYtm conv n c f y alpha pay alphaCf with | .ok p => p | .error _ => nanF
      s!"{showFloat (dollarDuration P ytm)} {showFloat (modifiedDuration P ytm)} {showFloat (macauleyDuration P ytm f)} {showFloat (convexity P ytm)}"
    | _, _, _ => "bad-op"
  | ["ZERO", ytm, accf, le1] =>
    match floats? [ytm, accf], nat? le1 with
    | some [ytm, accf], some le1 => showFloat (zeroDirty ytm accf (le1 == 1))
    | _, _ => "bad-op"
  | ["ZACC", num, den, ip, face] =>
    match floats? [num, den, ip, face] with
    | some [num, den, ip, face] => showFloat (zeroAccrued num den ip face)
    | _ => "bad-op"
  | ["ZCURVE", dfm, dfs] =>
    match floats? [dfm, dfs] with
    | some [dfm, dfs] => showFloat (zeroDirtyFromCurve dfm dfs)
    | _ => "bad-op"
  | "ANN" :: cpn :: rest =>
    match float? cpn, floats? rest with
    | some cpn, some fs => showFloat (annuityDirty cpn (pairs fs))
    | _, _ => "bad-op"
  | "FRN" :: a0 :: a1 :: nc :: cur :: fut :: q :: dm :: rest =>
    match floats? [a0, a1, nc, cur, fut, q, dm], floats? rest with
    | some [a0, a1, nc, cur, fut, q, dm], some alphas => showFloat (frnDirty a0 a1 nc cur fut q dm alphas)
    | _, _ => "bad-op"
  -- GBOND conv ndAfter settle exdivDt risk | c f ytm accf alphaCf  →  alpha accrued(100) dirty clean [dollar modified macauley convexity principal(1e6) current_yield]
  | ["GBOND", conv, nd, settle, exdt, risk, c, f, ytm, accf, alphaCf] =>
    match ints? [conv, nd, settle, exdt, risk], floats? [c, f, ytm, accf, alphaCf] with
    | some [conv, nd, settle, exdt, risk], some [c, f, ytm, accf, alphaCf] =>
      let alpha := G.bond_alpha settle 1.0 accf f c exdt                 -- state left by `accrued_interest(settle, 1.0)`
      let acc := G.bond_accrued_interest settle 100.0 accf f c exdt
      let PE : Float → Except PyErr Float := fun y => G.bond_dirty_price_from_ytm settle y conv nd f alphaCf alpha c 100.0 exdt
      let dp := PE ytm
      let cp : Except PyErr Float := match dp with
        | .ok d => .ok (G.bond_clean_price_from_ytm d acc)
        | .error e => .error e
      let base := s!"{showFloat alpha} {showFloat acc} {showEF dp} {showEF cp}"
      if risk == 1 then
        let P : Float → Float := fun y => match PE y with | .ok p => p | .error _ => nanF
        let dy : Float := 0.0001
        let dd := G.bond_dollar_duration (P (ytm - dy)) (P (ytm + dy))
        let md := G.bond_modified_duration dd (P ytm)
        let mac := G.bond_macauley_duration ytm dd (P ytm) f
        let cx := G.bond_convexity_from_ytm (P (ytm - dy)) (P ytm) (P (ytm + dy)) 100.0
        -- `principal(settle, ytm, face = 1e6, convention)`: the state `accrued_int` it reads is the accrued for face 1.0
        let pr := G.bond_principal 1000000.0 (P ytm) 100.0 (G.bond_accrued_interest settle 1.0 accf f c exdt)
        let cy := match cp with | .ok x => G.bond_current_yield x c 100.0 | .error _ => nanF
        s!"{base} {showFloat dd} {showFloat md} {showFloat mac} {showFloat cx} {showFloat pr} {showFloat cy}"
      else base
    | _, _ => "bad-op"
  -- GZERO nd settle issue mat | ytm t ip  →  dirty accrued(100) clean
  | ["GZERO", nd, settle, issue, mat, ytm, t, ip] =>
    match ints? [nd, settle, issue, mat], floats? [ytm, t, ip] with
    | some [nd, settle, issue, mat], some [ytm, t, ip] =>
      let dp := G.zero_dirty_price_from_ytm ytm 0 nd t 100.0
      let acc := G.zero_accrued_interest settle 100.0 issue mat 100.0 ip
      let cp : Except PyErr Float := match dp, acc with
        | .ok d, .ok a => .ok (G.zero_clean_price_from_ytm d a)
        | .error e, _ => .error e
        | _, .error e => .error e
      s!"{showEF dp} {showEF acc} {showEF cp}"
    | _, _ => "bad-op"
  -- GFRN | nc dm dirty accf pUp pDn f face  →  clean dollar modified macauley convexity principal
  | ["GFRN", nc, dm, dirty, accf, pUp, pDn, f, face] =>
    match floats? [nc, dm, dirty, accf, pUp, pDn, f, face] with
    | some [nc, dm, dirty, accf, pUp, pDn, f, face] =>
      let cp := G.frn_clean_price_from_dm nc dm dirty accf 100.0
      let dd := G.frn_dollar_duration pUp pDn
      let md := G.frn_modified_duration dd dirty
      let mac := G.frn_macauley_duration nc dm dd dirty f
      let cx := G.frn_convexity_from_dm pDn dirty pUp 100.0
      let pr := G.frn_principal nc face dirty accf 100.0
      s!"{showEF cp} {showFloat dd} {showFloat md} {showFloat mac} {showFloat cx} {showFloat pr}"
    | _ => "bad-op"
  -- GANN | dirty accruedInt  →  clean
  | ["GANN", dirty, acc] =>
    match floats? [dirty, acc] with
    | some [dirty, acc] => showFloat (G.annuity_clean_price dirty acc 100.0)
    | _ => "bad-op"
  | _ => "bad-op"

def main : IO Unit := loop step
