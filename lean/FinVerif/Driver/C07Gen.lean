/- Driver for the GENERATED bond formulas (`Gen/BondF.lean`, translated from bond.py / bond_zero.py / bond_frn.py /
   bond_annuity.py on every run), composed the way the methods call each other.  Separate from `Driver/C07.lean`
   (hand-written model) so that an untranslatable source edit disables only this tie.
   Integers are decimal, floats are IEEE bit patterns. -/
import FinVerif.Driver.Util
import FinVerif.Gen.BondF
open FinVerif FinVerif.Driver

def showEF (e : Except PyErr Float) : String := showExcept showFloat e

def nanF : Float := 0.0 / 0.0

namespace G
export FinVerif.Gen.BondF (bond_dirty_price_from_ytm bond_accrued_interest bond_alpha bond_dollar_duration
  bond_modified_duration bond_macauley_duration bond_convexity_from_ytm bond_clean_price_from_ytm bond_principal
  bond_current_yield zero_dirty_price_from_ytm zero_accrued_interest zero_clean_price_from_ytm frn_clean_price_from_dm
  frn_principal frn_dollar_duration frn_modified_duration frn_macauley_duration frn_convexity_from_dm annuity_clean_price)
end G

def step (t : List String) : String :=
  match t with
  -- GBOND conv ndAfter settle exdivDt risk | c f ytm accf alphaCf  →  alpha accrued(100) dirty clean [dollar modified macauley convexity principal(1e6) current_yield]
  | ["GBOND", conv, nd, settle, exdt, risk, c, f, ytm, accf, alphaCf] =>
    match ints? [conv, nd, settle, exdt, risk], floats? [c, f, ytm, accf, alphaCf] with
    | some [conv, nd, settle, exdt, risk], some [c, f, ytm, accf, alphaCf] =>
      let alpha := G.bond_alpha settle 1.0 accf f c exdt                 -- state left by `accrued_interest(settle, 1.0)`
      let acc := G.bond_accrued_interest settle 100.0 accf f c exdt
      let PE : Float → Except PyErr Float := fun y => G.bond_dirty_price_from_ytm settle y conv nd f alphaCf alpha c 100.0 exdt
      let dp := PE ytm
      let cp : Except PyErr Float := match dp with
        | .ok d => .ok (G.bond_clean_price_from_ytm d acc)
        | .error e => .error e
      let base := s!"{showFloat alpha} {showFloat acc} {showEF dp} {showEF cp}"
      if risk == 1 then
        let P : Float → Float := fun y => match PE y with | .ok p => p | .error _ => nanF
        let dy : Float := 0.0001
        let dd := G.bond_dollar_duration (P (ytm - dy)) (P (ytm + dy))
        let md := G.bond_modified_duration dd (P ytm)
        let mac := G.bond_macauley_duration ytm dd (P ytm) f
        let cx := G.bond_convexity_from_ytm (P (ytm - dy)) (P ytm) (P (ytm + dy)) 100.0
        -- `principal(settle, ytm, face = 1e6, convention)`: the state `accrued_int` it reads is the accrued for face 1.0
        let pr := G.bond_principal 1000000.0 (P ytm) 100.0 (G.bond_accrued_interest settle 1.0 accf f c exdt)
        let cy := match cp with | .ok x => G.bond_current_yield x c 100.0 | .error _ => nanF
        s!"{base} {showFloat dd} {showFloat md} {showFloat mac} {showFloat cx} {showFloat pr} {showFloat cy}"
      else base
    | _, _ => "bad-op"
  -- GZERO nd settle issue mat | ytm t ip  →  dirty accrued(100) clean
  | ["GZERO", nd, settle, issue, mat, ytm, t, ip] =>
    match ints? [nd, settle, issue, mat], floats? [ytm, t, ip] with
    | some [nd, settle, issue, mat], some [ytm, t, ip] =>
      let dp := G.zero_dirty_price_from_ytm ytm 0 nd t 100.0
      let acc := G.zero_accrued_interest settle 100.0 issue mat 100.0 ip
      let cp : Except PyErr Float := match dp, acc with
        | .ok d, .ok a => .ok (G.zero_clean_price_from_ytm d a)
        | .error e, _ => .error e
        | _, .error e => .error e
      s!"{showEF dp} {showEF acc} {showEF cp}"
    | _, _ => "bad-op"
  -- GFRN | nc dm dirty accf pUp pDn f face  →  clean dollar modified macauley convexity principal
  | ["GFRN", nc, dm, dirty, accf, pUp, pDn, f, face] =>
    match floats? [nc, dm, dirty, accf, pUp, pDn, f, face] with
    | some [nc, dm, dirty, accf, pUp, pDn, f, face] =>
      let cp := G.frn_clean_price_from_dm nc dm dirty accf 100.0
      let dd := G.frn_dollar_duration pUp pDn
      let md := G.frn_modified_duration dd dirty
      let mac := G.frn_macauley_duration nc dm dd dirty f
      let cx := G.frn_convexity_from_dm pDn dirty pUp 100.0
      let pr := G.frn_principal nc face dirty accf 100.0
      s!"{showEF cp} {showFloat dd} {showFloat md} {showFloat mac} {showFloat cx} {showFloat pr}"
    | _ => "bad-op"
  -- GANN | dirty accruedInt  →  clean
  | ["GANN", dirty, acc] =>
    match floats? [dirty, acc] with
    | some [dirty, acc] => showFloat (G.annuity_clean_price dirty acc 100.0)
    | _ => "bad-op"
  | _ => "bad-op"

def main : IO Unit := loop step
