/- Spec driver for C07: the explicit cash-flow sums of `Spec/C07.lean` at Float. Imports nothing of the
   model, so it survives any change to the source. -/
import FinVerif.Driver.Util
import FinVerif.Spec.C07
open FinVerif FinVerif.Driver FinVerif.Spec.C07

def convOfCode : Nat → Option Conv
  | 1 => some .ukDmo | 2 => some .usStreet | 3 => some .usTreasury | 4 => some .cfets | _ => none

def takeInts (k : Nat) (l : List String) : Option (List Int × List String) :=
  if l.length < k then none else (ints? (l.take k)).map (fun a => (a, l.drop k))

def step (t : List String) : String :=
  match t with
  -- DP conv n | c f y a aY pay
  | ["DP", conv, n, c, f, y, a, aY, pay] =>
    match s!"{conv}".toNat?, s!"{n}".toNat?, floats? [c, f, y, a, aY, pay] with
    | some conv, some n, some [c, f, y, a, aY, pay] =>
      match convOfCode conv with
      | some cv => showFloat (dirtyPrice cv n c f y a aY pay)
      | none => "E:FinError"
    | _, _, _ => "bad-op"
  -- ACC exdiv | yf f c face
  | ["ACC", ex, yf, f, c, face] =>
    match s!"{ex}".toNat?, floats? [yf, f, c, face] with
    | some ex, some [yf, f, c, face] => showFloat (accrued yf f c face (ex == 1))
    | _, _ => "bad-op"
  -- CURVE nd d1..d_nd settle exdiv | df1..df_nd dfSettle c f      (dates AFTER the issue date)
  | "CURVE" :: nd :: rest =>
    match nd.toNat? with
    | some nd =>
      match takeInts (nd + 2) rest with
      | some (is, fl) =>
        match floats? fl with
        | some fs =>
          if fs.length ≠ nd + 3 then "bad-op" else
          let dates := is.take nd
          let settle := is.getD nd 0
          let exdivDt := is.getD (nd + 1) 0
          let sched := dates.zip (fs.take nd)
          showFloat (priceOnCurve sched settle (decide (settle > exdivDt)) (fs.getD nd 1.0)
            (fs.getD (nd + 1) 0.0) (fs.getD (nd + 2) 1.0))
        | none => "bad-op"
      | none => "bad-op"
    | none => "bad-op"
  | _ => "bad-op"

def main : IO Unit := loop step
