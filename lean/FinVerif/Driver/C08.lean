/- Model driver for C08: the hand model of IborCapFloor.value / IborSwaption.value (`Model/C08`) instantiated at
   `Float` with the GENERATED Black-family kernels of `Gen/BSF`.  One op per line, floats as IEEE bit patterns:
     CAPFLOOR <code> <n> <5 model params> <K> <N> <hasFixing 0|1> <last_fixing> then per period: alpha curveFwd df texp tmat sabrVol ptExp ptMat
        -> cap floor caplet[1..n] floorlet[1..n]
     SWAPTION <code> <5 model params> <s> <K> <texp> <pv01> <dfSettle> <N>  -> payer receiver
   model codes: 1 Black(vol) 2 BlackShifted(vol, shift) 3 Bachelier(vol) 4 SABR 5 SABRShifted (Black vol per option
   is an input) 6 HWTree(sigma, a).
   Model price functions, one option at a time (the functions the theorems of Props/C08c are about):
     MODELVAL <code> <ty> f k t df p1 p2 -> value [hand]
        1 Black.value glue on generated black_value (p1 = vol) 2 generated BlackShifted.value (p1 = vol, p2 = shift)
        3 generated Bachelier.value (p1 = vol) 4 / 5 GENERATED SABR.value / SABRShifted.value (Gen/RateOptF; p1 = the
        Black vol) followed by the hand model `sabrValue` on the same inputs
     HWZCB texp tmat strike face ptExp ptMat sigma a -> genCall genPut handCall handPut | E:<tag>
        (GENERATED HWTree.option_on_zcb of Gen/RateOptF, then the hand model `hwZcb`)
     BLACKVEGA f t k r v ty -> generated black_vega -/
import FinVerif.Driver.Util
import FinVerif.Gen.BSF
import FinVerif.Gen.RateOptF
import FinVerif.Model.C08
import FinVerif.Model.NormCdf
open FinVerif FinVerif.Driver FinVerif.Gen FinVerif.Model.C08

def nanF : Float := (0.0 : Float) / 0.0

def okF : Except PyErr Float → Float
  | .ok x => x
  | .error _ => nanF

def floatKern : Kern Float where
  lit := fun m e => Float.ofScientific m (decide (e < 0)) e.natAbs
  isZero := fun x => x == 0.0
  ltAbs := fun x y => Float.abs x < y
  max := fun x y => if x < y then y else x      -- Python max(a, b): b if b > a else a
  exp := Float.exp
  log := Float.log
  sqrt := Float.sqrt
  N := BSF.N
  blackValue := fun f t k r v ty => okF (BSF.black_value f t k r v ty)
  shiftedValue := fun f k t df ty sh vol => okF (BSF.black_shifted_value f k t df ty sh vol)
  bachelierValue := fun f k t df ty vol => okF (BSF.bachelier_value f k t df ty vol)

def mdlOf (code : Int) (p : List Float) : Option (Mdl Float) :=
  match code, p with
  | 1, [v, _, _, _, _] => some (.black v)
  | 2, [v, sh, _, _, _] => some (.shifted v sh)
  | 3, [v, _, _, _, _] => some (.bachelier v)
  | 4, _ => some .sabr
  | 5, _ => some .sabrShifted
  | 6, [s, a, _, _, _] => some (.hw s a)
  | _, _ => none

def periods : List Float → List (Period Float)
  | al :: f :: df :: te :: tm :: sv :: pe :: pm :: rest => ⟨al, f, df, te, tm, sv, pe, pm⟩ :: periods rest
  | _ => []

def capfloor (args : List String) : String :=
  match args with
  | c :: n :: rest =>
    (match c.toInt?, n.toNat?, floats? rest with
     | some code, some n, some fs =>
       if fs.length ≠ 9 + 8 * n then "bad-op" else
       (match mdlOf code (fs.take 5), fs.drop 5 with
        | some m, k :: nt :: hasFix :: fix :: per =>
          -- every period carries the CURVE forward; the contract's last_fixing (None / a number, 0.0 included) is applied here
          let ps := withFixing (if hasFix != 0.0 then some fix else none) (periods per)
          let cap := capFloorValue floatKern m true k nt ps
          let flo := capFloorValue floatKern m false k nt ps
          showFloats ([cap, flo] ++ capletTable floatKern m true k nt ps ++ capletTable floatKern m false k nt ps)
        | _, _ => "bad-op")
     | _, _, _ => "bad-op")
  | _ => "bad-op"

def swaption (args : List String) : String :=
  match args with
  | c :: rest =>
    (match c.toInt?, floats? rest with
     | some code, some fs =>
       (match mdlOf code (fs.take 5), fs.drop 5 with
        | some m, [s, k, te, a, dfs, nt] =>
          let sv := (fs.take 1).headD 0.0
          showFloats [swaptionValue floatKern (.blackLike m sv) true s k te a dfs nt,
                      swaptionValue floatKern (.blackLike m sv) false s k te a dfs nt]
        | _, _ => "bad-op")
     | _, _ => "bad-op")
  | _ => "bad-op"

def showExF : Except PyErr Float → String
  | .ok x => showFloat x
  | .error e => "E:" ++ e.tag

def modelval (args : List String) : String :=
  match args with
  | c :: ty :: rest =>
    (match c.toInt?, ty.toInt?, floats? rest with
     | some code, some ty, some [f, k, t, df, p1, p2] =>
       (match code with
        | 1 => showFloat (blackModelValue floatKern p1 f k t df ty)
        | 2 => showExF (BSF.black_shifted_value f k t df ty p2 p1)
        | 3 => showExF (BSF.bachelier_value f k t df ty p1)
        | 4 => showExF (RateOptF.sabr_value f k t df ty p1) ++ " " ++ showFloat (sabrValue floatKern p1 f k t df ty)
        | 5 => showExF (RateOptF.sabr_shifted_value f k t df ty p1) ++ " " ++ showFloat (sabrValue floatKern p1 f k t df ty)
        | _ => "bad-op")
     | _, _, _ => "bad-op")
  | _ => "bad-op"

def hwzcb (args : List String) : String :=
  match floats? args with
  | some [te, tm, strike, face, pe, pm, sigma, a] =>
    (match RateOptF.hw_option_on_zcb te tm strike face pe pm sigma a with
     | .ok (c, p) =>
       let h := hwZcb floatKern sigma a te tm strike face pe pm
       showFloats [c, p, h.1, h.2]
     | .error e => "E:" ++ e.tag)
  | _ => "bad-op"

def blackvega (args : List String) : String :=
  match args with
  | [f, t, k, r, v, ty] =>
    (match floats? [f, t, k, r, v], ty.toInt? with
     | some [f, t, k, r, v], some ty => showExF (BSF.black_vega f t k r v ty)
     | _, _ => "bad-op")
  | _ => "bad-op"

def step (t : List String) : String :=
  match t with
  | "CAPFLOOR" :: a => capfloor a
  | "SWAPTION" :: a => swaption a
  | "MODELVAL" :: a => modelval a
  | "HWZCB" :: a => hwzcb a
  | "BLACKVEGA" :: a => blackvega a
  | _ => "bad-op"

def main : IO Unit := loop step
