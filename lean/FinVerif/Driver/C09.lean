/- Model driver for C09: Float instantiation of the hand-written CDS kernel model. -/
import FinVerif.Driver.Util
import FinVerif.Model.C09F
open FinVerif FinVerif.Driver FinVerif.Model.C09F

/-- parse `n x1 … xn` repeatedly: a list of length-prefixed float arrays -/
partial def arrays : List String → Option (List (Array Float))
  | [] => some []
  | n :: rest => do
    let k ← n.toNat?
    if rest.length < k then none
    let xs ← floats? (rest.take k)
    let more ← arrays (rest.drop k)
    pure (xs.toArray :: more)

def step (t : List String) : String :=
  match t with
  | "RPV" :: teff :: acc :: rest =>
    match floats? [teff, acc], arrays rest with
    | some [teff, acc], some [pay, yf, lt, ld, st, sv] =>
      let r := rpv01F teff acc pay yf lt ld st sv; showFloats [r.1, r.2]
    | _, _ => "bad-op"
  | "PROT" :: teff :: tmat :: rec :: spy :: rest =>
    match floats? [teff, tmat, rec], spy.toNat?, arrays rest with
    | some [teff, tmat, rec], some spy, some [lt, ld, st, sv] => showFloat (protF teff tmat rec spy lt ld st sv)
    | _, _, _ => "bad-op"
  | _ => "bad-op"

def main : IO Unit := loop step
