/- Model driver for C09: Float instantiation of the hand-written CDS kernel model. -/
import FinVerif.Driver.Util
import FinVerif.Model.C09F
open FinVerif FinVerif.Driver FinVerif.Model.C09 FinVerif.Model.C09F

/-- parse `n x1 … xn` repeatedly: a list of length-prefixed float arrays -/
partial def arrays : List String → Option (List (Array Float))
  | [] => some []
  | n :: rest => do
    let k ← n.toNat?
    if rest.length < k then none
    let xs ← floats? (rest.take k)
    let more ← arrays (rest.drop k)
    pure (xs.toArray :: more)

def step (t : List String) : String :=
  match t with
  | "RPV" :: teff :: acc :: rest =>
    match floats? [teff, acc], arrays rest with
    | some [teff, acc], some [pay, yf, lt, ld, st, sv] =>
      let r := rpv01F teff acc pay yf lt ld st sv; showFloats [r.1, r.2]
    | _, _ => "bad-op"
  | "PROT" :: teff :: tmat :: rec :: spy :: rest =>
    match floats? [teff, tmat, rec], spy.toNat?, arrays rest with
    | some [teff, tmat, rec], some spy, some [lt, ld, st, sv] => showFloat (protF teff tmat rec spy lt ld st sv)
    | _, _, _ => "bad-op"
  | "VAL" :: rec :: spy :: rest =>
    -- arrays: [teff acc tmat cpn notional long] pay yf lt ld st sv
    match floats? [rec], spy.toNat?, arrays rest with
    | some [rec], some spy, some [sc, pay, yf, lt, ld, st, sv] =>
      if sc.size != 6 || pay.size < 2 || yf.size < 2 then "bad-op" else
      let c := mkContract sc[0]! sc[1]! sc[2]! sc[3]! sc[4]! (sc[5]! != 0.0) spy pay yf
      showFloats (valF rec c lt.toList ld.toList st.toList sv.toList)
    | _, _, _ => "bad-op"
  | "BOOT" :: rec :: spy :: rest =>
    -- arrays: lt ld knots probes, then per contract: [teff acc tmat cpn notional long] pay yf
    match floats? [rec], spy.toNat?, arrays rest with
    | some [rec], some spy, some (lt :: ld :: knots :: probes :: cas) =>
      let rec mk : List (Array Float) → Option (List (Contract Float))
        | [] => some []
        | sc :: pay :: yf :: more =>
          if sc.size != 6 || pay.size < 2 || yf.size < 2 then none else
          (mk more).map fun l => mkContract sc[0]! sc[1]! sc[2]! sc[3]! sc[4]! (sc[5]! != 0.0) spy pay yf :: l
        | _ => none
      match mk cas with
      | some cs =>
        if knots.size != cs.length || probes.size != 2 * cs.length then "bad-op" else
        showFloats (bootReplayF rec lt.toList ld.toList cs knots probes)
      | none => "bad-op"
    | _, _, _ => "bad-op"
  | ["FAST", long, teff, tmat, r, spread, rcurve, rcon, cpn, notional, acc] =>
    match floats? [teff, tmat, r, spread, rcurve, rcon, cpn, notional, acc] with
    | some [teff, tmat, r, spread, rcurve, rcon, cpn, notional, acc] =>
      showFloats (fastF teff tmat r spread rcurve rcon cpn notional acc (long != "0"))
    | _ => "bad-op"
  | "SURV" :: method :: rest =>
    match method.toInt?, arrays rest with
    | some m, some [ts, vs, t] => showFloats (survF m ts.toList vs.toList t)
    | _, _ => "bad-op"
  | _ => "bad-op"

def main : IO Unit := loop step
