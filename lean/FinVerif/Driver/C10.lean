/- Model driver for the FX products (C10): the Float instantiation of the GENERATED code (`Gen/FXF.lean`, which calls the
   generated Black–Scholes kernels of `Gen/BSF.lean`).  The date / curve glue of the methods (year fractions, `df_t` reads)
   is supplied by the harness as arguments, exactly the parameters the slices were given.
   One op per line: `<op> <float bits>* <int>*`; tuple results are space-separated bit patterns in dictionary-key order. -/
import FinVerif.Driver.Util
import FinVerif.Gen.FXF
open FinVerif FinVerif.Driver FinVerif.Gen.FXF

/-- split the arguments into `nf` floats (bit patterns) followed by `ni` ints -/
def parse (nf ni : Nat) (args : List String) : Option (List Float × List Int) :=
  if args.length ≠ nf + ni then none else
  match floats? (args.take nf), ints? (args.drop nf) with
  | some fs, some is => some (fs, is)
  | _, _ => none

def show4 : Float × Float × Float × Float → String
  | (a, b, c, d) => showFloats [a, b, c, d]

def show5 : Float × Float × Float × Float × Float → String
  | (a, b, c, d, e) => showFloats [a, b, c, d, e]

def show9 : Float × Float × Float × Float × Float × Float × Float × Float × Float → String
  | (a, b, c, d, e, f, g, h, i) => showFloats [a, b, c, d, e, f, g, h, i]

def step (t : List String) : String :=
  match t with
  | "fwd" :: a =>
    (match parse 4 0 a with
     | some ([t, s, ff, fd], []) => showExcept showFloat (fx_forward t s ff fd)
     | _ => "bad-op")
  | "fwdval" :: a =>
    (match parse 8 3 a with
     | some ([t, s, dd, tf, ff, fd, k, n], [nc, dn, fn]) => showExcept show5 (fx_forward_value t s dd tf ff fd k n nc dn fn)
     | _ => "bad-op")
  | "val" :: a =>
    (match parse 8 4 a with
     | some ([td, te, s, dd, df, k, n, vol], [ty, pc, dn, fn]) =>
       showExcept show9 (fx_vanilla_value td te s dd df k n vol ty pc dn fn)
     | _ => "bad-op")
  | "delta" :: a =>
    (match parse 7 1 a with
     | some ([td, te, s, dd, df, k, vol], [ty]) => showExcept show4 (fx_vanilla_delta td te s dd df k vol ty)
     | _ => "bad-op")
  | "fastdict" :: a =>
    (match parse 6 1 a with
     | some ([t, s, rd, rf, vol, k], [ty]) => showExcept show4 (fx_fast_delta_dict t s rd rf vol k ty)
     | _ => "bad-op")
  | "fast" :: a =>
    (match parse 6 2 a with
     | some ([s, t, k, rd, rf, vol], [m, ty]) => showExcept showFloat (fast_delta s t k rd rf vol m ty)
     | _ => "bad-op")
  | "gobj" :: a =>
    (match parse 7 2 a with
     | some ([k, s, t, rd, rf, vol, tg], [m, ty]) => showExcept showFloat (strike_objective k s t rd rf vol m ty tg)
     | _ => "bad-op")
  | "strike" :: a =>
    (match parse 7 2 a with
     | some ([s, t, rd, rf, tg, vol, ks], [ty, m]) => showExcept showFloat (solve_for_strike s t rd rf ty tg m vol ks)
     | _ => "bad-op")
  | "gamma" :: a =>
    (match parse 6 0 a with
     | some ([t, s, dd, df, k, vol], []) => showExcept showFloat (fx_vanilla_gamma t s dd df k vol)
     | _ => "bad-op")
  | "vega" :: a =>
    (match parse 6 0 a with
     | some ([t, s, dd, df, k, vol], []) => showExcept showFloat (fx_vanilla_vega t s dd df k vol)
     | _ => "bad-op")
  | "theta" :: a =>
    (match parse 6 1 a with
     | some ([t, s, dd, df, k, vol], [ty]) => showExcept showFloat (fx_vanilla_theta t s dd df k vol ty)
     | _ => "bad-op")
  | "digi" :: a =>
    (match parse 8 4 a with
     | some ([td, te, s, dd, df, k, n, vol], [ty, pc, dn, fn]) =>
       showExcept showFloat (fx_digital_value td te s dd df k n vol ty pc dn fn)
     | _ => "bad-op")
  | ["ninv", x] => (match float? x with | some x => showExcept showFloat (norminvcdf x) | none => "bad-op")
  | _ => "bad-op"

def main : IO Unit := loop step
