/- Model driver for the closed-form exotics: the Float instantiation of the GENERATED code
   (`Gen/ExoticF.lean`, regenerated from /repo on every run).  One op per line; floats as IEEE bit patterns. -/
import FinVerif.Driver.Util
import FinVerif.Gen.ExoticF
open FinVerif FinVerif.Driver FinVerif.Gen.ExoticF

/-- split `args` into `nf` floats followed by `ni` ints -/
def fi (nf ni : Nat) (args : List String) : Option (Array Float × Array Int) :=
  if args.length ≠ nf + ni then none else
  match floats? (args.take nf), ints? (args.drop nf) with
  | some f, some i => some (f.toArray, i.toArray)
  | _, _ => none

def sx := showExcept showFloat

def step (t : List String) : String :=
  match t with
  | "VB" :: a => match fi 7 2 a with
    | some (f, i) => sx (value_barrier f[0]! f[1]! f[2]! f[3]! f[4]! f[5]! f[6]! i[0]! i[1]!)
    | none => "bad-op"
  | "FXB" :: a => match fi 7 2 a with
    | some (f, i) => sx (fx_barrier_value f[0]! f[1]! f[2]! f[3]! f[4]! f[5]! f[6]! i[0]! i[1]!)
    | none => "bad-op"
  | "EOT" :: a => match fi 8 1 a with
    | some (f, i) => sx (eq_one_touch_value f[0]! f[1]! f[2]! f[3]! f[4]! f[5]! f[6]! f[7]! i[0]!)
    | none => "bad-op"
  | "FOT" :: a => match fi 8 1 a with
    | some (f, i) => sx (fx_one_touch_value f[0]! f[1]! f[2]! f[3]! f[4]! f[5]! f[6]! f[7]! i[0]!)
    | none => "bad-op"
  | "DIG" :: a => match fi 6 2 a with
    | some (f, i) => sx (eq_digital_value f[0]! f[1]! f[2]! f[3]! f[4]! f[5]! i[0]! i[1]!)
    | none => "bad-op"
  | "FIX" :: a => match fi 7 1 a with
    | some (f, i) => sx (eq_fixed_lookback_value f[0]! f[1]! f[2]! f[3]! f[4]! f[5]! f[6]! i[0]!)
    | none => "bad-op"
  | "FLT" :: a => match fi 6 1 a with
    | some (f, i) => sx (eq_float_lookback_value f[0]! f[1]! f[2]! f[3]! f[4]! f[5]! i[0]!)
    | none => "bad-op"
  | "PHI2" :: a => match fi 3 0 a with
    | some (f, _) => showFloat (phi2 f[0]! f[1]! f[2]!)
    | none => "bad-op"
  | "N" :: a => match fi 1 0 a with
    | some (f, _) => showFloat (N f[0]!)
    | none => "bad-op"
  | "CMP" :: a => match fi 9 2 a with
    | some (f, i) => sx (eq_compound_value f[0]! f[1]! f[2]! f[3]! f[4]! f[5]! f[6]! f[7]! f[8]! i[0]! i[1]!)
    | none => "bad-op"
  | "CHO" :: a => match fi 12 0 a with
    | some (f, _) => showFloat (eq_chooser_value f[0]! f[1]! f[2]! f[3]! f[4]! f[5]! f[6]! f[7]! f[8]! f[9]! f[10]! f[11]!)
    | none => "bad-op"
  | "RBW" :: a => match fi 10 1 a with
    | some (f, i) => sx (eq_rainbow_value f[0]! f[1]! f[2]! f[3]! f[4]! f[5]! f[6]! f[7]! f[8]! f[9]! i[0]!)
    | none => "bad-op"
  | _ => "bad-op"

def main : IO Unit := loop step
