/- Second model driver for the closed-form exotics: the Float instantiation of the GENERATED code of
   `Gen/Exotic2F.lean` (geometric Asian, FX double digital, FX digital, FX lookbacks) and of the hand-written loop
   models `Model/C11.lean` (cliquet, variance-swap replication weights) with the generated `bs_value` (`Gen/BSF.lean`)
   as the per-period kernel.  One op per line; floats as IEEE bit patterns. -/
import FinVerif.Driver.Util
import FinVerif.Gen.Exotic2F
import FinVerif.Gen.BSF
import FinVerif.Model.C11
open FinVerif FinVerif.Driver FinVerif.Gen.Exotic2F FinVerif.Model.C11

/-- split `args` into `nf` floats followed by `ni` ints -/
def fi (nf ni : Nat) (args : List String) : Option (Array Float × Array Int) :=
  if args.length ≠ nf + ni then none else
  match floats? (args.take nf), ints? (args.drop nf) with
  | some f, some i => some (f.toArray, i.toArray)
  | _, _ => none

def sx := showExcept showFloat

/-- `bs_value(1.0, tau, 1.0, r, q, v, ty)` of the cliquet loop: the generated kernel (its error branch is unreachable for
`ty ∈ {1, 2}`, the only codes the loop passes) -/
def bsUnit (v : Float) (ty : Int) (tau r q : Float) : Float :=
  match FinVerif.Gen.BSF.bs_value 1.0 tau 1.0 r q v ty with
  | .ok x => x
  | .error _ => 0.0 / 0.0

/-- groups of four -/
def periods : List Float → List (CliqPeriod Float)
  | a :: b :: c :: d :: rest => (a, b, c, d) :: periods rest
  | _ => []

def step (t : List String) : String :=
  match t with
  | "AGEO" :: a => match fi 10 1 a with
    | some (f, i) => sx (eq_asian_geometric_value f[0]! f[1]! f[2]! f[3]! f[4]! f[5]! f[6]! f[7]! f[8]! f[9]! i[0]!)
    | none => "bad-op"
  | "FDD" :: a => match fi 9 2 a with
    | some (f, i) => sx (fx_double_digital_value f[0]! f[1]! f[2]! f[3]! f[4]! i[0]! i[1]! f[5]! f[6]! f[7]! f[8]!)
    | none => "bad-op"
  | "FDG" :: a => match fi 8 3 a with
    | some (f, i) => sx (fx_digital_value f[0]! f[1]! f[2]! f[3]! f[4]! i[0]! i[1]! f[5]! f[6]! f[7]! i[2]!)
    | none => "bad-op"
  | "FXFIX" :: a => match fi 7 1 a with
    | some (f, i) => sx (fx_fixed_lookback_value f[0]! f[1]! f[2]! f[3]! f[4]! f[5]! f[6]! i[0]!)
    | none => "bad-op"
  | "FXFLT" :: a => match fi 6 1 a with
    | some (f, i) => sx (fx_float_lookback_value f[0]! f[1]! f[2]! f[3]! f[4]! f[5]! i[0]!)
    | none => "bad-op"
  | "CLQ" :: ty :: a => match int? ty, floats? a with
    | some ty, some (s :: v :: rest) =>
        if rest.length % 4 ≠ 0 then "bad-op" else
        -- `v = max(v, 1e-6)` before the loop
        sx (cliquetValue 0.0 Float.log (bsUnit (fmax v 1e-6)) ty s (periods rest))
    | _, _ => "bad-op"
  | "VSW" :: c :: a => match int? c, floats? a with
    | some c, some (tMat :: sstar :: ks) => showFloats (vsWts 0.0 (vsF 2.0 Float.log tMat sstar) (c == 1) ks)
    | _, _ => "bad-op"
  | "VSP" :: a => match floats? a with
    | some xs => if xs.length % 2 ≠ 0 then "bad-op" else
        showFloat (vsPi 0.0 (xs.take (xs.length / 2)) (xs.drop (xs.length / 2)))
    | none => "bad-op"
  | "VSF" :: a => match fi 7 0 a with
    | some (f, _) => showFloat (vsFairStrike 1.0 2.0 Float.log f[0]! f[1]! f[2]! f[3]! f[4]! f[5]! f[6]!)
    | none => "bad-op"
  | _ => "bad-op"

def main : IO Unit := loop step
