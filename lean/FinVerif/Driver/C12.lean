/- Model driver for C12: the Float instantiation of the hand models of `crr_tree_val` / `crr_tree_val_avg`
(Model/C12.lean), of the finite-difference / PSOR pricers (Model/C12FD.lean) and the generated closed-form parts of
`baw_value` (Gen/BAWF.lean). -/
import FinVerif.Driver.Util
import FinVerif.Model.C12
import FinVerif.Model.C12FD
import FinVerif.Gen.BAWF
open FinVerif FinVerif.Driver FinVerif.Model.C12 FinVerif.Model.C12FD

def mkNodes : List Float → List Float → List Float → List Float → List (Node Float)
  | x :: xs, r :: rs, m :: ms, v :: vs => ⟨x, r, m, v⟩ :: mkNodes xs rs ms vs
  | _, _, _, _ => []

def mkTris : List Float → List (Tri Float)
  | a :: b :: c :: rest => ⟨a, b, c⟩ :: mkTris rest
  | _ => []

def showTris (l : List (Tri Float)) : String :=
  showFloats (l.foldr (fun t acc => t.a :: t.b :: t.c :: acc) [])

def showOptFloats : Option (List Float) → String
  | some xs => showFloats xs
  | none => "E:ValueError"

def step (t : List String) : String :=
  match t with
  | ["crr", s, r, q, v, n, tt, ty, k, ev] =>
    match floats? [s, r, q, v, tt, k], n.toNat?, int? ty, int? ev with
    | some [s, r, q, v, tt, k], some n, some ty, some ev => showFloat (crrTreeVal s r q v n tt ty k ev)
    | _, _, _, _ => "bad-op"
  | ["crravg", s, r, q, v, n, tt, ty, k] =>
    match floats? [s, r, q, v, tt, k], n.toNat?, int? ty with
    | some [s, r, q, v, tt, k], some n, some ty => showFloat (crrTreeValAvg s r q v n tt ty k)
    | _, _, _ => "bad-op"
  -- calculate_fd_matrix(x, r, mu, var, dt, theta, wind=0):  fdmat n dt theta x[n] r[n] mu[n] var[n]
  | "fdmat" :: n :: dt :: theta :: rest =>
    match n.toNat?, floats? [dt, theta], floats? rest with
    | some n, some [dt, theta], some fs =>
      if fs.length != 4 * n then "bad-op" else
      let nodes := mkNodes (fs.take n) ((fs.drop n).take n) ((fs.drop (2 * n)).take n) (fs.drop (3 * n))
      showTris (calcFdMatrix nodes dt theta)
    | _, _, _ => "bad-op"
  -- fd_roll_backwards(res, theta, Ai, Ae):  fdstep n expl impl ae[3n] ai[3n] res[n]
  | "fdstep" :: n :: ex :: im :: rest =>
    match n.toNat?, floats? rest with
    | some n, some fs =>
      if fs.length != 7 * n then "bad-op" else
      showOptFloats (thetaStep (ex == "1") (im == "1") (mkTris (fs.take (3 * n))) (mkTris ((fs.drop (3 * n)).take (3 * n)))
        (fs.drop (6 * n)))
    | _, _ => "bad-op"
  -- black_scholes_fd:  fd spot vol t strike r q optType numTimeSteps numSamples numStd theta
  | ["fd", s, v, tt, k, r, q, ty, nts, ns, nstd, th] =>
    match floats? [s, v, tt, k, r, q, nstd, th], int? ty, nts.toNat?, ns.toNat? with
    | some [s, v, tt, k, r, q, nstd, th], some ty, some nts, some ns =>
      match blackScholesFd s v tt k r q ty nts ns nstd th with
      | some x => showFloat x
      | none => "E:ValueError"
    | _, _, _, _ => "bad-op"
  -- PSOR(Ai, omega, initial_value, z):  sor n omega acc ai[3n] z[n] init[n]   -> values then the number of sweeps
  | "sor" :: n :: om :: acc :: rest =>
    match n.toNat?, floats? [om, acc], floats? rest with
    | some n, some [om, acc], some fs =>
      if fs.length != 5 * n then "bad-op" else
      let (res, k) := sorLoop om acc (mkTris (fs.take (3 * n))) ((fs.drop (3 * n)).take n) 1000000 1.0 (fs.drop (4 * n)) 0
      showFloats res ++ " " ++ toString k
    | _, _, _ => "bad-op"
  -- black_scholes_fd_PSOR:  psor spot vol t strike r q optType numTimeSteps numSamples numStd theta
  | ["psor", s, v, tt, k, r, q, ty, nts, ns, nstd, th] =>
    match floats? [s, v, tt, k, r, q, nstd, th], int? ty, nts.toNat?, ns.toNat? with
    | some [s, v, tt, k, r, q, nstd, th], some ty, some nts, some ns =>
      showFloat (blackScholesFdPSOR s v tt k r q ty nts ns nstd th 1000000)
    | _, _, _, _ => "bad-op"
  -- generated closed-form parts of Barone-Adesi–Whaley:  fcall|fput si t k r q v ;  baw s t k r q v phi sstar
  | ["fcall", si, tt, k, r, q, v] =>
    match floats? [si, tt, k, r, q, v] with
    | some [si, tt, k, r, q, v] => showExcept showFloat (FinVerif.Gen.BAWF.fcall si tt k r q v)
    | _ => "bad-op"
  | ["fput", si, tt, k, r, q, v] =>
    match floats? [si, tt, k, r, q, v] with
    | some [si, tt, k, r, q, v] => showExcept showFloat (FinVerif.Gen.BAWF.fput si tt k r q v)
    | _ => "bad-op"
  | ["baw", s, tt, k, r, q, v, phi, sstar] =>
    match floats? [s, tt, k, r, q, v, sstar], int? phi with
    | some [s, tt, k, r, q, v, sstar], some phi => showExcept showFloat (FinVerif.Gen.BAWF.baw_value s tt k r q v phi sstar)
    | _, _ => "bad-op"
  | _ => "bad-op"

def main : IO Unit := loop step
