/- Model driver for C12: the Float instantiation of the hand model of `crr_tree_val` / `crr_tree_val_avg`. -/
import FinVerif.Driver.Util
import FinVerif.Model.C12
open FinVerif FinVerif.Driver FinVerif.Model.C12

def step (t : List String) : String :=
  match t with
  | ["crr", s, r, q, v, n, tt, ty, k, ev] =>
    match floats? [s, r, q, v, tt, k], n.toNat?, int? ty, int? ev with
    | some [s, r, q, v, tt, k], some n, some ty, some ev => showFloat (crrTreeVal s r q v n tt ty k ev)
    | _, _, _, _ => "bad-op"
  | ["crravg", s, r, q, v, n, tt, ty, k] =>
    match floats? [s, r, q, v, tt, k], n.toNat?, int? ty with
    | some [s, r, q, v, tt, k], some n, some ty => showFloat (crrTreeValAvg s r q v n tt ty k)
    | _, _, _ => "bad-op"
  | _ => "bad-op"

def main : IO Unit := loop step
