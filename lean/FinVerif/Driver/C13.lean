/- Model driver for C13: generated date kernels + hand model of `Date`. -/
import FinVerif.Driver.Util
import FinVerif.Model.DateArith
import FinVerif.Gen.DateLogic
open FinVerif FinVerif.Model FinVerif.Driver FinVerif.Gen.DateK

def showSW (r : Except PyErr PyDate) : String := showExcept (fun dt => s!"{dt.serial} {dt.wd}") r

def histOp (s : TableState) (op : String) : TableState × String :=
  match (op.splitOn ":") with
  | ["c", d, m, y] => match ints? [d, m, y] with
    | some [d, m, y] => let (s', r) := construct s d m y; (s', showSW r)
    | _ => (s, "bad-op")
  | ["a", n, d, m, y] => match ints? [n, d, m, y] with
    | some [n, d, m, y] =>
      -- the start date is constructed first (which may itself extend the table)
      let (s1, _) := construct s d m y
      let (s', r) := addDaysT s1 (mkDate d m y) n; (s', showExcept showDate r)
    | _ => (s, "bad-op")
  | _ => (s, "bad-op")

def step (t : List String) : String :=
  match t with
  | "S" :: rest => match ints? rest with
    | some [d, m, y] => showSW (mkDate? d m y)
    | _ => "bad-op"
  | "RT" :: rest => match ints? rest with
    | some [d, m, y] => (let t := date_from_index (date_index d m y); s!"{t.1} {t.2.1} {t.2.2}")
    | _ => "bad-op"
  | "AD" :: rest => match ints? rest with
    | some [n, d, m, y] => showExcept showDate (addDays (mkDate d m y) n)
    | _ => "bad-op"
  | "AM" :: rest => match ints? rest with
    | some [k, d, m, y] => showExcept showDate (addMonths (mkDate d m y) k)
    | _ => "bad-op"
  | "AT" :: rest => match ints? rest with
    | some [n, u, d, m, y] => showExcept showDate (addTenor (mkDate d m y) n u)
    | _ => "bad-op"
  | "AW" :: rest => match ints? rest with
    | some [n, d, m, y] => showExcept showDate (addWeekdays (mkDate d m y) n)
    | _ => "bad-op"
  | "EOM" :: rest => match ints? rest with
    | some [d, m, y] => showExcept showDate (eom (mkDate d m y))
    | _ => "bad-op"
  | "ISEOM" :: rest => match ints? rest with
    | some [d, m, y] => showExcept (fun b => if b then "1" else "0") (FinVerif.Gen.DateLogic.is_eom (mkDate d m y))
    | _ => "bad-op"
  | "IMM" :: rest => match ints? rest with
    | some [d, m, y] => showExcept showDate (nextIMM (mkDate d m y))
    | _ => "bad-op"
  | "CDS" :: rest => match ints? rest with
    | some [d, m, y] => showDate (FinVerif.Gen.DateLogic.next_cds_date (mkDate d m y) 0)
    | _ => "bad-op"
  | "TBL" :: rest => match ints? rest with
    -- the whole padded table built by the fold model of `calculate_list` for end year E
    | some [e] => " ".intercalate ((calcList e).map toString)
    | _ => "bad-op"
  | "DIM" :: rest => match ints? rest with
    | some [m, y] => showExcept toString (FinVerif.Gen.DateLogic.days_in_month m y)
    | _ => "bad-op"
  | "HI" :: ops =>
    let (_, outs) := ops.foldl (fun (acc : TableState × List String) op =>
      let (s', o) := histOp acc.1 op; (s', acc.2 ++ [o])) (TableState.init, [])
    "|".intercalate outs
  | _ => "bad-op"

def main : IO Unit := loop step
