/- Spec driver for C13: the civil calendar specification only (no generated code). -/
import FinVerif.Driver.Util
import FinVerif.Spec.Date
open FinVerif FinVerif.Spec FinVerif.Driver

def inDomain (d m y : Int) : Bool := decide (Valid d m y) && decide (y ≥ 1900)

def showO (r : Option PyDate) : String := match r with | some dt => showDate dt | none => "E:Other"

def histOp (op : String) : String :=
  match (op.splitOn ":") with
  | ["c", d, m, y] => match ints? [d, m, y] with
    | some [d, m, y] => if inDomain d m y then (let dt := mkDateS d m y; s!"{dt.serial} {dt.wd}") else "E:FinError"
    | _ => "bad-op"
  | ["a", n, d, m, y] => match ints? [n, d, m, y] with
    | some [n, d, m, y] => showDate (addDaysS (mkDateS d m y) n)
    | _ => "bad-op"
  | _ => "bad-op"

def step (t : List String) : String :=
  match t with
  | "S" :: rest => match ints? rest with
    | some [d, m, y] => if inDomain d m y then (let dt := mkDateS d m y; s!"{dt.serial} {dt.wd}") else "E:FinError"
    | _ => "bad-op"
  | "RT" :: rest => match ints? rest with
    | some [d, m, y] => s!"{d} {m} {y}"
    | _ => "bad-op"
  | "AD" :: rest => match ints? rest with
    | some [n, d, m, y] => showDate (addDaysS (mkDateS d m y) n)
    | _ => "bad-op"
  | "AM" :: rest => match ints? rest with
    | some [k, d, m, y] => showDate (addMonthsS (mkDateS d m y) k)
    | _ => "bad-op"
  | "AT" :: rest => match ints? rest with
    | some [n, u, d, m, y] => showDate (addTenorS (mkDateS d m y) n u)
    | _ => "bad-op"
  | "AW" :: rest => match ints? rest with
    | some [n, d, m, y] => showDate (addWeekdaysS (mkDateS d m y) n)
    | _ => "bad-op"
  | "EOM" :: rest => match ints? rest with
    | some [d, m, y] => showDate (eomS (mkDateS d m y))
    | _ => "bad-op"
  | "ISEOM" :: rest => match ints? rest with
    | some [d, m, y] => if d = monthLen y m then "1" else "0"
    | _ => "bad-op"
  | "IMM" :: rest => match ints? rest with
    | some [d, m, y] => showO (nextIMMS (mkDateS d m y))
    | _ => "bad-op"
  | "CDS" :: rest => match ints? rest with
    | some [d, m, y] => showO (nextCDSS (mkDateS d m y))
    | _ => "bad-op"
  | "DIM" :: rest => match ints? rest with
    | some [m, y] => if 1 ≤ m ∧ m ≤ 12 then toString (monthLen y m) else "E:FinError"
    | _ => "bad-op"
  | "HI" :: ops => "|".intercalate (ops.map histOp)
  | _ => "bad-op"

def main : IO Unit := loop step
