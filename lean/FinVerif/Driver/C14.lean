import FinVerif.Driver.Util
import FinVerif.Model.Calendar
open FinVerif FinVerif.Model FinVerif.Driver

def showOB : Option Bool → String
  | some true => "1" | some false => "0" | none => "E:FinError"

def step (t : List String) : String :=
  match t with
  | "H" :: rest => match ints? rest with
    | some [cal, d, m, y] => showOB (isHoliday cal (mkDate d m y))
    | _ => "bad-op"
  | "B" :: rest => match ints? rest with
    | some [cal, d, m, y] => showOB (isBusinessDay cal (mkDate d m y))
    | _ => "bad-op"
  | "A" :: rest => match ints? rest with
    | some [cal, conv, d, m, y] => showExcept showDate (adjust cal conv (mkDate d m y))
    | _ => "bad-op"
  | "N" :: rest => match ints? rest with
    | some [cal, n, d, m, y] => showExcept showDate (addBusinessDays cal (mkDate d m y) n)
    | _ => "bad-op"
  | "EM" :: rest => match ints? rest with
    | some [y] =>
      if y > 2100 then "E:FinError" else
      match pyIdx? FinVerif.Gen.Calendar.tbl_easterMondayDay (y - 1901) with
      | none => "E:IndexError"
      | some em => showExcept showDate (addDays (mkDate 1 1 y) (em - 1))
    | _ => "bad-op"
  | _ => "bad-op"

def main : IO Unit := loop step
