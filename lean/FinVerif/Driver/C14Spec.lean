/- Spec driver for C14/C13: answers from the specification only (no generated code is imported). -/
import FinVerif.Driver.Util
import FinVerif.Spec.Calendar
open FinVerif FinVerif.Spec FinVerif.Driver

def showOB : Option Bool → String
  | some true => "1" | some false => "0" | none => "E:FinError"

def step (t : List String) : String :=
  match t with
  | "H" :: rest => match ints? rest with
    | some [cal, d, m, y] => showOB (specIsHoliday cal (mkDateS d m y))
    | _ => "bad-op"
  | "B" :: rest => match ints? rest with
    | some [cal, d, m, y] => showOB (specIsBusinessDay cal (mkDateS d m y))
    | _ => "bad-op"
  | "A" :: rest => match ints? rest with
    | some [cal, conv, d, m, y] => showExcept showDate (specAdjust cal conv (mkDateS d m y))
    | _ => "bad-op"
  | "N" :: rest => match ints? rest with
    | some [cal, n, d, m, y] => showExcept showDate (specAddBusinessDays cal (mkDateS d m y) n)
    | _ => "bad-op"
  | "EM" :: rest => match ints? rest with
    | some [y] => showDate (addDaysS (mkDateS 1 1 y) ((easterMondayDoy y.toNat : Int) - 1))
    | _ => "bad-op"
  | _ => "bad-op"

def main : IO Unit := loop step
