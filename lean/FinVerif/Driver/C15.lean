/- Model driver for C15: the GENERATED `DayCount.year_frac`. -/
import FinVerif.Driver.Util
import FinVerif.Gen.DayCount
import FinVerif.Model.C15
open FinVerif FinVerif.Model FinVerif.Driver FinVerif.Gen.DayCount

def showTriple (t : Rat × Rat × Rat) : String := s!"{showRat t.1} {showRat t.2.1} {showRat t.2.2}"

def datesOf : List Int → List PyDate
  | d :: m :: y :: t => mkDate d m y :: datesOf t
  | _ => []

/-- `YF dcc d1 m1 y1 d2 m2 y2 has3 d3 m3 y3 freq term` -/
def step (t : List String) : String :=
  match t with
  | "YF" :: rest => match ints? rest with
    | some [dcc, d1, m1, y1, d2, m2, y2, has3, d3, m3, y3, freq, term] =>
      let dt3 := if has3 = 1 then some (mkDate d3 m3 y3) else none
      showExcept showTriple (year_frac (mkDate d1 m1 y1) (mkDate d2 m2 y2) dt3 freq (term = 1) dcc)
    | _ => "bad-op"
  | "ICMASUM" :: rest => match ints? rest with
    | some (freq :: term :: ds) =>
      -- `ICMASUM freq term d1 m1 y1 d2 m2 y2 …`: sum of the ICMA fractions of the consecutive periods
      showRat (FinVerif.Model.C15.icmaSum freq (term = 1) (datesOf ds))
    | _ => "bad-op"
  | _ => "bad-op"

def main : IO Unit := loop step
