/- Model driver for C15: the GENERATED `DayCount.year_frac`. -/
import FinVerif.Driver.Util
import FinVerif.Gen.DayCount
open FinVerif FinVerif.Model FinVerif.Driver FinVerif.Gen.DayCount

def showTriple (t : Rat × Rat × Rat) : String := s!"{showRat t.1} {showRat t.2.1} {showRat t.2.2}"

/-- `YF dcc d1 m1 y1 d2 m2 y2 has3 d3 m3 y3 freq term` -/
def step (t : List String) : String :=
  match t with
  | "YF" :: rest => match ints? rest with
    | some [dcc, d1, m1, y1, d2, m2, y2, has3, d3, m3, y3, freq, term] =>
      let dt3 := if has3 = 1 then some (mkDate d3 m3 y3) else none
      showExcept showTriple (year_frac (mkDate d1 m1 y1) (mkDate d2 m2 y2) dt3 freq (term = 1) dcc)
    | _ => "bad-op"
  | _ => "bad-op"

def main : IO Unit := loop step
