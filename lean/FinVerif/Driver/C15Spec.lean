/- Spec driver for C15: answers from the ISDA/ICMA specification only (no generated code). -/
import FinVerif.Driver.Util
import FinVerif.Spec.DayCount
open FinVerif FinVerif.Spec FinVerif.Driver

def showTriple (t : Rat × Rat × Rat) : String := s!"{showRat t.1} {showRat t.2.1} {showRat t.2.2}"

def step (t : List String) : String :=
  match t with
  | "YF" :: rest => match ints? rest with
    | some [dcc, d1, m1, y1, d2, m2, y2, has3, d3, m3, y3, freq, term] =>
      let dt3 := if has3 = 1 then some (mkDateS d3 m3 y3) else none
      showExcept showTriple (specYearFrac dcc (mkDateS d1 m1 y1) (mkDateS d2 m2 y2) dt3 freq (term = 1))
    | _ => "bad-op"
  | _ => "bad-op"

def main : IO Unit := loop step
