/- Model driver for C16. `SCH e(d m y) t(d m y) numMonths cal conv backward adjTerm eom regen`;
   `CDS s(d m y) m(d m y) numMonths cal conv backward` → payment | accrual start; `CDSE …` → accrual end;
   `LEG e(d m y) t(d m y) numMonths cal conv backward eom lag` → accrual start | accrual end | payment -/
import FinVerif.Driver.Util
import FinVerif.Model.Schedule
import FinVerif.Model.ScheduleUse
open FinVerif FinVerif.Model FinVerif.Driver

def showDates (l : List PyDate) : String := ",".intercalate (l.map (fun d => s!"{d.d}-{d.m}-{d.y}"))

def step (t : List String) : String :=
  match t with
  | "SCH" :: rest => match ints? rest with
    | some [d1, m1, y1, d2, m2, y2, nm, cal, conv, bw, at_, eo, rg] =>
      showExcept showDates (schedule (mkDate d1 m1 y1) (mkDate d2 m2 y2) nm cal conv (bw = 1) (at_ = 1) (eo = 1) (rg = 1))
    | _ => "bad-op"
  | "CDS" :: rest => match ints? rest with
    | some [d1, m1, y1, d2, m2, y2, nm, cal, conv, bw] =>
      showExcept (fun r => showDates r.payment ++ " | " ++ showDates r.accrualStart)
        (cdsDates (mkDate d1 m1 y1) (mkDate d2 m2 y2) nm cal conv (bw = 1))
    | _ => "bad-op"
  | "CDSE" :: rest => match ints? rest with
    | some [d1, m1, y1, d2, m2, y2, nm, cal, conv, bw] =>
      showExcept (fun r => showDates r.accrualEnd)
        (cdsDatesFull (mkDate d1 m1 y1) (mkDate d2 m2 y2) nm cal conv (bw = 1))
    | _ => "bad-op"
  | "LEG" :: rest => match ints? rest with
    | some [d1, m1, y1, d2, m2, y2, nm, cal, conv, bw, eo, lag] =>
      showExcept (fun r => showDates r.startAccrued ++ " | " ++ showDates r.endAccrued ++ " | " ++ showDates r.payment)
        (legDates (mkDate d1 m1 y1) (mkDate d2 m2 y2) nm cal conv (bw = 1) (eo = 1) lag)
    | _ => "bad-op"
  | _ => "bad-op"

def main : IO Unit := loop step
