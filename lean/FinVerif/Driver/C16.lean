/- Model driver for C16. `SCH e(d m y) t(d m y) numMonths cal conv backward adjTerm eom regen` -/
import FinVerif.Driver.Util
import FinVerif.Model.Schedule
open FinVerif FinVerif.Model FinVerif.Driver

def showDates (l : List PyDate) : String := ",".intercalate (l.map (fun d => s!"{d.d}-{d.m}-{d.y}"))

def step (t : List String) : String :=
  match t with
  | "SCH" :: rest => match ints? rest with
    | some [d1, m1, y1, d2, m2, y2, nm, cal, conv, bw, at_, eo, rg] =>
      showExcept showDates (schedule (mkDate d1 m1 y1) (mkDate d2 m2 y2) nm cal conv (bw = 1) (at_ = 1) (eo = 1) (rg = 1))
    | _ => "bad-op"
  | "CDS" :: rest => match ints? rest with
    | some [d1, m1, y1, d2, m2, y2, nm, cal, conv, bw] =>
      showExcept (fun r => showDates r.payment ++ " | " ++ showDates r.accrualStart)
        (cdsDates (mkDate d1 m1 y1) (mkDate d2 m2 y2) nm cal conv (bw = 1))
    | _ => "bad-op"
  | _ => "bad-op"

def main : IO Unit := loop step
