/- Spec driver for C16: prints the ideal schedule and whether it is strictly increasing; and judges a
result.  `IDEAL <13 ints>` → `<0|1> dates | merged`;  -/
import FinVerif.Driver.Util
import FinVerif.Spec.Schedule
open FinVerif FinVerif.Spec FinVerif.Driver

def showDates (l : List PyDate) : String := ",".intercalate (l.map (fun d => s!"{d.d}-{d.m}-{d.y}"))

def step (t : List String) : String :=
  match t with
  | "SCH" :: rest => match ints? rest with
    | some [d1, m1, y1, d2, m2, y2, nm, cal, conv, bw, at_, eo, _rg] =>
      let s : SchedSpec := ⟨mkDateS d1 m1 y1, mkDateS d2 m2 y2, nm, decide (bw = 1), decide (at_ = 1),
        decide (eo = 1), cal, conv⟩
      if s.effective.serial ≥ s.termination.serial then "E:FinError" else
      let ideal := idealSchedule s 5000
      (if strictlyIncreasing ideal then "1 " else "0 ") ++ showDates ideal ++ " | " ++ showDates (mergeEqual ideal)
    | _ => "bad-op"
  | "CDS" :: rest => match ints? rest with
    | some [d1, m1, y1, d2, m2, y2, nm, cal, conv, bw] =>
      let s : SchedSpec := ⟨mkDateS d1 m1 y1, mkDateS d2 m2 y2, nm, decide (bw = 1), true, false, cal, conv⟩
      if s.effective.serial > s.termination.serial then "E:FinError" else
      let pay := cdsIdealPayments s 5000
      (if strictlyIncreasing pay then "1 " else "0 ") ++ showDates pay
    | _ => "bad-op"
  | _ => "bad-op"

def main : IO Unit := loop step
