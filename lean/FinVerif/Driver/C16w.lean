/- Driver for C16w: evaluates the spec's rules (FinVerif/Spec/Wiring.lean) on the generated table of call sites.
   `FAILS`            → the failures of the table w.r.t. all rules and all exceptions, `;`-separated (empty = none)
   `FAILSRAW`         → the same with NO exception (what the exceptions excuse)
   `SITES <callee>`   → `file:line` of every site of that callee, space-separated
   `EXC`              → the exception list `cls.method->callee(formal)`
   Builds whenever Gen/Wiring.lean does, also when a theorem of Props/C16w no longer holds: the harness uses it to NAME
   the sites behind a failing `decide`. -/
import FinVerif.Gen.Wiring
open FinVerif.Spec.Wiring FinVerif.Gen.Wiring

def showFailure (f : Failure) : String :=
  let a := f.site.args.find? (fun a => a.formal.s == f.formal)
  let d := match a with
    | some a => s!"{repr a.kind}".replace "FinVerif.Spec.Wiring.Kind." "" ++ "=" ++ a.src.s.replace " " "_"
    | none => "-"
  s!"{f.rule}|{f.site.file}:{f.site.line}|{f.site.cls}|{f.site.method.s}|{f.site.callee}|{f.formal}|{d}"

partial def loop (step : List String → String) : IO Unit := do
  let stdin ← IO.getStdin
  let stdout ← IO.getStdout
  let rec go : IO Unit := do
    let line ← stdin.getLine
    if line.isEmpty then return ()
    stdout.putStrLn ("R " ++ step ((line.trimAscii.toString.splitOn " ").filter (· ≠ "")))
    go
  go
  stdout.flush

def step (t : List String) : String :=
  match t with
  | ["FAILS"] => " ; ".intercalate ((failures allExceptions (coreCallees ++ productCallees) callSites).map showFailure)
  | ["FAILSRAW"] => " ; ".intercalate ((failures [] (coreCallees ++ productCallees) callSites).map showFailure)
  | ["SITES", c] => " ".intercalate ((callSites.filter (·.callee == c)).map fun s => s!"{s.file}:{s.line}")
  | ["EXC"] => " ; ".intercalate (allExceptions.map fun e => s!"{e.cls}.{e.method}->{e.callee}({e.formal})")
  | _ => "bad-op"

def main : IO Unit := loop step
