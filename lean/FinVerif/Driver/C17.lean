/- Model driver for C17: the Float instantiation of the hand-written loss-distribution model. -/
import FinVerif.Driver.Util
import FinVerif.Model.C17F
import FinVerif.Model.C17Inv
open FinVerif FinVerif.Driver FinVerif.Model.C17 FinVerif.Model.C17F FinVerif.Model.C17Inv

/-- split `xs` into `k` consecutive blocks of length `n` -/
def blocks (n : Nat) : Nat → List Float → Option (List (List Float))
  | 0, [] => some []
  | 0, _ => none
  | k + 1, xs => if xs.length < n then none else (blocks n k (xs.drop n)).map (xs.take n :: ·)

def nat? (s : String) : Option Nat := s.toNat?

def step (t : List String) : String :=
  match t with
  | "IR" :: n :: rest =>
    match nat? n, floats? rest with
    | some n, some xs => match blocks n 2 xs with
      | some [ps, ls] => showFloats (indepRecursion (creditsOf ps ls))
      | _ => "bad-op"
    | _, _ => "bad-op"
  | "GC" :: steps :: n :: rest =>
    match nat? steps, nat? n, floats? rest with
    | some steps, some n, some xs => match blocks n 3 xs with
      | some [ls, betas, thr] => showFloats (lossDbnGCF thr betas ls steps)
      | _ => "bad-op"
    | _, _, _ => "bad-op"
  | "AB" :: n :: rest =>
    match nat? n, floats? rest with
    | some n, some xs => match blocks n 2 xs with
      | some [cps, lrs] => let r := adjBinomialF cps lrs; showFloats (r.1 :: r.2)
      | _ => "bad-op"
    | _, _ => "bad-op"
  | "ABGC" :: steps :: n :: rest =>
    match nat? steps, nat? n, floats? rest with
    | some steps, some n, some xs => match blocks n 3 xs with
      | some [lrs, betas, thr] => showFloats (lossDbnABF thr betas lrs steps)
      | _ => "bad-op"
    | _, _, _ => "bad-op"
  | "TSR" :: k1 :: k2 :: gcd :: m :: steps :: n :: rest =>
    match floats? [k1, k2, gcd], nat? m, nat? steps, nat? n, floats? rest with
    | some [k1, k2, gcd], some m, some steps, some n, some xs => match blocks n 3 xs with
      | some [ls, betas, thr] => showFloat (trancheSurvRecursionF k1 k2 gcd m thr betas ls steps)
      | _ => "bad-op"
    | _, _, _, _, _ => "bad-op"
  | "TSA" :: k1 :: k2 :: avg :: steps :: n :: rest =>
    match floats? [k1, k2, avg], nat? steps, nat? n, floats? rest with
    | some [k1, k2, avg], some steps, some n, some xs => match blocks n 3 xs with
      | some [lrs, betas, thr] => showFloat (trancheSurvABF k1 k2 avg thr betas lrs steps)
      | _ => "bad-op"
    | _, _, _, _ => "bad-op"
  | "UDT" :: n :: rest =>      -- uniform_to_default_time(u, t, v): `UDT n u t_0..t_{n-1} v_0..v_{n-1}`
    match nat? n, floats? rest with
    | some n, some (u :: xs) => match blocks n 2 xs with
      | some [ts, vs] => if n == 0 then "bad-op" else showFloat (uniformToDefaultTimeF u ts.toArray vs.toArray)
      | _ => "bad-op"
    | _, _ => "bad-op"
  | "GATL" :: rest =>          -- gauss_approx_tranche_loss(k1, k2, mu, sigma): generated text
    match floats? rest with
    | some [k1, k2, mu, sigma] => showFloat (FinVerif.Gen.CreditF.gauss_approx_tranche_loss k1 k2 mu sigma)
    | _ => "bad-op"
  | "ELK" :: rest =>           -- exp_min_lk(k, p, r, n, beta) with the value of M supplied: generated text
    match floats? rest with
    | some [k, p, r, n, beta, mval] => showFloat (expMinLkF k p r n beta mval)
    | _ => "bad-op"
  | "TSL" :: n :: rest =>      -- tr_surv_prob_lhp: `TSL n k1 k2 beta m1 m2 q_0.. R_0..`
    match nat? n, floats? rest with
    | some n, some (k1 :: k2 :: beta :: m1 :: m2 :: xs) => match blocks n 2 xs with
      | some [qs, Rs] => showFloat (trSurvProbLhpF k1 k2 qs Rs beta m1 m2)
      | _ => "bad-op"
    | _, _ => "bad-op"
  | "BSV" :: n :: big :: rest =>   -- basket survival: `BSV n_to_default num_credits dbn_0..`
    match nat? n, nat? big, floats? rest with
    | some n, some big, some d => showFloat (basketSurv d n big)
    | _, _, _ => "bad-op"
  | "TLF" :: rest =>           -- tranche loss function min(L,k2) - min(L,k1)
    match floats? rest with
    | some [l, k1, k2] => showFloat (trancheLoss l k1 k2)
    | _ => "bad-op"
  | _ => "bad-op"

def main : IO Unit := loop step
