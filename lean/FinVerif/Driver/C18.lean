/- Model driver for C18 (growth round): the list branch of Date.add_months / add_years / add_tenor as loops
(Model/C18x Part 6) and the `theta` bump-and-restore state machine (Part 5). -/
import FinVerif.Driver.Util
import FinVerif.Model.C18x
open FinVerif FinVerif.Model FinVerif.Driver FinVerif.C18

def showDates (r : Except PyErr (List PyDate)) : String :=
  showExcept (fun l => ",".intercalate (l.map showDate)) r

def pairs : List Int → List (Int × Int)
  | a :: b :: rest => (a, b) :: pairs rest
  | _ => []

def step (t : List String) : String :=
  match t with
  | "AML" :: rest => match ints? rest with
    | some (d :: m :: y :: ks) => showDates (addMonthsVec (mkDate d m y) ks)
    | _ => "bad-op"
  | "AMS" :: rest => match ints? rest with
    | some [d, m, y, k] => showExcept showDate (addMonthsScalar (mkDate d m y) k)
    | _ => "bad-op"
  | "AYL" :: rest => match ints? rest with
    | some (d :: m :: y :: ys) => showDates (addYearsVec (mkDate d m y) ys)
    | _ => "bad-op"
  | "ATL" :: rest => match ints? rest with
    | some (d :: m :: y :: nus) => showDates (addTenorVec (mkDate d m y) (pairs nus))
    | _ => "bad-op"
  | "TH" :: rest => match ints? rest with
    | some [expiry, vd, c1, c2] =>
      let r := exoticTheta (fun _ => 0) expiry vd c1 c2
      s!"{if r.1.isSome then "ret" else "raise"} {r.2.1} {r.2.2}"
    | _ => "bad-op"
  | _ => "bad-op"

def main : IO Unit := loop step
