/- Model driver for C19: the Float instantiation of the hand-written Monte-Carlo model.
   One op per line; leading tokens are naturals, the rest are IEEE bit patterns. -/
import FinVerif.Driver.Util
import FinVerif.Model.C19F
open FinVerif FinVerif.Driver FinVerif.Model.C19 FinVerif.Model.C19F

def nat? (s : String) : Option Nat := s.toNat?

def step (t : List String) : String :=
  match t with
  | "GBM" :: rest =>
    match floats? rest with
    | some (mu :: sigma :: dt :: s0 :: gs) =>
      showFloats (gbmPathUp opsF mu sigma dt s0 gs ++ gbmPathDn opsF mu sigma dt s0 gs)
    | _ => "bad-op"
  | "AST" :: na :: rest =>
    match nat? na, floats? rest with
    | some na, some (dt :: xs) =>
      let mus := xs.take na
      let sig := (xs.drop na).take na
      let s0 := (xs.drop (2 * na)).take na
      let c := chunks na ((xs.drop (3 * na)).take (na * na))
      let gs := chunks na (xs.drop (3 * na + na * na))
      showFloats ((assetsPaths opsF mus sig dt c s0 gs).flatMap fun p => p.1 ++ p.2)
    | _, _ => "bad-op"
  | "BS" :: kind :: isCall :: rest =>
    match nat? isCall, floats? rest with
    | some ic, some (s :: t :: k :: r :: q :: v :: gs) =>
      let c := ic == 1
      match kind with
      | "L" => showFloat (bsmcLoop opsF c s t k r q v gs)
      | "T" => showFloat (bsmcTwoAcc opsF c s t k r q v gs)
      | "V" => showFloat (bsmcVec opsF c s t k r q v gs)
      | _ => "bad-op"
    | _, _ => "bad-op"
  | "VASP" :: anti :: rest =>
    match nat? anti, floats? rest with
    | some an, some (a :: b :: sigma :: dt :: r0 :: zs) =>
      showFloats (if an == 1 then vasPathAnti opsF a b sigma dt r0 zs else vasPath opsF a b sigma dt r0 zs)
    | _, _ => "bad-op"
  | "VASZ" :: nsteps :: rest =>
    match nat? nsteps, floats? rest with
    | some ns, some (r0 :: a :: b :: sigma :: dt :: zs) =>
      showFloat (vasZeroPriceMC opsF r0 a b sigma dt (chunks ns zs))
    | _, _ => "bad-op"
  | "CIRPS" :: scheme :: rest =>
    match nat? scheme, floats? rest with
    | some sc, some (kappa :: theta :: sigma :: dt :: r0 :: zs) =>
      showFloats (scan (cirStepPS opsF sc kappa theta sigma dt) r0 zs)
    | _, _ => "bad-op"
  | "CIRMC" :: scheme :: rest =>
    match nat? scheme, floats? rest with
    | some sc, some (a :: b :: sigma :: dt :: r0 :: zs) =>
      showFloats (scan (cirStepMC opsF sc a b sigma dt) r0 zs)
    | _, _ => "bad-op"
  | "CIRZ" :: scheme :: nsteps :: rest =>
    match nat? scheme, nat? nsteps, floats? rest with
    | some sc, some ns, some (r0 :: a :: b :: sigma :: dt :: zs) =>
      showFloat (cirZeroPriceMC opsF sc r0 a b sigma dt (chunks ns zs))
    | _, _, _ => "bad-op"
  | "HES" :: scheme :: rest =>
    match nat? scheme, floats? rest with
    | some sc, some (s0 :: v0 :: mu :: kappa :: theta :: sigma :: rho :: dt :: ns) =>
      showFloats (hestonPath opsF sc s0 v0 mu kappa theta sigma rho dt (pairs ns))
    | _, _ => "bad-op"
  | "HESQ" :: rest =>
    match floats? rest with
    | some (s0 :: v0 :: mu :: kappa :: theta :: sigma :: rho :: dt :: ns) =>
      showFloats (hestonPathQE opsF s0 v0 mu kappa theta sigma rho dt (quads ns))
    | _ => "bad-op"
  | "HESV" :: scheme :: isCall :: nsteps :: rest =>
    match nat? scheme, nat? isCall, nat? nsteps, floats? rest with
    | some sc, some ic, some nst, some (k :: df :: s0 :: v0 :: mu :: kappa :: theta :: sigma :: rho :: dt :: ns) =>
      let terms := (chunks (2 * nst) ns).map fun p =>
        (hestonPath opsF sc s0 v0 mu kappa theta sigma rho dt (pairs p)).getLastD s0
      showFloat (terminalEstimate opsF (ic == 1) k df terms)
    | _, _, _, _ => "bad-op"
  | "LMM" :: n :: rest =>
    match nat? n, floats? rest with
    | some n, some xs =>
      let gammas := xs.take n
      let fwd0 := (xs.drop n).take n
      let taus := (xs.drop (2 * n)).take n
      let ws := xs.drop (3 * n)
      showFloats ((lmmPath1F opsF gammas fwd0 taus ws).flatMap id)
    | _, _ => "bad-op"
  | "LMMF" :: n :: nf :: rest =>
    match nat? n, nat? nf, floats? rest with
    | some n, some nf, some xs =>
      let lams := chunks n (xs.take (nf * n))
      let fwd0 := (xs.drop (nf * n)).take n
      let taus := (xs.drop (nf * n + n)).take n
      let wss := chunks nf (xs.drop (nf * n + 2 * n))
      showFloats ((lmmPathMF opsF lams fwd0 taus wss).flatMap id)
    | _, _, _ => "bad-op"
  | "CAPF" :: isCap :: n :: rest =>
    match nat? isCap, nat? n, floats? rest with
    | some ic, some n, some (k :: f00 :: xs) =>
      let taus := xs.take n
      let pths := chunks n (xs.drop n)
      let vals := pths.map fun ls => capFlrPath opsF (ic == 1) k f00 ls taus
      showFloats ((List.range n).map fun i => sumL (vals.map fun v => v.getD i 0) / Float.ofNat pths.length)
    | _, _, _ => "bad-op"
  | "ASN" :: isCall :: nobs :: rest =>
    match nat? isCall, nat? nobs, floats? rest with
    | some ic, some nobs, some (t0 :: t :: tau :: k :: acc :: s :: r :: q :: v :: xs) =>
      let nAdj := asianNAdj t0 t tau nobs
      let (k', mult, t0', dt) := asianSchedule t0 t tau k acc nAdj
      let pths := (chunks (nAdj + 1) xs).map fun p => (p.headD 0, p.drop 1)
      showFloat (asianFastMC opsF (ic == 1) (r - q) v r t t0' dt k' mult s pths)
    | _, _, _ => "bad-op"
  | "LBK" :: kind :: isCall :: ncol :: rest =>
    match nat? isCall, nat? ncol, floats? rest with
    | some ic, some nc, some (k :: hist :: df :: xs) =>
      let pths := chunks nc xs
      if kind == "FIX" then showFloat (lookbackMC (fixedLookbackPayoff opsF (ic == 1) k hist) df pths)
      else showFloat (lookbackMC (floatLookbackPayoff opsF (ic == 1) hist) df pths)
    | _, _, _ => "bad-op"
  | "UDT" :: n :: rest =>
    match nat? n, floats? rest with
    | some n, some (u :: xs) => showFloat (uniformToDefaultTime opsF u (xs.take n) (xs.drop n))
    | _, _ => "bad-op"
  | _ => "bad-op"

def main : IO Unit := loop step
