/- Model driver for C20: the Float instantiation of the GENERATED kernels (Gen/KernF) and of the
   hand-written models (Model/C20, Model/C20Phi2). One op per line in, one `R …` line out. -/
import FinVerif.Driver.Util
import FinVerif.Gen.KernF
import FinVerif.Model.C20
import FinVerif.Model.C20Phi2
import FinVerif.Model.C20Halley
import FinVerif.Model.C20Phi2G
import FinVerif.Model.C20Sobol
open FinVerif FinVerif.Driver FinVerif.Gen.KernF FinVerif.Model.C20 FinVerif.Model.C20Sobol

/-- Test-function families shared (same operation order) with harness/props/c20.py.
0 cubic, 1 exponential + linear; locally flat objectives: 2 option payoff minus premium `max(s(x−K),0) − prem`,
3 clipped `min(max(x,lo),hi) − target`, 4 step `x < a ? l : r` (comparisons and one subtraction only: exact). -/
def famF (fam : Int) (c : Array Float) (x : Float) : Float :=
  let c0 := c.getD 0 0; let c1 := c.getD 1 0; let c2 := c.getD 2 0; let c3 := c.getD 3 0
  if fam == 0 then ((c3 * x + c2) * x + c1) * x + c0
  else if fam == 1 then c0 + c1 * Float.exp (c2 * x) + c3 * x
  else if fam == 2 then
    let y := c2 * (x - c0)
    (if y > 0.0 then y else 0.0) - c1
  else if fam == 3 then
    let y := if x < c0 then c0 else if x > c1 then c1 else x
    y - c2
  else if x < c0 then c1 else c2

def famD (fam : Int) (c : Array Float) (x : Float) : Float :=
  let c0 := c.getD 0 0; let c1 := c.getD 1 0; let c2 := c.getD 2 0; let c3 := c.getD 3 0
  if fam == 0 then (3.0 * c3 * x + 2.0 * c2) * x + c1
  else if fam == 1 then c1 * c2 * Float.exp (c2 * x) + c3
  else if fam == 2 then (if c2 * (x - c0) > 0.0 then c2 else 0.0)
  else if fam == 3 then (if x < c0 then 0.0 else if x > c1 then 0.0 else 1.0)
  else 0.0

/-- second derivative of the two smooth families (0 for the piecewise ones), same operation order as `fam_d2` in
harness/props/c20.py. -/
def famD2 (fam : Int) (c : Array Float) (x : Float) : Float :=
  let c1 := c.getD 1 0; let c2 := c.getD 2 0; let c3 := c.getD 3 0
  if fam == 0 then 6.0 * c3 * x + 2.0 * c2
  else if fam == 1 then c1 * c2 * c2 * Float.exp (c2 * x)
  else 0.0

def showOpt : Option Float → String
  | some x => showFloat x
  | none => "None"

def showNewton : NewtonRes Float → String
  | .root p => "root " ++ showFloat p
  | .step p _ => "step " ++ showFloat p
  | .zeroDer => "None"
  | .noconv p => "noconv " ++ showFloat p

def splitAtN {α} (n : Nat) (l : List α) : List α × List α := (l.take n, l.drop n)

def mkRows : List Float → List Float → List Float → List Float → List (Row Float)
  | a :: as, b :: bs, c :: cs, r :: rs => ⟨a, b, c, r⟩ :: mkRows as bs cs rs
  | _, _, _, _ => []

def chunks {α} (n : Nat) : Nat → List α → List (List α)
  | 0, _ => []
  | k + 1, l => l.take n :: chunks n k (l.drop n)

def one (f : Float → String) (a : List String) : String :=
  match a with
  | [x] => match float? x with | some x => f x | none => "bad-op"
  | _ => "bad-op"

def step (t : List String) : String :=
  match t with
  | "N" :: a => one (fun x => showFloat (N x)) a
  | "nprime" :: a => one (fun x => showFloat (nprime x)) a
  | "normpdf" :: a => one (fun x => showFloat (normpdf x)) a
  | "n_vect" :: a => one (fun x => showFloat (n_vect x)) a
  | "n_prime_vect" :: a => one (fun x => showFloat (n_prime_vect x)) a
  | "heaviside" :: a => one (fun x => showFloat (heaviside x)) a
  | "norminvcdf" :: a => one (fun x => showExcept showFloat (norminvcdf x)) a
  | ["phi2", h, k, r] =>
    match floats? [h, k, r] with
    | some [h, k, r] => showFloat (phi2 h k r)
    | _ => "bad-op"
  | ["bisect", fam, c0, c1, c2, c3, x1, x2, xtol, maxiter] =>
    match int? fam, floats? [c0, c1, c2, c3, x1, x2, xtol], maxiter.toNat? with
    | some fam, some [c0, c1, c2, c3, x1, x2, xtol], some mi =>
      showExcept showOpt (bisection (famF fam #[c0, c1, c2, c3]) 1e-10 x1 x2 xtol mi)
    | _, _, _ => "bad-op"
  | ["newton", fam, c0, c1, c2, c3, x0, tol, maxiter] =>
    match int? fam, floats? [c0, c1, c2, c3, x0, tol], int? maxiter with
    | some fam, some [c0, c1, c2, c3, x0, tol], some mi =>
      showExcept showNewton (newton (famF fam #[c0, c1, c2, c3]) (famD fam #[c0, c1, c2, c3]) x0 tol 0.0 mi)
    | _, _, _ => "bad-op"
  | ["halley", fam, c0, c1, c2, c3, x0, tol, maxiter] =>
    match int? fam, floats? [c0, c1, c2, c3, x0, tol], int? maxiter with
    | some fam, some [c0, c1, c2, c3, x0, tol], some mi =>
      showExcept showNewton (newtonHalley (famF fam #[c0, c1, c2, c3]) (famD fam #[c0, c1, c2, c3])
        (famD2 fam #[c0, c1, c2, c3]) x0 tol 0.0 mi)
    | _, _, _ => "bad-op"
  | ["nsecant", fam, c0, c1, c2, c3, x0, tol, maxiter] =>
    match int? fam, floats? [c0, c1, c2, c3, x0, tol], int? maxiter with
    | some fam, some [c0, c1, c2, c3, x0, tol], some mi =>
      showExcept (fun (r : SecRes Float) => match r with
        | .mid p => "root " ++ showFloat p
        | .step p _ => "step " ++ showFloat p
        | .flat => "None"
        | .noconv p => "noconv " ++ showFloat p) (newtonSec (famF fam #[c0, c1, c2, c3]) 1e-4 x0 tol 0.0 mi)
    | _, _, _ => "bad-op"
  | ["sstart", x0] => one (fun x => showFloat (secantStart 1e-4 x)) [x0]
  | ["sstart2", x0] => one (fun x => showFloat (secantStartNewton 1e-4 x)) [x0]
  | ["phi2g", h, k, r] =>
    match floats? [h, k, r] with
    | some [h, k, r] => showFloat (phi2GF h k r)
    | _ => "bad-op"
  | ["secant", fam, c0, c1, c2, c3, x0, tol, maxiter, disp] =>
    match int? fam, floats? [c0, c1, c2, c3, x0, tol], int? maxiter with
    | some fam, some [c0, c1, c2, c3, x0, tol], some mi =>
      showExcept showFloat (newton_secant (famF fam #[c0, c1, c2, c3]) 1e-4 x0 tol mi (disp == "1"))
    | _, _, _ => "bad-op"
  | "thomas" :: n :: rest =>
    match n.toNat?, floats? rest with
    | some n, some fs =>
      if fs.length != 4 * n then "bad-op" else
      let a := fs.take n; let b := (fs.drop n).take n; let c := (fs.drop (2 * n)).take n; let r := fs.drop (3 * n)
      match thomas (mkRows a b c r) with
      | some xs => showFloats xs
      | none => "E:ValueError"
    | _, _ => "bad-op"
  | "band" :: n :: m1 :: m2 :: rest =>
    match n.toNat?, m1.toNat?, m2.toNat?, floats? rest with
    | some n, some m1, some m2, some fs =>
      let w := m1 + m2 + 1
      if fs.length != n * w + n then "bad-op" else
      let a := (fs.take (n * w)).toArray
      let b := (fs.drop (n * w)).toArray
      showFloats (bandMul (fun i k => a.getD (i * w + k) 0.0) m1 m2 n (fun j => b.getD j 0.0))
    | _, _, _, _ => "bad-op"
  | "npv" :: irr :: rest =>
    match float? irr, floats? rest with
    | some irr, some fs =>
      let rec pairs : List Float → List (Float × Float)
        | t :: c :: l => (t, c) :: pairs l
        | _ => []
      showFloat (npv Float.pow irr (pairs fs))
    | _, _ => "bad-op"
  | "accrued" :: tt :: n :: rest =>
    match float? tt, n.toNat?, floats? rest with
    | some tt, some n, some fs => showFloat (accrued_interpolator tt (fs.take n) (fs.drop n))
    | _, _, _ => "bad-op"
  | ["gcd", v1, v2] =>
    match floats? [v1, v2] with
    | some [v1, v2] => showOpt (pair_gcd 200 v1 v2)
    | _ => "bad-op"
  | "chol" :: n :: rest =>
    match n.toNat?, floats? rest with
    | some n, some fs =>
      if fs.length != n * n then "bad-op" else
      showFloats ((cholesky Float.sqrt (chunks n n fs)).foldl (· ++ ·) [])
    | _, _ => "bad-op"
  | ["sobolll", n] =>
    match n.toNat? with
    | some n => toString (sobolLL n)
    | none => "bad-op"
  | ["sobol1", ll, n] =>
    match ll.toNat?, n.toNat? with
    | some ll, some n => showExcept (fun xs => " ".intercalate (xs.map toString)) (sobolDim1 ll n)
    | _, _ => "bad-op"
  | ["sobolc", i] =>
    match i.toNat? with
    | some i => toString (firstZeroIdx i)
    | none => "bad-op"
  | _ => "bad-op"

def main : IO Unit := loop step
