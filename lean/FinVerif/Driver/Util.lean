/- Line-protocol plumbing shared by the per-property drivers (`lake env lean --run FinVerif/Driver/Cxx.lean`). -/
import FinVerif.Core.Prelude

namespace FinVerif.Driver
open FinVerif

def toks (line : String) : List String :=
  (line.trimAscii.toString.splitOn " ").filter (· ≠ "")

def int? (s : String) : Option Int := s.toInt?

def ints? (l : List String) : Option (List Int) := l.mapM int?

def showDate (dt : PyDate) : String := s!"{dt.d} {dt.m} {dt.y}"

def showExcept {α} (f : α → String) : Except PyErr α → String
  | .ok a => f a
  | .error e => "E:" ++ e.tag

def showRat (q : Rat) : String := s!"{q.num}/{q.den}"

/-- Floats cross the protocol as their IEEE-754 bit patterns (decimal UInt64), never as text. -/
def float? (s : String) : Option Float := s.toNat?.map (fun n => Float.ofBits n.toUInt64)

def floats? (l : List String) : Option (List Float) := l.mapM float?

def showFloat (x : Float) : String := toString x.toBits.toNat

def showFloats (l : List Float) : String := " ".intercalate (l.map showFloat)

/-- Every answer line carries the tag `R ` so that compiler noise on stdout can be filtered. -/
partial def loop (step : List String → String) : IO Unit := do
  let stdin ← IO.getStdin
  let stdout ← IO.getStdout
  let rec go : IO Unit := do
    let line ← stdin.getLine
    if line.isEmpty then return ()
    stdout.putStrLn ("R " ++ step (toks line))
    go
  go
  stdout.flush

end FinVerif.Driver
