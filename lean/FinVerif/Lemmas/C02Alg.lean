/-
  Algebraic helper lemmas over ℝ for `Props/C02b.lean` (rate ↔ discount-factor round trips,
  accumulator-generalised folds).
-/
import FinVerif.Lemmas.C02Real
import Mathlib.Tactic.Ring
import Mathlib.Tactic.FieldSimp
import Mathlib.Tactic.Linarith
import Mathlib.Tactic.NormNum

namespace FinVerif.Model.C02

theorem maxT_pos (t : ℝ) : 0 < max t 1e-12 := lt_max_of_lt_right (by norm_num)

/-- compounded: df → rate → df. -/
theorem comp_df_rate_df (df T f : ℝ) (hdf : 0 < df) (hT : 0 < T) (hf : 0 < f) :
    1 / (1 + ((df ^ (-(1 : ℝ) / (T * f)) - 1) * f) / f) ^ (f * T) = df := by
  have h1 : (1 + ((df ^ (-(1 : ℝ) / (T * f)) - 1) * f) / f) = df ^ (-(1 : ℝ) / (T * f)) := by
    field_simp; ring
  rw [h1, ← Real.rpow_mul hdf.le]
  have h2 : (-(1 : ℝ) / (T * f)) * (f * T) = -1 := by field_simp
  rw [h2, Real.rpow_neg hdf.le, Real.rpow_one]; simp

/-- compounded: rate → df → rate. -/
theorem comp_rate_df_rate (r T f : ℝ) (hb : 0 < 1 + r / f) (hT : 0 < T) (hf : 0 < f) :
    ((1 / (1 + r / f) ^ (f * T)) ^ (-(1 : ℝ) / (T * f)) - 1) * f = r := by
  rw [one_div, ← Real.rpow_neg hb.le, ← Real.rpow_mul hb.le]
  have h2 : -(f * T) * (-(1 : ℝ) / (T * f)) = 1 := by field_simp
  rw [h2, Real.rpow_one]; field_simp; ring

/-- `foldl (+)` with a general accumulator. -/
theorem foldl_pv01_acc (flows : List (ℝ × ℝ)) (a : ℝ) :
    flows.foldl (fun acc p => acc + p.1 * p.2) a = a + (flows.map (fun p => p.1 * p.2)).sum := by
  induction flows generalizing a with
  | nil => simp
  | cons p ps ih => simp [List.foldl_cons, ih, add_assoc]

/-- `foldl (*)` with a general accumulator. -/
theorem foldl_mul_acc (l : List ℝ) (a : ℝ) : l.foldl (· * ·) a = a * l.prod := by
  induction l generalizing a with
  | nil => simp
  | cons p ps ih => simp [List.foldl_cons, ih, mul_assoc]

/-! ### strictly increasing grids -/

/-- In a strictly increasing list the head is `≤` every entry. -/
theorem head_le_getD (x : ℝ) (l : List ℝ) (hs : (x :: l).Pairwise (· < ·)) (j : Nat)
    (hj : j < (x :: l).length) : x ≤ (x :: l).getD j 0 := by
  cases j with
  | zero => simp
  | succ j' =>
    have hj' : j' < l.length := by simpa using hj
    have hmem : l[j'] ∈ l := List.getElem_mem hj'
    have := (List.pairwise_cons.mp hs).1 _ hmem
    simp [List.getD_eq_getElem?_getD, hj']
    exact this.le

/-- strictly increasing: entries are strictly increasing in the index. -/
theorem getD_lt_getD (l : List ℝ) (hs : l.Pairwise (· < ·)) (i j : Nat) (hij : i < j)
    (hj : j < l.length) : l.getD i 0 < l.getD j 0 := by
  have hi : i < l.length := lt_trans hij hj
  have := (List.pairwise_iff_getElem.mp hs) i j hi hj hij
  simpa [List.getD_eq_getElem?_getD, hi, hj] using this

/-- The PWF/PWL interval search at a pillar time of a strictly increasing grid. -/
theorem findLeft_at_knot (l : List ℝ) : ∀ (x : ℝ) (k0 j : Nat), (x :: l).Pairwise (· < ·) →
    j < (x :: l).length →
    findLeft ((x :: l).getD j 0) l k0 = if j < l.length then some (k0 + j) else none := by
  induction l with
  | nil => intro x k0 j _ hj; simp [findLeft]
  | cons y l' ih =>
    intro x k0 j hs hj
    cases j with
    | zero =>
      have hxy : x < y := (List.pairwise_cons.mp hs).1 y (by simp)
      simp [findLeft, hxy]
    | succ j' =>
      have hs' : (y :: l').Pairwise (· < ·) := (List.pairwise_cons.mp hs).2
      have hj' : j' < (y :: l').length := by simpa using hj
      have hle := head_le_getD y l' hs' j' hj'
      have hnot : ¬ ((y :: l').getD j' 0 < y) := not_lt.mpr hle
      have := ih y (k0 + 1) j' hs' hj'
      simp only [List.getD_cons_succ, findLeft, hnot, if_false, this, List.length_cons]
      by_cases h : j' < l'.length
      · simp [h]; omega
      · simp [h]

/-- `searchsorted(side='left')` at a knot of a strictly increasing grid returns the knot's index. -/
theorem countLess_at_knot (l : List ℝ) : ∀ (j : Nat), l.Pairwise (· < ·) → j < l.length →
    countLess (l.getD j 0) l = j := by
  induction l with
  | nil => intro j _ hj; simp at hj
  | cons x l' ih =>
    intro j hs hj
    have hs' := (List.pairwise_cons.mp hs)
    cases j with
    | zero =>
      simp only [countLess, List.getD_cons_zero]
      rw [List.filter_eq_nil_iff.mpr]
      · simp
      · intro a ha
        simp only [List.mem_cons] at ha
        rcases ha with rfl | ha
        · simp
        · simp [not_lt.mpr (hs'.1 a ha).le]
    | succ j' =>
      have hj' : j' < l'.length := by simpa using hj
      have hlt : x < l'.getD j' 0 := by
        have := getD_lt_getD (x :: l') hs 0 (j' + 1) (by omega) hj
        simpa using this
      have := ih j' hs'.2 hj'
      simp only [countLess] at this ⊢
      simp only [List.getD_cons_succ, List.filter_cons, hlt, decide_true, if_true, List.length_cons, this]

end FinVerif.Model.C02
