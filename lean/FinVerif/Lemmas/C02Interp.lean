/-
  Helper lemmas for `Props/C02a.lean`: list reads `g`, the search loop `search`/`locate`, the guards,
  and the algebra of the three kernels of `_uinterpolate` at `α = ℝ`.
-/
import FinVerif.Lemmas.C02Real
import Mathlib.Tactic.Ring
import Mathlib.Tactic.FieldSimp
import Mathlib.Tactic.Linarith

namespace FinVerif.Model.C02

/-! ### reads -/

theorem g_eq_getElem (l : List ℝ) (k : ℕ) (h : k < l.length) : g l k = l[k] := by
  unfold g
  simp [List.getD_eq_getElem?_getD, h]

theorem g_mem (l : List ℝ) (k : ℕ) (h : k < l.length) : g l k ∈ l := by
  rw [g_eq_getElem l k h]
  exact List.getElem_mem h

@[simp] theorem g_cons_zero (x : ℝ) (l : List ℝ) : g (x :: l) 0 = x := by simp [g]

@[simp] theorem g_cons_succ (x : ℝ) (l : List ℝ) (k : ℕ) : g (x :: l) (k + 1) = g l k := by simp [g]

theorem g_append_left (l r : List ℝ) (k : ℕ) (h : k < l.length) : g (l ++ r) k = g l k := by
  unfold g
  simp [List.getD_eq_getElem?_getD, List.getElem?_append_left h]

theorem g_pos (l : List ℝ) (hpos : ∀ d ∈ l, 0 < d) (k : ℕ) (h : k < l.length) : 0 < g l k :=
  hpos _ (g_mem l k h)

/-- strictly increasing list ⇒ strictly increasing reads. -/
theorem g_lt_of_lt (l : List ℝ) (hs : l.Pairwise (· < ·)) (i j : ℕ) (hij : i < j) (hj : j < l.length) :
    g l i < g l j := by
  rw [g_eq_getElem l i (by omega), g_eq_getElem l j hj]
  exact (List.pairwise_iff_getElem.mp hs) i j (by omega) hj hij

theorem g_le_of_le (l : List ℝ) (hs : l.Pairwise (· < ·)) (i j : ℕ) (hij : i ≤ j) (hj : j < l.length) :
    g l i ≤ g l j := by
  rcases Nat.lt_or_eq_of_le hij with h | h
  · exact (g_lt_of_lt l hs i j h hj).le
  · subst h; exact le_rfl

/-! ### the search loop -/

theorem search_le (t : ℝ) : ∀ l : List ℝ, search t l ≤ l.length - 1
  | [] => by simp [search]
  | [_] => by simp [search]
  | x :: y :: rest => by
    have ih := search_le t (y :: rest)
    simp only [search]
    split
    · simp only [List.length_cons] at ih ⊢; omega
    · omega

/-- every knot passed by the loop is `< t`. -/
theorem search_prefix_lt (t : ℝ) : ∀ (l : List ℝ) (j : ℕ), j < search t l → g l j < t
  | [], j, h => by simp [search] at h
  | [_], j, h => by simp [search] at h
  | x :: y :: rest, j, h => by
    simp only [search] at h
    split at h
    · rename_i hx
      cases j with
      | zero => simpa using hx
      | succ j =>
        rw [g_cons_succ]
        exact search_prefix_lt t (y :: rest) j (by omega)
    · omega

/-- the loop stops before the last knot only at a knot that is not `< t`. -/
theorem search_stop (t : ℝ) : ∀ (l : List ℝ), search t l < l.length - 1 → ¬ g l (search t l) < t
  | [], h => by simp [search] at h
  | [_], h => by simp [search] at h
  | x :: y :: rest, h => by
    simp only [search] at h ⊢
    split
    · rename_i hx
      rw [if_pos hx] at h
      rw [g_cons_succ]
      apply search_stop t (y :: rest)
      simp only [List.length_cons] at h ⊢; omega
    · rename_i hx
      simpa using hx

theorem search_at_knot : ∀ (l : List ℝ), l.Pairwise (· < ·) → ∀ k, k < l.length → search (g l k) l = k
  | [], _, k, h => by simp at h
  | [_], _, k, h => by
    simp only [List.length_cons, List.length_nil] at h
    simp only [search]; omega
  | x :: y :: rest, hs, k, h => by
    cases k with
    | zero => simp [search]
    | succ k =>
      have hk : k < (y :: rest).length := by simp only [List.length_cons] at h ⊢; omega
      have hx : x < g (y :: rest) k := (List.pairwise_cons.mp hs).1 _ (g_mem _ _ hk)
      rw [g_cons_succ]
      simp only [search, if_pos hx]
      rw [search_at_knot (y :: rest) (List.pairwise_cons.mp hs).2 k hk]

theorem locate_at_knot (l : List ℝ) (hs : l.Pairwise (· < ·)) (k : ℕ) (hk : k < l.length) :
    locate l (g l k) = k := by
  unfold locate
  simp only [search_at_knot l hs k hk, lt_irrefl, if_false]

/-- For `times[0] < t ≤ times[n-1]` the loop stops at the first knot `≥ t` (no sortedness needed). -/
theorem search_spec (l : List ℝ) (t : ℝ) (h0 : g l 0 < t) (hn : t ≤ g l (l.length - 1)) :
    1 ≤ search t l ∧ search t l < l.length ∧ g l (search t l - 1) < t ∧ t ≤ g l (search t l) ∧
      locate l t = search t l := by
  have hle := search_le t l
  have hlen : 2 ≤ l.length := by
    by_contra hc
    have : l.length - 1 = 0 := by omega
    rw [this] at hn
    linarith
  have hstop : t ≤ g l (search t l) := by
    by_cases hlt : search t l < l.length - 1
    · exact not_lt.mp (search_stop t l hlt)
    · have : search t l = l.length - 1 := by omega
      rw [this]; exact hn
  have h1 : 1 ≤ search t l := by
    by_contra hc
    have : search t l = 0 := by omega
    rw [this] at hstop
    linarith
  refine ⟨h1, by omega, search_prefix_lt t l _ (by omega), hstop, ?_⟩
  unfold locate
  simp only [not_lt.mpr hstop, if_false]

theorem locate_right (l : List ℝ) (hs : l.Pairwise (· < ·)) (t : ℝ) (hn : g l (l.length - 1) < t) :
    locate l t = l.length := by
  unfold locate
  have hle := search_le t l
  by_cases hl : l.length = 0
  · have : l = [] := List.length_eq_zero_iff.mp hl
    subst this; simp only [search, List.length_nil]; exact ite_self _
  · have : g l (search t l) ≤ g l (l.length - 1) := g_le_of_le l hs _ _ hle (by omega)
    simp only [lt_of_le_of_lt this hn, if_true]

/-- The loop never looks past the first knot that is not `< t`: a suffix after it is irrelevant. -/
theorem search_append (t : ℝ) : ∀ (p s : List ℝ), 1 ≤ p.length → ¬ g p (p.length - 1) < t →
    search t (p ++ s) = search t p
  | [], _, h, _ => by simp at h
  | [x], s, _, hx => by
    simp only [List.length_cons, List.length_nil, Nat.zero_add, Nat.sub_self, g_cons_zero] at hx
    cases s with
    | nil => simp [search]
    | cons y r => simp [search, hx]
  | x :: y :: rest, s, _, hx => by
    have ih := search_append t (y :: rest) s (by simp) (by simpa using hx)
    simp only [List.cons_append] at ih ⊢
    simp only [search, ih]

theorem search_not_lt (t : ℝ) (p : List ℝ) (hx : ¬ g p (p.length - 1) < t) : ¬ g p (search t p) < t := by
  have hle := search_le t p
  by_cases hlt : search t p < p.length - 1
  · exact search_stop t p hlt
  · have : search t p = p.length - 1 := by omega
    rw [this]; exact hx

/-! ### guards -/

theorem guardDiv_ok (dens : List ℝ) (v : ℝ) (h : ∀ x ∈ dens, x ≠ 0) : guardDiv dens v = .ok v := by
  unfold guardDiv anyZero
  have : (dens.any fun x => feq x 0) = false := by
    rw [List.any_eq_false]
    intro x hx
    simp [feq_real, h x hx]
  simp only [this, Bool.false_eq_true, if_false]

theorem guardDiv_eq_ok (dens : List ℝ) (v w : ℝ) (h : guardDiv dens v = .ok w) : w = v := by
  unfold guardDiv at h
  split at h
  · cases h
  · injection h with h; exact h.symm

/-! ### kernel algebra -/

theorem kFlat_right (times dfs : List ℝ) (a b : ℕ) (hdt : g times b - g times a ≠ 0) (hb : 0 < g dfs b) :
    kFlat times dfs a b (g times b) = g dfs b := by
  unfold kFlat
  simp only [exp_real, log_real]
  have : ((g times b - g times b) * -Real.log (g dfs a) + (g times b - g times a) * -Real.log (g dfs b))
      / (g times b - g times a) = -Real.log (g dfs b) := by
    field_simp
    ring
  rw [this, neg_neg, Real.exp_log hb]

theorem kFlat_left (times dfs : List ℝ) (a b : ℕ) (hdt : g times b - g times a ≠ 0) (ha : 0 < g dfs a) :
    kFlat times dfs a b (g times a) = g dfs a := by
  unfold kFlat
  simp only [exp_real, log_real]
  have : ((g times b - g times a) * -Real.log (g dfs a) + (g times a - g times a) * -Real.log (g dfs b))
      / (g times b - g times a) = -Real.log (g dfs a) := by
    field_simp
    ring
  rw [this, neg_neg, Real.exp_log ha]

/-- with the same zero rate at both ends the LINEAR_ZERO_RATES kernel is `exp (-r t)`. -/
theorem kLinZero_const (times dfs : List ℝ) (r ta tb : ℕ) (t : ℝ) (hdt : g times tb - g times ta ≠ 0) :
    kLinZero times dfs r r ta tb t = Real.exp (-(-Real.log (g dfs r) / g times r) * t) := by
  unfold kLinZero
  simp only [exp_real, log_real]
  congr 2
  field_simp
  ring

theorem kLinZero_const_at (times dfs : List ℝ) (r ta tb : ℕ) (hdt : g times tb - g times ta ≠ 0)
    (hr : g times r ≠ 0) (hd : 0 < g dfs r) :
    kLinZero times dfs r r ta tb (g times r) = g dfs r := by
  rw [kLinZero_const times dfs r ta tb _ hdt]
  have : -(-Real.log (g dfs r) / g times r) * g times r = Real.log (g dfs r) := by
    field_simp
  rw [this, Real.exp_log hd]

theorem kLinZero_const_zero (times dfs : List ℝ) (r ta tb : ℕ) (hdt : g times tb - g times ta ≠ 0) :
    kLinZero times dfs r r ta tb 0 = 1 := by
  rw [kLinZero_const times dfs r ta tb _ hdt, mul_zero, Real.exp_zero]

theorem kLinZero_right (times dfs : List ℝ) (a b : ℕ) (hdt : g times b - g times a ≠ 0)
    (hb : g times b ≠ 0) (hd : 0 < g dfs b) :
    kLinZero times dfs a b a b (g times b) = g dfs b := by
  unfold kLinZero
  simp only [exp_real, log_real]
  have : -(((g times b - g times b) * (-Real.log (g dfs a) / g times a)
      + (g times b - g times a) * (-Real.log (g dfs b) / g times b)) / (g times b - g times a)) * g times b
      = Real.log (g dfs b) := by
    field_simp
    ring
  rw [this, Real.exp_log hd]

theorem kLinZero_left (times dfs : List ℝ) (a b : ℕ) (hdt : g times b - g times a ≠ 0)
    (ha : g times a ≠ 0) (hd : 0 < g dfs a) :
    kLinZero times dfs a b a b (g times a) = g dfs a := by
  unfold kLinZero
  simp only [exp_real, log_real]
  have : -(((g times b - g times a) * (-Real.log (g dfs a) / g times a)
      + (g times a - g times a) * (-Real.log (g dfs b) / g times b)) / (g times b - g times a)) * g times a
      = Real.log (g dfs a) := by
    field_simp
    ring
  rw [this, Real.exp_log hd]

theorem kLinFwdInt_right (times dfs : List ℝ) (c a b : ℕ) (hdt : g times b - g times a ≠ 0)
    (ha : 0 < g dfs a) (hb : 0 < g dfs b) :
    kLinFwdInt times dfs c a b (g times b) = g dfs b := by
  unfold kLinFwdInt
  simp only [exp_real, log_real]
  have : -(((g times b - g times b) * (-Real.log (g dfs a / g dfs c) / (g times a - g times c))
      + (g times b - g times a) * (-Real.log (g dfs b / g dfs a) / (g times b - g times a)))
      / (g times b - g times a)) * (g times b - g times a) = Real.log (g dfs b / g dfs a) := by
    field_simp
    ring
  rw [this, Real.exp_log (div_pos hb ha)]
  field_simp

theorem kLinFwdInt_left (times dfs : List ℝ) (c a b : ℕ) :
    kLinFwdInt times dfs c a b (g times a) = g dfs a := by
  unfold kLinFwdInt
  simp only [exp_real, sub_self, mul_zero, Real.exp_zero, mul_one]

theorem kLinFwdRight_left (times dfs : List ℝ) (c a : ℕ) :
    kLinFwdRight times dfs c a (g times a) = g dfs a := by
  unfold kLinFwdRight
  simp only [exp_real, sub_self, mul_zero, Real.exp_zero, mul_one]

theorem kLinFwdFirst_zero (times dfs : List ℝ) : kLinFwdFirst times dfs 0 = 1 := by
  unfold kLinFwdFirst
  simp only [exp_real, zero_mul, zero_div, neg_zero, Real.exp_zero]

theorem kFlat_pos (times dfs : List ℝ) (a b : ℕ) (t : ℝ) : 0 < kFlat times dfs a b t := by
  unfold kFlat; simp only [exp_real]; exact Real.exp_pos _

theorem kLinZero_pos (times dfs : List ℝ) (ra rb ta tb : ℕ) (t : ℝ) : 0 < kLinZero times dfs ra rb ta tb t := by
  unfold kLinZero; simp only [exp_real]; exact Real.exp_pos _

theorem kLinFwdFirst_pos (times dfs : List ℝ) (t : ℝ) : 0 < kLinFwdFirst times dfs t := by
  unfold kLinFwdFirst; simp only [exp_real]; exact Real.exp_pos _

theorem kLinFwdInt_pos (times dfs : List ℝ) (c a b : ℕ) (t : ℝ) (ha : 0 < g dfs a) :
    0 < kLinFwdInt times dfs c a b t := by
  unfold kLinFwdInt; simp only [exp_real]; exact mul_pos ha (Real.exp_pos _)

theorem kLinFwdRight_pos (times dfs : List ℝ) (c a : ℕ) (t : ℝ) (ha : 0 < g dfs a) :
    0 < kLinFwdRight times dfs c a t := by
  unfold kLinFwdRight; simp only [exp_real]; exact mul_pos ha (Real.exp_pos _)

/-! ### branch selection -/

theorem kernel_m1 (times dfs : List ℝ) (i : ℕ) (t : ℝ) : kernel 1 times dfs i t =
    if i = 0 then
      guardDiv [g times 0 - g times (times.length - 1)] (kFlat times dfs (times.length - 1) 0 t)
    else if i < times.length then
      guardDiv [g times i - g times (i - 1)] (kFlat times dfs (i - 1) i t)
    else
      guardDiv [g times (times.length - 1) - g times (times.length - 2)]
        (kFlat times dfs (times.length - 2) (times.length - 1) t) := by
  simp only [kernel, Int.reduceEq, ↓reduceIte]

theorem kernel_m4 (times dfs : List ℝ) (i : ℕ) (t : ℝ) : kernel 4 times dfs i t =
    if i = 1 then
      guardDiv [g times 1, g times 1 - g times 0] (kLinZero times dfs 1 1 0 1 t)
    else if i = 0 then
      guardDiv [g times (times.length - 1), g times 0, g times 0 - g times (times.length - 1)]
        (kLinZero times dfs (times.length - 1) 0 (times.length - 1) 0 t)
    else if i < times.length then
      guardDiv [g times (i - 1), g times i, g times i - g times (i - 1)]
        (kLinZero times dfs (i - 1) i (i - 1) i t)
    else
      guardDiv [g times (times.length - 1), g times (times.length - 1) - g times (times.length - 2)]
        (kLinZero times dfs (times.length - 1) (times.length - 1) (times.length - 2) (times.length - 1) t) := by
  simp only [kernel, ↓reduceIte]

theorem kernel_m2 (times dfs : List ℝ) (i : ℕ) (t : ℝ) : kernel 2 times dfs i t =
    if i = 1 then
      guardDiv [g times 1 + (1e-10 : ℝ)] (kLinFwdFirst times dfs t)
    else if i = 0 then
      guardDiv [g dfs (times.length - 2), g times (times.length - 1) - g times (times.length - 2),
          g dfs (times.length - 1), g times 0 - g times (times.length - 1)]
        (kLinFwdInt times dfs (times.length - 2) (times.length - 1) 0 t)
    else if i < times.length then
      guardDiv [g dfs (i - 2), g times (i - 1) - g times (i - 2), g dfs (i - 1), g times i - g times (i - 1)]
        (kLinFwdInt times dfs (i - 2) (i - 1) i t)
    else
      guardDiv [g dfs (times.length - 2), g times (times.length - 1) - g times (times.length - 2)]
        (kLinFwdRight times dfs (times.length - 2) (times.length - 1) t) := by
  simp only [kernel, Int.reduceEq, ↓reduceIte]

theorem kernel_other (m : Int) (times dfs : List ℝ) (i : ℕ) (t : ℝ) (h1 : m ≠ 1) (h2 : m ≠ 2) (h4 : m ≠ 4) :
    kernel m times dfs i t = .error .finError := by
  simp only [kernel, h1, h2, h4, ↓reduceIte]

theorem uinterp_first (m : Int) (times dfs : List ℝ) (h : times.length ≠ 0) :
    uinterp m times dfs (g times 0) = .ok (g dfs 0) := by
  simp only [uinterp, h, feq_real, decide_true, ↓reduceIte]

theorem uinterp_kernel (m : Int) (times dfs : List ℝ) (t : ℝ) (hn : 2 ≤ times.length) (ht : t ≠ g times 0) :
    uinterp m times dfs t = kernel m times dfs (locate times t) t := by
  have h0 : times.length ≠ 0 := by omega
  have h1 : times.length ≠ 1 := by omega
  simp only [uinterp, h0, h1, feq_real, ht, decide_false, ↓reduceIte, Bool.false_eq_true]

theorem guardDiv_ok1 (a v : ℝ) (ha : a ≠ 0) : guardDiv [a] v = .ok v :=
  guardDiv_ok _ _ (by simp [ha])

theorem guardDiv_ok2 (a b v : ℝ) (ha : a ≠ 0) (hb : b ≠ 0) : guardDiv [a, b] v = .ok v :=
  guardDiv_ok _ _ (by simp [ha, hb])

theorem guardDiv_ok3 (a b c v : ℝ) (ha : a ≠ 0) (hb : b ≠ 0) (hc : c ≠ 0) : guardDiv [a, b, c] v = .ok v :=
  guardDiv_ok _ _ (by simp [ha, hb, hc])

theorem guardDiv_ok4 (a b c d v : ℝ) (ha : a ≠ 0) (hb : b ≠ 0) (hc : c ≠ 0) (hd : d ≠ 0) :
    guardDiv [a, b, c, d] v = .ok v :=
  guardDiv_ok _ _ (by simp [ha, hb, hc, hd])

theorem g_sub_ne (l : List ℝ) (hs : l.Pairwise (· < ·)) (i j : ℕ) (hij : i < j) (hj : j < l.length) :
    g l j - g l i ≠ 0 :=
  sub_ne_zero.mpr (ne_of_gt (g_lt_of_lt l hs i j hij hj))

theorem g_ne_zero_of_pos (l : List ℝ) (hs : l.Pairwise (· < ·)) (h0 : 0 ≤ g l 0) (k : ℕ) (hk : 1 ≤ k)
    (hl : k < l.length) : g l k ≠ 0 :=
  ne_of_gt (lt_of_le_of_lt h0 (g_lt_of_lt l hs 0 k (by omega) hl))

/-! ### positivity and locality of the branch formulas -/

theorem kernel_pos (m : Int) (times dfs : List ℝ) (hlen : dfs.length = times.length)
    (hpos : ∀ d ∈ dfs, 0 < d) (hn : 1 ≤ times.length) (i : ℕ) (t v : ℝ)
    (h : kernel m times dfs i t = .ok v) : 0 < v := by
  by_cases h1 : m = 1
  · subst h1
    rw [kernel_m1] at h
    split_ifs at h <;> (rw [guardDiv_eq_ok _ _ _ h]; exact kFlat_pos _ _ _ _ _)
  by_cases h4 : m = 4
  · subst h4
    rw [kernel_m4] at h
    split_ifs at h <;> (rw [guardDiv_eq_ok _ _ _ h]; exact kLinZero_pos _ _ _ _ _ _ _)
  by_cases h2 : m = 2
  · subst h2
    rw [kernel_m2] at h
    split_ifs at h
    · rw [guardDiv_eq_ok _ _ _ h]; exact kLinFwdFirst_pos _ _ _
    · rw [guardDiv_eq_ok _ _ _ h]; exact kLinFwdInt_pos _ _ _ _ _ _ (g_pos dfs hpos _ (by omega))
    · rw [guardDiv_eq_ok _ _ _ h]; exact kLinFwdInt_pos _ _ _ _ _ _ (g_pos dfs hpos _ (by omega))
    · rw [guardDiv_eq_ok _ _ _ h]; exact kLinFwdRight_pos _ _ _ _ _ (g_pos dfs hpos _ (by omega))
  · rw [kernel_other m times dfs i t h1 h2 h4] at h
    cases h

theorem locate_append (p s : List ℝ) (t : ℝ) (h1 : 1 ≤ p.length) (hx : ¬ g p (p.length - 1) < t) :
    locate (p ++ s) t = search t p ∧ locate p t = search t p := by
  have hle := search_le t p
  have hnl := search_not_lt t p hx
  unfold locate
  simp only [search_append t p s h1 hx, g_append_left p s (search t p) (by omega), hnl, if_false, and_self]

/-- an interior branch `1 ≤ i < |pt|` reads only the knots `i-2, i-1, i` (and `0, 1`): a suffix is irrelevant. -/
theorem kernel_append (m : Int) (pt pd st sd : List ℝ) (hlen : pd.length = pt.length) (i : ℕ) (t : ℝ)
    (h1 : 1 ≤ i) (hi : i < pt.length) :
    kernel m (pt ++ st) (pd ++ sd) i t = kernel m pt pd i t := by
  have eT : ∀ k, k ≤ i → g (pt ++ st) k = g pt k := fun k hk => g_append_left pt st k (by omega)
  have eD : ∀ k, k ≤ i → g (pd ++ sd) k = g pd k := fun k hk => g_append_left pd sd k (by omega)
  have hi' : i < (pt ++ st).length := by rw [List.length_append]; omega
  have hi0 : i ≠ 0 := by omega
  by_cases m1 : m = 1
  · subst m1
    rw [kernel_m1, kernel_m1, if_neg hi0, if_neg hi0, if_pos hi, if_pos hi']
    simp only [kFlat, eT i le_rfl, eT (i - 1) (by omega), eD i le_rfl, eD (i - 1) (by omega)]
  by_cases m4 : m = 4
  · subst m4
    rw [kernel_m4, kernel_m4]
    by_cases i1 : i = 1
    · subst i1
      rw [if_pos rfl, if_pos rfl]
      simp only [kLinZero, eT 1 le_rfl, eT 0 (by omega), eD 1 le_rfl]
    · rw [if_neg i1, if_neg i1, if_neg hi0, if_neg hi0, if_pos hi, if_pos hi']
      simp only [kLinZero, eT i le_rfl, eT (i - 1) (by omega), eD i le_rfl, eD (i - 1) (by omega)]
  by_cases m2 : m = 2
  · subst m2
    rw [kernel_m2, kernel_m2]
    by_cases i1 : i = 1
    · subst i1
      rw [if_pos rfl, if_pos rfl]
      simp only [kLinFwdFirst, eT 1 le_rfl, eD 1 le_rfl]
    · rw [if_neg i1, if_neg i1, if_neg hi0, if_neg hi0, if_pos hi, if_pos hi']
      simp only [kLinFwdInt, eT i le_rfl, eT (i - 1) (by omega), eT (i - 2) (by omega), eD i le_rfl,
        eD (i - 1) (by omega), eD (i - 2) (by omega)]
  · rw [kernel_other m _ _ i t m1 m2 m4, kernel_other m _ _ i t m1 m2 m4]

/-- the flat-forward branch is non-increasing when `dfs[b] ≤ dfs[a]`. -/
theorem kFlat_antitone (times dfs : List ℝ) (a b : ℕ) (hab : g times a < g times b)
    (hb : 0 < g dfs b) (h : g dfs b ≤ g dfs a) (s t : ℝ) (hst : s ≤ t) :
    kFlat times dfs a b t ≤ kFlat times dfs a b s := by
  have hlog : Real.log (g dfs b) ≤ Real.log (g dfs a) := Real.log_le_log hb h
  have hdt : 0 ≤ g times b - g times a := (sub_pos.mpr hab).le
  unfold kFlat
  simp only [exp_real, log_real]
  apply Real.exp_le_exp.mpr
  apply neg_le_neg
  apply div_le_div_of_nonneg_right _ hdt
  nlinarith [mul_nonneg (sub_nonneg.mpr hst) (sub_nonneg.mpr hlog)]

/-! ### global shape of FLAT_FWD_RATES -/

/-- FLAT_FWD_RATES right of the first knot: the value is the flat-forward formula of an interval `j`
whose left knot is `< t`, and whose right knot is `≥ t` unless `j` is the last interval (extrapolation). -/
theorem uinterp_flat_shape (times dfs : List ℝ) (hs : times.Pairwise (· < ·)) (hn : 2 ≤ times.length)
    (t : ℝ) (ht : g times 0 < t) :
    ∃ j, 1 ≤ j ∧ j < times.length ∧ g times (j - 1) < t ∧ (t ≤ g times j ∨ j = times.length - 1) ∧
      uinterp 1 times dfs t = .ok (kFlat times dfs (j - 1) j t) := by
  by_cases hhi : t ≤ g times (times.length - 1)
  · obtain ⟨s1, s2, s3, s4, s5⟩ := search_spec times t ht hhi
    refine ⟨search t times, s1, s2, s3, Or.inl s4, ?_⟩
    rw [uinterp_kernel 1 times dfs t hn (ne_of_gt ht), s5, kernel_m1, if_neg (by omega), if_pos s2,
      guardDiv_ok1 _ _ (g_sub_ne times hs _ _ (by omega) s2)]
  · have hlt := not_le.mp hhi
    have h21 := g_lt_of_lt times hs (times.length - 2) (times.length - 1) (by omega) (by omega)
    have e : times.length - 1 - 1 = times.length - 2 := by omega
    refine ⟨times.length - 1, by omega, by omega, ?_, Or.inr rfl, ?_⟩
    · rw [e]; linarith
    · rw [uinterp_kernel 1 times dfs t hn (ne_of_gt ht), locate_right times hs t hlt, kernel_m1,
        if_neg (by omega), if_neg (lt_irrefl _),
        guardDiv_ok1 _ _ (g_sub_ne times hs _ _ (by omega) (by omega)), e]

theorem g_antitone_of_step (dfs : List ℝ) (n : ℕ) (h : ∀ k, k + 1 < n → g dfs (k + 1) ≤ g dfs k) (i : ℕ) :
    ∀ j, i ≤ j → j < n → g dfs j ≤ g dfs i := by
  intro j
  induction j with
  | zero => intro hij _; have : i = 0 := by omega
            subst this; exact le_rfl
  | succ j ih =>
    intro hij hj
    rcases Nat.lt_or_eq_of_le hij with h' | h'
    · exact le_trans (h j hj) (ih (by omega) (by omega))
    · subst h'; exact le_rfl

end FinVerif.Model.C02
