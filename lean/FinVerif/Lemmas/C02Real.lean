/-
  The real-number interpretation of the C02 model: `ExpLog ℝ` = (`Real.exp`, `Real.log`, `Real.rpow`),
  with the `rfl` lemmas that expose it to `simp`.  Theorems in `Props/C02*.lean` are stated at `α = ℝ`.
-/
import FinVerif.Model.C02
import Mathlib.Analysis.SpecialFunctions.Pow.Real
import Mathlib.Analysis.SpecialFunctions.Log.Basic
import Mathlib.Analysis.SpecialFunctions.Exp

namespace FinVerif.Model.C02

noncomputable instance instExpLogReal : ExpLog ℝ := ⟨Real.exp, Real.log, Real.rpow⟩

@[simp] theorem exp_real (x : ℝ) : ExpLog.exp x = Real.exp x := rfl
@[simp] theorem log_real (x : ℝ) : ExpLog.log x = Real.log x := rfl
@[simp] theorem pow_real (x y : ℝ) : ExpLog.pow x y = x ^ y := rfl

@[simp] theorem feq_real (a b : ℝ) : feq a b = decide (a = b) := by
  unfold feq
  by_cases h : a = b
  · subst h; simp
  · have : ¬ (a ≤ b ∧ b ≤ a) := fun ⟨h1, h2⟩ => h (le_antisymm h1 h2)
    simp only [h, decide_false]
    by_cases h1 : a ≤ b
    · have h2 : ¬ b ≤ a := fun h2 => this ⟨h1, h2⟩
      simp [h1, h2]
    · simp [h1]

theorem fmaxG_real (a b : ℝ) : fmaxG a b = max a b := by
  unfold fmaxG
  by_cases h : a < b
  · simp [h, max_eq_right h.le]
  · simp [h, max_eq_left (not_lt.mp h)]

end FinVerif.Model.C02
