/-
  Helper lemmas for C03: the real-number reading of the model's operations and of its sums.
-/
import FinVerif.Model.C03
import Mathlib.Algebra.BigOperators.Intervals
import Mathlib.Algebra.Order.BigOperators.Group.Finset
import Mathlib.Order.Interval.Finset.Basic
import Mathlib.Data.Int.Interval
import Mathlib.Analysis.SpecialFunctions.Pow.Real
import Mathlib.Analysis.SpecialFunctions.Sqrt
import Mathlib.Tactic.Ring
import Mathlib.Tactic.Linarith
import Mathlib.Tactic.Positivity
import Mathlib.Tactic.FieldSimp
import Mathlib.Tactic.NormNum

namespace FinVerif.Model.C03
open Finset

/-- The model read over the reals. -/
noncomputable def realOps : Ops ℝ where
  ofInt := fun n => (n : ℝ)
  exp := Real.exp
  log := Real.log
  sqrt := Real.sqrt
  pow := fun x y => x ^ y
  ceilNat := fun x => ⌈x⌉₊
  max := max
  min := min

notation "𝕆" => realOps

@[simp] theorem ofInt_real (n : Int) : (𝕆).ofInt n = (n : ℝ) := rfl
@[simp] theorem exp_real (x : ℝ) : (𝕆).exp x = Real.exp x := rfl
@[simp] theorem log_real (x : ℝ) : (𝕆).log x = Real.log x := rfl
@[simp] theorem max_real (x y : ℝ) : (𝕆).max x y = max x y := rfl
@[simp] theorem min_real (x y : ℝ) : (𝕆).min x y = min x y := rfl
@[simp] theorem pow_real (x y : ℝ) : (𝕆).pow x y = x ^ y := rfl

theorem foldl_add (f : ι → ℝ) (l : List ι) (a : ℝ) :
    l.foldl (fun acc j => acc + f j) a = a + (l.map f).sum := by
  induction l generalizing a with
  | nil => simp
  | cons x xs ih => simp [ih, add_assoc]

theorem intRange_nodup (lo hi : Int) : (intRange lo hi).Nodup := by
  unfold intRange
  refine (List.nodup_range).map ?_
  intro a b h
  simpa using h

theorem intRange_toFinset (lo hi : Int) : (intRange lo hi).toFinset = Icc lo hi := by
  ext j
  simp only [intRange, List.mem_toFinset, List.mem_map, List.mem_range, mem_Icc]
  constructor
  · rintro ⟨i, hi', rfl⟩; omega
  · intro h; exact ⟨(j - lo).toNat, by omega, by omega⟩

/-- the model's `sum += …` loop over `lo … hi`, read over ℝ, is the finite sum over `Icc lo hi` -/
theorem sumR_eq (lo hi : Int) (f : Int → ℝ) : sumR 𝕆 lo hi f = ∑ j ∈ Icc lo hi, f j := by
  unfold sumR
  rw [foldl_add, ← intRange_toFinset, List.sum_toFinset _ (intRange_nodup lo hi)]
  simp

theorem sumN_eq (n : Nat) (f : Nat → ℝ) : sumN 𝕆 n f = ∑ k ∈ range n, f k := by
  unfold sumN
  rw [foldl_add]
  have : (List.range n).toFinset = range n := by ext; simp
  rw [← this, List.sum_toFinset _ (List.nodup_range)]
  simp

@[simp] theorem ind_real (c : Prop) [Decidable c] (x : ℝ) : ind 𝕆 c x = if c then x else 0 := by
  simp [ind]

/-- `∑_{i ∈ Icc a b} (if i = t then x else 0) * V i = x * V t` for `t` inside the range -/
theorem sum_ind_mul (a b t : Int) (ht : a ≤ t ∧ t ≤ b) (x : ℝ) (V : Int → ℝ) :
    ∑ i ∈ Icc a b, (if i = t then x else 0) * V i = x * V t := by
  have : ∀ i ∈ Icc a b, (if i = t then x else 0) * V i = if i = t then x * V t else 0 := by
    intro i _; split <;> simp_all
  rw [sum_congr rfl this, sum_ite_eq' (Icc a b) t]
  simp [mem_Icc, ht]

end FinVerif.Model.C03
