/-
  Helper lemmas for C05 (Black–Scholes family).  Pure real analysis, independent of the generated code:
  the hypothesis bundles on the normal cdf/pdf, the key identity a·φ(d₁) = b·φ(d₂), and one master
  derivative lemma for  F(p) = a(p)·Φ(d₁(p)) − b(p)·Φ(d₂(p))  from which every Greek follows.
-/
import Mathlib.Analysis.SpecialFunctions.Log.Deriv
import Mathlib.Analysis.SpecialFunctions.ExpDeriv
import Mathlib.Analysis.SpecialFunctions.Sqrt
import Mathlib.Analysis.SpecialFunctions.Trigonometric.Basic
import Mathlib.Analysis.Calculus.Deriv.Mul
import Mathlib.Analysis.Calculus.Deriv.Comp
import Mathlib.Analysis.Calculus.Deriv.Inv
import Mathlib.Tactic.Ring
import Mathlib.Tactic.Linarith
import Mathlib.Tactic.LinearCombination
import Mathlib.Tactic.FieldSimp
import Mathlib.Tactic.NormNum
import FinVerif.Spec.C05

namespace FinVerif.C05
open FinVerif

theorem IsStdNormal.gaussPair {Φ φ : ℝ → ℝ} (h : IsStdNormal Φ φ) :
    IsGaussPair Φ φ (1 / Real.sqrt (2 * Real.pi)) :=
  ⟨h.deriv, fun x => by rw [h.pdf x]; ring⟩

theorem IsGaussPair.even {Φ φ : ℝ → ℝ} {c : ℝ} (h : IsGaussPair Φ φ c) (x : ℝ) : φ (-x) = φ x := by
  rw [h.pdf, h.pdf]; congr 2; ring

theorem IsGaussPair.flipN {Φ φ : ℝ → ℝ} {c : ℝ} (h : IsGaussPair Φ φ c) {ε : ℝ} (hε : ε = 1 ∨ ε = -1) :
    IsGaussPair (flipN ε Φ) φ c := by
  refine ⟨fun x => ?_, h.pdf⟩
  have h1 : HasDerivAt (fun y : ℝ => ε * y) ε x := by simpa using (hasDerivAt_id x).const_mul ε
  have h2 := ((h.deriv (ε * x)).comp x h1).const_mul ε
  have e : ε * (φ (ε * x) * ε) = φ x := by
    rcases hε with rfl | rfl
    · simp
    · have := h.even x; simp [this]
  rw [e] at h2
  exact h2

/-- **Key identity**  a·φ(d₁) = b·φ(d₂)  (S e^{−qT} φ(d₁) = K e^{−rT} φ(d₂)). -/
theorem key_identity {Φ φ : ℝ → ℝ} {c : ℝ} (h : IsGaussPair Φ φ c) {a b w : ℝ} (ha : 0 < a) (hb : 0 < b)
    (hw : w ≠ 0) : a * φ (D1 a b w) = b * φ (D1 a b w - w) := by
  rw [h.pdf, h.pdf]
  have hL : Real.exp (Real.log (a / b)) = a / b := Real.exp_log (div_pos ha hb)
  have e : -((D1 a b w - w) * (D1 a b w - w)) / 2 = -(D1 a b w * D1 a b w) / 2 + Real.log (a / b) := by
    unfold D1; field_simp; ring
  rw [e, Real.exp_add, hL]
  field_simp

/-- **Master lemma.**  For differentiable `a b w` (discounted spot, discounted strike, total vol as functions of
any one parameter `p`),  F = a·Φ(d₁) − b·Φ(d₂)  has derivative  a'·Φ(d₁) − b'·Φ(d₂) + b·φ(d₂)·w'. -/
theorem hasDerivAt_blackForm {Φ φ : ℝ → ℝ} {c : ℝ} (h : IsGaussPair Φ φ c) {a b w : ℝ → ℝ} {a' b' w' p : ℝ}
    (ha : HasDerivAt a a' p) (hb : HasDerivAt b b' p) (hw : HasDerivAt w w' p)
    (hap : 0 < a p) (hbp : 0 < b p) (hwp : w p ≠ 0) :
    HasDerivAt (fun x => a x * Φ (D1 (a x) (b x) (w x)) - b x * Φ (D1 (a x) (b x) (w x) - w x))
      (a' * Φ (D1 (a p) (b p) (w p)) - b' * Φ (D1 (a p) (b p) (w p) - w p)
        + b p * φ (D1 (a p) (b p) (w p) - w p) * w') p := by
  have hab : a p / b p ≠ 0 := (div_pos hap hbp).ne'
  have hd1 : HasDerivAt (fun x => D1 (a x) (b x) (w x))
      (((a' * b p - a p * b') / (b p) ^ 2 / (a p / b p) * w p - Real.log (a p / b p) * w') / (w p) ^ 2 + w' / 2) p := by
    unfold D1
    exact ((((ha.div hb hbp.ne').log hab).div hw hwp)).add (hw.div_const 2)
  have hd2 := hd1.sub hw
  have hΦ1 := (h.deriv _).comp p hd1
  have hΦ2 := (h.deriv _).comp p hd2
  have key := key_identity h hap hbp hwp
  have := (ha.mul hΦ1).sub (hb.mul hΦ2)
  refine this.congr_deriv ?_
  simp only [Function.comp]
  set d1' := ((a' * b p - a p * b') / (b p) ^ 2 / (a p / b p) * w p - Real.log (a p / b p) * w') / (w p) ^ 2 + w' / 2
  linear_combination d1' * key
