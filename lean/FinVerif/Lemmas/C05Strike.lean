/-
  Helper lemmas for C05 (growth round): pure real analysis on the Black form
  C(a, b, w) = a·Φ(d₁) − b·Φ(d₁ − w)  of `Lemmas/C08` (a = discounted spot/forward, b = discounted strike,
  w = total volatility), independent of the generated code:

  * second derivative in the strike: ∂/∂b [−Φ(d₂)] = φ(d₂)/(b·w) ≥ 0 (the discounted risk-neutral density), and
    convexity of C (and of the put) in b;
  * the central mass of the normal law:  2x·φ(x) ≤ Φ(x) − Φ(−x)  (x ≥ 0), hence at the money (a = b)
    C = a·(Φ(w/2) − Φ(−w/2)) ≥ a·w·φ(w/2): the time value is of FIRST order in w — no threshold on σ√T below
    which "value = intrinsic" is correct.
-/
import FinVerif.Lemmas.C08
import Mathlib.Analysis.Convex.Deriv

namespace FinVerif.C05
open FinVerif FinVerif.C08 Filter Topology

variable {Φ φ : ℝ → ℝ} {c : ℝ}

/-- d₂ as a function of the discounted strike: derivative −1/(b·w) -/
theorem d2_hasDerivAt_b {a b w : ℝ} (ha : 0 < a) (hb : 0 < b) (hw : w ≠ 0) :
    HasDerivAt (fun x => D1 a x w - w) (-(1 / (b * w))) b := by
  have hab : a / b ≠ 0 := (div_pos ha hb).ne'
  have h1 : HasDerivAt (fun x : ℝ => a / x) (-a / b ^ 2) b := by
    have := (hasDerivAt_const b a).div (hasDerivAt_id b) hb.ne'
    refine this.congr_deriv ?_
    simp
  have h2 := ((h1.log hab).div_const w).add_const (w / 2)
  have h3 := h2.sub_const w
  unfold D1
  refine h3.congr_deriv ?_
  field_simp

/-- **second strike derivative = density**: ∂/∂b [∂C/∂b] = ∂/∂b [−Φ(d₂)] = φ(d₂)/(b·w). -/
theorem bf_dualDelta_hasDerivAt (h : IsNormalCdf Φ φ c) {a b w : ℝ} (ha : 0 < a) (hb : 0 < b) (hw : w ≠ 0) :
    HasDerivAt (fun x => -Φ (D1 a x w - w)) (φ (D1 a b w - w) / (b * w)) b := by
  have := ((h.gauss.deriv _).comp b (d2_hasDerivAt_b ha hb hw)).neg
  refine this.congr_deriv ?_
  ring

theorem bf_density_nonneg (h : IsNormalCdf Φ φ c) {a b w : ℝ} (hb : 0 < b) (hw : 0 < w) :
    0 ≤ φ (D1 a b w - w) / (b * w) :=
  div_nonneg (h.pdf_nonneg _) (mul_pos hb hw).le

/-- the call is convex in the discounted strike -/
theorem bfCall_convexOn_b (h : IsNormalCdf Φ φ c) {a w : ℝ} (ha : 0 < a) (hw : 0 < w) :
    ConvexOn ℝ (Set.Ioi 0) (fun b => bfCall Φ a b w) := by
  have hd : ∀ x ∈ Set.Ioi (0 : ℝ), HasDerivAt (fun b => bfCall Φ a b w) (-Φ (D1 a x w - w)) x :=
    fun x hx => bfCall_hasDerivAt_b h ha hx hw.ne'
  apply MonotoneOn.convexOn_of_deriv (convex_Ioi 0)
  · intro x hx; exact (hd x hx).continuousAt.continuousWithinAt
  · intro x hx; rw [interior_Ioi] at hx; exact (hd x hx).differentiableAt.differentiableWithinAt
  · rw [interior_Ioi]
    have hmono : MonotoneOn (fun x => -Φ (D1 a x w - w)) (Set.Ioi 0) := by
      apply monotoneOn_of_deriv_nonneg (convex_Ioi 0)
      · intro x hx; exact (bf_dualDelta_hasDerivAt h ha hx hw.ne').continuousAt.continuousWithinAt
      · intro x hx; rw [interior_Ioi] at hx
        exact (bf_dualDelta_hasDerivAt h ha hx hw.ne').differentiableAt.differentiableWithinAt
      · intro x hx; rw [interior_Ioi] at hx
        rw [(bf_dualDelta_hasDerivAt h ha hx hw.ne').deriv]
        exact bf_density_nonneg h hx hw
    intro x hx y hy hxy
    rw [(hd x hx).deriv, (hd y hy).deriv]
    exact hmono hx hy hxy

/-- the put is convex in the discounted strike (put = call + b − a) -/
theorem bfPut_convexOn_b (h : IsNormalCdf Φ φ c) {a w : ℝ} (ha : 0 < a) (hw : 0 < w) :
    ConvexOn ℝ (Set.Ioi 0) (fun b => bfPut Φ a b w) := by
  have e : (fun b => bfPut Φ a b w) = (fun b => bfCall Φ a b w) + fun b => b - a := by
    funext b; simp only [Pi.add_apply]; linarith [bf_parity h.symm a b w]
  rw [e]
  refine (bfCall_convexOn_b h ha hw).add ?_
  exact ((convexOn_id (convex_Ioi (0 : ℝ))).add (convexOn_const (-a) (convex_Ioi 0))).congr
    (fun x hx => by simp [sub_eq_add_neg])

/-! ### the central mass of the normal law and the at-the-money time value -/

/-- 2x·φ(x) ≤ Φ(x) − Φ(−x) for x ≥ 0 (φ is decreasing on [0, ∞)). -/
theorem central_mass_ge (h : IsNormalCdf Φ φ c) {x : ℝ} (hx : 0 ≤ x) : 2 * x * φ x ≤ Φ x - Φ (-x) := by
  have hd : ∀ y : ℝ, HasDerivAt (fun y => Φ y - Φ (-y) - 2 * y * φ y) (2 * y * y * φ y) y := by
    intro y
    have h1 := h.gauss.deriv y
    have h2 : HasDerivAt (fun y => Φ (-y)) (-(φ y)) y := by
      have := (h.gauss.deriv (-y)).comp y (hasDerivAt_neg y)
      rw [h.pdf_even y] at this
      refine this.congr_deriv ?_
      ring
    have h3 : HasDerivAt (fun y : ℝ => 2 * y * φ y) (2 * φ y + 2 * y * (-(y * φ y))) y := by
      have h4 : HasDerivAt (fun y : ℝ => 2 * y) 2 y := by simpa using (hasDerivAt_id y).const_mul (2 : ℝ)
      exact h4.mul (h.pdf_hasDerivAt y)
    refine ((h1.sub h2).sub h3).congr_deriv ?_
    ring
  have hmono : MonotoneOn (fun y => Φ y - Φ (-y) - 2 * y * φ y) (Set.Ici 0) := by
    apply monotoneOn_of_deriv_nonneg (convex_Ici 0)
    · intro y _; exact (hd y).continuousAt.continuousWithinAt
    · intro y _; exact (hd y).differentiableAt.differentiableWithinAt
    · intro y _; rw [(hd y).deriv]
      have h5 := h.pdf_nonneg y
      have h6 : 0 ≤ y * y := mul_self_nonneg y
      have h7 : 2 * y * y * φ y = 2 * ((y * y) * φ y) := by ring
      rw [h7]
      exact mul_nonneg (by norm_num) (mul_nonneg h6 h5)
  have := hmono (Set.mem_Ici.mpr le_rfl) hx hx
  simp only [neg_zero, sub_self, mul_zero, zero_mul] at this
  linarith

/-- at the money (a = b) the Black form is a·(Φ(w/2) − Φ(−w/2)) -/
theorem bfCall_atm_eq (Φ : ℝ → ℝ) {a : ℝ} (ha : a ≠ 0) (w : ℝ) :
    bfCall Φ a a w = a * (Φ (w / 2) - Φ (-(w / 2))) := by
  unfold bfCall D1; rw [div_self ha, Real.log_one]; ring_nf

/-- **at-the-money time value is at least a·w·φ(w/2)** -/
theorem bfCall_atm_lower (h : IsNormalCdf Φ φ c) {a w : ℝ} (ha : 0 < a) (hw : 0 ≤ w) :
    a * w * φ (w / 2) ≤ bfCall Φ a a w := by
  rw [bfCall_atm_eq Φ ha.ne']
  have := central_mass_ge h (x := w / 2) (by linarith)
  have e : a * w * φ (w / 2) = a * (2 * (w / 2) * φ (w / 2)) := by ring
  rw [e]
  exact mul_le_mul_of_nonneg_left this ha.le

/-- … hence at least (7/8)·c·a·w for w ≤ 1 (c = φ(0) = 1/√(2π) for the standard normal: ≥ 0.349·a·w). -/
theorem bfCall_atm_lower_lin (h : IsNormalCdf Φ φ c) {a w : ℝ} (ha : 0 < a) (hw : 0 ≤ w) (hw1 : w ≤ 1) :
    7 / 8 * c * a * w ≤ bfCall Φ a a w := by
  refine le_trans ?_ (bfCall_atm_lower h ha hw)
  rw [h.gauss.pdf]
  have h1 : 1 - (w / 2 * (w / 2)) / 2 ≤ Real.exp (-(w / 2 * (w / 2)) / 2) := by
    have := Real.add_one_le_exp (-(w / 2 * (w / 2)) / 2)
    linarith
  have h2 : (7 : ℝ) / 8 ≤ Real.exp (-(w / 2 * (w / 2)) / 2) := by nlinarith
  have hc := h.cpos
  have h3 : 0 ≤ c * a * w := by positivity
  nlinarith

/-! ### inverting a function whose derivative is bounded below (implied volatility from a repricing error) -/

/-- if f' ≥ m > 0 on [x₀, x₁] then x₁ − x₀ ≤ (f x₁ − f x₀)/m -/
theorem sub_le_of_deriv_ge {f f' : ℝ → ℝ} {x₀ x₁ m : ℝ} (h01 : x₀ ≤ x₁) (hm : 0 < m)
    (hd : ∀ x ∈ Set.Icc x₀ x₁, HasDerivAt f (f' x) x) (hge : ∀ x ∈ Set.Icc x₀ x₁, m ≤ f' x) :
    x₁ - x₀ ≤ (f x₁ - f x₀) / m := by
  have hg : ∀ x ∈ Set.Icc x₀ x₁, HasDerivAt (fun x => f x - m * x) (f' x - m) x := fun x hx =>
    (hd x hx).sub (by simpa using (hasDerivAt_id x).const_mul m : HasDerivAt (fun y : ℝ => m * y) m x)
  have hmono : MonotoneOn (fun x => f x - m * x) (Set.Icc x₀ x₁) := by
    apply monotoneOn_of_deriv_nonneg (convex_Icc _ _)
    · intro x hx; exact (hg x hx).continuousAt.continuousWithinAt
    · intro x hx; rw [interior_Icc] at hx
      exact (hg x (Set.Ioo_subset_Icc_self hx)).differentiableAt.differentiableWithinAt
    · intro x hx; rw [interior_Icc] at hx
      have hx' := Set.Ioo_subset_Icc_self hx
      rw [(hg x hx').deriv]; linarith [hge x hx']
  have := hmono (Set.left_mem_Icc.mpr h01) (Set.right_mem_Icc.mpr h01) h01
  simp only at this
  rw [le_div_iff₀ hm]
  nlinarith

/-- two-sided: |x₁ − x₀| ≤ |f x₁ − f x₀|/m when f' ≥ m > 0 between the two points -/
theorem abs_sub_le_of_deriv_ge {f f' : ℝ → ℝ} {x₀ x₁ m : ℝ} (hm : 0 < m)
    (hd : ∀ x ∈ Set.uIcc x₀ x₁, HasDerivAt f (f' x) x) (hge : ∀ x ∈ Set.uIcc x₀ x₁, m ≤ f' x) :
    |x₁ - x₀| ≤ |f x₁ - f x₀| / m := by
  rcases le_total x₀ x₁ with h | h
  · rw [Set.uIcc_of_le h] at hd hge
    have := sub_le_of_deriv_ge h hm hd hge
    rw [abs_of_nonneg (sub_nonneg.mpr h)]
    exact le_trans this (div_le_div_of_nonneg_right (le_abs_self _) hm.le)
  · rw [Set.uIcc_of_ge h] at hd hge
    have := sub_le_of_deriv_ge h hm hd hge
    rw [abs_sub_comm x₁ x₀, abs_of_nonneg (sub_nonneg.mpr h), abs_sub_comm (f x₁) (f x₀)]
    exact le_trans this (div_le_div_of_nonneg_right (le_abs_self _) hm.le)

end FinVerif.C05
