/-
  Helper lemmas for C06: the loops of the model as sums (induction over the flow list with a
  generalised accumulator), over an arbitrary field.
-/
import FinVerif.Model.C06
import Mathlib.Algebra.Field.Basic
import Mathlib.Tactic.Ring
import Mathlib.Tactic.FieldSimp
import Mathlib.Tactic.LinearCombination

set_option linter.unusedSimpArgs false
set_option linter.unnecessarySeqFocus false
set_option linter.unusedTactic false
set_option linter.unreachableTactic false
set_option linter.unusedSectionVars false

namespace FinVerif.Lemmas.C06
open FinVerif FinVerif.Spec.C06 FinVerif.Model.C06

variable {K : Type} [Field K]

/-! ### the spec's sum -/

@[simp] theorem sumL_nil : sumL ([] : List K) = 0 := rfl
@[simp] theorem sumL_cons (x : K) (xs : List K) : sumL (x :: xs) = x + sumL xs := rfl

theorem sumL_append (a b : List K) : sumL (a ++ b) = sumL a + sumL b := by
  induction a with
  | nil => simp
  | cons x xs ih => simp [ih, add_assoc]

theorem sumL_map_mul_left (c : K) (f : β → K) (l : List β) :
    sumL (l.map (fun x => c * f x)) = c * sumL (l.map f) := by
  induction l with
  | nil => simp
  | cons x xs ih => simp [ih, mul_add]

theorem sumL_map_add (f g : β → K) (l : List β) :
    sumL (l.map (fun x => f x + g x)) = sumL (l.map f) + sumL (l.map g) := by
  induction l with
  | nil => simp
  | cons x xs ih => simp only [List.map_cons, sumL_cons, ih]; ring

theorem sumL_map_congr (f g : β → K) (l : List β) (h : ∀ x ∈ l, f x = g x) :
    sumL (l.map f) = sumL (l.map g) := by
  induction l with
  | nil => simp
  | cons x xs ih =>
    simp only [List.map_cons, sumL_cons]
    rw [h x (by simp), ih (fun y hy => h y (by simp [hy]))]

theorem pv_nil (df : Int → K) (vd : Int) : pv df vd [] = 0 := rfl

theorem pv_cons (df : Int → K) (vd : Int) (f : Flow K) (fs : List (Flow K)) :
    pv df vd (f :: fs) = (if vd < f.pay then f.amount * (df f.pay / df vd) else 0) + pv df vd fs := by
  unfold pv
  by_cases h : vd < f.pay <;> simp [List.filter_cons, h]

theorem pv_append (df : Int → K) (vd : Int) (a b : List (Flow K)) :
    pv df vd (a ++ b) = pv df vd a + pv df vd b := by
  unfold pv
  rw [List.filter_append, List.map_append, sumL_append]

/-- `pv` as a sum over the filtered list of an arbitrary per-flow function that agrees with
`amount × df(pay)/df(vd)`. -/
theorem pv_map (df : Int → K) (vd : Int) (g : β → Flow K) (l : List β) :
    pv df vd (l.map g)
      = sumL ((l.filter (fun x => decide (vd < (g x).pay))).map
          (fun x => (g x).amount * (df (g x).pay / df vd))) := by
  induction l with
  | nil => rfl
  | cons x xs ih =>
    rw [List.map_cons, pv_cons, ih]
    by_cases h : vd < (g x).pay <;> simp [List.filter_cons, h]

/-! ### fixed leg loop -/

theorem fixedFold_pv (df : Int → K) (vd : Int) (dfv : K) (l : List (Int × K)) (st : LoopSt K) :
    (l.foldl (fixedStep df vd dfv) st).pv
      = st.pv + sumL ((l.filter (fun x => decide (vd < x.1))).map (fun x => x.2 * (df x.1 / dfv))) := by
  induction l generalizing st with
  | nil => simp
  | cons x xs ih =>
    rw [List.foldl_cons, ih]
    by_cases h : vd < x.1 <;> simp [fixedStep, List.filter_cons, h, add_assoc]

theorem fixedFold_dfPay (df : Int → K) (vd : Int) (dfv : K) (l : List (Int × K)) (st : LoopSt K)
    (x : Int × K) (hl : l.getLast? = some x) (hx : vd < x.1) :
    (l.foldl (fixedStep df vd dfv) st).dfPay = df x.1 / dfv := by
  obtain ⟨ys, rfl⟩ := List.getLast?_eq_some_iff.mp hl
  simp [List.foldl_append, fixedStep, hx]

theorem fixedPairs_mk (c N P : K) (s : Bool) (ps : List (Period K)) :
    fixedPairs (mkFixedLeg c N P s ps) = ps.map (fun p => (p.pay, p.yf * N * c)) := by
  unfold fixedPairs mkFixedLeg fixedPayments
  induction ps with
  | nil => rfl
  | cons p ps ih => simpa using ih

/-! ### float leg loop -/

/-- What one future coupon adds once the first-fixing override is spent (or absent). -/
def fwdTerm (df : Int → K) (idx : IndexCurve K) (spread : K) (dfv : K) (x : Period K × K) : K :=
  ((idx.df x.1.start / idx.df x.1.stop - 1) / idx.yf x.1.start x.1.stop + spread) * x.1.yf * x.2
    * (df x.1.pay / dfv)

theorem floatFold_pv_spent (df : Int → K) (idx : IndexCurve K) (ff : Option K) (spread : K) (vd : Int)
    (dfv : K) (l : List (Period K × K)) (st : LoopSt K) (h : st.first = true ∨ ff = none) :
    (l.foldl (floatStep df idx ff spread vd dfv) st).pv
      = st.pv + sumL ((l.filter (fun x => decide (vd < x.1.pay))).map (fwdTerm df idx spread dfv)) := by
  induction l generalizing st with
  | nil => simp
  | cons x xs ih =>
    rw [List.foldl_cons, ih]
    · by_cases hx : vd < x.1.pay
      · rcases h with h | h <;> simp [floatStep, List.filter_cons, hx, h, add_assoc, fwdTerm]
      · simp [floatStep, List.filter_cons, hx]
    · by_cases hx : vd < x.1.pay
      · rcases h with h | h <;> simp [floatStep, hx, h]
      · rcases h with h | h <;> simp [floatStep, hx, h]

theorem floatFold_dfPay (df : Int → K) (idx : IndexCurve K) (ff : Option K) (spread : K) (vd : Int)
    (dfv : K) (l : List (Period K × K)) (st : LoopSt K)
    (x : Period K × K) (hl : l.getLast? = some x) (hx : vd < x.1.pay) :
    (l.foldl (floatStep df idx ff spread vd dfv) st).dfPay = df x.1.pay / dfv := by
  obtain ⟨ys, rfl⟩ := List.getLast?_eq_some_iff.mp hl
  simp [List.foldl_append, floatStep, hx]


theorem fwdTerm_eq (df : Int → K) (idx : IndexCurve K) (spread : K) (vd : Int) (x : Period K × K) :
    fwdTerm df idx spread (df vd) x
      = (fwdFlow idx.df idx.yf spread x).amount * (df (fwdFlow idx.df idx.yf spread x).pay / df vd) := by
  simp only [fwdTerm, fwdFlow, Flow.amount, fwdRate]
  ring

theorem spent_eq_pv (df : Int → K) (idx : IndexCurve K) (spread : K) (vd : Int) (l : List (Period K × K)) :
    sumL ((l.filter (fun x => decide (vd < x.1.pay))).map (fwdTerm df idx spread (df vd)))
      = pv df vd (l.map (fwdFlow idx.df idx.yf spread)) := by
  rw [pv_map]
  have : (fun x : Period K × K => decide (vd < (fwdFlow idx.df idx.yf spread x).pay))
      = (fun x => decide (vd < x.1.pay)) := rfl
  rw [this]
  apply sumL_map_congr
  intro x _
  exact fwdTerm_eq df idx spread vd x

/-- The float loop, started before the first-fixing override is spent, adds the spec's coupons. -/
theorem floatFold_pv (df : Int → K) (idx : IndexCurve K) (ff : Option K) (spread : K) (vd : Int)
    (l : List (Period K × K)) (st : LoopSt K) (h : st.first = false) :
    (l.foldl (floatStep df idx ff spread vd (df vd)) st).pv
      = st.pv + pv df vd (floatCoupons idx.df idx.yf ff spread vd l) := by
  induction l generalizing st with
  | nil => simp [floatCoupons, pv_nil]
  | cons x xs ih =>
    rw [List.foldl_cons]
    by_cases hx : vd < x.1.pay
    · cases ff with
      | none =>
        rw [floatFold_pv_spent _ _ _ _ _ _ _ _ (Or.inr rfl), spent_eq_pv]
        simp only [floatCoupons, hx, if_true, pv_cons, fwdFlow, Flow.amount, fwdRate]
        simp [floatStep, hx, h]
        ring
      | some r =>
        rw [floatFold_pv_spent _ _ _ _ _ _ _ _ (Or.inl (by simp [floatStep, hx, h])), spent_eq_pv]
        simp only [floatCoupons, hx, if_true, pv_cons, Flow.amount]
        simp [floatStep, hx, h]
        ring
    · rw [ih _ (by simp [floatStep, hx, h])]
      simp only [floatCoupons, hx, if_false, pv_cons, fwdFlow]
      simp [floatStep, hx]


/-! ### linearity of the spec's sum -/

theorem signed_mul (b : Bool) (k x : K) : signed b (k * x) = k * signed b x := by
  cases b <;> simp [signed]

theorem signed_add (b : Bool) (x y : K) : signed b (x + y) = signed b x + signed b y := by
  cases b <;> simp [signed, add_comm]

theorem signed_zero (b : Bool) : signed b (0 : K) = 0 := by
  cases b <;> simp [signed]

/-- Replace every flow's amount by `k ×` itself. -/
def scaleFlow (k : K) (f : Flow K) : Flow K := { f with notional := k * f.notional }

theorem pv_scale (df : Int → K) (vd : Int) (k : K) (l : List (Flow K)) :
    pv df vd (l.map (scaleFlow k)) = k * pv df vd l := by
  induction l with
  | nil => simp [pv_nil]
  | cons f fs ih =>
    rw [List.map_cons, pv_cons, pv_cons, ih]
    by_cases h : vd < f.pay <;> simp [scaleFlow, h, Flow.amount] <;> ring

/-- Coupons of rate 1 on notional 1. -/
theorem pv_fixedCoupons (df : Int → K) (vd : Int) (c N : K) (ps : List (Period K)) :
    pv df vd (fixedCoupons c N ps) = c * N * annuity df vd ps := by
  unfold annuity fixedCoupons
  induction ps with
  | nil => simp [pv_nil]
  | cons p ps ih =>
    rw [List.map_cons, List.map_cons, pv_cons, pv_cons, ih]
    by_cases h : vd < p.pay <;> simp [h, Flow.amount] <;> ring

/-- Present value of one unit paid on the last payment date (0 when that date is not after `vd`). -/
def lastUnit (df : Int → K) (vd : Int) (lastPay : Option Int) : K :=
  pv df vd (principalFlow 1 (lastPay.map (fun d => (d, 1))))

theorem pv_principalFlow (df : Int → K) (vd : Int) (P N : K) (lastPay : Option Int) :
    pv df vd (principalFlow P (lastPay.map (fun d => (d, N)))) = P * N * lastUnit df vd lastPay := by
  unfold lastUnit
  cases lastPay with
  | none => simp [principalFlow, pv_nil]
  | some d =>
    simp only [Option.map_some, principalFlow, pv_cons, pv_nil, Flow.amount]
    by_cases h : vd < d <;> simp [h] <;> ring

/-- Spread part of a floating leg: coupons of rate 1. -/
def unitCoupons (l : List (Period K × K)) : List (Flow K) := l.map (fun x => ⟨x.1.pay, x.1.yf, 1, x.2⟩)

theorem pv_fwd_spread (df : Int → K) (vd : Int) (dfI : Int → K) (iyf : Int → Int → K) (s : K)
    (l : List (Period K × K)) :
    pv df vd (l.map (fwdFlow dfI iyf s))
      = pv df vd (l.map (fwdFlow dfI iyf 0)) + s * pv df vd (unitCoupons l) := by
  unfold unitCoupons
  induction l with
  | nil => simp [pv_nil]
  | cons x xs ih =>
    simp only [List.map_cons, pv_cons, ih]
    by_cases h : vd < x.1.pay <;> simp [h, fwdFlow, Flow.amount] <;> try ring

/-- The float coupons are affine in the spread. -/
theorem pv_floatCoupons_spread (df : Int → K) (vd : Int) (dfI : Int → K) (iyf : Int → Int → K)
    (ff : Option K) (s : K) (l : List (Period K × K)) :
    pv df vd (floatCoupons dfI iyf ff s vd l)
      = pv df vd (floatCoupons dfI iyf ff 0 vd l) + s * pv df vd (unitCoupons l) := by
  induction l with
  | nil => simp [floatCoupons, unitCoupons, pv_nil]
  | cons x xs ih =>
    by_cases h : vd < x.1.pay
    · cases ff with
      | none =>
        simp only [floatCoupons, h, if_true, pv_cons, pv_fwd_spread df vd dfI iyf s xs, unitCoupons,
          List.map_cons]
        simp [h, fwdFlow, Flow.amount]; ring
      | some r =>
        simp only [floatCoupons, h, if_true, pv_cons, pv_fwd_spread df vd dfI iyf s xs, unitCoupons,
          List.map_cons]
        simp [h, Flow.amount]; ring
    · simp only [floatCoupons, h, if_false, pv_cons, ih, unitCoupons, List.map_cons]
      simp [h, fwdFlow]; try ring

/-- Scaling every notional of a floating leg scales every coupon. -/
theorem floatCoupons_scale (dfI : Int → K) (iyf : Int → Int → K) (ff : Option K) (s k : K) (vd : Int)
    (l : List (Period K × K)) :
    floatCoupons dfI iyf ff s vd (l.map (fun x => (x.1, k * x.2)))
      = (floatCoupons dfI iyf ff s vd l).map (scaleFlow k) := by
  have hmap : ∀ l : List (Period K × K),
      (l.map (fun x => (x.1, k * x.2))).map (fwdFlow dfI iyf s) = (l.map (fwdFlow dfI iyf s)).map (scaleFlow k) := by
    intro l; simp [List.map_map, Function.comp_def, fwdFlow, scaleFlow]
  induction l with
  | nil => simp [floatCoupons]
  | cons x xs ih =>
    by_cases h : vd < x.1.pay
    · cases ff with
      | none => simp only [List.map_cons, floatCoupons, h, if_true, hmap]; simp [fwdFlow, scaleFlow]
      | some r => simp only [List.map_cons, floatCoupons, h, if_true, hmap]; simp [scaleFlow]
    · simp only [List.map_cons, floatCoupons, h, if_false, ih]; simp [fwdFlow, scaleFlow]

end FinVerif.Lemmas.C06
